#!/bin/sh
# Run once after a fresh restore, offline: build the Lean project's shared modules and drivers and
# warm the harness build.  Every check rebuilds what it needs anyway; this only moves the cost.
set -e
cd "$(dirname "$0")"
export CARGO_NET_OFFLINE=true
python3 - <<'PY'
import importlib, glob, os, sys
sys.path.insert(0, os.getcwd())
seen = set()
for f in sorted(glob.glob("props/C*.py")):
    m = importlib.import_module("props." + os.path.basename(f)[:-3])
    for t in getattr(m, "TRANSLATORS", []):
        if t not in seen:
            seen.add(t)
            try:
                print("translated", t())
            except Exception as e:
                print("translator failed (reported by the check itself):", e)
PY
(cd lean && lake build IsoVerif $(sed -n 's/^name = "\(drv_[a-z]*\)"/\1/p' lakefile.toml | while read d; do r=$(echo $d | sed 's/drv_//'); f=$(ls Driver | grep -i "^$r.lean" || true); [ -n "$f" ] && echo $d; done) ) || echo "lean build reported errors (each check reports its own)"
cp /repo/Cargo.lock harness/Cargo.lock
sha256sum /repo/Cargo.lock | cut -d' ' -f1 | tr -d '\n' > harness/.lock.sha
(cd harness && cargo build --offline --workspace) || echo "harness build reported errors (each check reports its own)"
