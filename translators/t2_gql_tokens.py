"""T2: the logos token tables of relay-crates/graphql-syntax/src/relay_lexer.rs -> Gen/GqlTokens.lean.

Every `#[token("lit"[, callback])]` / `#[regex("re"[, callback])]` attribute of the three
`#[derive(Logos)]` enums (TokenKind, StringToken, BlockStringToken) becomes one `TokRule` (kind,
regex AST, skip?, callback name).  The regex dialect understood is exactly what the file uses:
literals, `\\`-escapes (\\. \\\\ \\" \\/ \\n \\r \\t \\f \\uXXXX), classes with ranges and negation,
groups, `|`, `?`, `*`, `+`.  Anything else raises TranslateError (tie broken), never a silent skip.
The bodies of the two callbacks (`lex_string`, `lex_block_string`) are hand-modelled in
Model/GqlLex.lean; their token-stream text is pinned here so that an edit is noticed.
"""
import re
from .common import read, rust_unescape, write_gen, TranslateError

SRC = "relay-crates/graphql-syntax/src/relay_lexer.rs"
SDL_SRC = "crates/graphql_lang_types/src/graphql_sdl.rs"


def _iso_directive_locations():
    """`DirectiveLocation::from_str` (strum EnumString, SCREAMING_SNAKE_CASE) accepts exactly the
    variant names converted to screaming snake case."""
    s = read(SDL_SRC)
    m = re.search(r'#\[derive\(([^)]*)\)\]\s*#\[strum\(\s*serialize_all\s*=\s*"([A-Z_a-z]+)"\s*\)\]\s*pub\s+enum\s+DirectiveLocation\s*\{([^}]*)\}', s)
    if not m:
        raise TranslateError(f"{SDL_SRC}: enum DirectiveLocation with #[derive(.. EnumString ..)] #[strum(serialize_all = ..)] not found")
    if "EnumString" not in m.group(1) or m.group(2) != "SCREAMING_SNAKE_CASE":
        raise TranslateError(f"{SDL_SRC}: DirectiveLocation is no longer a strum EnumString with SCREAMING_SNAKE_CASE")
    body = re.sub(r"//[^\n]*", "", m.group(3))
    if "#[" in body:
        raise TranslateError(f"{SDL_SRC}: attributes on DirectiveLocation variants are not understood by T2")
    variants = [v.strip() for v in body.split(",") if v.strip()]
    out = []
    for v in variants:
        if not re.fullmatch(r"[A-Z][A-Za-z0-9]*", v):
            raise TranslateError(f"{SDL_SRC}: DirectiveLocation variant {v!r} is not a plain identifier")
        out.append(re.sub(r"(?<!^)(?=[A-Z])", "_", v).upper())
    return out

def _enum_body(src, name):
    m = re.search(r"pub\s+enum\s+" + name + r"\s*\{", src)
    if not m:
        raise TranslateError(f"{SRC}: enum {name} not found")
    i = m.end()
    depth = 1
    j = i
    in_str = None
    while j < len(src) and depth > 0:
        ch = src[j]
        if in_str is None:
            mm = re.match(r'r(#*)"', src[j:])
            if mm:
                hashes = mm.group(1)
                end = src.find('"' + hashes, j + len(mm.group(0)))
                if end < 0:
                    raise TranslateError("unterminated raw string")
                j = end + 1 + len(hashes)
                continue
            if ch == '"':
                k = j + 1
                while src[k] != '"':
                    k += 2 if src[k] == "\\" else 1
                j = k + 1
                continue
            if src.startswith("//", j):
                j = src.find("\n", j)
                continue
            if ch == "{":
                depth += 1
            elif ch == "}":
                depth -= 1
        j += 1
    return src[i:j - 1]


def _str_lit(s, pos):
    """Parse a Rust string literal at s[pos:]; returns (value:str, end)."""
    mm = re.match(r'r(#*)"', s[pos:])
    if mm:
        hashes = mm.group(1)
        start = pos + len(mm.group(0))
        end = s.find('"' + hashes, start)
        if end < 0:
            raise TranslateError("unterminated raw string literal")
        return s[start:end], end + 1 + len(hashes)
    if s[pos] != '"':
        raise TranslateError(f"expected a string literal at: {s[pos:pos + 30]!r}")
    k = pos + 1
    while s[k] != '"':
        k += 2 if s[k] == "\\" else 1
    return rust_unescape(s[pos + 1:k]).decode("utf-8"), k + 1


def _rules(body, enum_name):
    """-> list of (kind, 'token'|'regex', text, callback)"""
    rules = []
    pending = []
    pos = 0
    error_variant = None
    while pos < len(body):
        m = re.compile(r"\s+|//[^\n]*").match(body, pos)
        if m:
            pos = m.end()
            continue
        if body.startswith("#[", pos):
            m = re.compile(r"#\[\s*(\w+)\s*").match(body, pos)
            attr = m.group(1)
            p = m.end()
            if attr in ("token", "regex"):
                if body[p] != "(":
                    raise TranslateError(f"{enum_name}: #[{attr}] without arguments")
                p += 1
                p = re.compile(r"\s*").match(body, p).end()
                text, p = _str_lit(body, p)
                m2 = re.compile(r"\s*(?:,\s*([\w:]+)\s*)?\)\s*\]").match(body, p)
                if not m2:
                    raise TranslateError(f"{enum_name}: cannot parse the arguments of #[{attr}(...)] near {body[p:p + 40]!r}")
                pending.append((attr, text, m2.group(1) or ""))
                pos = m2.end()
            elif attr == "error":
                m2 = re.compile(r"\]").match(body, p)
                if not m2:
                    raise TranslateError(f"{enum_name}: #[error ...] with arguments")
                pending.append(("error", "", ""))
                pos = m2.end()
            else:
                raise TranslateError(f"{enum_name}: unknown attribute #[{attr}] inside a Logos enum")
            continue
        m = re.compile(r"(\w+)\s*,?").match(body, pos)
        if not m:
            raise TranslateError(f"{enum_name}: cannot parse near {body[pos:pos + 40]!r}")
        variant = m.group(1)
        for (attr, text, cb) in pending:
            if attr == "error":
                error_variant = variant
            else:
                rules.append((variant, attr, text, cb))
        pending = []
        pos = m.end()
    if pending:
        raise TranslateError(f"{enum_name}: dangling attributes")
    if error_variant is None:
        raise TranslateError(f"{enum_name}: no #[error] variant")
    return rules, error_variant


# ------------------------------------------------------------------ regex -> Re
class _P:
    def __init__(self, s):
        self.s, self.i = s, 0

    def peek(self):
        return self.s[self.i] if self.i < len(self.s) else None

    def esc(self, in_class):
        """after a backslash; returns code point"""
        c = self.peek()
        if c is None:
            raise TranslateError("dangling backslash in regex")
        self.i += 1
        simple = {"n": 10, "r": 13, "t": 9, "f": 12}
        if c in simple:
            return simple[c]
        if c == "u":
            h = self.s[self.i:self.i + 4]
            if not re.fullmatch(r"[0-9A-Fa-f]{4}", h):
                raise TranslateError(f"regex escape \\u needs four hex digits: {self.s!r}")
            self.i += 4
            return int(h, 16)
        if c in "\\.\"/+-*?()[]{}|^$":
            return ord(c)
        raise TranslateError(f"regex escape \\{c} is not understood by T2")

    def klass(self):
        neg = False
        if self.peek() == "^":
            neg = True
            self.i += 1
        ranges = []
        first = True
        while True:
            c = self.peek()
            if c is None:
                raise TranslateError("unterminated character class")
            if c == "]" and not first:
                self.i += 1
                break
            first = False
            self.i += 1
            lo = self.esc(True) if c == "\\" else ord(c)
            if c == "[":
                raise TranslateError("nested class / POSIX class not understood by T2")
            if self.peek() == "-" and self.i + 1 < len(self.s) and self.s[self.i + 1] != "]":
                self.i += 1
                d = self.peek()
                self.i += 1
                hi = self.esc(True) if d == "\\" else ord(d)
                if hi < lo:
                    raise TranslateError("inverted range in class")
                ranges.append((lo, hi))
            else:
                ranges.append((lo, lo))
        body = "[" + ", ".join(f"({a}, {b})" for a, b in ranges) + "]"
        return f"(Re.ncls {body})" if neg else f"(Re.cls {body})"

    def atom(self):
        c = self.peek()
        if c == "(":
            self.i += 1
            if self.s.startswith("?", self.i):
                raise TranslateError("group flags (?...) not understood by T2")
            r = self.alt()
            if self.peek() != ")":
                raise TranslateError("unbalanced parenthesis in regex")
            self.i += 1
            return r
        if c == "[":
            self.i += 1
            return self.klass()
        if c == "\\":
            self.i += 1
            k = self.esc(False)
            return f"(Re.cls [({k}, {k})])"
        if c in ".^${}":
            raise TranslateError(f"regex construct {c!r} not understood by T2")
        self.i += 1
        return f"(Re.cls [({ord(c)}, {ord(c)})])"

    def postfix(self):
        a = self.atom()
        while self.peek() in ("?", "*", "+"):
            op = self.peek()
            self.i += 1
            if self.peek() == "?":
                raise TranslateError("lazy quantifier not understood by T2")
            a = {"?": f"(Re.opt {a})", "*": f"(Re.star {a})", "+": f"(Re.plus {a})"}[op]
        return a

    def cat(self):
        items = []
        while self.peek() is not None and self.peek() not in "|)":
            items.append(self.postfix())
        if not items:
            return "Re.eps"
        r = items[-1]
        for x in reversed(items[:-1]):
            r = f"(Re.seq {x} {r})"
        return r

    def alt(self):
        items = [self.cat()]
        while self.peek() == "|":
            self.i += 1
            items.append(self.cat())
        r = items[-1]
        for x in reversed(items[:-1]):
            r = f"(Re.alt {x} {r})"
        return r


def regex_to_re(text):
    p = _P(text)
    r = p.alt()
    if p.i != len(text):
        raise TranslateError(f"trailing input in regex {text!r}")
    return r


def literal_to_re(text):
    return "(Re.lit [" + ", ".join(str(ord(c)) for c in text) + "])"


def _fn_text(src, name):
    m = re.search(r"fn\s+" + name + r"\s*\(", src)
    if not m:
        raise TranslateError(f"{SRC}: fn {name} not found")
    i = src.index("{", m.end())
    depth, j = 1, i + 1
    while depth:
        if src[j] == "{":
            depth += 1
        elif src[j] == "}":
            depth -= 1
        j += 1
    body = re.sub(r"//[^\n]*", "", src[m.start():j])
    return re.sub(r"\s+", "", body)


# shapes of the hand-modelled callbacks (whitespace-free text)
EXPECT_LEX_STRING = (
    "fnlex_string(lexer:&mutLexer<'_,TokenKind>)->bool{letremainder=lexer.remainder();"
    "letmutstring_lexer=StringToken::lexer(remainder);whileletSome(string_token)=string_lexer.next(){"
    "matchstring_token{StringToken::Quote=>{lexer.bump(string_lexer.span().end);returntrue;}"
    "StringToken::LineTerminator=>{lexer.bump(string_lexer.span().start);"
    "lexer.extras.error_token=Some(TokenKind::ErrorUnterminatedString);returnfalse;}"
    "StringToken::EscapedCharacter|StringToken::EscapedUnicode|StringToken::StringCharacters=>{}"
    "StringToken::Error=>{lexer.extras.error_token=Some(TokenKind::ErrorUnsupportedStringCharacter);returnfalse;}}}"
    "lexer.extras.error_token=Some(TokenKind::ErrorUnterminatedString);false}")
EXPECT_LEX_BLOCK = (
    "fnlex_block_string(lexer:&mutLexer<'_,TokenKind>)->bool{letremainder=lexer.remainder();"
    "letmutstring_lexer=BlockStringToken::lexer(remainder);whileletSome(string_token)=string_lexer.next(){"
    "matchstring_token{BlockStringToken::TripleQuote=>{lexer.bump(string_lexer.span().end);returntrue;}"
    "BlockStringToken::EscapedTripleQuote|BlockStringToken::Other=>{}"
    "BlockStringToken::Error=>unreachable!(),}}"
    "lexer.extras.error_token=Some(TokenKind::ErrorUnterminatedBlockString);false}")


def translate():
    src = read(SRC)
    out = ["import IsoVerif.Model.GqlRe", "namespace IsoVerif.Gen.GqlTokens", "open IsoVerif.Gql", ""]
    for enum_name, lean_name in (("TokenKind", "tokenKind"), ("StringToken", "stringToken"),
                                 ("BlockStringToken", "blockStringToken")):
        rules, err = _rules(_enum_body(src, enum_name), enum_name)
        if not rules:
            raise TranslateError(f"{enum_name}: no token rules found")
        out.append(f"/-- `{enum_name}`: {len(rules)} rules; `#[error]` variant `{err}`. -/")
        out.append(f"def {lean_name} : List TokRule := [")
        lines = []
        for (variant, attr, text, cb) in rules:
            re_term = literal_to_re(text) if attr == "token" else regex_to_re(text)
            skip = "true" if cb == "logos::skip" else "false"
            cbn = "" if cb == "logos::skip" else cb
            lines.append(f'  {{ kind := cps "{variant}", re := {re_term}, skip := {skip}, callback := cps "{cbn}" }}')
        out.append(",\n".join(lines))
        out.append("]")
        out.append(f'def {lean_name}Error : Str := cps "{err}"')
        out.append("")
    if _fn_text(src, "lex_string") != EXPECT_LEX_STRING:
        raise TranslateError(f"{SRC}: the callback lex_string no longer has the hand-modelled shape (Model/GqlLex.lean relayString)")
    if _fn_text(src, "lex_block_string") != EXPECT_LEX_BLOCK:
        raise TranslateError(f"{SRC}: the callback lex_block_string no longer has the hand-modelled shape (Model/GqlLex.lean relayBlock)")
    locs = _iso_directive_locations()
    out.append("/-- names accepted by `graphql_lang_types::DirectiveLocation::from_str` -/")
    out.append("def isoDirectiveLocations : List Str := [" + ", ".join(f'cps "{l}"' for l in locs) + "]")
    out.append("")
    out.append("end IsoVerif.Gen.GqlTokens")
    return write_gen("GqlTokens", "\n".join(out) + "\n", [SRC, SDL_SRC])


if __name__ == "__main__":
    print(translate())
