"""T5: `#[derive(ResolvePosition)]` items -> lean/IsoVerif/Gen/ResolveShape.lean

Scans crates/isograph_lang_types/src/**/*.rs and crates/isograph_lang_parser/src/parse_iso_literal.rs for
  * structs deriving ResolvePosition: their `#[resolve_field]` fields in declaration order with the
    container shape (single / option / vec around WithEmbeddedLocation<T> / WithGenericLocation<T, _>)
    and the inner type T;
  * enums deriving ResolvePosition (the derive delegates to `inner.item.resolve` without a span check);
  * `define_wrapper!(Name, …)` invocations (tuple structs deriving ResolvePosition: leaves);
  * hand-written `impl ResolvePosition for X` (pinned by a hash of their source);
and the semantics-bearing part of the derive macro itself (crates/resolve_position_macros) and of
`Span::contains` (pinned).

`Model/Resolve.lean` (`astOf`) follows EXPECTED below; if the source says something else the
translator fails (the hand model must be re-derived), it never silently adapts.
"""
import glob, os, re
from translators.common import TranslateError, read, write_gen, lean_str, REPO
from translators.t1_iso_tokens import rust_items, norm_hash

ROOTS = ["crates/isograph_lang_types/src", "crates/isograph_lang_parser/src/parse_iso_literal.rs"]
MACRO = "crates/resolve_position_macros/src/resolve_position_macro.rs"
SPAN = "crates/common_lang_types/src/span.rs"

EXPECTED = {
    "structs": {
        "ClientFieldDeclaration": [("parent_type", "single", "EntityNameWrapper"), ("client_field_name", "single", "ClientScalarSelectableNameWrapper"),
                                   ("description", "option", "Description"), ("selection_set", "single", "SelectionSet"),
                                   ("variable_definitions", "vec", "VariableDeclaration")],
        "ClientPointerDeclaration": [("parent_type", "single", "EntityNameWrapper"), ("client_pointer_name", "single", "ClientObjectSelectableNameWrapper"),
                                     ("target_type", "single", "TypeAnnotationDeclaration"), ("description", "option", "Description"),
                                     ("selection_set", "single", "SelectionSet"), ("variable_definitions", "vec", "VariableDeclaration")],
        "SelectionSet": [("selections", "vec", "Selection")],
        "EntrypointDeclaration": [("parent_type", "single", "EntityNameWrapper"), ("client_field_name", "single", "ClientScalarSelectableNameWrapper")],
        "ScalarSelection": [],
        "ObjectSelection": [("selection_set", "single", "SelectionSet")],
        "VariableDeclarationInner": [("name", "single", "VariableNameWrapper"), ("type_", "single", "TypeAnnotationDeclaration")],
    },
    "enums": {"IsoLiteralExtractionResult": [("ClientPointerDeclaration", "ClientPointerDeclaration"), ("ClientFieldDeclaration", "ClientFieldDeclaration"),
                                             ("EntrypointDeclaration", "EntrypointDeclaration")]},
    "wrappers": ["Description", "EntityNameWrapper", "ClientScalarSelectableNameWrapper", "ClientObjectSelectableNameWrapper", "VariableNameWrapper"],
    "manual": {"TypeAnnotationDeclaration": "7987879a", "Selection": "a4a641ae"},
    "macro": "6ff34756",
    "span_contains": "e9c14806",
}


def code_of(rel):
    items = rust_items(read(rel))
    return "".join(v if k == "code" else '"' + v + '"' for k, v in items)


def balanced(code, start, open_c, close_c):
    depth, k = 1, start
    while depth:
        if k >= len(code):
            raise TranslateError("unbalanced delimiters")
        depth += {open_c: 1, close_c: -1}.get(code[k], 0)
        k += 1
    return k


def split_top(s):
    parts, depth, cur = [], 0, ""
    for ch in s:
        if ch in "<([{":
            depth += 1
        elif ch in ">)]}":
            depth -= 1
        if ch == "," and depth == 0:
            parts.append(cur); cur = ""
        else:
            cur += ch
    if cur.strip():
        parts.append(cur)
    return parts


def field_shape(ty, where):
    ty = re.sub(r"\s+", "", ty)
    m = re.fullmatch(r"(Option|Vec)<(.*)>", ty)
    shape = "single"
    if m:
        shape = {"Option": "option", "Vec": "vec"}[m.group(1)]
        ty = m.group(2)
    m = re.fullmatch(r"WithEmbeddedLocation<(\w+)>", ty) or re.fullmatch(r"WithGenericLocation<(\w+),TLocation>", ty)
    if not m:
        raise TranslateError(f"{where}: #[resolve_field] of unsupported type {ty}")
    return shape, m.group(1)


def scan(code, rel, out):
    for m in re.finditer(r"#\[derive\(([^)]*)\)\]", code):
        if "ResolvePosition" not in [x.strip().split("::")[-1] for x in m.group(1).split(",")]:
            continue
        rest = code[m.end():]
        hm = re.match(r"\s*(?:#\[[^\]]*\]\s*)*(?://[^\n]*\n\s*)*pub\s+(struct|enum)\s+(\$?\w+)\s*(<[^>{(]*>)?\s*([{(])", rest)
        if not hm:
            raise TranslateError(f"{rel}: cannot parse the item after #[derive(.. ResolvePosition ..)]")
        kind, name, opener = hm.group(1), hm.group(2), hm.group(4)
        if name.startswith("$"):
            continue  # inside macro_rules! define_wrapper: instances are collected below
        if opener == "(":
            raise TranslateError(f"{rel}: tuple struct {name} deriving ResolvePosition outside define_wrapper!")
        bstart = m.end() + hm.end()
        bend = balanced(code, bstart, "{", "}")
        body = code[bstart:bend - 1]
        if kind == "struct":
            fields = []
            for part in split_top(body):
                fm = re.fullmatch(r"\s*((?:#\[[^\]]*\]\s*)*)pub\s+(\w+)\s*:\s*(.+?)\s*", part, flags=re.S)
                if not fm:
                    if part.strip():
                        raise TranslateError(f"{rel}: struct {name}: cannot parse field {part.strip()[:60]!r}")
                    continue
                attrs = re.findall(r"#\[(\w+)", fm.group(1))
                if "resolve_field" in attrs:
                    shape, inner = field_shape(fm.group(3), f"{name}.{fm.group(2)}")
                    fields.append((fm.group(2), shape, inner))
            out["structs"][name] = fields
        else:
            variants = []
            for part in split_top(body):
                vm = re.fullmatch(r"\s*(\w+)\s*\(\s*WithEmbeddedLocation<(\w+)>\s*\)\s*", part)
                if not vm:
                    if part.strip():
                        raise TranslateError(f"{rel}: enum {name}: unsupported variant {part.strip()[:60]!r}")
                    continue
                variants.append((vm.group(1), vm.group(2)))
            out["enums"][name] = variants
    for m in re.finditer(r"define_wrapper!\(\s*(\w+)\s*,", code):
        out["wrappers"].append(m.group(1))
    for m in re.finditer(r"impl\s+ResolvePosition\s+for\s+(\w+)\s*\{", code):
        end = balanced(code, m.end(), "{", "}")
        out["manual"][m.group(1)] = norm_hash(code[m.start():end])


def translate():
    out = {"structs": {}, "enums": {}, "wrappers": [], "manual": {}}
    files = []
    for root in ROOTS:
        p = os.path.join(REPO, root)
        if os.path.isdir(p):
            files += sorted(os.path.relpath(f, REPO) for f in glob.glob(p + "/**/*.rs", recursive=True))
        else:
            files.append(root)
    for rel in files:
        scan(code_of(rel), rel, out)
    # VariableDeclaration is an alias of VariableDeclarationInner<EmbeddedLocation>
    macro = code_of(MACRO)
    gm = re.search(r"fn generate_resolve_code_recursive", macro)
    if not gm:
        raise TranslateError("generate_resolve_code_recursive not found in the derive macro")
    out["macro"] = norm_hash(macro[gm.start():])
    span = code_of(SPAN)
    cm = re.search(r"pub fn contains\(&self, other: Span\) -> bool \{", span)
    if not cm:
        raise TranslateError("Span::contains not found")
    out["span_contains"] = norm_hash(span[cm.start():balanced(span, cm.end(), "{", "}")])
    for key in ("structs", "enums", "manual"):
        if out[key] != EXPECTED[key]:
            diff = {k: (out[key].get(k), EXPECTED[key].get(k)) for k in set(out[key]) | set(EXPECTED[key]) if out[key].get(k) != EXPECTED[key].get(k)}
            raise TranslateError(f"resolve shape changed ({key}): source vs hand model {diff}: re-derive Model/Resolve.lean (astOf) and the hook verif_dump_tree")
    if sorted(out["wrappers"]) != sorted(EXPECTED["wrappers"]):
        raise TranslateError(f"define_wrapper! instances changed: {out['wrappers']}")
    for key in ("macro", "span_contains"):
        if out[key] != EXPECTED[key]:
            raise TranslateError(f"{key} changed (pin {out[key]}, hand model written against {EXPECTED[key]}): re-read the derive / Span::contains and re-derive Model/Resolve.lean")
    body = "namespace IsoVerif.Gen.ResolveShape\n\n"
    body += "/-- struct deriving ResolvePosition ↦ its `#[resolve_field]` fields in declaration order: (field, container shape, inner type) -/\n"
    body += "def structs : List (String × List (String × String × String)) := [\n" + ",\n".join(
        f"  ({lean_str(n)}, [" + ", ".join(f"({lean_str(a)}, {lean_str(b)}, {lean_str(c)})" for a, b, c in fs) + "])"
        for n, fs in out["structs"].items()) + "\n]\n\n"
    body += "/-- enums deriving ResolvePosition (delegation to the variant's item, no span check): (variant, inner type) -/\n"
    body += "def enums : List (String × List (String × String)) := [\n" + ",\n".join(
        f"  ({lean_str(n)}, [" + ", ".join(f"({lean_str(a)}, {lean_str(b)})" for a, b in vs) + "])" for n, vs in out["enums"].items()) + "\n]\n\n"
    body += "/-- `define_wrapper!` instances: leaves -/\ndef wrappers : List String := [" + ", ".join(lean_str(w) for w in out["wrappers"]) + "]\n\n"
    body += "/-- hand-written `impl ResolvePosition` (type, pin) -/\ndef manual : List (String × String) := [" + ", ".join(
        f"({lean_str(k)}, {lean_str(v)})" for k, v in sorted(out["manual"].items())) + "]\n"
    body += f"def derivePin : String := {lean_str(out['macro'])}\n"
    body += f"def spanContainsPin : String := {lean_str(out['span_contains'])}\n\nend IsoVerif.Gen.ResolveShape\n"
    return write_gen("ResolveShape", body, files + [MACRO, SPAN])


if __name__ == "__main__":
    print(translate())
