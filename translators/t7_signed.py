"""T7 (signedsource part): literals and shape facts of relay-crates/signedsource/src/lib.rs."""
import re
from .common import read, rust_unescape, lean_bytes, write_gen, TranslateError

SRC = "relay-crates/signedsource/src/lib.rs"


def translate():
    s = read(SRC)

    def const(name):
        m = re.search(r'pub\s+const\s+' + name + r'\s*:\s*&str\s*=\s*"((?:[^"\\]|\\.)*)"\s*;', s)
        if not m: raise TranslateError(f"{SRC}: const {name} not found as a plain string literal")
        return rust_unescape(m.group(1))

    new_token = const("NEWTOKEN")
    signing_token = const("SIGNING_TOKEN")
    m = re.search(r'static\s+ref\s+RE\s*:\s*Regex\s*=\s*Regex::new\(\s*"((?:[^"\\]|\\.)*)"\s*\)', s)
    if not m: raise TranslateError(f"{SRC}: RE literal not found")
    re_src = rust_unescape(m.group(1)).decode("utf-8")
    # The hand-written matcher understands exactly:  <literal> (?: <literal> ( [a-f0-9]{N} ) <literal> )
    m2 = re.fullmatch(r'([^()\[\]{}\\.*+?|^$]*)\(\?:([^()\[\]{}\\.*+?|^$]*)\(\[a-f0-9\]\{(\d+)\}\)([^()\[\]{}\\.*+?|^$]*)\)', re_src)
    if not m2:
        raise TranslateError(f"{SRC}: regex RE = {re_src!r} is not of the modelled shape "
                             "LIT(?:LIT([a-f0-9]{N})LIT)")
    re_prefix = (m2.group(1) + m2.group(2)).encode()
    hex_len = int(m2.group(3))
    re_suffix = m2.group(4).encode()
    m3 = re.search(r'fn\s+sign\s*\(\s*data\s*:\s*&str\s*\)\s*->\s*String\s*\{\s*data\.replace\(\s*NEWTOKEN\s*,\s*&format!\(\s*"((?:[^"\\]|\\.)*)"\s*,\s*hash\(data\)\s*\)\s*\)\s*\}', s)
    if not m3: raise TranslateError(f"{SRC}: fn sign is not `data.replace(NEWTOKEN, &format!(\"..{{}}..\", hash(data)))`")
    fmt = rust_unescape(m3.group(1)).decode()
    if fmt.count("{}") != 1: raise TranslateError("sign format string must contain exactly one {}")
    sig_open, sig_close = fmt.split("{}")
    m4 = re.search(r'&data\[\s*mat\.start\(\)\s*\+\s*(\d+)\s*\.\.\s*mat\.end\(\)\s*-\s*(\d+)\s*\]', s)
    if not m4: raise TranslateError(f"{SRC}: slice `&data[mat.start() + A..mat.end() - B]` not found")
    a, b = int(m4.group(1)), int(m4.group(2))
    m5 = re.search(r'let\s+unsigned\s*=\s*RE\.(replace|replace_all)\(\s*data\s*,\s*SIGNING_TOKEN\s*\)', s)
    if not m5: raise TranslateError(f"{SRC}: `let unsigned = RE.replace[_all](data, SIGNING_TOKEN)` not found")
    if not re.search(r'return\s+hash\(&unsigned\)\s*==\s*actual\s*;', s):
        raise TranslateError(f"{SRC}: `return hash(&unsigned) == actual;` not found")
    if not re.search(r'if\s+data\.contains\(NEWTOKEN\)\s*\{\s*Some\(sign\(data\)\)', s):
        raise TranslateError(f"{SRC}: try_sign_file shape changed")
    body = f"""namespace IsoVerif.Gen.SignedLits
def newToken : List UInt8 := {lean_bytes(new_token)}
def signingToken : List UInt8 := {lean_bytes(signing_token)}
def rePrefix : List UInt8 := {lean_bytes(re_prefix)}
def reHexLen : Nat := {hex_len}
def reSuffix : List UInt8 := {lean_bytes(re_suffix)}
def sigOpen : List UInt8 := {lean_bytes(sig_open.encode())}
def sigClose : List UInt8 := {lean_bytes(sig_close.encode())}
def hashSliceStart : Nat := {a}
def hashSliceEndBack : Nat := {b}
def unsignReplacesAll : Bool := {"true" if m5.group(1) == "replace_all" else "false"}
end IsoVerif.Gen.SignedLits
"""
    return write_gen("SignedLits", body, [SRC])


if __name__ == "__main__":
    print(translate())
