"""T7 (SWC part): the literals the SWC plugin's classification and path computation are made of.

Sources
  crates/swc_isograph_plugin/src/lib.rs        OPERATION_REGEX (parsed into a regex AST), how it is applied
                                               (`trim`, leftmost `captures_iter(..).next()`), the keyword ->
                                               artifact-type table, the path format string, the `./` rule,
                                               the import identifier format
  crates/isograph_config/src/compilation_options.rs   ISOGRAPH_FOLDER
  crates/artifact_content/src/generate_artifacts.rs   ENTRYPOINT_FILE_NAME
  crates/isograph_lang_parser/src/token_kind.rs       white-space, Identifier and Period token definitions
                                                      (the alphabet of the header model)

Anything that is not of the shape described here raises TranslateError (the tie is broken).
"""
import re
from .common import read, rust_unescape, write_gen, TranslateError

PLUGIN = "crates/swc_isograph_plugin/src/lib.rs"
CONFIG = "crates/isograph_config/src/compilation_options.rs"
GENART = "crates/artifact_content/src/generate_artifacts.rs"
TOKENS = "crates/isograph_lang_parser/src/token_kind.rs"
PARSER = "crates/isograph_lang_parser/src/parse_iso_literal.rs"

# `\s` of the regex crate in Unicode mode = the White_Space property (regex-syntax, unicode_tables/perl_space.rs)
WHITE_SPACE = [(0x9, 0xD), (0x20, 0x20), (0x85, 0x85), (0xA0, 0xA0), (0x1680, 0x1680), (0x2000, 0x200A),
               (0x2028, 0x2029), (0x202F, 0x202F), (0x205F, 0x205F), (0x3000, 0x3000)]
DIGIT_ASCII_ONLY_NOT_SUPPORTED = "\\d / \\w are Unicode tables in the regex crate and are not modelled"


# ----------------------------------------------------------------------------- regex -> AST
class RegexParser:
    """Subset of the regex crate's syntax: literals, escapes, `.`, classes (ranges, negation, \\s inside),
    capturing and non-capturing groups, alternation, greedy `*` `+` `?`.  Everything else: TranslateError."""

    def __init__(self, src, where):
        self.s, self.i, self.where, self.ngroups = src, 0, where, 0

    def err(self, msg):
        raise TranslateError(f"{self.where}: regex {self.s!r}: {msg} at offset {self.i}")

    def peek(self):
        return self.s[self.i] if self.i < len(self.s) else None

    def parse(self):
        r = self.alt()
        if self.i != len(self.s):
            self.err("unbalanced ')'")
        return r

    def alt(self):
        branches = [self.cat()]
        while self.peek() == "|":
            self.i += 1
            branches.append(self.cat())
        return branches[0] if len(branches) == 1 else ("alt", branches)

    def cat(self):
        items = []
        while self.peek() is not None and self.peek() not in "|)":
            items.append(self.repeat())
        # merge adjacent single characters into one literal
        merged = []
        for it in items:
            if it[0] == "chr" and merged and merged[-1][0] == "lit":
                merged[-1] = ("lit", merged[-1][1] + [it[1]])
            elif it[0] == "chr":
                merged.append(("lit", [it[1]]))
            else:
                merged.append(it)
        if not merged:
            return ("eps",)
        return merged[0] if len(merged) == 1 else ("cat", merged)

    def repeat(self):
        a = self.atom()
        while self.peek() is not None and self.peek() in "*+?{":
            q = self.peek()
            if q == "{":
                self.err("counted repetition {m,n} is not modelled")
            self.i += 1
            if self.peek() == "?":
                self.err("lazy quantifier is not modelled")
            if q in "*+" and nullable(a):
                self.err("repetition of a sub-expression that can match the empty string is not modelled")
            a = ({"*": "star", "+": "plus", "?": "opt"}[q], a)
        return a

    def escape(self, in_class):
        """after a backslash; returns ('chr', cp) or ('set', ranges)"""
        c = self.peek()
        if c is None:
            self.err("dangling backslash")
        self.i += 1
        simple = {"n": 10, "t": 9, "r": 13, "f": 12, "v": 11, "a": 7, "0": 0}
        if c in simple:
            return ("chr", simple[c])
        if c == "s":
            return ("set", list(WHITE_SPACE))
        if c in "dDwWSbBAzpP":
            self.err(f"\\{c}: {DIGIT_ASCII_ONLY_NOT_SUPPORTED}")
        if c == "x" or c == "u" or c == "U":
            if self.peek() == "{":
                j = self.s.find("}", self.i)
                if j < 0:
                    self.err("unterminated \\x{")
                h = self.s[self.i + 1:j]
                self.i = j + 1
            else:
                n = {"x": 2, "u": 4, "U": 8}[c]
                h = self.s[self.i:self.i + n]
                self.i += n
            if not re.fullmatch(r"[0-9a-fA-F]+", h or ""):
                self.err("bad hex escape")
            return ("chr", int(h, 16))
        if c.isalnum() or c == "_":
            self.err(f"unknown escape \\{c}")
        return ("chr", ord(c))  # escaped punctuation

    def cls(self):
        # self.i is just after '['
        neg = False
        if self.peek() == "^":
            neg = True
            self.i += 1
        ranges = []
        first = True
        while True:
            c = self.peek()
            if c is None:
                self.err("unterminated class")
            if c == "]" and not first:
                self.i += 1
                break
            first = False
            if c == "[":
                self.err("nested / POSIX classes are not modelled")
            if c == "&" and self.s[self.i:self.i + 2] == "&&" or c == "~" and self.s[self.i:self.i + 2] == "~~" \
                    or c == "-" and self.s[self.i:self.i + 2] == "--":
                self.err("class set operations are not modelled")
            if c == "\\":
                self.i += 1
                e = self.escape(True)
                if e[0] == "set":
                    ranges += e[1]
                    continue
                lo = e[1]
            else:
                self.i += 1
                lo = ord(c)
            if self.peek() == "-" and self.i + 1 < len(self.s) and self.s[self.i + 1] != "]":
                self.i += 1
                c2 = self.peek()
                if c2 == "\\":
                    self.i += 1
                    e2 = self.escape(True)
                    if e2[0] != "chr":
                        self.err("class range ending in a set")
                    hi = e2[1]
                else:
                    self.i += 1
                    hi = ord(c2)
                if hi < lo:
                    self.err("inverted class range")
                ranges.append((lo, hi))
            else:
                ranges.append((lo, lo))
        return ("cls", neg, ranges)

    def atom(self):
        c = self.peek()
        if c == "(":
            self.i += 1
            if self.peek() == "?":
                if self.s[self.i:self.i + 2] == "?:":
                    self.i += 2
                    inner = self.alt()
                    if self.peek() != ")":
                        self.err("missing ')'")
                    self.i += 1
                    return inner
                self.err("group flags / named groups / look-around are not modelled")
            self.ngroups += 1
            idx = self.ngroups
            inner = self.alt()
            if self.peek() != ")":
                self.err("missing ')'")
            self.i += 1
            return ("grp", idx, inner)
        if c == "[":
            self.i += 1
            return self.cls()
        if c == ".":
            self.i += 1
            return ("cls", True, [(10, 10)])
        if c in "^$":
            self.err("anchors are not modelled (the search is the unanchored leftmost-first one)")
        if c in "*+?{":
            self.err("quantifier without operand")
        if c == "\\":
            self.i += 1
            e = self.escape(False)
            if e[0] == "set":
                return ("cls", False, e[1])
            return e
        self.i += 1
        return ("chr", ord(c))


def nullable(a):
    k = a[0]
    if k in ("eps", "star", "opt"):
        return True
    if k in ("chr", "cls"):
        return False
    if k == "lit":
        return len(a[1]) == 0
    if k == "plus":
        return nullable(a[1])
    if k == "grp":
        return nullable(a[2])
    if k == "cat":
        return all(nullable(x) for x in a[1])
    if k == "alt":
        return any(nullable(x) for x in a[1])
    raise TranslateError(f"nullable: {k}")


def lean_ranges(rs):
    return "[" + ", ".join(f"({lo}, {hi})" for lo, hi in rs) + "]"


def lean_nats(xs):
    return "[" + ", ".join(str(x) for x in xs) + "]"


def cps(s):
    return [ord(c) for c in s]


def lean_re(a):
    k = a[0]
    if k == "eps":
        return "Re.eps"
    if k == "lit":
        return f"(Re.lit {lean_nats(a[1])})"
    if k == "chr":
        return f"(Re.lit [{a[1]}])"
    if k == "cls":
        return f"(Re.cls {'true' if a[1] else 'false'} {lean_ranges(a[2])})"
    if k in ("star", "plus", "opt"):
        return f"(Re.{k} {lean_re(a[1])})"
    if k == "grp":
        return f"(Re.grp {a[1]} {lean_re(a[2])})"
    if k in ("cat", "alt"):
        xs = a[1]
        out = lean_re(xs[-1])
        for x in reversed(xs[:-1]):
            out = f"(Re.{k} {lean_re(x)} {out})"
        return out
    raise TranslateError(f"lean_re: {k}")


# ----------------------------------------------------------------------------- source scraping
def strip_comments(s):
    return re.sub(r"//[^\n]*", "", s)


def translate():
    src = read(PLUGIN)
    code = strip_comments(src)

    # --- the regex literal
    m = re.search(r'static\s+OPERATION_REGEX\s*:\s*Lazy<Regex>\s*=\s*Lazy::new\(\s*\|\|\s*\{?\s*Regex::new\(\s*'
                  r'(?:r"([^"]*)"|"((?:[^"\\]|\\.)*)")\s*,?\s*\)\s*\.unwrap\(\)\s*\}?\s*\)\s*;', code)
    if not m:
        raise TranslateError(f"{PLUGIN}: `static OPERATION_REGEX: Lazy<Regex> = Lazy::new(|| Regex::new(<string literal>).unwrap());` not found")
    re_src = m.group(1) if m.group(1) is not None else rust_unescape(m.group(2)).decode("utf-8")
    p = RegexParser(re_src, PLUGIN)
    ast = p.parse()
    if p.ngroups != 3:
        raise TranslateError(f"{PLUGIN}: OPERATION_REGEX has {p.ngroups} capture groups; the visitor reads groups 1, 2, 3")

    # --- how it is applied
    m = re.search(r'OPERATION_REGEX\s*\.captures_iter\(\s*first\.raw(\.trim\(\))?\s*\)\s*\.next\(\)', code)
    if not m:
        raise TranslateError(f"{PLUGIN}: `OPERATION_REGEX.captures_iter(first.raw[.trim()]).next()` not found")
    trims = m.group(1) is not None
    if not re.search(r'artifact_type\s*:\s*ArtifactType::from\(&capture_group\[1\]\)\s*,\s*'
                     r'field_type\s*:\s*capture_group\[2\]\.to_string\(\)\s*,\s*'
                     r'field_name\s*:\s*capture_group\[3\]\.to_string\(\)', code):
        raise TranslateError(f"{PLUGIN}: capture groups are no longer read as (1: artifact type, 2: field_type, 3: field_name)")
    if not re.search(r'\.ok_or\(IsographTransformError::InvalidIsoKeyword\)', code):
        raise TranslateError(f"{PLUGIN}: no-match outcome is no longer InvalidIsoKeyword")

    # --- keyword -> artifact type
    m = re.search(r'impl From<&str> for ArtifactType\s*\{\s*fn from\(s: &str\) -> Self\s*\{\s*match s\s*\{(.*?)_\s*=>\s*\{\s*panic!',
                  code, flags=re.S)
    if not m:
        raise TranslateError(f"{PLUGIN}: `impl From<&str> for ArtifactType` is not a match with a panicking default arm")
    kinds = []
    for arm in re.finditer(r'((?:"[^"]*"\s*\|?\s*)+)=>\s*Self::(\w+)\s*,', m.group(1)):
        for kw in re.findall(r'"([^"]*)"', arm.group(1)):
            if arm.group(2) not in ("Entrypoint", "Field"):
                raise TranslateError(f"{PLUGIN}: unknown ArtifactType::{arm.group(2)}")
            kinds.append((kw, arm.group(2) == "Entrypoint"))
    if not kinds:
        raise TranslateError(f"{PLUGIN}: no keyword arms in From<&str> for ArtifactType")
    m = re.search(r'impl fmt::Display for ArtifactType\s*\{.*?ArtifactType::Entrypoint\s*=>\s*f\.write_str\("([^"]*)"\)', code, flags=re.S)
    if not m:
        raise TranslateError(f"{PLUGIN}: Display for ArtifactType::Entrypoint not found")
    entry_display = m.group(1)

    # --- decision table of compile_iso_call_statement
    table = (r'match iso_template_literal\.artifact_type\s*\{\s*ArtifactType::Entrypoint\s*=>\s*self\s*'
             r'\.handle_valid_isograph_entrypoint_literal\(iso_template_literal\)\s*\.wrap_ok\(\)\s*,\s*'
             r'ArtifactType::Field\s*=>\s*\{\s*match fn_args\s*\{\s*Some\(fn_args\)\s*=>\s*\{\s*'
             r'if let Some\(\(first, \[\]\)\) = fn_args\.split_first\(\)\s*\{\s*return first\.expr\.as_ref\(\)\.clone\(\)\.wrap_ok\(\);\s*\}\s*'
             r'return IsographTransformError::IsoFnCallRequiresOneArg\.wrap_err\(\);\s*\}\s*'
             r'None\s*=>\s*build_arrow_identity_expr\(\)\.wrap_ok\(\)\s*,')
    if not re.search(table, code):
        raise TranslateError(f"{PLUGIN}: the entrypoint / field decision table of compile_iso_call_statement changed shape")

    # --- path computation
    m = re.search(r'PathBuf::from\(format!\(\s*"([^"]*)"\s*,\s*file_to_artifact_dir\.display\(\)\s*,\s*self\.field_type\s*,\s*'
                  r'self\.field_name\s*,\s*self\.artifact_type\s*,?\s*\)\)', code)
    if not m:
        raise TranslateError(f"{PLUGIN}: path format `format!(\"..\", file_to_artifact_dir.display(), self.field_type, self.field_name, self.artifact_type)` not found")
    fm = re.fullmatch(r'\{\}(.)\{\}(.)\{\}(.)\{\}(.*)', m.group(1))
    if not fm or not (fm.group(1) == fm.group(2) == fm.group(3)):
        raise TranslateError(f"{PLUGIN}: path format string {m.group(1)!r} is not `{{}}<sep>{{}}<sep>{{}}<sep>{{}}<suffix>`")
    sep, suffix = fm.group(1), fm.group(4)
    if not re.search(r'cwd\s*\.join\(\s*config\s*\.artifact_directory\s*\.as_ref\(\)\s*\.unwrap_or\(&config\.project_root\)\s*,?\s*\)\s*'
                     r'\.join\(ISOGRAPH_FOLDER\)', code):
        raise TranslateError(f"{PLUGIN}: artifact directory is no longer cwd.join(artifact_directory or project_root).join(ISOGRAPH_FOLDER)")
    if not re.search(r'pathdiff::diff_paths\(artifact_directory,\s*folder\)', code) or \
            not re.search(r'let folder = PathBuf::from\(real_filepath\.parent\(\)\.unwrap\(\)\);', code):
        raise TranslateError(f"{PLUGIN}: relative path is no longer pathdiff::diff_paths(artifact_directory, parent of the file)")
    m = re.search(r'if file_to_artifact\.starts_with\((\w+)\)\s*\{\s*file_to_artifact = PathBuf::from\(format!\("([^"]*)\{\}", file_to_artifact\.display\(\)\)\);', code)
    if not m or m.group(1) != "ISOGRAPH_FOLDER":
        raise TranslateError(f"{PLUGIN}: the `./` rule (`if file_to_artifact.starts_with(ISOGRAPH_FOLDER) {{ ... format!(\"./{{}}\" ..`) changed")
    dot_prefix = m.group(2)
    m = re.search(r'let ident_name = format!\(\s*"([^"]*)"\s*,\s*iso_template_literal\.field_type\s*,\s*iso_template_literal\.field_name\s*,?\s*\)', code)
    if not m:
        raise TranslateError(f"{PLUGIN}: import identifier format not found")
    im = re.fullmatch(r'([^{}]*)\{\}([^{}]*)\{\}([^{}]*)', m.group(1))
    if not im or im.group(3) != "":
        raise TranslateError(f"{PLUGIN}: import identifier format {m.group(1)!r} is not `<a>{{}}<b>{{}}`")
    id_pre, id_mid = im.group(1), im.group(2)

    cfg = strip_comments(read(CONFIG))
    m = re.search(r'pub\s+static\s+ISOGRAPH_FOLDER\s*:\s*&str\s*=\s*"([^"\\]*)"\s*;', cfg)
    if not m:
        raise TranslateError(f"{CONFIG}: ISOGRAPH_FOLDER not found as a plain string literal")
    folder = m.group(1)
    if not re.search(r'let artifact_dir = config_dir\s*\.join\(\s*config_parsed\s*\.artifact_directory\s*\.as_ref\(\)\s*'
                     r'\.unwrap_or\(&config_parsed\.project_root\)\s*,?\s*\)\s*\.join\(ISOGRAPH_FOLDER\);', cfg):
        raise TranslateError(f"{CONFIG}: create_config no longer computes config_dir.join(artifact_directory or project_root).join(ISOGRAPH_FOLDER)")

    ga = strip_comments(read(GENART))
    m = re.search(r'pub\s+static\s+ref\s+ENTRYPOINT_FILE_NAME\s*:\s*ArtifactFileName\s*=\s*"([^"\\]*)"\.intern\(\)\.into\(\);', ga)
    if not m:
        raise TranslateError(f"{GENART}: ENTRYPOINT_FILE_NAME not found")
    entry_file = m.group(1)

    # --- the lexer's alphabet (header model)
    tk = read(TOKENS)
    m = re.search(r'#\[regex\(r"(\[[^"]*\])\+",\s*logos::skip\)\]', tk)
    if not m:
        raise TranslateError(f"{TOKENS}: skipped white-space token `#[regex(r\"[...]+\", logos::skip)]` not found")
    wsp = RegexParser(m.group(1), TOKENS).parse()
    if wsp[0] != "cls" or wsp[1]:
        raise TranslateError(f"{TOKENS}: white-space token is not a plain class")
    if len(re.findall(r'logos::skip', strip_comments(tk))) != 1:
        raise TranslateError(f"{TOKENS}: more than one skipped token (comments?) - the header model knows only white space")
    m = re.search(r'#\[regex\("(\[[^"\]]*\])(\[[^"\]]*\])\*"\)\]\s*Identifier\s*,', tk)
    if not m:
        raise TranslateError(f"{TOKENS}: Identifier token is not `#[regex(\"[start][cont]*\")]`")
    ids = RegexParser(m.group(1), TOKENS).parse()
    idc = RegexParser(m.group(2), TOKENS).parse()
    if ids[1] or idc[1]:
        raise TranslateError(f"{TOKENS}: negated identifier class")
    m = re.search(r'#\[token\("((?:[^"\\]|\\.)*)"\)\]\s*Period\s*,', tk)
    if not m or len(rust_unescape(m.group(1)).decode()) != 1:
        raise TranslateError(f"{TOKENS}: Period token is not a one-character #[token]")
    period = ord(rust_unescape(m.group(1)).decode())

    # --- the parser's keyword dispatch and the head of the three declaration parsers (what the header model mirrors)
    ps = strip_comments(read(PARSER))
    m = re.search(r'pub fn parse_iso_literal\(.*?\n\}\n', ps, flags=re.S)
    if not m:
        raise TranslateError(f"{PARSER}: parse_iso_literal not found")
    fn = m.group(0)
    if not re.search(r'let discriminator = tokens\.peek\(\);\s*let text = tokens\.source\(discriminator\.location\.span\);\s*match text \{', fn):
        raise TranslateError(f"{PARSER}: parse_iso_literal no longer dispatches on the source text of the first token")
    kind_code = {"EntrypointDeclaration": 0, "ClientFieldDeclaration": 1, "ClientPointerDeclaration": 2}
    parser_kw = []
    for arm in re.finditer(r'"(\w+)"\s*=>\s*\{(.*?)\.wrap_ok\(\)\s*\}', fn, flags=re.S):
        v = re.findall(r'IsoLiteralExtractionResult::(\w+)\(', arm.group(2))
        if len(v) != 1 or v[0] not in kind_code:
            raise TranslateError(f"{PARSER}: keyword arm {arm.group(1)!r} does not build exactly one known IsoLiteralExtractionResult variant")
        if not re.search(r'tokens\.parse_source_of_kind\(\s*IsographLangTokenKind::Identifier', arm.group(2)):
            raise TranslateError(f"{PARSER}: keyword arm {arm.group(1)!r} does not consume the keyword as an Identifier token")
        parser_kw.append((arm.group(1), kind_code[v[0]]))
    if sorted(k for _, k in parser_kw) != [0, 1, 2]:
        raise TranslateError(f"{PARSER}: expected one keyword per declaration kind, found {parser_kw}")
    head = (r'parse_string_key_type\(\s*IsographLangTokenKind::Identifier,\s*semantic_token_legend::ST_SERVER_OBJECT_TYPE,?\s*\)'
            r'.*?parse_token_of_kind\(\s*IsographLangTokenKind::Period,\s*semantic_token_legend::ST_DOT\s*\)\?;'
            r'\s*let \w+(?:\s*:\s*[\w<>]+)?\s*=\s*tokens\s*\.parse_string_key_type\(\s*IsographLangTokenKind::Identifier,\s*semantic_token_legend::ST_CLIENT_SELECTABLE_NAME,?\s*\)')
    for fname in ("parse_iso_entrypoint_declaration", "parse_client_field_declaration_inner", "parse_client_pointer_declaration_inner"):
        m = re.search(r'fn ' + fname + r'\(.*?\n\}\n', ps, flags=re.S)
        if not m:
            raise TranslateError(f"{PARSER}: fn {fname} not found")
        body_fn = m.group(0)
        first = re.search(r'tokens\s*\.(\w+)\(', body_fn[body_fn.index("{"):])
        if not re.search(head, body_fn, flags=re.S):
            raise TranslateError(f"{PARSER}: fn {fname} no longer starts with Identifier, Period, Identifier (type `.` name)")

    body = f"""namespace IsoVerif.Gen.SwcLits

/-- Regex AST (code points as `Nat`; a class is a list of inclusive ranges, `\\s` already expanded). -/
inductive Re where
  | eps : Re
  | lit (cs : List Nat) : Re
  | cls (neg : Bool) (rs : List (Nat × Nat)) : Re
  | cat (a b : Re) : Re
  | alt (a b : Re) : Re
  | star (r : Re) : Re
  | plus (r : Re) : Re
  | opt (r : Re) : Re
  | grp (i : Nat) (r : Re) : Re

/-- OPERATION_REGEX = {re_src} -/
def opRegex : Re :=
  {lean_re(ast)}
def opRegexGroups : Nat := {p.ngroups}
/-- the visitor matches against `first.raw.trim()` -/
def trimsInput : Bool := {"true" if trims else "false"}
/-- `\\s` of the regex crate / `char::is_whitespace` used by `str::trim` (White_Space) -/
def whiteSpace : List (Nat × Nat) := {lean_ranges(WHITE_SPACE)}
/-- `impl From<&str> for ArtifactType`: keyword, is it the entrypoint type -/
def keywordTable : List (List Nat × Bool) := [{", ".join(f"({lean_nats(cps(k))}, {'true' if e else 'false'})" for k, e in kinds)}]
/-- Display of ArtifactType::Entrypoint (last path component before the suffix) -/
def entrypointDisplay : List Nat := {lean_nats(cps(entry_display))}
def pathSep : Nat := {ord(sep)}
def pathSuffix : List Nat := {lean_nats(cps(suffix))}
def isographFolder : List Nat := {lean_nats(cps(folder))}
def dotPrefix : List Nat := {lean_nats(cps(dot_prefix))}
def identPre : List Nat := {lean_nats(cps(id_pre))}
def identMid : List Nat := {lean_nats(cps(id_mid))}
/-- generate_artifacts.rs: ENTRYPOINT_FILE_NAME -/
def entrypointFileName : List Nat := {lean_nats(cps(entry_file))}
/-- token_kind.rs: skipped white space, Identifier = start cont*, Period -/
def lexWs : List (Nat × Nat) := {lean_ranges(wsp[2])}
def lexIdentStart : List (Nat × Nat) := {lean_ranges(ids[2])}
def lexIdentCont : List (Nat × Nat) := {lean_ranges(idc[2])}
def lexPeriod : Nat := {period}
/-- parse_iso_literal: keyword of the first token, declaration kind (0 entrypoint, 1 field, 2 pointer) -/
def parserKeywords : List (List Nat × Nat) := [{", ".join(f"({lean_nats(cps(k))}, {c})" for k, c in parser_kw)}]

end IsoVerif.Gen.SwcLits
"""
    return write_gen("SwcLits", body, [PLUGIN, CONFIG, GENART, TOKENS, PARSER])


if __name__ == "__main__":
    print(translate())
