"""T8: every iteration over a HashMap / HashSet / DashMap in the files C14 is anchored in.

Syntactic scan.  The workspace is indexed first (functions whose return type mentions a hash container,
struct fields / newtypes / `Deref` targets of hash type); then, per anchored file and function, every
expression rooted in a hash-typed value is looked at: it is either an ITERATION (a `for` loop over it, or an
iterator method `.iter() .values() .keys() .into_iter() …` on it) — a site — or one of the known
order-independent uses (`get`, `insert`, `contains_key`, `is_empty`, …).  Anything else raises
TranslateError: the scan does not guess.

Output `Gen/HashIterSites.lean`: `sites : List Site` with file, function, the iterated expression and a sink
hint (the collections the loop body / the enclosing statement feeds, with their declared container types),
all as byte lists (strings do not reduce in the kernel).
"""
import os, re
from .common import REPO, read, write_gen, TranslateError

ANCHORED = [
    "crates/isograph_schema/src/validated_isograph_schema/process_iso_literals.rs",
    "crates/artifact_content/src/generate_artifacts.rs",
    "crates/isograph_schema/src/validate.rs",
    # `process_iso_literals` itself (called by validate.rs with the hash map of parse_iso_literals)
    "crates/isograph_schema/src/validated_isograph_schema/isograph_literals.rs",
    # the property's third mechanism: "sorted iso overloads"
    "crates/artifact_content/src/iso_overload_file.rs",
]
HASH = r"(?:HashMap|HashSet|DashMap|DashSet|StringKeyMap|StringKeySet|FnvHashMap|FxHashMap|FxHashSet)"
ITER_METHODS = ["iter", "iter_mut", "values", "values_mut", "keys", "into_iter", "into_values", "into_keys", "drain"]
# adapters that hand the same container on
PASS_METHODS = ["as_ref", "as_mut", "expect", "unwrap", "to_owned", "clone", "clone_err", "tracked", "untracked",
                "reference", "dereference", "deref", "borrow", "lookup", "as_deref", "unwrap_or_default"]
# uses that do not observe the order
SAFE_METHODS = ["get", "get_mut", "insert", "contains", "contains_key", "entry", "is_empty", "len", "remove",
                "extend", "get_or_insert_with", "or_default", "reserve", "clear"]


def strip_comments_and_strings(src):
    """Replace comments by spaces and the inside of string literals by `_`, keeping offsets and newlines."""
    out = []
    i, n = 0, len(src)
    while i < n:
        c = src[i]
        if src.startswith("//", i):
            j = src.find("\n", i)
            j = n if j < 0 else j
            out.append(" " * (j - i)); i = j
        elif src.startswith("/*", i):
            j = src.find("*/", i + 2)
            j = n if j < 0 else j + 2
            out.append("".join(ch if ch == "\n" else " " for ch in src[i:j])); i = j
        elif c == '"':
            j = i + 1
            while j < n and src[j] != '"':
                j += 2 if src[j] == "\\" else 1
            out.append('"' + "".join(ch if ch == "\n" else "_" for ch in src[i + 1:j]) + '"'); i = j + 1
        elif c == "r" and re.match(r'r#*"', src[i:]):
            m = re.match(r'r(#*)"', src[i:])
            close = '"' + m.group(1)
            j = src.find(close, i + len(m.group(0)))
            if j < 0: raise TranslateError("unterminated raw string")
            j += len(close)
            out.append("".join(ch if ch == "\n" else "_" for ch in src[i:j])); i = j
        elif c == "'" and re.match(r"'(?:\\.|[^\\'])'", src[i:]):
            m = re.match(r"'(?:\\.|[^\\'])'", src[i:])
            out.append("'" + "_" * (len(m.group(0)) - 2) + "'"); i += len(m.group(0))
        else:
            out.append(c); i += 1
    return "".join(out)


def match_brace(s, i, open_="{", close="}"):
    depth = 0
    for j in range(i, len(s)):
        if s[j] == open_: depth += 1
        elif s[j] == close:
            depth -= 1
            if depth == 0: return j
    raise TranslateError("unbalanced " + open_)


def rust_files():
    for root in ("crates", "relay-crates"):
        base = os.path.join(REPO, root)
        for d, _, fs in os.walk(base):
            if "/target" in d or "/tests" in d or "/fixtures" in d: continue
            for f in fs:
                if f.endswith(".rs"):
                    yield os.path.relpath(os.path.join(d, f), REPO)


def workspace_index():
    hash_fns, hash_fields, hash_types = set(), set(), set()
    texts = {}
    for rel in rust_files():
        try:
            texts[rel] = strip_comments_and_strings(read(rel))
        except TranslateError:
            continue
    # types that ARE a hash container: newtypes, Deref targets, aliases
    for rel, s in texts.items():
        for m in re.finditer(r"struct\s+(\w+)\s*(?:<[^>]*>)?\s*\(\s*(?:pub(?:\([^)]*\))?\s+)?" + HASH + r"\s*<", s):
            hash_types.add(m.group(1))
        for m in re.finditer(r"impl(?:<[^>]*>)?\s+(?:std::ops::)?Deref\s+for\s+(\w+)[^{]*\{\s*type\s+Target\s*=\s*" + HASH, s):
            hash_types.add(m.group(1))
        for m in re.finditer(r"type\s+(\w+)\s*(?:<[^>]*>)?\s*=\s*" + HASH + r"\s*<", s):
            if m.group(1) != "Target":      # associated type of the Deref impls handled above
                hash_types.add(m.group(1))
    ty = HASH + (r"|\b(?:" + "|".join(sorted(hash_types)) + r")\b" if hash_types else "")
    for rel, s in texts.items():
        for m in re.finditer(r"\bfn\s+(\w+)\s*(?:<[^{;]*?>)?\s*\(", s):
            # signature up to the body / `;`
            j = s.find("(", m.start())
            k = match_brace(s, j, "(", ")")
            rest = s[k + 1:]
            end = re.search(r"[{;]", rest)
            sig_tail = rest[:end.start()] if end else rest
            am = re.match(r"\s*->\s*(.*)", sig_tail, flags=re.S)
            if am and re.search(ty, am.group(1).split(" where ")[0]):
                hash_fns.add(m.group(1))
        for m in re.finditer(r"\b(?:pub(?:\([^)]*\))?\s+)?(\w+)\s*:\s*(?:&\s*(?:'\w+\s+)?(?:mut\s+)?)?(?:std::collections::)?(" + ty + r")", s):
            # struct fields and parameters both look like `name: Type`; both make `name` hash-typed
            hash_fields.add(m.group(1))
    return hash_fns, hash_fields, hash_types


def functions(s):
    """(name, impl_type or None, body_start, body_end) for every fn with a body."""
    out = []
    impls = []
    for m in re.finditer(r"\bimpl(?:<[^{]*?>)?\s+(?:[\w:]+(?:<[^{]*?>)?\s+for\s+)?(\w+)[^{;]*\{", s):
        i = s.find("{", m.end() - 1)
        impls.append((i, match_brace(s, i), m.group(1)))
    for m in re.finditer(r"\bfn\s+(\w+)\b", s):
        j = s.find("(", m.end())
        if j < 0: continue
        k = match_brace(s, j, "(", ")")
        rest = s[k + 1:]
        end = re.search(r"[{;]", rest)
        if not end or end.group(0) == ";": continue
        b0 = k + 1 + end.start()
        b1 = match_brace(s, b0)
        impl = next((t for (a, b, t) in impls if a < m.start() < b), None)
        out.append((m.group(1), impl, m.start(), b0, b1))
    return out


def norm(e):
    return re.sub(r"\s+", "", e).replace(",)", ")")


def translate():
    hash_fns, hash_fields, hash_types = workspace_index()
    sites = []
    # methods of hash-container types that are defined (and therefore scanned) in an anchored file
    anchored_methods = set()
    for rel in ANCHORED:
        t = strip_comments_and_strings(read(rel))
        for (name, impl, f0, b0, b1) in functions(t):
            if impl in hash_types:
                anchored_methods.add(name)
    for rel in ANCHORED:
        s = strip_comments_and_strings(read(rel))
        raw = read(rel)
        fns = functions(s)
        # innermost function for an offset
        def fn_at(pos):
            best = None
            for (name, impl, f0, b0, b1) in fns:
                if b0 <= pos <= b1 and (best is None or b0 > best[3]): best = (name, impl, f0, b0, b1)
            return best
        for (name, impl, f0, b0, b1) in fns:
            body = s[b0:b1 + 1]
            sig = s[f0:b0]
            roots = set()          # hash-typed local names
            decl_types = {}        # local name -> container type (for sink hints)
            for m in re.finditer(r"\blet\s+(?:mut\s+)?(\w+)\s*(?::\s*([^=;]+?))?\s*=\s*([^;]*?);", body, flags=re.S):
                var, ann, init = m.group(1), m.group(2) or "", m.group(3)
                cm = re.match(r"\s*(?:std::collections::)?(BTreeSet|BTreeMap|HashSet|HashMap|DashMap|Vec|String)\b", ann) or \
                     re.match(r"\s*(?:std::collections::)?(BTreeSet|BTreeMap|HashSet|HashMap|DashMap|Vec|String)::", init) or \
                     (re.match(r"\s*(vec)!", init))
                if cm: decl_types[var] = {"vec": "Vec"}.get(cm.group(1), cm.group(1))
                if re.search(HASH, ann) or re.match(r"\s*(?:std::collections::)?" + HASH + r"::", init):
                    roots.add(var)
                else:
                    hm = re.match(r"\s*(?:match\s+)?(?:&\s*)?(?:\w+::)*(\w+)\s*\(", init)
                    if hm and hm.group(1) in hash_fns:
                        # `let x = hashfn(..)<adapters>` or `let x = match hashfn(..) { Ok(s) => s, … }`
                        tail = init[hm.end():]
                        if re.search(r"\.(?:" + "|".join(ITER_METHODS) + r")\s*\(", tail) is None:
                            roots.add(var)
            for m in re.finditer(r"\b(\w+)\s*:\s*(?:&\s*(?:'\w+\s+)?(?:mut\s+)?)?([^,)]+)", sig):
                if re.search(HASH, m.group(2)) or any(re.search(r"\b" + t + r"\b", m.group(2)) for t in hash_types):
                    roots.add(m.group(1))
            if impl in hash_types and re.search(r"\(\s*&?\s*(?:mut\s+)?self\b", sig):
                roots.add("self")

            # candidate root occurrences: hash fn calls, hash locals, `.hashfield`;
            # `#[derive(Db)]` (pico) generates `get_<field>()` / `get_<field>_mut()` for every field of the database
            def is_db_getter(w):
                if not w.startswith("get_"): return False
                f = w[4:]
                if f.endswith("_mut"): f = f[:-4]
                return f in hash_fields
            cands = []
            for m in re.finditer(r"\b(\w+)\b", body):
                w = m.group(1)
                pre = body[:m.start()].rstrip()
                if w in roots and not pre.endswith(".") and not re.search(r"\blet\s+(?:mut\s+)?$", body[:m.start()]):
                    cands.append((m.start(), m.end(), "local"))
                elif (w in hash_fns or is_db_getter(w)) and re.match(r"\s*(?:::<[^>]*>)?\s*\(", body[m.end():]) and not re.search(r"\bfn\s+$", body[:m.start()]):
                    j = body.find("(", m.end())
                    r0 = m.start()
                    rm = re.search(r"((?:\b\w+\s*\.\s*)+)$", body[:m.start()])
                    if rm: r0 = rm.start(1)
                    cands.append((r0, match_brace(body, j, "(", ")") + 1, "call"))
                elif w in hash_fields and pre.endswith(".") and not re.match(r"\s*\(", body[m.end():]):
                    # include the receiver in the expression text
                    r0 = m.start()
                    rm = re.search(r"([\w.]+\.)\s*$", body[:m.start()])
                    if rm: r0 = rm.start(1)
                    cands.append((r0, m.end(), "field"))
            for (c0, c1, kind) in cands:
                # skip occurrences nested in an inner fn that has its own scan
                inner = fn_at(b0 + c0)
                if inner and inner[0] != name: continue
                # follow the method chain
                pos = c1
                verdict = None
                while True:
                    mm = re.match(r"\s*(\?|\.\s*([A-Za-z_]\w*)\s*(?:::<[^>]*>)?\s*(\()?|\.\s*(\d+))", body[pos:])
                    if not mm:
                        break
                    if mm.group(1) == "?" or mm.group(4) is not None:
                        pos += mm.end(); continue
                    meth = mm.group(2)
                    if mm.group(3):
                        close = match_brace(body, pos + mm.end() - 1, "(", ")")
                    else:
                        close = pos + mm.end() - 1
                    if meth in ITER_METHODS and mm.group(3):
                        verdict = ("iter", close + 1); break
                    if meth in PASS_METHODS or (meth in hash_fields and not mm.group(3)):
                        pos = close + 1; continue
                    if meth in SAFE_METHODS or meth in anchored_methods:
                        verdict = ("safe", close + 1); break
                    raise TranslateError(f"{rel}: fn {name}: `{norm(body[c0:close + 1])[:120]}`: do not know whether "
                                         f"`.{meth}` observes the order of a hash container")
                before = body[:c0]
                in_for = re.search(r"\bfor\s+[^;{}]*?\bin\s+(?:&\s*(?:mut\s+)?)?$", before, flags=re.S)
                if verdict is None:
                    if in_for:
                        verdict = ("iter", pos)
                    elif re.search(r"(?:&\s*(?:mut\s+)?)$", before.rstrip() + " ") or re.search(r"[(,=]\s*(?:&\s*(?:mut\s+)?)?$", before) \
                            or re.match(r"\s*[,);]", body[pos:]) or re.match(r"\s*\{", body[pos:]) and "match" in before[-80:]:
                        # moved / borrowed as a whole (argument, binding, scrutinee): followed by the binding rule above
                        # or by the callee's own scan if it is anchored
                        verdict = ("whole", pos)
                    else:
                        raise TranslateError(f"{rel}: fn {name}: cannot classify the use of `{norm(body[c0:pos])[:120]}`")
                if verdict[0] != "iter":
                    continue
                expr = norm(body[c0:verdict[1]])
                # original text (strings intact) for the expression
                expr_src = norm(raw[b0 + c0:b0 + verdict[1]])
                # the rest of the method chain after the iterator method (adapters, `collect`)
                chain = []
                cpos = verdict[1]
                while True:
                    cm = re.match(r"\s*\.\s*([A-Za-z_]\w*)\s*(?:::<\s*(\w+)[^(]*>)?\s*\(", body[cpos:])
                    if not cm: break
                    chain.append((cm.group(1), cm.group(2)))
                    cpos = match_brace(body, cpos + cm.end() - 1, "(", ")") + 1
                # sink hint
                sinks = set()
                if in_for:
                    bstart = body.find("{", cpos)
                    bend = match_brace(body, bstart)
                    loop = body[bstart:bend + 1]
                    for sm in re.finditer(r"\b(\w+)\s*\.\s*(push|push_str|insert|extend|entry)\s*\(", loop):
                        sinks.add(sm.group(1))
                    for sm in re.finditer(r"\b(\w+)\s*\+=", loop):
                        sinks.add(sm.group(1))
                else:
                    st0 = max(before.rfind(";"), before.rfind("{"), before.rfind("}")) + 1
                    stmt_head = before[st0:]
                    em = re.search(r"\b(\w+)\s*\.\s*(extend|push|insert)\s*\(", stmt_head)
                    if em:
                        sinks.add(em.group(1))
                    elif chain and chain[-1][0] == "collect":
                        lm = re.search(r"\blet\s+(?:mut\s+)?(\w+)\b", stmt_head)
                        sinks.add((lm.group(1) if lm else "<return>") + "=collect" + (":" + chain[-1][1] if chain[-1][1] else ""))
                    else:
                        raise TranslateError(f"{rel}: fn {name}: cannot tell what `{expr_src[:100]}` feeds")
                hint = ",".join(sorted(x + (":" + decl_types[x] if x in decl_types else "") for x in sinks)) or "-"
                site = (rel, name, expr_src, hint)
                if site not in sites:
                    sites.append(site)
    if not sites:
        raise TranslateError("no hash iteration found in the anchored files: the scan no longer understands them")

    def lean_nat_list(t):
        return "[" + ", ".join(str(b) for b in t.encode("utf-8")) + "]"

    body = "namespace IsoVerif.Gen.HashIterSites\n\n"
    body += "structure Site where\n  file : List Nat\n  fn : List Nat\n  expr : List Nat\n  sink : List Nat\n  deriving DecidableEq, Repr\n\n"
    body += "def anchored : List (List Nat) := [\n" + ",\n".join("  " + lean_nat_list(a) for a in ANCHORED) + "]\n\n"
    body += "def sites : List Site := [\n"
    items = []
    for (rel, fn, expr, hint) in sites:
        items.append(f"  -- {rel} :: {fn} :: {expr} :: {hint}\n  ⟨{lean_nat_list(rel)},\n   {lean_nat_list(fn)},\n   {lean_nat_list(expr)},\n   {lean_nat_list(hint)}⟩")
    body += ",\n".join(items) + "]\n\n"
    body += "end IsoVerif.Gen.HashIterSites\n"
    return write_gen("HashIterSites", body, ANCHORED)


if __name__ == "__main__":
    print(translate())
