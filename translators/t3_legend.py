"""T3: the semantic-token legend of crates/isograph_lang_types/src/semantic_token_legend.

Every `pub const ST_*: IsographSemanticToken` (LSP token type, LineBehavior, IndentChange), the
`LSP_ST_*` indices checked against the order of `semantic_token_legend().token_types`, the shape of
the `LineBehavior` / `IndentChange` enums, and the five `LineBehavior` methods the formatter
consults (`starts_new_line`, `ends_line`, `has_space_after`, `has_space_before`, `should_keep`),
translated arm by arm.  Anything of another shape raises TranslateError.
"""
import re
from .common import read, write_gen, lean_str, TranslateError

MOD = "crates/isograph_lang_types/src/semantic_token_legend/mod.rs"
LB = "crates/isograph_lang_types/src/semantic_token_legend/line_behavior.rs"

# Rust variant -> (Lean constructor, payload struct, ordered payload fields)
VARIANTS = {
    "StartsNewLine": ("starts", "StartsNewLineBehavior", ["space_after"]),
    "EndsLine": ("ends", "EndsLineBehavior", ["space_before"]),
    "Inline": ("inl", "InlineBehavior", ["space_before", "space_after"]),
    "IsOwnLine": ("ownLine", None, []),
    "Remove": ("remove", None, []),
}
FIELD_WRAPPER = {"space_after": "SpaceAfter", "space_before": "SpaceBefore"}
LEAN_FIELD = {"space_after": "sa", "space_before": "sb"}


def strip_comments(s):
    s = re.sub(r"/\*.*?\*/", "", s, flags=re.S)
    return re.sub(r"//[^\n]*", "", s)


def camel(screaming):
    parts = screaming.lower().split("_")
    return parts[0] + "".join(p.capitalize() for p in parts[1:])


def parse_enum(src, name, where):
    m = re.search(r"pub\s+enum\s+" + name + r"\s*\{(.*?)\}", src, flags=re.S)
    if not m:
        raise TranslateError(f"{where}: enum {name} not found")
    out = []
    for item in [x.strip() for x in m.group(1).split(",") if x.strip()]:
        mm = re.fullmatch(r"(\w+)(?:\(\s*(\w+)\s*\))?", item)
        if not mm:
            raise TranslateError(f"{where}: enum {name}: variant of unknown shape: {item!r}")
        out.append((mm.group(1), mm.group(2)))
    return out


def parse_struct_fields(src, name, where):
    m = re.search(r"pub\s+struct\s+" + name + r"\s*\{(.*?)\}", src, flags=re.S)
    if not m:
        raise TranslateError(f"{where}: struct {name} not found")
    fields = []
    for item in [x.strip() for x in m.group(1).split(",") if x.strip()]:
        mm = re.fullmatch(r"pub\s+(\w+)\s*:\s*(\w+)", item)
        if not mm:
            raise TranslateError(f"{where}: struct {name}: field of unknown shape: {item!r}")
        fields.append((mm.group(1), mm.group(2)))
    return fields


def method_body(src, name, ret, where):
    m = re.search(r"pub\s+fn\s+" + name + r"\s*\(\s*&self\s*\)\s*->\s*" + ret + r"\s*\{", src)
    if not m:
        raise TranslateError(f"{where}: method {name}(&self) -> {ret} not found")
    i = m.end()
    depth = 1
    j = i
    while j < len(src) and depth:
        if src[j] == "{": depth += 1
        elif src[j] == "}": depth -= 1
        j += 1
    if depth:
        raise TranslateError(f"{where}: unbalanced braces in {name}")
    return src[i:j - 1].strip()


def parse_matches(body, negate_ok, where, name):
    """`matches!(self, LineBehavior::A | LineBehavior::B(_))` optionally followed by `.not()`."""
    m = re.fullmatch(r"matches!\(\s*self\s*,\s*(.*?)\s*,?\s*\)(\s*\.not\(\))?", body, flags=re.S)
    if not m:
        raise TranslateError(f"{where}: {name}: body is not a single matches!(self, ..): {body!r}")
    if m.group(2) and not negate_ok:
        raise TranslateError(f"{where}: {name}: unexpected .not()")
    vs = set()
    for alt in [a.strip() for a in m.group(1).split("|")]:
        mm = re.fullmatch(r"LineBehavior::(\w+)(\(\s*_\s*\))?", alt)
        if not mm or mm.group(1) not in VARIANTS:
            raise TranslateError(f"{where}: {name}: pattern of unknown shape: {alt!r}")
        has_payload = VARIANTS[mm.group(1)][1] is not None
        if has_payload != bool(mm.group(2)):
            raise TranslateError(f"{where}: {name}: pattern arity mismatch: {alt!r}")
        vs.add(mm.group(1))
    return vs, bool(m.group(2))


def parse_space_match(body, field, where, name):
    """match self { LineBehavior::V(b) => b.<field>, LineBehavior::V(_) => Wrapper(false), .. }"""
    wrapper = FIELD_WRAPPER[field]
    m = re.fullmatch(r"match\s+self\s*\{(.*)\}", body, flags=re.S)
    if not m:
        raise TranslateError(f"{where}: {name}: body is not `match self {{..}}`")
    arms = {}
    text = m.group(1)
    # arms are `pat => expr,` where expr may be a `{ expr }` block
    for am in re.finditer(r"LineBehavior::(\w+)(?:\(\s*(\w+)\s*\))?\s*=>\s*(\{[^{}]*\}|[^,{}]+),?", text):
        v, binder, expr = am.group(1), am.group(2), am.group(3).strip()
        if expr.startswith("{"):
            expr = expr[1:-1].strip()
        if v not in VARIANTS or v in arms:
            raise TranslateError(f"{where}: {name}: unknown or duplicate arm {v}")
        mm = re.fullmatch(wrapper + r"\((true|false)\)", expr)
        if mm:
            arms[v] = mm.group(1)
            continue
        mm = re.fullmatch(r"(\w+)\." + field, expr)
        if mm and binder and mm.group(1) == binder and field in VARIANTS[v][2]:
            arms[v] = LEAN_FIELD[field]
            continue
        raise TranslateError(f"{where}: {name}: arm for {v} of unknown shape: {expr!r}")
    leftover = re.sub(r"LineBehavior::(\w+)(?:\(\s*(\w+)\s*\))?\s*=>\s*(\{[^{}]*\}|[^,{}]+),?", "", text).strip()
    if leftover:
        raise TranslateError(f"{where}: {name}: untranslated text in match: {leftover!r}")
    if set(arms) != set(VARIANTS):
        raise TranslateError(f"{where}: {name}: arms {sorted(arms)} do not cover {sorted(VARIANTS)}")
    return arms


def lean_pat(v, used_field=None):
    ctor, _, fields = VARIANTS[v]
    if not fields:
        return f".{ctor}"
    return f".{ctor} " + " ".join(LEAN_FIELD[f] if f == used_field else "_" for f in fields)


def translate():
    mod = strip_comments(read(MOD))
    lb = strip_comments(read(LB))

    # ---- enum / struct shapes ------------------------------------------------------------
    variants = parse_enum(lb, "LineBehavior", LB)
    if [v for v, _ in variants] != list(VARIANTS):
        raise TranslateError(f"{LB}: LineBehavior variants changed: {variants}")
    for v, payload in variants:
        if payload != VARIANTS[v][1]:
            raise TranslateError(f"{LB}: LineBehavior::{v} payload changed: {payload}")
        if payload:
            fields = parse_struct_fields(lb, payload, LB)
            want = [(f, FIELD_WRAPPER[f]) for f in VARIANTS[v][2]]
            if fields != want:
                raise TranslateError(f"{LB}: struct {payload} fields changed: {fields}")
    for w in ("SpaceBefore", "SpaceAfter"):
        if not re.search(r"pub\s+struct\s+" + w + r"\s*\(\s*pub\s+bool\s*\)\s*;", lb):
            raise TranslateError(f"{LB}: struct {w}(pub bool) not found")
    ic = parse_enum(mod, "IndentChange", MOD)
    if ic != [("Indent", None), ("Dedent", None), ("Same", None)]:
        raise TranslateError(f"{MOD}: IndentChange variants changed: {ic}")
    st = parse_struct_fields(mod, "IsographSemanticToken", MOD)
    if st != [("lsp_semantic_token", "LspSemanticToken"), ("line_behavior", "LineBehavior"),
              ("indent_change", "IndentChange")]:
        raise TranslateError(f"{MOD}: struct IsographSemanticToken changed: {st}")

    # ---- methods -------------------------------------------------------------------------
    snl, _ = parse_matches(method_body(lb, "starts_new_line", "bool", LB), False, LB, "starts_new_line")
    el, _ = parse_matches(method_body(lb, "ends_line", "bool", LB), False, LB, "ends_line")
    keep_set, neg = parse_matches(method_body(lb, "should_keep", "bool", LB), True, LB, "should_keep")
    keep = (set(VARIANTS) - keep_set) if neg else keep_set
    sa = parse_space_match(method_body(lb, "has_space_after", "SpaceAfter", LB), "space_after", LB, "has_space_after")
    sb = parse_space_match(method_body(lb, "has_space_before", "SpaceBefore", LB), "space_before", LB, "has_space_before")

    def bool_fn(name, true_set):
        lines = [f"def LineBehavior.{name} : LineBehavior → Bool"]
        for v in VARIANTS:
            lines.append(f"  | {lean_pat(v)} => {'true' if v in true_set else 'false'}")
        return "\n".join(lines)

    def space_fn(name, arms, field):
        lines = [f"def LineBehavior.{name} : LineBehavior → Bool"]
        for v in VARIANTS:
            e = arms[v]
            if e in ("true", "false"):
                lines.append(f"  | {lean_pat(v)} => {e}")
            else:
                lines.append(f"  | {lean_pat(v, field)} => {e}")
        return "\n".join(lines)

    # ---- LSP token type indices ----------------------------------------------------------
    m = re.search(r"token_types\s*:\s*vec!\[(.*?)\]", mod, flags=re.S)
    if not m:
        raise TranslateError(f"{MOD}: token_types vec not found")
    type_names = []
    for item in [x.strip() for x in m.group(1).split(",") if x.strip()]:
        mm = re.fullmatch(r"SemanticTokenType::(\w+)", item)
        if not mm:
            raise TranslateError(f"{MOD}: token_types entry of unknown shape: {item!r}")
        type_names.append(mm.group(1))
    lsp = {}
    for mm in re.finditer(r"const\s+(LSP_ST_\w+)\s*:\s*LspSemanticToken\s*=\s*LspSemanticToken\((\d+)\)\s*;", mod):
        name, idx = mm.group(1), int(mm.group(2))
        short = name[len("LSP_ST_"):]
        if idx >= len(type_names) or type_names[idx] != short:
            raise TranslateError(f"{MOD}: {name} = {idx} but token_types[{idx}] = "
                                 f"{type_names[idx] if idx < len(type_names) else None}")
        lsp[name] = idx
    if len(re.findall(r"const\s+LSP_ST_\w+", mod)) != len(lsp):
        raise TranslateError(f"{MOD}: an LSP_ST_* constant is not of the shape LspSemanticToken(<n>)")

    # ---- the ST_* table --------------------------------------------------------------------
    entries = []
    pat = re.compile(
        r"pub\s+const\s+(ST_\w+)\s*:\s*IsographSemanticToken\s*=\s*IsographSemanticToken\s*\{\s*"
        r"lsp_semantic_token\s*:\s*(\w+)\s*,\s*"
        r"line_behavior\s*:\s*LineBehavior::(\w+)\s*(?:\(\s*(\w+)\s*\{(.*?)\}\s*\))?\s*,\s*"
        r"indent_change\s*:\s*IndentChange::(\w+)\s*,?\s*\}\s*;", flags=re.S)
    for mm in pat.finditer(mod):
        name, lsp_name, variant, payload, fields_src, indent = mm.groups()
        if lsp_name not in lsp:
            raise TranslateError(f"{MOD}: {name}: unknown LSP token constant {lsp_name}")
        if variant not in VARIANTS:
            raise TranslateError(f"{MOD}: {name}: unknown LineBehavior::{variant}")
        ctor, want_payload, want_fields = VARIANTS[variant]
        if payload != want_payload:
            raise TranslateError(f"{MOD}: {name}: payload {payload} for LineBehavior::{variant}")
        vals = {}
        if payload:
            for item in [x.strip() for x in fields_src.split(",") if x.strip()]:
                fm = re.fullmatch(r"(\w+)\s*:\s*(\w+)\((true|false)\)", item)
                if not fm or fm.group(1) not in want_fields or FIELD_WRAPPER[fm.group(1)] != fm.group(2):
                    raise TranslateError(f"{MOD}: {name}: field of unknown shape: {item!r}")
                vals[fm.group(1)] = fm.group(3)
            if set(vals) != set(want_fields):
                raise TranslateError(f"{MOD}: {name}: fields {sorted(vals)} != {want_fields}")
        if indent not in ("Indent", "Dedent", "Same"):
            raise TranslateError(f"{MOD}: {name}: IndentChange::{indent}")
        lb_term = f".{ctor}" + "".join(" " + vals[f] for f in want_fields)
        entries.append((name, lsp[lsp_name], lb_term, "." + indent.lower()))
    n_consts = len(re.findall(r"pub\s+const\s+ST_\w+", mod))
    if n_consts != len(entries) or not entries:
        raise TranslateError(f"{MOD}: {n_consts} `pub const ST_*` items but {len(entries)} of the modelled shape")
    if len({e[0] for e in entries}) != len(entries):
        raise TranslateError(f"{MOD}: duplicate ST_* constant")

    defs = "\n".join(
        f"def {camel(n)} : SemTok := ⟨{i}, {l}, {c}⟩" for n, i, l, c in entries)
    table = ",\n  ".join(f"({lean_str(n)}, {camel(n)})" for n, *_ in entries)
    body = f"""namespace IsoVerif.Gen.Legend

inductive LineBehavior
  | starts (spaceAfter : Bool)      -- StartsNewLine
  | ends (spaceBefore : Bool)       -- EndsLine
  | inl (spaceBefore spaceAfter : Bool)  -- Inline
  | ownLine                         -- IsOwnLine
  | remove                          -- Remove
  deriving DecidableEq, Repr, Inhabited

inductive IndentChange
  | indent
  | dedent
  | same
  deriving DecidableEq, Repr, Inhabited

{bool_fn("startsNewLine", snl)}

{bool_fn("endsLine", el)}

{space_fn("hasSpaceAfter", sa, "space_after")}

{space_fn("hasSpaceBefore", sb, "space_before")}

{bool_fn("shouldKeep", keep)}

/-- `IsographSemanticToken`: LSP token type index, line behaviour, indent change. -/
structure SemTok where
  lsp : Nat
  lb : LineBehavior
  ic : IndentChange
  deriving DecidableEq, Repr, Inhabited

/-- `semantic_token_legend().token_types`, in order (the index is the LSP token type). -/
def tokenTypes : List String := [{", ".join(lean_str(t) for t in type_names)}]

{defs}

/-- every `pub const ST_*` of mod.rs -/
def legend : List (String × SemTok) := [
  {table}]

end IsoVerif.Gen.Legend
"""
    return write_gen("Legend", body, [MOD, LB])


if __name__ == "__main__":
    print(translate())
