"""T-fs: the facts of the artifact writer that the M-FS model is parameterised by, read from the
current Rust source, plus the shape pins the hand-written model relies on.

  createRoot               does `FileSystemState::recreate_all` push `CreateDirectory(artifact_directory)`
                           right after the `DeleteDirectory`?   never | always | ifNoNested
  stateReplacedBeforeApply does `get_file_system_operations` overwrite `*file_system_state` (it is called
                           by `compile` before `apply_file_system_operations`)?
  resetOnIoError           does `compile` set `state.file_system_state = None` when
                           `apply_file_system_operations` returns an error?

Shape pinned in `compile`:  `get_artifact_path_and_content(db)?`  (early return on diagnostics)  <
`get_file_system_operations(.., &mut state.file_system_state)`  <  `apply_file_system_operations(..)`.
Anything else raises TranslateError (the tie is broken, DESIGN section 4).
"""
import re
from .common import read, write_gen, TranslateError

FSS = "crates/artifact_content/src/file_system_state.rs"
WA = "crates/isograph_compiler/src/write_artifacts.rs"
BC = "crates/isograph_compiler/src/batch_compile.rs"


def strip_comments(s):
    out, i, n = [], 0, len(s)
    while i < n:
        c = s[i]
        if s.startswith("//", i):
            j = s.find("\n", i)
            i = n if j < 0 else j
        elif s.startswith("/*", i):
            depth, i = 1, i + 2
            while i < n and depth:
                if s.startswith("/*", i): depth += 1; i += 2
                elif s.startswith("*/", i): depth -= 1; i += 2
                else: i += 1
        elif c == '"':
            j = i + 1
            while j < n and s[j] != '"':
                j += 2 if s[j] == "\\" else 1
            out.append(s[i:j + 1]); i = j + 1
        else:
            out.append(c); i += 1
    return "".join(out)


def norm(s):
    """comments and all white space removed; trailing commas before a closer removed"""
    s = re.sub(r"\s+", "", strip_comments(s))
    return re.sub(r",([)\]}])", r"\1", s)


def fn_body(src, rel, header_re):
    """normalised text between the braces of the first fn whose header matches"""
    s = strip_comments(src)
    m = re.search(header_re, s)
    if not m:
        raise TranslateError(f"{rel}: function matching /{header_re}/ not found")
    i = s.find("{", m.end())
    # skip to the body's opening brace: the first `{` after the parameter list / return type
    depth_par, k = 0, m.end()
    while k < len(s):
        if s[k] in "(<[": depth_par += 1
        elif s[k] in ")>]":
            depth_par -= 1
            if s[k] == ">" and s[k - 1] == "-": depth_par += 1   # `->`
        elif s[k] == "{" and depth_par <= 0:
            i = k; break
        k += 1
    depth, j = 0, i
    while j < len(s):
        if s[j] == "{": depth += 1
        elif s[j] == "}":
            depth -= 1
            if depth == 0:
                return norm(s[i + 1:j])
        j += 1
    raise TranslateError(f"{rel}: unbalanced braces in fn matching /{header_re}/")


def once(body, needle, rel, what):
    if body.count(needle) != 1:
        raise TranslateError(f"{rel}: expected exactly one `{needle}` in {what}, found {body.count(needle)}")
    return body.index(needle)


def facts():
    # ---- recreate_all: what follows the DeleteDirectory
    b = fn_body(read(FSS), FSS, r"pub\s+fn\s+recreate_all\s*\(")
    head = ("letmutoperations:Vec<FileSystemOperation>=Vec::new();"
            "operations.push(FileSystemOperation::DeleteDirectory(artifact_directory.to_path_buf()));")
    if not b.startswith(head):
        raise TranslateError(f"{FSS}: recreate_all no longer starts with the DeleteDirectory(artifact_directory) push")
    rest = b[len(head):]
    push_root = "operations.push(FileSystemOperation::CreateDirectory(artifact_directory.to_path_buf()));"
    loop = "for(new_server_object_entity_name,new_selectable_map)in&state.nested_files{"
    if rest.startswith(loop):
        create_root = "never"
    elif rest.startswith(push_root + loop):
        create_root = "always"
    elif rest.startswith("ifstate.nested_files.is_empty(){" + push_root + "}" + loop):
        create_root = "ifNoNested"
    else:
        raise TranslateError(f"{FSS}: recreate_all: unrecognised code between the DeleteDirectory push and the loop over "
                             f"state.nested_files: {rest[:160]!r}")
    # the model's op order inside recreate_all: nested groups (CreateDirectory then writes), then root files
    i_nested = once(b, "in&state.nested_files{", FSS, "recreate_all")
    i_root = once(b, "in&state.root_files{", FSS, "recreate_all")
    if not (i_nested < i_root and b.endswith("}operations")):
        raise TranslateError(f"{FSS}: recreate_all: loop order (nested files, then root files) changed")
    if b.count("FileSystemOperation::CreateDirectory(") != (1 if create_root == "never" else 2) or \
       b.count("FileSystemOperation::WriteFile(") != 2 or b.count("FileSystemOperation::DeleteDirectory(") != 1 or \
       "FileSystemOperation::DeleteFile(" in b:
        raise TranslateError(f"{FSS}: recreate_all pushes operations the model does not know")

    # ---- get_file_system_operations: plan, then overwrite the state
    g = fn_body(read(WA), WA, r"fn\s+get_file_system_operations\s*\(")
    i_new = once(g, "letnew_file_system_state=paths_and_contents.into();", WA, "get_file_system_operations")
    i_match = once(g, "letoperations=matchfile_system_state{None=>FileSystemState::recreate_all(&new_file_system_state,artifact_directory)"
                      ",Some(file_system_state)=>FileSystemState::diff(file_system_state,&new_file_system_state,artifact_directory)};",
                   WA, "get_file_system_operations")
    replaced = "*file_system_state=new_file_system_state.wrap_some();" in g
    if replaced:
        i_rep = once(g, "*file_system_state=new_file_system_state.wrap_some();", WA, "get_file_system_operations")
        if not (i_new < i_match < i_rep and g.endswith("operations")):
            raise TranslateError(f"{WA}: get_file_system_operations: statement order changed")
    elif "file_system_state=" in g.replace("letnew_file_system_state=", ""):
        raise TranslateError(f"{WA}: get_file_system_operations assigns the state in a way the model does not know")

    # ---- apply_file_system_operations: one loop, `?` on every I/O call, panics only at the index lookup
    a = fn_body(read(WA), WA, r"fn\s+apply_file_system_operations\s*\(")
    for needle in ("foroperationinoperations{", "ifpath.exists(){fs::remove_dir_all(path.clone())", "fs::create_dir_all(path.clone())",
                   "fs::write(path.clone(),content.as_bytes())", "fs::remove_file(path.clone())",
                   ".get(content.idx).expect("):
        once(a, needle, WA, "apply_file_system_operations")
    if a.count("})?;") != 4 or not a.endswith("Ok(count)"):
        raise TranslateError(f"{WA}: apply_file_system_operations: error propagation changed")

    # ---- compile: order of `?`, planning, applying; what happens to the state when applying fails
    c = fn_body(read(BC), BC, r"pub\s+fn\s+compile\s*<")
    i_val = once(c, "get_artifact_path_and_content(db)?;", BC, "compile")
    i_plan = once(c, "get_file_system_operations(", BC, "compile")
    i_apply = once(c, "apply_file_system_operations(", BC, "compile")
    if not (i_val < i_plan < i_apply):
        raise TranslateError(f"{BC}: compile: validation / planning / applying are no longer in this order")
    if "let(artifacts,stats)=get_artifact_path_and_content(db)?;" not in c:
        raise TranslateError(f"{BC}: compile: artifacts are not bound by `let (artifacts, stats) = get_artifact_path_and_content(db)?;`")
    if "get_file_system_operations(&artifacts,&config.artifact_directory.absolute_path,&mutstate.file_system_state);" not in c:
        raise TranslateError(f"{BC}: compile: get_file_system_operations is not called on &mut state.file_system_state")
    if "state.file_system_state" in c[:i_plan] or "fs::" in c:
        raise TranslateError(f"{BC}: compile touches the state or the file system before planning")
    # the statement holding the apply call
    start = c.rfind(";", 0, i_apply) + 1
    depth, j = 0, i_apply
    while j < len(c):
        if c[j] in "({[": depth += 1
        elif c[j] in ")}]": depth -= 1
        elif c[j] == ";" and depth == 0: break
        j += 1
    stmt = c[start:j + 1]
    tail = c[j + 1:]
    call = "apply_file_system_operations(&file_system_operations,&artifacts)"
    if stmt == f"lettotal_artifacts_written={call}.map_err(Diagnostic::from)?;":
        reset = False
    elif stmt == (f"lettotal_artifacts_written={call}.map_err(|e|{{state.file_system_state=None;Diagnostic::from(e)}})?;"):
        reset = True
    elif re.fullmatch(r"lettotal_artifacts_written=match" + re.escape(call) +
                      r"\{Ok\((\w+)\)=>\1,Err\((\w+)\)=>\{state\.file_system_state=None;return[^;{}]*;\}\};", stmt):
        reset = True
    else:
        raise TranslateError(f"{BC}: compile: unrecognised handling of the result of apply_file_system_operations: {stmt!r}")
    if "state.file_system_state" in tail or "?" in tail:
        raise TranslateError(f"{BC}: compile: the code after applying touches the state or can fail: {tail[:120]!r}")
    return {"createRoot": create_root, "stateReplacedBeforeApply": replaced, "resetOnIoError": reset}


def lean_bool(b):
    return "true" if b else "false"


def translate():
    f = facts()
    body = f"""import IsoVerif.Model.Fs
namespace IsoVerif.Gen.FsFacts
/-- `recreate_all`: is `CreateDirectory(artifact_directory)` pushed right after the `DeleteDirectory`? -/
def createRoot : IsoVerif.Fs.CreateRoot := .{f["createRoot"]}
/-- `get_file_system_operations` overwrites the in-memory state before the operations are applied -/
def stateReplacedBeforeApply : Bool := {lean_bool(f["stateReplacedBeforeApply"])}
/-- `compile` sets `state.file_system_state = None` when `apply_file_system_operations` fails -/
def resetOnIoError : Bool := {lean_bool(f["resetOnIoError"])}
end IsoVerif.Gen.FsFacts
"""
    return write_gen("FsFacts", body, [FSS, WA, BC])


def harness_env():
    """environment of the session engine: which variant of `compile`'s glue the source has"""
    try:
        return {"HX_FS_RESET": "1" if facts()["resetOnIoError"] else "0"}
    except TranslateError:
        return {"HX_FS_RESET": "0"}   # the check reports the translator failure itself


if __name__ == "__main__":
    print(facts())
    print(translate())
