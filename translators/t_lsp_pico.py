"""Fact about pico that the language-server state model (Model/LspState.lean, C21) depends on:
does a memoised function that reads an *absent* source / singleton register a dependency on it?
(DESIGN F1: it did not; a first write of a tracked field's counter singleton then went unnoticed.)

Read off `fn get_impl` in crates/pico/src/database.rs: the branch taken when the source node is
missing either returns `None` at once (`get_source_node(key)?`, or an empty `else` branch:
untracked) or calls
`register_dependency_in_parent_memoized_fn(..)` first (tracked).  Any other shape raises
TranslateError."""
import re
from .common import read, write_gen, TranslateError

SRC = "crates/pico/src/database.rs"


def translate():
    s = read(SRC)
    s = re.sub(r"//[^\n]*", "", s)
    m = re.search(r"fn\s+get_impl\s*<[^>]*>\s*\(\s*&self\s*,\s*key\s*:\s*Key\s*\)\s*->\s*Option<&T>\s*\{", s)
    if not m:
        raise TranslateError(f"{SRC}: fn get_impl<T>(&self, key: Key) -> Option<&T> not found")
    body = s[m.end():]
    if re.match(r"\s*let\s+source_node\s*=\s*self\.internal\.get_source_node\(key\)\?\s*;", body):
        # `?` returns None before any dependency is registered
        return _emit(False)
    m2 = re.match(r"\s*let\s+Some\(source_node\)\s*=\s*self\.internal\.get_source_node\(key\)\s*else\s*\{(.*?)return\s+None\s*;\s*\}\s*;", body, flags=re.S)
    if not m2:
        raise TranslateError(f"{SRC}: get_impl does not start with `let Some(source_node) = self.internal.get_source_node(key) else {{ .. return None; }};`")
    absent_branch = m2.group(1).strip()
    if absent_branch == "":
        tracked = False
    elif re.fullmatch(r"self\.register_dependency_in_parent_memoized_fn\(.*?\)\s*;", absent_branch, flags=re.S):
        tracked = True
    else:
        raise TranslateError(f"{SRC}: unexpected code in the absent-source branch of get_impl: {absent_branch!r}")
    return _emit(tracked)


def _emit(tracked):
    body_out = f"""namespace IsoVerif.Gen.LspPicoFacts
/-- `get_impl` registers a dependency when the source / singleton it reads is absent -/
def absentReadIsTracked : Bool := {"true" if tracked else "false"}
end IsoVerif.Gen.LspPicoFacts
"""
    return write_gen("LspPicoFacts", body_out, [SRC])


if __name__ == "__main__":
    print(translate())
