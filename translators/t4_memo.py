"""T4: every `#[memo]` function of /repo/crates (and of the harness engine `samesig`), with the key
the macro gives it NOW.

The facts are not computed here.  The key of a memoized function is built from
`sig.to_token_stream().to_string()` as printed by rustc's own token printer, which exists only
inside a macro expansion; so the scan runs at compile time of the harness package `hx_memo`
(proc macro `hx_memo_probe::scan!()`: compiler lexer, the same `syn`, `DefaultHasher`), and
`hx_memo sigs` prints the table.  This translator
  * builds `hx_memo` (a source file the scan cannot parse, a `#[memo]` inside a macro body, an
    unreachable file with a `#[memo]`, ... is a compile error there => TranslateError here),
  * reads the key recipe out of crates/pico_macros/src/memo_macro.rs (exact shapes only),
  * groups the sites by the database they can meet in, and formats Lean.
"""
import hashlib, os, re, shutil, subprocess
from .common import REPO, read, write_gen, lean_str, TranslateError

VERIF = os.path.dirname(os.path.dirname(os.path.abspath(__file__)))
HARNESS = os.path.join(VERIF, "harness")
MACRO_SRC = "crates/pico_macros/src/memo_macro.rs"
ALLOWED_ATTRS = {"doc", "allow", "expect", "warn", "deny", "inline", "must_use", "cold"}
MASK = (1 << 64) - 1


def _norm(s):
    """source text without comments, all whitespace removed"""
    s = re.sub(r"//[^\n]*", "", s)
    return re.sub(r"\s+", "", s)


def recipe():
    """(includes_site: bool, fnv_prime: int) -- how memo_macro.rs builds the function key."""
    src = read(MACRO_SRC)
    n = _norm(src)
    if "letfn_hash=hash(&sig);" not in n:
        raise TranslateError(f"{MACRO_SRC}: `let fn_hash = hash(&sig);` not found")
    if ("fnhash(input:&Signature)->u64{letmuts=DefaultHasher::new();"
            "input.to_token_stream().to_string().hash(&muts);s.finish()}") not in n:
        raise TranslateError(f"{MACRO_SRC}: fn hash is not DefaultHasher over `input.to_token_stream().to_string()`")
    uses = re.findall(r"DerivedNodeId::new\(([^,]*),param_ids\)", n)
    if len(uses) != 1:
        raise TranslateError(f"{MACRO_SRC}: expected exactly one `DerivedNodeId::new(<key>, param_ids)`, found {len(uses)}")
    key = uses[0]
    if key == "#fn_hash.into()":
        if "module_path!" in n or "line!()" in n:
            raise TranslateError(f"{MACRO_SRC}: key is `#fn_hash.into()` but the file mentions module_path!/line! -- shape not understood")
        return False, 0
    if key == "MEMO_FN_KEY.into()":
        m = re.search(r'constMEMO_FN_KEY:u64=\{letsite=concat!\(module_path!\(\),":",line!\(\),":",column!\(\)\)\.as_bytes\(\);'
                      r'letmutkey:u64=#fn_hash;letmuti=0;whilei<site\.len\(\)\{key=\(key\^site\[i\]asu64\)\.wrapping_mul\((0x[0-9a-fA-F_]+|\d[\d_]*)\);'
                      r'i\+=1;\}key\};', n)
        if not m:
            raise TranslateError(f"{MACRO_SRC}: const MEMO_FN_KEY is not the modelled FNV-1a fold of "
                                 "concat!(module_path!(), \":\", line!(), \":\", column!()) over #fn_hash")
        return True, int(m.group(1).replace("_", ""), 0)
    raise TranslateError(f"{MACRO_SRC}: function key expression `{key}` is not understood")


def build_harness():
    lock_src = os.path.join(REPO, "Cargo.lock")
    lock_dst = os.path.join(HARNESS, "Cargo.lock")
    stamp = os.path.join(HARNESS, ".lock.sha")
    try:
        h = hashlib.sha256(open(lock_src, "rb").read()).hexdigest()
    except OSError as e:
        raise TranslateError(f"cannot read {lock_src}: {e}")
    if not os.path.exists(lock_dst) or not os.path.exists(stamp) or open(stamp).read() != h:
        shutil.copy(lock_src, lock_dst)
        open(stamp, "w").write(h)
    env = dict(os.environ)
    env.setdefault("CARGO_NET_OFFLINE", "true")
    p = subprocess.run(["cargo", "build", "-q", "-p", "hx_memo", "--offline"], cwd=HARNESS, env=env,
                       stdout=subprocess.PIPE, stderr=subprocess.STDOUT, text=True, errors="replace")
    if p.returncode != 0:
        msg = p.stdout
        m = re.search(r"T4 cannot translate the #\[memo\] sites: .*", msg)
        raise TranslateError("the #[memo] scan (hx_memo_probe::scan!, run by rustc while building hx_memo) failed: "
                             + (m.group(0)[:1500] if m else msg[-1500:]))
    return os.path.join(HARNESS, "target", "debug", "hx_memo")


def unhex(s):
    return b"" if s == "-" else bytes.fromhex(s)


def read_sites(binary):
    p = subprocess.run([binary, "sigs"], stdout=subprocess.PIPE, stderr=subprocess.PIPE, text=True)
    if p.returncode != 0:
        raise TranslateError(f"hx_memo sigs exited {p.returncode}: {p.stderr[-800:]}")
    sites = []
    for line in p.stdout.splitlines():
        if not line.startswith("site\t"):
            continue
        d = {}
        for f in line.split("\t")[1:]:
            k, _, v = f.partition("=")
            d[k] = v
        need = ["crate", "kind", "root", "file", "module_path", "container", "name", "line", "col", "sig", "sig_hash",
                "arity", "db_type", "db_type_local", "args", "other_attrs", "cfgs"]
        for k in need:
            if k not in d:
                raise TranslateError(f"hx_memo sigs: field {k} missing in {line[:120]}")
        d["sig"] = unhex(d["sig"])
        d["args"] = unhex(d["args"]).decode()
        d["cfgs"] = unhex(d["cfgs"]).decode()
        for k in ("line", "col", "sig_hash", "arity"):
            d[k] = int(d[k])
        d["db_type_local"] = d["db_type_local"] == "true"
        d["qid"] = d["module_path"] + "::" + (d["container"] + "::" if d["container"] else "") + d["name"]
        sites.append(d)
    if not sites:
        raise TranslateError("hx_memo sigs printed no site")
    return sites


def fnv_fold(start, data, prime):
    k = start
    for b in data:
        k = ((k ^ b) * prime) & MASK
    return k


def check_site(s):
    where = f"{s['file']}:{s['line']} fn {s['name']}"
    if s["cfgs"]:
        raise TranslateError(f"{where}: conditional compilation around a #[memo] function is not modelled ({s['cfgs']})")
    for a in filter(None, s["other_attrs"].split(",")):
        if a not in ALLOWED_ATTRS:
            raise TranslateError(f"{where}: attribute #[{a}] next to #[memo] is not understood (an attribute macro would move the call site)")
    if s["args"] not in ("", "raw"):
        raise TranslateError(f"{where}: #[memo({s['args']})] is not understood")
    if not s["db_type"]:
        raise TranslateError(f"{where}: first parameter is not `db: &SomeDatabase`")


def group_of(s):
    """name of the set of functions that can meet in one database"""
    if s["crate"] == "hx_memo":
        return None
    rel = os.path.relpath(s["root"], REPO)
    if s["kind"] in ("lib", "bin"):
        # every non-test target: one group per database type name, across crates (an over-approximation:
        # a larger group only makes the no-duplicate statement stronger)
        return f"lib:{s['db_type']}"
    if not s["db_type_local"]:
        raise TranslateError(f"{s['file']}:{s['line']}: test-target #[memo] fn {s['name']} uses database type "
                             f"{s['db_type']} that is not defined in its own module -- cannot tell which functions share a database")
    return f"{s['kind']}:{rel}:{s['module_path']}:{s['db_type']}"


def lean_bytes(b):
    """`unpack len 0x…`: one numeral per text (a list literal of numerals per byte costs Lean minutes)"""
    return "[]" if not b else f"(unpack {len(b)} 0x{b.hex()})"


def lean_site(ident, s, key):
    """one `def` per site: a single big list literal exceeds Lean's elaboration depth"""
    comment = s["sig"].decode("utf-8", "replace").replace("\n", " ")
    comment = comment.replace("-/", "- /").replace("/-", "/ -")
    return ("-- " + s["qid"] + "  (" + os.path.relpath(s["file"], REPO) + ":" + str(s["line"]) + ":" + str(s["col"]) + ")\n"
            "-- " + comment + "\n"
            "def " + ident + " : Site :=\n  { qid := " + lean_str(s["qid"]) + ", modulePath := " + lean_bytes(s["module_path"].encode()) +
            ", line := " + str(s["line"]) + ", col := " + str(s["col"]) +
            ", name := " + lean_bytes(s["name"].encode()) + ",\n    sig := " + lean_bytes(s["sig"]) +
            ",\n    sigHash := " + str(s["sig_hash"]) + ", arity := " + str(s["arity"]) + ", key := " + str(key) + " }\n")


def translate():
    includes_site, prime = recipe()
    binary = build_harness()
    sites = read_sites(binary)
    for s in sites:
        check_site(s)
        text = f"{s['module_path']}:{s['line']}:{s['col']}".encode()
        s["key"] = fnv_fold(s["sig_hash"], text, prime) if includes_site else s["sig_hash"]
    groups = {}
    harness = []
    for s in sites:
        g = group_of(s)
        if g is None:
            harness.append(s)
        else:
            groups.setdefault(g, []).append(s)
    if not any(g.startswith("lib:") for g in groups):
        raise TranslateError("no lib-target #[memo] function found under /repo/crates")
    if not harness:
        raise TranslateError("the samesig functions of hx_memo are missing from the scan")
    # pairs with identical signature text in different groups (information for the evidence)
    by_sig = {}
    for s in sites:
        if s["crate"] != "hx_memo":
            by_sig.setdefault(s["sig"], []).append(s)
    same_sig_sets = sum(1 for v in by_sig.values() if len(v) > 1)
    same_sig_sites = sum(len(v) for v in by_sig.values() if len(v) > 1)

    out = ["namespace IsoVerif.Gen.MemoSigs", "",
           "/-- One `#[memo]` function: where it is defined, the exact text the macro hashes",
           "(`sig.to_token_stream().to_string()`, UTF-8 byte values), `DefaultHasher` of that text, and the function key",
           "the macro builds today (computed by the harness with the recipe below). -/",
           "structure Site where",
           "  qid : String", "  modulePath : List Nat", "  line : Nat", "  col : Nat", "  name : List Nat",
           "  sig : List Nat", "  sigHash : Nat", "  arity : Nat", "  key : Nat", "",
           "structure Group where", "  name : String", "  sites : List Site", "",
           "/-- the `len` big-endian base-256 digits of `n` -/",
           "def unpack (len n : Nat) : List Nat := (List.range len).map fun i => (n >>> (8 * (len - 1 - i))) % 256", "",
           "/-- Recipe found in " + MACRO_SRC + ": is the definition site",
           "(`concat!(module_path!(), \":\", line!(), \":\", column!())`) folded into the signature hash? -/",
           f"def keyIncludesSite : Bool := {'true' if includes_site else 'false'}",
           "/-- multiplier of the fold (0 when the site is not used) -/",
           f"def fnvPrime : Nat := {prime}", "",
           f"def sameSigSetsAcrossRepo : Nat := {same_sig_sets}   -- signature texts used by more than one #[memo] function",
           f"def sameSigSitesAcrossRepo : Nat := {same_sig_sites}", ""]
    names = sorted(groups)
    for i, g in enumerate(names):
        ids = []
        for j, st in enumerate(groups[g]):
            ids.append(f"g{i}s{j}")
            out.append(lean_site(ids[-1], st, st["key"]))
        out.append(f"def group{i} : Group := {{ name := {lean_str(g)}, sites := [" + ", ".join(ids) + "] }")
        out.append("")
    out.append("/-- every group of functions that can meet in one database -/")
    out.append("def groups : List Group := [" + ", ".join(f"group{i}" for i in range(len(names))) + "]")
    out.append("")
    out.append("/-- the functions of the harness engine `samesig` (crate hx_memo), one database -/")
    ids = []
    for j, st in enumerate(harness):
        ids.append(f"h{j}")
        out.append(lean_site(ids[-1], st, st["key"]))
    out.append("def harnessSites : List Site := [" + ", ".join(ids) + "]")
    out.append("")
    out.append("end IsoVerif.Gen.MemoSigs")
    srcs = [MACRO_SRC, "every #[memo] item reachable from a target root under crates/ (scan run by rustc: hx_memo_probe)",
            "/verif/harness/memo/src/samesig*.rs"]
    return write_gen("MemoSigs", "\n".join(out) + "\n", srcs)


def summary():
    """numbers for the evidence (does not rebuild)"""
    binary = os.path.join(HARNESS, "target", "debug", "hx_memo")
    sites = read_sites(binary)
    repo = [s for s in sites if s["crate"] != "hx_memo"]
    groups = {}
    for s in repo:
        groups.setdefault(group_of(s), []).append(s)
    by_sig = {}
    for s in repo:
        by_sig.setdefault(s["sig"], []).append(s["qid"])
    return {
        "memo_sites_lib": sum(1 for s in repo if s["kind"] in ("lib", "bin")),
        "memo_sites_test_targets": sum(1 for s in repo if s["kind"] not in ("lib", "bin")),
        "harness_sites": len(sites) - len(repo),
        "groups": {g: len(v) for g, v in sorted(groups.items())},
        "equal_signature_sets_across_groups": sorted([sorted(v) for v in by_sig.values() if len(v) > 1])[:40],
    }


if __name__ == "__main__":
    print(translate())
