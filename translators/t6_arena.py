"""T6: constants and shape facts of the vendored relay `intern` crate.

  relay-crates/intern/src/atomic_arena.rs   MIN_SHIFT, U32_BITS, MIN_SIZE, NUM_SIZES, MAX_INDEX,
                                            the shift of `bucket_capacity`, the two initial values
                                            of `next_biased_index`, the shape of `index`
  relay-crates/intern/src/sharded_set.rs    SHARD_SHIFT, SHARDS, the shift/mask of `hash_and_shard`
  relay-crates/intern/src/small_bytes.rs    SMALL_MAX_LEN (evaluated for a 64-bit target)

-> lean/IsoVerif/Gen/ArenaConsts.lean.  Anything not of the expected shape raises TranslateError.
"""
import re
from .common import read, write_gen, TranslateError

ARENA = "relay-crates/intern/src/atomic_arena.rs"
SHARD = "relay-crates/intern/src/sharded_set.rs"
SMALL = "relay-crates/intern/src/small_bytes.rs"

USIZE_BYTES = 8  # modelled target: 64-bit (checked against the built harness by the engine `consts`)

TYPE_BITS = {"u8": 8, "u16": 16, "u32": 32, "u64": 64, "usize": 8 * USIZE_BYTES}


def strip_comments(s):
    s = re.sub(r"/\*.*?\*/", "", s, flags=re.S)
    return re.sub(r"//[^\n]*", "", s)


class ConstEval:
    """Evaluator for the integer constant expressions that occur in the three files:
    literals, earlier constants, + - * << >> & , parentheses, `as T`, `std::u32::MAX`,
    `size_of::<usize>()`.  Everything else is a TranslateError."""

    TOK = re.compile(r"\s*(?:(\d[\d_]*)(?:(?:u8|u16|u32|u64|usize))?|((?:[A-Za-z_][A-Za-z0-9_]*)(?:::(?:<[A-Za-z0-9_]+>|[A-Za-z_][A-Za-z0-9_]*))*)|(<<|>>|[-+*&()]))")

    def __init__(self, env, where):
        self.env, self.where = env, where

    def tokens(self, text):
        out, i = [], 0
        text = text.strip()
        while i < len(text):
            m = self.TOK.match(text, i)
            if not m or m.end() == i:
                raise TranslateError(f"{self.where}: cannot tokenise constant expression {text!r} at {text[i:]!r}")
            if m.group(1) is not None:
                out.append(("int", int(m.group(1).replace("_", ""))))
            elif m.group(2) is not None:
                out.append(("id", m.group(2)))
            else:
                out.append(("op", m.group(3)))
            i = m.end()
            while i < len(text) and text[i].isspace():
                i += 1
        return out

    def eval(self, text):
        self.t = self.tokens(text)
        self.i = 0
        v = self.expr(0)
        if self.i != len(self.t):
            raise TranslateError(f"{self.where}: trailing tokens in constant expression {text!r}")
        return v

    # precedence (Rust): `as` > `*` > `+ -` > `<< >>` > `&`
    LEVELS = [["&"], ["<<", ">>"], ["+", "-"], ["*"]]

    def peek(self):
        return self.t[self.i] if self.i < len(self.t) else (None, None)

    def expr(self, lvl):
        if lvl == len(self.LEVELS):
            return self.cast()
        v = self.expr(lvl + 1)
        while self.peek()[0] == "op" and self.peek()[1] in self.LEVELS[lvl]:
            op = self.peek()[1]
            self.i += 1
            w = self.expr(lvl + 1)
            if op == "&": v = v & w
            elif op == "<<": v = v << w
            elif op == ">>": v = v >> w
            elif op == "+": v = v + w
            elif op == "-":
                v = v - w
                if v < 0:
                    raise TranslateError(f"{self.where}: constant expression underflows")
            elif op == "*": v = v * w
        return v

    def cast(self):
        v = self.atom()
        while self.peek() == ("id", "as"):
            self.i += 1
            k, ty = self.peek()
            if k != "id" or ty not in TYPE_BITS:
                raise TranslateError(f"{self.where}: cast to unknown type {ty!r}")
            self.i += 1
            if v >= 1 << TYPE_BITS[ty]:
                raise TranslateError(f"{self.where}: cast truncates")
        return v

    def atom(self):
        k, x = self.peek()
        self.i += 1
        if k == "int":
            return x
        if k == "op" and x == "(":
            v = self.expr(0)
            if self.peek() != ("op", ")"):
                raise TranslateError(f"{self.where}: missing )")
            self.i += 1
            return v
        if k == "id":
            if x in ("std::u32::MAX", "u32::MAX"):
                return (1 << 32) - 1
            if x in ("size_of::<usize>", "std::mem::size_of::<usize>"):
                if self.peek() != ("op", "(") :
                    raise TranslateError(f"{self.where}: size_of without ()")
                self.i += 1
                if self.peek() != ("op", ")"):
                    raise TranslateError(f"{self.where}: size_of with arguments")
                self.i += 1
                return USIZE_BYTES
            if x in self.env:
                return self.env[x]
        raise TranslateError(f"{self.where}: unknown atom {x!r} in constant expression")


def consts_of(src, where, names):
    """Evaluate `const NAME: T = expr;` for the given names, in source order; every other
    top-level integer const of the file must be one of the names (nothing is silently skipped)."""
    env = {}
    found = re.findall(r"^const\s+([A-Z_0-9]+)\s*:\s*(u32|usize|u64)\s*=\s*([^;]+);", src, flags=re.M)
    seen = [n for n, _, _ in found]
    for n in names:
        if n not in seen:
            raise TranslateError(f"{where}: const {n} not found")
    for n in seen:
        if n not in names:
            raise TranslateError(f"{where}: unexpected integer const {n} (model does not know it)")
    for n, ty, e in found:
        v = ConstEval(env, where).eval(e)
        if v >= 1 << TYPE_BITS[ty]:
            raise TranslateError(f"{where}: const {n} overflows {ty}")
        env[n] = v
    return env


def fn_body(src, where, sig_re):
    m = re.search(sig_re + r"\s*\{", src)
    if not m:
        raise TranslateError(f"{where}: function {sig_re!r} not found")
    i = m.end()
    depth = 1
    j = i
    while j < len(src) and depth:
        if src[j] == "{": depth += 1
        elif src[j] == "}": depth -= 1
        j += 1
    if depth:
        raise TranslateError(f"{where}: unbalanced braces")
    return src[i:j - 1]


def norm(s):
    return re.sub(r"\s+", " ", s).strip()


def translate():
    a = strip_comments(read(ARENA))
    # cfg-guarded hook statements are not part of the modelled code
    a_nohook = re.sub(r'#\[cfg\(feature = "isographlabs_isograph_verif"\)\]\s*(?:pub fn [^{]*\{[^}]*\}|[^;]*;)', "", a)
    env = consts_of(a_nohook, ARENA, ["MIN_SHIFT", "U32_BITS", "MIN_SIZE", "NUM_SIZES", "MAX_INDEX"])

    # fn bucket_capacity(a) = (1 << K) >> (a as u32)
    body = norm(fn_body(a_nohook, ARENA, r"fn\s+bucket_capacity\s*\(\s*a\s*:\s*usize\s*\)\s*->\s*usize"))
    m = re.fullmatch(r"\(1 << (\d+)\) >> \(a as u32\)", body)
    if not m:
        raise TranslateError(f"{ARENA}: bucket_capacity is not `(1 << K) >> (a as u32)`: {body!r}")
    top_shift = int(m.group(1))

    # fn index: a = i.leading_zeros(); b = i & ((bucket_capacity(0) as u32 - 1) >> a)
    body = norm(fn_body(a_nohook, ARENA, r"fn\s+index\s*\(\s*i\s*:\s*u32\s*\)\s*->\s*\(\s*usize\s*,\s*usize\s*\)"))
    body = re.sub(r"memory_consistency_assert(?:_eq)?!\((?:[^()]|\([^()]*\))*\);", "", body)
    want = "let a = i.leading_zeros() as usize; let b = (i & ((bucket_capacity(0) as u32 - 1) >> a)) as usize; (a, b)"
    if norm(body) != want:
        raise TranslateError(f"{ARENA}: fn index is not of the modelled shape: {norm(body)!r}")

    # initial values of next_biased_index in new() and with_zero()
    inits = re.findall(r"next_biased_index\s*:\s*AtomicU32::new\(([^)]*)\)", a_nohook)
    if len(inits) != 2:
        raise TranslateError(f"{ARENA}: expected two initialisations of next_biased_index, found {len(inits)}")
    init_new = ConstEval(env, ARENA).eval(inits[0])
    init_zero = ConstEval(env, ARENA).eval(inits[1])
    # number of bucket slots spelled out in new()
    new_body = fn_body(a_nohook, ARENA, r"pub\s+const\s+fn\s+new\s*\(\s*\)\s*->\s*Self")
    n_ptrs = len(re.findall(r"AtomicPtr::new\(", new_body))
    # unbias / wraparound checks
    if not re.search(r"self\.biased_index\.get\(\)\s*-\s*MIN_SIZE", a_nohook):
        raise TranslateError(f"{ARENA}: Ref::index is not `biased_index - MIN_SIZE`")
    if not re.search(r"assert!\(s >= MIN_SIZE\);", a_nohook):
        raise TranslateError(f"{ARENA}: add_get no longer asserts `s >= MIN_SIZE`")
    if not re.search(r"\(self\.next_biased_index\.load\(Ordering::Relaxed\)\s*-\s*MIN_SIZE\)\s*as\s+usize", a_nohook):
        raise TranslateError(f"{ARENA}: len() is not `next_biased_index - MIN_SIZE`")
    # the atomic operations of add_get / slice_for_slot(_slow), in source order
    add = norm(fn_body(a_nohook, ARENA, r"pub\s+fn\s+add_get\s*\(\s*&self\s*,\s*element\s*:\s*T\s*\)\s*->\s*\(Ref<'a,\s*T>,\s*&T\)"))
    order = ["self.next_biased_index.fetch_add(1,", "assert!(s >= MIN_SIZE)", "index(s)", "self.slice_for_slot(a)", "*e_ptr = MaybeUninit::new(element)"]
    pos = [add.find(x) for x in order]
    if -1 in pos or pos != sorted(pos):
        raise TranslateError(f"{ARENA}: add_get no longer performs fetch_add / assert / index / slice_for_slot / write in this order")
    slow = norm(fn_body(a_nohook, ARENA, r"fn\s+slice_for_slot_slow\s*\(\s*&self\s*,\s*a\s*:\s*usize\s*\)\s*->\s*NonNull<MaybeUninit<T>>"))
    order = ["self.bucket_alloc_mutex.lock()", "self.buckets[a as usize].load(Ordering::Relaxed)", "return curr;", "Vec::with_capacity(cap)", "self.buckets[a as usize].store(ptr, Ordering::Release)", "drop(lock)"]
    pos = [slow.find(x) for x in order]
    if -1 in pos or pos != sorted(pos):
        raise TranslateError(f"{ARENA}: slice_for_slot_slow no longer is lock / re-check / allocate / store / unlock")

    s = strip_comments(read(SHARD))
    s_nohook = re.sub(r'#\[cfg\(feature = "isographlabs_isograph_verif"\)\]\s*(?:pub fn [^{]*\{[^}]*\}|[^;]*;)', "", s)
    senv = consts_of(s_nohook, SHARD, ["SHARD_SHIFT", "SHARDS"])
    m = re.search(r"&self\.shards\[\(hash >> \(([^\]]*?)\)\) as usize & \(([^\]]*?)\)\]", norm(s_nohook))
    if not m:
        raise TranslateError(f"{SHARD}: hash_and_shard is not `shards[(hash >> (E)) as usize & (M)]`")
    hash_shift = ConstEval(senv, SHARD).eval(m.group(1))
    hash_mask = ConstEval(senv, SHARD).eval(m.group(2))
    n_shards = len(re.findall(r"Default::default\(\),", fn_body(s_nohook, SHARD, r"pub\s+fn\s+with_hasher\s*\(\s*h\s*:\s*S\s*\)\s*->\s*Self")))

    b = strip_comments(read(SMALL))
    b_nohook = re.sub(r'#\[cfg\(feature = "isographlabs_isograph_verif"\)\]\s*(?:pub fn [^{]*\{[^}]*\}|[^;]*;)', "", b)
    benv = consts_of(b_nohook, SMALL, ["SMALL_MAX_LEN"])
    mk = norm(fn_body(b_nohook, SMALL, r"fn\s+make_small\s*\(\s*b\s*:\s*&\[u8\]\s*\)\s*->\s*Option<SmallBytes>"))
    if "if l <= SMALL_MAX_LEN {" not in mk or "len: l as u8" not in mk:
        raise TranslateError(f"{SMALL}: make_small is not `if l <= SMALL_MAX_LEN {{ … len: l as u8 … }}`")

    body = f"""namespace IsoVerif.Gen.ArenaConsts
/-- `MIN_SHIFT` -/
def minShift : Nat := {env['MIN_SHIFT']}
/-- `U32_BITS` -/
def u32Bits : Nat := {env['U32_BITS']}
/-- `MIN_SIZE = 1 << MIN_SHIFT` (value computed by the translator from the source expression) -/
def minSize : Nat := {env['MIN_SIZE']}
/-- `NUM_SIZES = U32_BITS - MIN_SHIFT` -/
def numSizes : Nat := {env['NUM_SIZES']}
/-- `MAX_INDEX = u32::MAX - MIN_SIZE` -/
def maxIndex : Nat := {env['MAX_INDEX']}
/-- `bucket_capacity(a) = (1 << topShift) >> a` -/
def topShift : Nat := {top_shift}
/-- `next_biased_index` of `AtomicArena::new()` -/
def initNext : Nat := {init_new}
/-- `next_biased_index` of `AtomicArena::with_zero(..)` -/
def initNextZero : Nat := {init_zero}
/-- number of `AtomicPtr::new(..)` entries spelled out in `new()` -/
def numBucketPtrs : Nat := {n_ptrs}
/-- `SHARD_SHIFT` -/
def shardShift : Nat := {senv['SHARD_SHIFT']}
/-- `SHARDS = 1 << SHARD_SHIFT` -/
def shards : Nat := {senv['SHARDS']}
/-- `hash >> hashShift` selects the shard (`64 - 7 - SHARD_SHIFT`) -/
def hashShift : Nat := {hash_shift}
/-- `& hashMask` (`SHARDS - 1`) -/
def hashMask : Nat := {hash_mask}
/-- number of `Default::default()` shard entries spelled out in `with_hasher` -/
def numShardInits : Nat := {n_shards}
/-- `SMALL_MAX_LEN = 3 * size_of::<usize>() - 2` for `size_of::<usize>() = {USIZE_BYTES}` -/
def smallMaxLen : Nat := {benv['SMALL_MAX_LEN']}
end IsoVerif.Gen.ArenaConsts
"""
    return write_gen("ArenaConsts", body, [ARENA, SHARD, SMALL])


if __name__ == "__main__":
    print(translate())
