"""T1: crates/isograph_lang_parser/src/token_kind.rs  ->  lean/IsoVerif/Gen/IsoTokens.lean

For every `#[derive(Logos)]` enum of the file (IsographLangTokenKind and the two sub-lexers
StringToken / BlockStringToken used by the callbacks): the variants in declaration order (a Lean
inductive), and the rules `#[token("..")]` / `#[regex("..")]` in declaration order as
(kind, regex AST, logos priority, is-literal-token, skip?, callback name).  The regex AST is the
small one of `IsoVerif.Lex.RE` over Unicode scalar values.

Also emitted (used by Model/IsoLex.lean, which models these by hand):
  * pins (sha256 of the comment/whitespace-stripped source) of the callbacks `lex_string`,
    `lex_block_string`; the translator FAILS if they differ from the text the hand model was
    written against (PINNED below);
  * the four number regexes and the logos version: logos 0.12's generated automaton does not
    backtrack to the last accepting position for these (see IsoLex.lean), so the number scanner is a
    hand model of that automaton, valid for exactly these regexes and logos 0.12.x;
  * the semantic-token legend (`pub const ST_*` of isograph_lang_types/src/semantic_token_legend/mod.rs)
    as name -> canonical value string `<lsp number><line behaviour><indent>`.

Anything not understood raises TranslateError (never a silent skip).
"""
import hashlib, re
from translators.common import TranslateError, read, write_gen, lean_str

SRC = "crates/isograph_lang_parser/src/token_kind.rs"
LEGEND_SRC = "crates/isograph_lang_types/src/semantic_token_legend/mod.rs"

# what Model/IsoLex.lean was written against
PINNED = {
    "lex_string": "e0b57d36",
    "lex_block_string": "e05ebbc8",
    "logos": "0.12",
    "numbers": {
        "IntegerLiteral": "-?(0|[1-9][0-9]*)",
        "ErrorNumberLiteralLeadingZero": "-?0[0-9]+(\\.[0-9]+[eE][+-]?[0-9]+|\\.[0-9]+|[eE][+-]?[0-9]+)?",
        "ErrorNumberLiteralTrailingInvalid": "-?(0|[1-9][0-9]*)(\\.[0-9]+[eE][+-]?[0-9]+|\\.[0-9]+|[eE][+-]?[0-9]+)?[.a-zA-Z_]",
        "ErrorFloatLiteralMissingZero": "-?(\\.[0-9]+[eE][+-]?[0-9]+|\\.[0-9]+)",
    },
}


# ---------------------------------------------------------------------------------- Rust scanning
def rust_items(src):
    """Tokenise Rust source into ('code', text) / ('str', value) pieces, dropping comments.
    String values are the *regex/token text* (escapes of normal literals processed)."""
    out, i, n = [], 0, len(src)
    buf = ""
    while i < n:
        c = src[i]
        if src.startswith("//", i):
            j = src.find("\n", i)
            i = n if j < 0 else j
        elif src.startswith("/*", i):
            j = src.find("*/", i)
            if j < 0:
                raise TranslateError("unterminated block comment")
            i = j + 2
        elif c == "r" and re.match(r'r#*"', src[i:]) and (i == 0 or not (src[i - 1].isalnum() or src[i - 1] == "_")):
            m = re.match(r'r(#*)"', src[i:])
            hashes = m.group(1)
            start = i + m.end()
            end = src.find('"' + hashes, start)
            if end < 0:
                raise TranslateError("unterminated raw string")
            if buf:
                out.append(("code", buf)); buf = ""
            out.append(("str", src[start:end]))
            i = end + 1 + len(hashes)
        elif c == '"':
            j = i + 1
            val = ""
            while True:
                if j >= n:
                    raise TranslateError("unterminated string")
                if src[j] == "\\":
                    e = src[j + 1]
                    if e == "n": val += "\n"
                    elif e == "r": val += "\r"
                    elif e == "t": val += "\t"
                    elif e == "\\": val += "\\"
                    elif e == '"': val += '"'
                    elif e == "'": val += "'"
                    elif e == "0": val += "\0"
                    elif e == "\n":
                        j += 2
                        while j < n and src[j] in " \t\r\n":
                            j += 1
                        continue
                    elif e == "x":
                        val += chr(int(src[j + 2:j + 4], 16)); j += 4
                        continue
                    elif e == "u":
                        um = re.match(r"\{([0-9a-fA-F_]+)\}", src[j + 2:])
                        if not um:
                            raise TranslateError("bad \\u escape in a Rust string literal")
                        val += chr(int(um.group(1).replace("_", ""), 16)); j += 2 + um.end()
                        continue
                    else:
                        raise TranslateError(f"unsupported escape \\{e} in a Rust string literal")
                    j += 2
                elif src[j] == '"':
                    break
                else:
                    val += src[j]; j += 1
            if buf:
                out.append(("code", buf)); buf = ""
            out.append(("str", val))
            i = j + 1
        elif c == "'" and re.match(r"'(\\.|[^\\'])'", src[i:]):
            m = re.match(r"'(\\.|[^\\'])'", src[i:])
            buf += src[i:i + m.end()]
            i += m.end()
        else:
            buf += c
            i += 1
    if buf:
        out.append(("code", buf))
    return out


# ---------------------------------------------------------------------------------- regex parsing
class RegexParser:
    def __init__(self, text):
        self.t, self.i = text, 0

    def err(self, what):
        raise TranslateError(f"regex {self.t!r}: {what} at offset {self.i}")

    def peek(self):
        return self.t[self.i] if self.i < len(self.t) else None

    def parse(self):
        r = self.alt()
        if self.i != len(self.t):
            self.err("unexpected character")
        return r

    def alt(self):
        parts = [self.seq()]
        while self.peek() == "|":
            self.i += 1
            parts.append(self.seq())
        r = parts[-1]
        for p in reversed(parts[:-1]):
            r = ("alt", p, r)
        return r

    def seq(self):
        parts = []
        while self.peek() is not None and self.peek() not in "|)":
            parts.append(self.postfix())
        if not parts:
            return ("eps",)
        r = parts[-1]
        for p in reversed(parts[:-1]):
            r = ("seq", p, r)
        return r

    def postfix(self):
        a = self.atom()
        while self.peek() is not None and self.peek() in "*+?":
            op = self.peek()
            self.i += 1
            if self.peek() == "?":
                self.err("lazy quantifiers are not supported")
            a = ({"*": "star", "+": "plus", "?": "opt"}[op], a)
        if self.peek() == "{":
            self.err("counted repetition is not supported")
        return a

    def escape(self, in_class):
        # after the backslash
        c = self.peek()
        if c is None:
            self.err("dangling backslash")
        self.i += 1
        if c == "u":
            h = self.t[self.i:self.i + 4]
            if not re.fullmatch(r"[0-9A-Fa-f]{4}", h):
                self.err("\\u needs four hex digits")
            self.i += 4
            return int(h, 16)
        if c == "x":
            h = self.t[self.i:self.i + 2]
            if not re.fullmatch(r"[0-9A-Fa-f]{2}", h):
                self.err("\\x needs two hex digits")
            self.i += 2
            return int(h, 16)
        simple = {"n": 10, "r": 13, "t": 9, "f": 12, "v": 11, "0": 0}
        if c in simple:
            return simple[c]
        if c in "\\\"/.[]()|*+?{}^$-'":
            return ord(c)
        self.err(f"unsupported escape \\{c} (character classes such as \\d, \\w, \\s are not handled)")

    def atom(self):
        c = self.peek()
        if c == "(":
            self.i += 1
            if self.peek() == "?":
                self.err("group flags are not supported")
            r = self.alt()
            if self.peek() != ")":
                self.err("missing )")
            self.i += 1
            return r
        if c == "[":
            return self.cls()
        if c == ".":
            self.i += 1
            return ("any",)
        if c == "\\":
            self.i += 1
            return ("chr", self.escape(False))
        if c in "^$":
            self.err("anchors are not supported")
        if c in "*+?{})|":
            self.err("unexpected metacharacter")
        self.i += 1
        return ("chr", ord(c))

    def cls(self):
        self.i += 1
        neg = False
        if self.peek() == "^":
            neg = True
            self.i += 1
        ranges = []
        first = True
        while True:
            c = self.peek()
            if c is None:
                self.err("unterminated class")
            if c == "]" and not first:
                self.i += 1
                break
            first = False
            if c == "[":
                self.err("nested classes / posix classes are not supported")
            lo = self.class_char()
            if self.peek() == "-" and self.i + 1 < len(self.t) and self.t[self.i + 1] != "]":
                self.i += 1
                hi = self.class_char()
                if hi < lo:
                    self.err("reversed range")
                ranges.append((lo, hi))
            else:
                ranges.append((lo, lo))
        return ("cls", ranges, neg)

    def class_char(self):
        c = self.peek()
        if c == "\\":
            self.i += 1
            return self.escape(True)
        self.i += 1
        return ord(c)


def priority(r):
    k = r[0]
    if k == "chr": return 2
    if k in ("cls", "any"): return 1
    if k == "seq": return priority(r[1]) + priority(r[2])
    if k == "alt": return min(priority(r[1]), priority(r[2]))
    if k == "plus": return priority(r[1])
    return 0  # eps, star, opt


def lean_re(r):
    k = r[0]
    if k == "eps": return "RE.eps"
    if k == "any": return "RE.any"
    if k == "chr": return f"(RE.chr {r[1]})"
    if k == "cls":
        rs = ", ".join(f"({a}, {b})" for a, b in r[1])
        return f"(RE.cls [{rs}] {'true' if r[2] else 'false'})"
    if k in ("seq", "alt"): return f"(RE.{k} {lean_re(r[1])} {lean_re(r[2])})"
    return f"(RE.{k} {lean_re(r[1])})"


def literal_re(s):
    r = None
    for ch in reversed(s):
        r = ("chr", ord(ch)) if r is None else ("seq", ("chr", ord(ch)), r)
    if r is None:
        raise TranslateError("empty #[token] literal")
    return r


# ---------------------------------------------------------------------------------- enums
def logos_enums(items):
    """[(enum name, [variant], [rule dict], error variant)]"""
    # rebuild a code string where every string literal is replaced by a placeholder
    code, strs = "", []
    for kind, v in items:
        if kind == "str":
            code += f"\x00{len(strs)}\x00"
            strs.append(v)
        else:
            code += v
    out = []
    for m in re.finditer(r"#\[derive\(([^)]*)\)\]\s*(?:#\[[^\]]*\]\s*)*pub\s+enum\s+(\w+)\s*\{", code):
        if "Logos" not in [x.strip() for x in m.group(1).split(",")]:
            continue
        name = m.group(2)
        depth, j = 1, m.end()
        while depth:
            if j >= len(code):
                raise TranslateError(f"enum {name}: unbalanced braces")
            depth += {"{": 1, "}": -1}.get(code[j], 0)
            j += 1
        body = code[m.end():j - 1]
        variants, rules, err = [], [], None
        pos = 0
        pending = []
        while True:
            mm = re.compile(r"\s*(#\[(\w+)(?:\(([^\]]*)\))?\]|(\w+)\s*(?:,|$))").match(body, pos)
            if not mm:
                if body[pos:].strip():
                    raise TranslateError(f"enum {name}: cannot parse near {body[pos:pos + 40]!r} (variants with payloads are not handled)")
                break
            pos = mm.end()
            if mm.group(2):
                pending.append((mm.group(2), mm.group(3)))
                continue
            variant = mm.group(4)
            variants.append(variant)
            for attr, arg in pending:
                if attr == "error":
                    if err is not None:
                        raise TranslateError(f"enum {name}: two #[error] variants")
                    err = variant
                elif attr in ("token", "regex"):
                    am = re.fullmatch(r"\s*\x00(\d+)\x00\s*(?:,\s*([\w:]+)\s*)?", arg or "")
                    if not am:
                        raise TranslateError(f"{name}::{variant}: unsupported #[{attr}] arguments {arg!r} (priority=, ignore(..) are not handled)")
                    text = strs[int(am.group(1))]
                    cb = am.group(2)
                    skip = cb in ("logos::skip", "skip")
                    if attr == "token":
                        r = literal_re(text)
                        prio = 2 * len(text.encode("utf-8"))
                    else:
                        r = RegexParser(text).parse()
                        prio = priority(r)
                    rules.append({"kind": variant, "re": r, "prio": prio, "lit": attr == "token", "skip": skip,
                                  "cb": None if (cb is None or skip) else cb, "text": text})
                else:
                    raise TranslateError(f"{name}::{variant}: unknown attribute #[{attr}]")
            pending = []
        if err is None:
            raise TranslateError(f"enum {name}: no #[error] variant")
        out.append((name, variants, rules, err))
    return out


def norm_hash(text):
    return hashlib.sha256(re.sub(r"\s+", "", text).encode()).hexdigest()[:8]


def fn_source(items, fname):
    code = ""
    for kind, v in items:
        code += ('"' + v + '"') if kind == "str" else v
    m = re.search(r"fn\s+" + fname + r"\s*\(", code)
    if not m:
        raise TranslateError(f"callback {fname} not found")
    j = code.index("{", m.end())
    depth, k = 1, j + 1
    while depth:
        depth += {"{": 1, "}": -1}.get(code[k], 0)
        k += 1
    return code[m.start():k]


# ---------------------------------------------------------------------------------- legend
def legend():
    items = rust_items(read(LEGEND_SRC))
    code = " ".join("".join(v if k == "code" else '""' for k, v in items).split())
    lsp = {m.group(1): int(m.group(2)) for m in re.finditer(r"const (LSP_ST_\w+): LspSemanticToken = LspSemanticToken\((\d+)\);", code)}
    out = []
    for m in re.finditer(r"pub const (ST_\w+): IsographSemanticToken = IsographSemanticToken \{(.*?)\};", code):
        name, body = m.group(1), m.group(2)
        bm = re.fullmatch(r"\s*lsp_semantic_token: (\w+), line_behavior: (.*), indent_change: IndentChange::(\w+),?\s*", body)
        if not bm or bm.group(1) not in lsp:
            raise TranslateError(f"legend constant {name}: unexpected shape {body!r}")
        lb = re.sub(r"\s+", "", bm.group(2))
        def b(x):
            return {"true": "1", "false": "0"}[x]
        mm = re.fullmatch(r"LineBehavior::StartsNewLine\(StartsNewLineBehavior\{space_after:SpaceAfter\((\w+)\),\}\)", lb)
        if mm: s = "N" + b(mm.group(1))
        elif (mm := re.fullmatch(r"LineBehavior::EndsLine\(EndsLineBehavior\{space_before:SpaceBefore\((\w+)\),\}\)", lb)): s = "E" + b(mm.group(1))
        elif (mm := re.fullmatch(r"LineBehavior::Inline\(InlineBehavior\{space_before:SpaceBefore\((\w+)\),space_after:SpaceAfter\((\w+)\),\}\)", lb)): s = "I" + b(mm.group(1)) + b(mm.group(2))
        elif lb == "LineBehavior::IsOwnLine": s = "O"
        elif lb == "LineBehavior::Remove": s = "R"
        else:
            raise TranslateError(f"legend constant {name}: unknown line behaviour {lb}")
        ind = {"Indent": "+", "Dedent": "-", "Same": "="}.get(bm.group(3))
        if ind is None:
            raise TranslateError(f"legend constant {name}: unknown indent change")
        out.append((name, f"{lsp[bm.group(1)]}{s}{ind}"))
    if not out:
        raise TranslateError("no ST_* constant found")
    return out


# ---------------------------------------------------------------------------------- main
def logos_version():
    lock = read("Cargo.lock")
    m = re.search(r'name = "logos"\nversion = "([^"]+)"', lock)
    if not m:
        raise TranslateError("logos not found in Cargo.lock")
    return m.group(1)


def translate():
    src = read(SRC)
    items = rust_items(src)
    enums = logos_enums(items)
    names = [e[0] for e in enums]
    for need in ("IsographLangTokenKind", "StringToken", "BlockStringToken"):
        if need not in names:
            raise TranslateError(f"Logos enum {need} not found in {SRC}")
    main = enums[names.index("IsographLangTokenKind")]
    cbs = sorted({r["cb"] for r in main[2] if r["cb"]})
    if cbs != ["lex_block_string", "lex_string"]:
        raise TranslateError(f"callbacks changed: {cbs} (Model/IsoLex.lean models lex_string and lex_block_string)")
    for e in enums:
        if e[0] != "IsographLangTokenKind" and any(r["cb"] or r["skip"] for r in e[2]):
            raise TranslateError(f"sub-lexer {e[0]} has callbacks / skips: not handled")
    pins = {}
    for cb in cbs:
        pins[cb] = norm_hash(fn_source(items, cb))
        if pins[cb] != PINNED[cb]:
            raise TranslateError(f"callback {cb} changed (pin {pins[cb]}, model written against {PINNED[cb]}): re-derive the hand model in Model/IsoLex.lean")
    ver = logos_version()
    if not ver.startswith(PINNED["logos"] + "."):
        raise TranslateError(f"logos {ver}: the number scanner of Model/IsoLex.lean models the automaton generated by logos {PINNED['logos']}.x")
    nums = {r["kind"]: r["text"] for r in main[2] if r["kind"] in PINNED["numbers"]}
    if nums != PINNED["numbers"]:
        raise TranslateError(f"number regexes changed: {nums}: re-derive the number scanner of Model/IsoLex.lean")
    prefixes = {"IsographLangTokenKind": "iso", "StringToken": "string", "BlockStringToken": "block"}
    tnames = {"IsographLangTokenKind": "IsoKind", "StringToken": "StringKind", "BlockStringToken": "BlockKind"}
    body = "import IsoVerif.Model.Lex\nnamespace IsoVerif.Gen.IsoTokens\nopen IsoVerif.Lex\n\n"
    for ename, variants, rules, err in enums:
        if ename not in prefixes:
            raise TranslateError(f"unexpected Logos enum {ename}")
        t, p = tnames[ename], prefixes[ename]
        body += f"/-- variants of `{ename}` in declaration order -/\ninductive {t} where\n"
        body += "".join(f"  | {v}\n" for v in variants)
        body += "  deriving DecidableEq, Repr, Inhabited\n\n"
        body += f"def {t}.name : {t} → String\n" + "".join(f"  | .{v} => \"{v}\"\n" for v in variants) + "\n"
        body += f"/-- `#[token]` / `#[regex]` rules of `{ename}` in declaration order -/\ndef {p}Rules : List (Rule {t}) := [\n"
        body += ",\n".join(
            f"  -- {r['text']!r}\n  {{ kind := .{r['kind']}, re := {lean_re(r['re'])}, prio := {r['prio']}, isLit := {'true' if r['lit'] else 'false'}, "
            f"skip := {'true' if r['skip'] else 'false'}, cb := {('some ' + lean_str(r['cb'])) if r['cb'] else 'none'} }}"
            for r in rules) + "\n]\n\n"
        body += f"/-- the `#[error]` variant -/\ndef {p}Error : {t} := .{err}\n\n"
    body += "def callbackPins : List (String × String) := [" + ", ".join(f"({lean_str(k)}, {lean_str(v)})" for k, v in sorted(pins.items())) + "]\n"
    body += f"def logosVersion : String := {lean_str(ver)}\n"
    body += "def numberRegexSources : List (String × String) := [" + ", ".join(f"({lean_str(k)}, {lean_str(v)})" for k, v in sorted(nums.items())) + "]\n\n"
    body += "/-- `pub const ST_*` of the semantic token legend: name ↦ `<lsp number><line behaviour><indent change>` -/\n"
    body += "def legend : List (String × String) := [\n" + ",\n".join(f"  ({lean_str(k)}, {lean_str(v)})" for k, v in legend()) + "\n]\n"
    body += "\nend IsoVerif.Gen.IsoTokens\n"
    return write_gen("IsoTokens", body, [SRC, LEGEND_SRC, "Cargo.lock"])


if __name__ == "__main__":
    print(translate())
