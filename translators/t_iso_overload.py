"""The `WhitespaceCharacter` union that build_iso_overload_artifact writes into iso.ts
(crates/artifact_content/src/iso_overload_file.rs) -> Gen/IsoOverloadLits.lean.

The Rust source holds the TypeScript text inside an ordinary string literal; the line
`type WhitespaceCharacter = ' ' | '\\t' | '\\n';` is un-escaped twice: Rust literal -> TypeScript text ->
the characters the TypeScript literals denote.  The shape of `Whitespace<In>` and
`MatchesWhitespaceAndString` (strip leading members, then prefix test) is pinned textually."""
import re
from .common import read, rust_unescape, lean_bytes, write_gen, TranslateError

SRC = "crates/artifact_content/src/iso_overload_file.rs"

TS_ESC = {"t": "\t", "n": "\n", "r": "\r", "f": "\f", "v": "\v", "0": "\0", "\\": "\\", "'": "'", '"': '"'}


def ts_unescape(inner):
    out, i = "", 0
    while i < len(inner):
        c = inner[i]
        if c != "\\":
            out += c; i += 1; continue
        i += 1
        if i >= len(inner): raise TranslateError("dangling backslash in a WhitespaceCharacter member")
        e = inner[i]
        if e in TS_ESC:
            out += TS_ESC[e]; i += 1
        elif e == "u" and re.match(r"[0-9a-fA-F]{4}", inner[i + 1:i + 5]):
            out += chr(int(inner[i + 1:i + 5], 16)); i += 5
        elif e == "x" and re.match(r"[0-9a-fA-F]{2}", inner[i + 1:i + 3]):
            out += chr(int(inner[i + 1:i + 3], 16)); i += 3
        else:
            raise TranslateError(f"unknown TypeScript escape \\{e} in a WhitespaceCharacter member")
    return out


def translate():
    s = read(SRC)
    m = re.search(r"type WhitespaceCharacter = ([^;\n]*);", s)
    if not m:
        raise TranslateError(f"{SRC}: `type WhitespaceCharacter = …;` not found")
    ts_text = rust_unescape(m.group(1)).decode("utf-8")
    members = []
    for part in ts_text.split("|"):
        t = part.strip()
        if len(t) < 2 or t[0] != "'" or t[-1] != "'":
            raise TranslateError(f"{SRC}: WhitespaceCharacter member {t!r} is not a single-quoted literal")
        v = ts_unescape(t[1:-1])
        if v == "":
            raise TranslateError(f"{SRC}: empty WhitespaceCharacter member")
        members.append(v)
    # the two types that use it: strip leading members recursively, then `${TString}${string}`
    flat = re.sub(r"\s+", " ", s)
    if "type Whitespace<In> = In extends `${WhitespaceCharacter}${infer In}` ? Whitespace<In> : In;" not in flat:
        raise TranslateError(f"{SRC}: the shape of `Whitespace<In>` changed")
    if "> = Whitespace<T> extends `${TString}${string}` ? T : never;" not in flat:
        raise TranslateError(f"{SRC}: the shape of `MatchesWhitespaceAndString` changed")
    body = "namespace IsoVerif.Gen.IsoOverloadLits\n\n"
    body += "/-- members of `WhitespaceCharacter`, UTF-8, in source order: " + ts_text.replace("-/", "- /") + " -/\n"
    body += "def whitespace : List (List UInt8) := [" + ", ".join(lean_bytes(v.encode("utf-8")) for v in members) + "]\n\n"
    body += "end IsoVerif.Gen.IsoOverloadLits\n"
    return write_gen("IsoOverloadLits", body, [SRC])


if __name__ == "__main__":
    print(translate())
