"""T7 (watch part): the literals and shape facts of the watch-mode source reading that the M-WATCH
model (lean/IsoVerif/Model/Watch.lean) is parameterised by, read from the current Rust source.

Literals
  sourceExtensions   the file extensions `read_files.rs` accepts (`matches!(extension, Some("ts") | ...)`)
  isographMarker     the substring of a path that excludes it (`.contains("__isograph")`); checked to be
                     equal to `isograph_config::ISOGRAPH_FOLDER` (the model relies on it: whatever
                     `visit_dirs_skipping_isograph` does not descend into is excluded by the substring test)

Facts (each one is a place where the unchanged code deviated from "watch = fresh batch compile", F10)
  prefixByComponents   `remove_iso_literals_from_path` compares with `Path::starts_with` (true) or with
                       `str::starts_with` on the relative path strings (false)
  singleFileFiltered   `create_or_update_iso_literals` (single-file events) applies the filter of
                       `read_files_in_folder`
  renameReadsTarget    a file rename removes the source and reads the target unconditionally (true), or
                       reads the target only when the source was tracked (false)
  nonUtf8Skipped       `read_file` returns `None` for a file that is not UTF-8 (true) or an error (false)
  fromToHandled        `process_modify_event` treats `RenameMode::From`/`To` like `Any` (true) or ignores them
  createFolderHandled  `process_create_event` handles `CreateKind::Folder` like `CreateKind::File`

Shapes the hand-written model relies on are pinned (TranslateError = tie broken): the order of the tests
in `categorize_changed_file_and_filter_changes_in_artifact_directory`, `update_sources` dispatching on the
five `ChangedFileKind`s, the three arms of the four handlers.
"""
import re
from .common import read, write_gen, lean_bytes, TranslateError
from .t_fs import strip_comments, norm

RF = "crates/isograph_compiler/src/read_files.rs"
SF = "crates/isograph_compiler/src/source_files.rs"
WA = "crates/isograph_compiler/src/watch.rs"
DB = "crates/isograph_schema/src/isograph_database.rs"
CO = "crates/isograph_config/src/compilation_options.rs"


def fn_text(src, rel, name):
    """normalised text of `fn name ... { body }` (first occurrence), braces balanced"""
    s = strip_comments(src)
    m = re.search(r"\bfn\s+" + re.escape(name) + r"\b", s)
    if not m:
        raise TranslateError(f"{rel}: fn {name} not found")
    i = m.end()
    # the body starts at the first `{` at parenthesis/angle depth 0 after the signature
    depth = 0
    while i < len(s):
        c = s[i]
        if c in "(<[":
            depth += 1
        elif c in ")]":
            depth -= 1
        elif c == ">" and s[i - 1] != "-":
            depth -= 1
        elif c == "{" and depth <= 0:
            break
        i += 1
    if i >= len(s):
        raise TranslateError(f"{rel}: body of fn {name} not found")
    j, d = i, 0
    while j < len(s):
        if s[j] == "{":
            d += 1
        elif s[j] == "}":
            d -= 1
            if d == 0:
                break
        j += 1
    return norm(s[m.start():j + 1])


def one_of(rel, what, text, options):
    """options: list of (needle, value); exactly one needle must occur"""
    hits = [v for needle, v in options if needle in text]
    if len(hits) != 1:
        raise TranslateError(f"{rel}: {what}: none (or several) of the known shapes found")
    return hits[0]


def translate():
    rf, sf, wa, db, co = read(RF), read(SF), read(WA), read(DB), read(CO)

    # ---- literals
    m = re.search(r'pub\s+static\s+ISOGRAPH_FOLDER\s*:\s*&str\s*=\s*"([^"\\]*)"\s*;', co)
    if not m:
        raise TranslateError(f"{CO}: ISOGRAPH_FOLDER not found as a plain string literal")
    folder = m.group(1)
    filt_fn = "is_iso_literal_source_path" if re.search(r"\bfn\s+is_iso_literal_source_path\b", strip_comments(rf)) else "read_files_in_folder"
    filt = fn_text(rf, RF, filt_fn)
    m = re.search(r'matches!\(extension,((?:Some\("[A-Za-z0-9]+"\)\|?)+)\)', filt)
    if not m:
        raise TranslateError(f"{RF}: `matches!(extension, Some(\"..\") | ...)` not found in {filt_fn}")
    exts = re.findall(r'Some\("([A-Za-z0-9]+)"\)', m.group(1))
    if "letextension=p.extension().and_then(|x|x.to_str());" not in filt:
        raise TranslateError(f"{RF}: extension is no longer `p.extension().and_then(|x| x.to_str())`")
    m = re.search(r'!p\.to_str\(\)\.expect\("[^"]*"\)\.contains\("([^"\\]*)"\)', filt)
    if not m:
        raise TranslateError(f"{RF}: `!p.to_str().expect(..).contains(\"..\")` not found in {filt_fn}")
    marker = m.group(1)
    if marker != folder:
        raise TranslateError(f"{RF}: the excluded substring {marker!r} differs from ISOGRAPH_FOLDER {folder!r}")
    rfif = fn_text(rf, RF, "read_files_in_folder")
    if filt_fn != "read_files_in_folder" and ".filter(|p|is_iso_literal_source_path(p))" not in rfif:
        raise TranslateError(f"{RF}: read_files_in_folder does not filter with is_iso_literal_source_path")
    visit = fn_text(rf, RF, "visit_dirs_skipping_isograph")
    if "ifpath.is_dir(){if!dir.ends_with(ISOGRAPH_FOLDER){visit_dirs_skipping_isograph(&path,cb)?;}}else{cb(&entry);}" not in visit:
        raise TranslateError(f"{RF}: visit_dirs_skipping_isograph changed shape")

    # ---- facts
    rm = fn_text(db, DB, "remove_iso_literals_from_path")
    prefix_by_components = one_of(DB, "remove_iso_literals_from_path", rm, [
        (".extract_if(|k,_|std::path::Path::new(k.lookup()).starts_with(relative_path))", True),
        (".extract_if(|k,_|k.to_string().starts_with(relative_path))", False)])
    cu = fn_text(sf, SF, "create_or_update_iso_literals")
    single_file_filtered = cu.split("{", 1)[1].startswith("if!is_iso_literal_source_path(path){returnOk(());}")
    if not single_file_filtered and "is_iso_literal_source_path" in cu:
        raise TranslateError(f"{SF}: create_or_update_iso_literals uses the filter in an unknown way")
    hf = fn_text(sf, SF, "handle_update_source_file")
    rename_reads_target = one_of(SF, "handle_update_source_file / Rename", hf, [
        ("db.remove_iso_literal(source_file_path);create_or_update_iso_literals(db,target_path)?", True),
        ("ifdb.remove_iso_literal(source_file_path).is_some(){create_or_update_iso_literals(db,target_path)?}", False)])
    rdf = fn_text(rf, RF, "read_file")
    non_utf8_skipped = one_of(RF, "read_file", rdf, [
        ("matchString::from_utf8(contents){Ok(contents)=>(relative_path,contents).wrap_some().wrap_ok(),Err(e)=>{warn!(", True),
        ('"convertfiletoutf8")})?', False)])
    if non_utf8_skipped:
        if ".filter_map(|path|read_file(path,current_working_directory).transpose())" not in rfif:
            raise TranslateError(f"{RF}: read_files_in_folder does not skip the files read_file skips")
        if "matchread_file(path.to_path_buf(),db.get_current_working_directory())?{Some((relative_path,content))=>db.insert_iso_literal(relative_path,content),None=>{" not in cu or "db.remove_iso_literal(relative_path);" not in cu:
            raise TranslateError(f"{SF}: create_or_update_iso_literals does not remove a skipped file")
    pm = fn_text(wa, WA, "process_modify_event")
    from_to_handled = one_of(WA, "process_modify_event / RenameMode", pm, [
        ("RenameMode::Any|RenameMode::From|RenameMode::To=>{", True),
        ("matchrename_mode{RenameMode::Any=>{", False)])
    pc = fn_text(wa, WA, "process_create_event")
    create_folder_handled = one_of(WA, "process_create_event / CreateKind", pc, [
        ("CreateKind::File|CreateKind::Folder=>{", True),
        ("matchcreate_kind{CreateKind::File=>{", False)])

    # ---- pinned shapes
    cat = fn_text(wa, WA, "categorize_changed_file_and_filter_changes_in_artifact_directory")
    want = ("if!path.starts_with(&config.artifact_directory.absolute_path){ifpath.starts_with(&config.project_root){ifpath.is_file(){"
            "returnChangedFileKind::JavaScriptSourceFile.wrap_some();}else{returnChangedFileKind::JavaScriptSourceFolder.wrap_some();}}"
            "elseifpath==&config.schema.absolute_path{returnChangedFileKind::Schema.wrap_some();}"
            "elseifconfig.schema_extensions.iter().any(|x|x.absolute_path==*path){returnChangedFileKind::SchemaExtension.wrap_some();}"
            "elseifpath==&config.config_location{returnChangedFileKind::Config.wrap_some();}}None")
    if want not in cat:
        raise TranslateError(f"{WA}: categorize_changed_file_and_filter_changes_in_artifact_directory changed shape")
    if "ifpaths[0].is_file(){categorize_changed_file_and_filter_changes_in_artifact_directory(config,&paths[0])" not in pm:
        raise TranslateError(f"{WA}: process_modify_event / Data changed shape")
    if "ifpaths[0].exists(){(SourceEventKind::CreateOrModify(paths[0].clone()),file_kind)}else{(SourceEventKind::Remove(paths[0].clone()),file_kind)}" not in pm:
        raise TranslateError(f"{WA}: process_modify_event / Any changed shape")
    if "categorize_changed_file_and_filter_changes_in_artifact_directory(config,&paths[1]).map(|file_kind|{(SourceEventKind::Rename((paths[0].clone(),paths[1].clone())),file_kind)})" not in pm:
        raise TranslateError(f"{WA}: process_modify_event / Both changed shape")
    pr = fn_text(wa, WA, "process_remove_event")
    if "RemoveKind::File|RemoveKind::Folder|RemoveKind::Any=>{" not in pr:
        raise TranslateError(f"{WA}: process_remove_event changed shape")
    us = fn_text(sf, SF, "update_sources")
    for arm in ("ChangedFileKind::Schema=>handle_update_schema(db,event).err()",
                "ChangedFileKind::SchemaExtension=>handle_update_schema_extensions(db,event).err()",
                "ChangedFileKind::JavaScriptSourceFile=>handle_update_source_file(db,event).err()",
                "ChangedFileKind::JavaScriptSourceFolder=>handle_update_source_folder(db,event).err()"):
        if arm not in us:
            raise TranslateError(f"{SF}: update_sources no longer has the arm {arm}")
    hfo = fn_text(sf, SF, "handle_update_source_folder")
    if ("SourceEventKind::CreateOrModify(folder)=>{read_iso_literals_from_folder(db,folder)?;}"
        "SourceEventKind::Rename((source_path,target_path))=>{remove_iso_literals_from_folder(db,source_path);read_iso_literals_from_folder(db,target_path)?;}"
        "SourceEventKind::Remove(path)=>{remove_iso_literals_from_folder(db,path);}") not in hfo:
        raise TranslateError(f"{SF}: handle_update_source_folder changed shape")

    b = lambda x: "true" if x else "false"
    body = f"""namespace IsoVerif.Gen.WatchLits
def sourceExtensions : List (List UInt8) := [{", ".join(lean_bytes(e.encode()) for e in exts)}]
def isographMarker : List UInt8 := {lean_bytes(marker.encode())}
def prefixByComponents : Bool := {b(prefix_by_components)}
def singleFileFiltered : Bool := {b(single_file_filtered)}
def renameReadsTarget : Bool := {b(rename_reads_target)}
def nonUtf8Skipped : Bool := {b(non_utf8_skipped)}
def fromToHandled : Bool := {b(from_to_handled)}
def createFolderHandled : Bool := {b(create_folder_handled)}
end IsoVerif.Gen.WatchLits
"""
    return write_gen("WatchLits", body, [RF, SF, WA, DB, CO])


if __name__ == "__main__":
    print(translate())
