/-
C08 — The compiler never crashes on any project.

What is a theorem here, and what is not.  The strong part of the check is the subprocess ORACLE: generated,
mutated and known-defect projects and byte-mutated demo projects go through the real `isograph_cli` binary
(exit status, signal, stderr) and watch-mode recompiles through one `CompilerState`; every run must end with
exit 0 and artifacts, or exit 1 and at least one diagnostic.

The Lean part models the panic sites on the artifact-generation path that the structured projects can reach
(`Model/Core/ArtsPanic.lean`: the unbounded recursion through client fields that select each other, the
missing refetch strategy of an `@loadable` client field, list values) as explicit `Except.error site`
outcomes of the walk the generator performs, and proves that inside the envelope none of them is reached
(`C08_no_panic_partial`).  The model is tied to the compiler by correspondence: for every generated project
of the streams `valid`, `cycle`, `lwrs` the model's outcome (`nopanic` or the site) must equal what the real
binary does.  Outside the envelope the property is FALSE (witnesses below; open findings).

PARTIAL: every `expect`/`panic!`/index outside `modelledSites` — config and schema parsing, the iso parser,
validation, the other artifact printers, the file system, watch mode — is covered by the oracle only.
-/
import IsoVerif.Lemmas.ArtsPanic

set_option linter.unusedSimpArgs false

namespace IsoVerif.Props.C08
open IsoVerif.Core IsoVerif.Core.ArtsPanic

/-- the sites the theorem speaks about -/
def modelledSites : List Site := [.stackOverflow, .expectedRefetchStrategy, .listsNotSupported]

/-- the property for one accepted project, restricted to the modelled sites -/
def C08_statement_at (p : Project) : Prop := genOutcome p = .ok ()

/-- the site reached, if any (decidable view of `genOutcome`) -/
def siteReached (p : Project) : Option Site :=
  match genOutcome p with
  | .ok _ => none
  | .error s => some s

theorem not_statement_of_site {p : Project} {s : Site} (h : siteReached p = some s) : ¬ C08_statement_at p := by
  intro hok
  unfold C08_statement_at at hok
  unfold siteReached at h
  rw [hok] at h
  cases h

/-- Inside the envelope — declaration i only selects client fields / pointers declared before it, no list
values, `@loadable` client fields only on types with a refetch strategy — artifact generation reaches none of
the modelled panic sites. -/
theorem C08_no_panic_partial (p : Project) (h : inEnvelope p = true) : C08_statement_at p :=
  genOutcome_ok_of_inEnvelope p h

example : inEnvelope nonVacuityProject = true := by decide +kernel

/-- every site is one of the listed ones (the list is the whole `Site` type) -/
theorem C08_modelled_sites_complete (s : Site) : s ∈ modelledSites := by cases s <;> decide

private def qSchema : Schema :=
  { types := [⟨"Query", none, .object [] [⟨"name", none, [], .named "String"⟩, ⟨"me", none, [], .named "Query"⟩,
                                           ⟨"holder", none, [], .named "Holder"⟩]⟩,
              ⟨"Stats", none, .object [] [⟨"n", none, [], .named "Int"⟩]⟩,
              ⟨"Holder", none, .object [] [⟨"stats", none, [], .named "Stats"⟩]⟩] }

private def sel (n : String) : Selection := .scalar ⟨none, n, [], []⟩

/-- F20: `field Query.A { B }`, `field Query.B { A }`, `entrypoint Query.A` -/
def cyclicProject : Project :=
  { schema := qSchema, extensions := [],
    decls := [("src/a.ts", .clientField ⟨"Query", "A", [], [], none, [sel "B"]⟩),
              ("src/a.ts", .clientField ⟨"Query", "B", [], [], none, [sel "A"]⟩),
              ("src/a.ts", .entrypoint ⟨"Query", "A", []⟩)],
    options := {}, extraFiles := [] }

/-- F20 (open finding `cyclic-client-fields-stack-overflow`): the walk never ends. -/
theorem C08_witness_cycle : siteReached cyclicProject = some .stackOverflow ∧ ¬ C08_statement_at cyclicProject := by
  have h : siteReached cyclicProject = some .stackOverflow := by
    simp [siteReached, genOutcome, fuelFor, entrypointsOf, walkEntrypoints, walkDecl, walkSels, walkSel,
      checkLoadables, refetchable, rootTypes, Project.decl?, Validate.lookup, Validate.isLoadable, argsHaveList, sel, qSchema,
      Schema.get?, Schema.isComposite, TypeDef.isComposite, TypeDef.field?, TypeDef.fields, Decl.isEntrypoint, Decl.parent,
      Decl.name, Validate.isExposedOn, TypeDef.isAbstract, TypeDef.hasId, SelHead.hasDirective, TypeRef.inner,
      Validate.argDefsOf, cyclicProject]
  exact ⟨h, not_statement_of_site h⟩

/-- `field Stats.Card { n }` selected `@loadable` below `holder { stats { … } }`: `Stats` has no `id` and is no
root type, so there is no refetch strategy. -/
def loadableWithoutStrategyProject : Project :=
  { schema := qSchema, extensions := [],
    decls := [("src/a.ts", .clientField ⟨"Stats", "Card", [], [], none, [sel "n"]⟩),
              ("src/a.ts", .clientField ⟨"Query", "Home", [], [], none,
                 [.linked ⟨none, "holder", [], []⟩
                    [.linked ⟨none, "stats", [], []⟩ [.scalar ⟨none, "Card", [], [⟨"loadable", []⟩]⟩]]]⟩),
              ("src/a.ts", .entrypoint ⟨"Query", "Home", []⟩)],
    options := {}, extraFiles := [] }

/-- open finding `panic:expected-refetch-strategy` -/
theorem C08_witness_loadable_without_refetch_strategy :
    siteReached loadableWithoutStrategyProject = some .expectedRefetchStrategy ∧
    ¬ C08_statement_at loadableWithoutStrategyProject := by
  have h : siteReached loadableWithoutStrategyProject = some .expectedRefetchStrategy := by
    simp [siteReached, genOutcome, fuelFor, entrypointsOf, walkEntrypoints, walkDecl, walkSels, walkSel,
      checkLoadables, refetchable, rootTypes, Project.decl?, Validate.lookup, Validate.isLoadable, argsHaveList, sel, qSchema,
      Schema.get?, Schema.isComposite, TypeDef.isComposite, TypeDef.field?, TypeDef.fields, Decl.isEntrypoint, Decl.parent,
      Decl.name, Validate.isExposedOn, TypeDef.isAbstract, TypeDef.hasId, SelHead.hasDirective, TypeRef.inner,
      Validate.argDefsOf, loadableWithoutStrategyProject]
  exact ⟨h, not_statement_of_site h⟩

/-- a cycle that no entrypoint reaches is harmless (the real compiler agrees: exit 0) -/
example : siteReached { cyclicProject with decls := cyclicProject.decls.take 2 } = none := by
  simp [siteReached, genOutcome, fuelFor, entrypointsOf, walkEntrypoints, walkDecl, walkSels, walkSel,
    checkLoadables, refetchable, rootTypes, Project.decl?, Validate.lookup, Validate.isLoadable, argsHaveList, sel, qSchema,
    Schema.get?, Schema.isComposite, TypeDef.isComposite, TypeDef.field?, TypeDef.fields, Decl.isEntrypoint, Decl.parent,
    Decl.name, Validate.isExposedOn, TypeDef.isAbstract, TypeDef.hasId, SelHead.hasDirective, TypeRef.inner,
    Validate.argDefsOf, cyclicProject]

end IsoVerif.Props.C08
