/-
C06 — The lock-free arena hands out each slot once and reads back what was added.

Models: `IsoVerif.Arena` (bit level, `Model/Arena.lean`) and `IsoVerif.ArenaT` (thread-indexed
transition system, `Model/ArenaTrace.lean`); the numbers are regenerated from
`relay-crates/intern/src/atomic_arena.rs` by translator T6 (`Gen/ArenaConsts.lean`).

The trace-level theorems quantify over EVERY finite trace `tr` of atomic steps of any number
of threads (`run s₀ tr = some s`), from `AtomicArena::new()` (`init`) or
`AtomicArena::with_zero(z)` (`initZero z`).  The only hypothesis on the trace is that the
32-bit counter did not wrap (`s.next < W`, i.e. fewer than `2^32 - MIN_SIZE` additions — the
code panics beyond that).  The model is sequentially consistent: `Acquire/Release/Relaxed`
are not distinguished.

Statements only; lemmas are in `Lemmas/Arena.lean`, `Lemmas/ArenaTrace.lean`,
`Lemmas/ArenaInv.lean`, `Lemmas/ArenaThms.lean`.
-/
import IsoVerif.Lemmas.ArenaThms

namespace IsoVerif.Props.C06
open IsoVerif.Arena IsoVerif.ArenaT IsoVerif.Gen.ArenaConsts

/-! ## Bit level: `index` / `bucket_capacity` -/

/-- The constants of the source fit together (re-proved whenever T6 regenerates them). -/
theorem C06_consts :
    minSize = 2 ^ minShift ∧ numSizes + minShift = u32Bits ∧ u32Bits = 32 ∧ topShift + 1 = u32Bits ∧
    maxIndex + minSize = 2 ^ 32 - 1 ∧ initNext = minSize ∧ initNextZero = minSize + 1 ∧
    numBucketPtrs = numSizes ∧ 0 < minShift := by
  exact consts_fit

/-- For EVERY valid biased index: bucket number in range, offset inside the bucket, and the
index is reconstructed as `base a + b` (no enumeration: `Nat.log2` bounds). -/
theorem C06_index_spec (i : Nat) (h1 : minSize ≤ i) (h2 : i < 2 ^ 32) :
    ∃ a b, index i = some (a, b) ∧ a < numSizes ∧ b < bucketCapacity a ∧ i = bucketBase a + b := by
  exact index_spec i h1 h2

example : minSize ≤ 4294967295 ∧ 4294967295 < 2 ^ 32 := by decide

/-- The same over `BitVec 32`. -/
theorem C06_index_spec_bv (i : BitVec 32) (h1 : minSize ≤ i.toNat) :
    ∃ a b, indexBV i = some (a, b) ∧ a < numSizes ∧ b < bucketCapacity a ∧ i.toNat = bucketBase a + b := by
  exact index_spec i.toNat h1 i.isLt

example : minSize ≤ (300#32).toNat := by decide

/-- `index` is injective on all non-zero `u32` (so two different reserved indices never share a slot). -/
theorem C06_index_injective (i j : Nat) (hi0 : i ≠ 0) (hj0 : j ≠ 0) (hi : i < 2 ^ 32) (hj : j < 2 ^ 32)
    (h : index i = index j) : i = j := by
  exact index_injective i j hi0 hj0 hi hj h

example : (255 : Nat) ≠ 0 ∧ (256 : Nat) ≠ 0 ∧ 255 < 2 ^ 32 ∧ 256 < 2 ^ 32 := by decide

/-- Monotonicity across bucket boundaries: `i+1` is the next offset of the same bucket, or
offset 0 of the bucket before it exactly when the bucket of `i` is full. -/
theorem C06_index_succ (i : Nat) (h0 : i ≠ 0) (h : i + 1 < 2 ^ 32) :
    ∃ a b a' b', index i = some (a, b) ∧ index (i + 1) = some (a', b') ∧
      ((a' = a ∧ b' = b + 1 ∧ b + 1 < bucketCapacity a) ∨
       (a = a' + 1 ∧ b' = 0 ∧ b + 1 = bucketCapacity a)) := by
  exact index_succ i h0 h

example : (255 : Nat) ≠ 0 ∧ 255 + 1 < 2 ^ 32 := by decide

/-- Larger indices live in an earlier-numbered bucket or further in the same one. -/
theorem C06_index_order (i j : Nat) (hi0 : i ≠ 0) (hi : i < 2 ^ 32) (hj : j < 2 ^ 32) (hij : i < j) :
    ∃ a b a' b', index i = some (a, b) ∧ index j = some (a', b') ∧ (a' < a ∨ (a' = a ∧ b < b')) := by
  exact index_lt_iff i j hi0 hi hj hij

example : (128 : Nat) ≠ 0 ∧ 128 < 2 ^ 32 ∧ 70000 < 2 ^ 32 ∧ 128 < 70000 := by decide

/-- Offsets of a bucket map back to that bucket (the inverse direction of `C06_index_spec`). -/
theorem C06_index_of_base_add (a b : Nat) (ha : a ≤ 31) (hb : b < bucketCapacity a) :
    idxA (bucketBase a + b) = a ∧ idxB (bucketBase a + b) = b := by
  exact idx_base_add ha hb

example : (24 : Nat) ≤ 31 ∧ 127 < bucketCapacity 24 := by decide

/-- The capacities sum correctly: the buckets `a … numSizes-1` plus the `minSize` unused low
indices tile exactly the indices below `2 * capacity a`; all buckets together hold exactly
the indices `minSize ≤ i < 2^32`. -/
theorem C06_capacity_tiles :
    (∀ n a, a + n = numSizes → 0 < n → minSize + capSum a n = 2 * bucketCapacity a) ∧
    minSize + capSum 0 numSizes = 2 ^ 32 ∧ bucketCapacity (numSizes - 1) = minSize := by
  exact ⟨capSum_tiles, capSum_all, bucketCapacity_last⟩

/-- `Drop`'s fencepost: the full buckets after `last_a` plus `last_b + 1` slots are exactly
the `l - MIN_SIZE` slots handed out. -/
theorem C06_drop_count (l : Nat) (h1 : minSize < l) (h2 : l ≤ 2 ^ 32) :
    capSum (idxA (l - 1) + 1) (numSizes - (idxA (l - 1) + 1)) + (idxB (l - 1) + 1) = l - minSize := by
  exact drop_count l h1 h2

example : minSize < 257 ∧ 257 ≤ 2 ^ 32 := by decide

/-! ## Trace level -/

/-- an arena as created by `new()` or `with_zero(z)` -/
def Start (s₀ : St) : Prop := s₀ = init ∨ ∃ z, s₀ = initZero z

theorem start_inv {s₀ : St} (h : Start s₀) : Inv s₀ := by
  rcases h with rfl | ⟨z, rfl⟩
  · exact inv_init
  · exact inv_initZero z

/-- **C06_unique**: two completed `add`s never return the same `Ref`. -/
theorem C06_unique (s₀ s : St) (tr : List Label) (h0 : Start s₀) (hr : run s₀ tr = some s) (hw : s.next < W) :
    (addRefs s.hist).Nodup := by
  exact (inv_run (start_inv h0) hr hw).hist_nodup

/-- **C06_readback**: a `get r` that started after an `add` had returned `r` for element `v`
(`exp = some v`, recorded when the `get` starts — see `C06_readback_expect`) returns `v`:
no debug panic, no null bucket, no uninitialised slot — from any thread, at any later time. -/
theorem C06_readback (s₀ s : St) (tr : List Label) (h0 : Start s₀) (hr : run s₀ tr = some s) (hw : s.next < W)
    (t : Tid) (r : Nat) (v : Elem) (res : GetRes) (hg : Ev.getRet t r (some v) res ∈ s.hist) :
    res = .ok v := by
  exact (inv_run (start_inv h0) hr hw).get_ret t r v res hg

/-- What `exp` records: if `add` has returned `r` for `v` in state `s`, any thread that now
starts `get r` carries `exp = some v`. -/
theorem C06_readback_expect (s₀ s s' : St) (tr : List Label) (h0 : Start s₀) (hr : run s₀ tr = some s)
    (hw : s.next < W) (t' t : Tid) (v : Elem) (r : Nat) (ha : Ev.addRet t' v r ∈ s.hist)
    (hs : step s t (.startGet r) = some s') : s'.thr t = .getCheck r (some v) := by
  exact startGet_expect (inv_run (start_inv h0) hr hw) ha hs

/-- **C06_len_monotone**: no step decreases `len()`, and the values returned by completed
`len()` calls are ordered like the calls (history is newest first). -/
theorem C06_len_monotone (s₀ s : St) (tr : List Label) (h0 : Start s₀) (hr : run s₀ tr = some s) (hw : s.next < W) :
    (lenVals s.hist).Pairwise (· ≥ ·) ∧
    (∀ t a s', step s t a = some s' → s'.next < W → len s ≤ len s') := by
  exact ⟨(inv_run (start_inv h0) hr hw).len_sorted, fun t a s' hs hw' => len_mono_step hs hw'⟩

/-- **C06_len_final**: once every operation has finished, `len()` = initial length + number of
completed additions. -/
theorem C06_len_final (s₀ s : St) (tr : List Label) (h0 : Start s₀) (hr : run s₀ tr = some s) (hw : s.next < W)
    (hq : Quiescent s) : len s = (s.base - minSize) + (addRefs s.hist).length := by
  exact len_final (inv_run (start_inv h0) hr hw) hq

/-- **C06_bucket_once**: each bucket pointer is stored at most once, a stored pointer is never
replaced, distinct buckets never share an allocation, and no allocation is lost: every
allocation made is installed or still held by the thread inside the mutex that is about to
install it.  (So no slot is lost to a racing allocation.) -/
theorem C06_bucket_once (s₀ s : St) (tr : List Label) (h0 : Start s₀) (hr : run s₀ tr = some s) (hw : s.next < W) :
    (s.stores.map Prod.fst).Nodup ∧
    (∀ a p, (a, p) ∈ s.stores → s.bucket a = some p) ∧
    (∀ a a' p, s.bucket a = some p → s.bucket a' = some p → a = a') ∧
    (∀ p, p < s.nextAlloc → (∃ a, s.bucket a = some p) ∨ (∃ t v i, s.thr t = .slowStore v i p)) := by
  have h := inv_run (start_inv h0) hr hw
  exact ⟨h.stores_nodup, h.stores_ok, h.alloc_inj, h.orphan⟩

/-- **C06_drop_exactly_once**: `Drop` at quiescence neither panics nor touches an
uninitialised slot; it drops exactly `len()` elements, and the element of every completed
`add` sits at its own position `r - MIN_SIZE` of the dropped sequence (positions are distinct by
`C06_unique`, and there are exactly as many positions as completed + initial elements by
`C06_len_final`). -/
theorem C06_drop_exactly_once (s₀ s : St) (tr : List Label) (h0 : Start s₀) (hr : run s₀ tr = some s)
    (hw : s.next < W) (hq : Quiescent s) :
    ∃ dropped freed, dropArena s = .ok dropped freed ∧ dropped.length = len s ∧
      ∀ t v r, Ev.addRet t v r ∈ s.hist → dropped[r - minSize]? = some v := by
  exact drop_exactly_once (inv_run (start_inv h0) hr hw) hq

/-! ## Non-vacuity: a concrete two-thread trace crossing the 128-slot bucket boundary

Thread 0 adds 127 elements alone, then threads 0 and 1 race: three additions take the indices
255 (last slot of bucket 24), 256 and 257 (bucket 23, not yet allocated); both threads miss on
`add.load_bucket` and enter the slow path; thread 1 allocates, thread 0 finds the pointer under
the mutex.  Afterwards both read back and `len` is called. -/

def lab (t : Tid) : Label := ⟨t, .step⟩
/-- sequential add by thread `t` whose bucket exists: fetch, load, write -/
def addFast (t : Tid) (v : Elem) : List Label := [⟨t, .startAdd v⟩, lab t, lab t, lab t]
/-- sequential add by thread `t` allocating its bucket: fetch, load, lock, recheck, store, unlock, write -/
def addSlow (t : Tid) (v : Elem) : List Label := ⟨t, .startAdd v⟩ :: List.replicate 7 (lab t)

def prefill : List Label := addSlow 0 1000 ++ (List.range 126).flatMap (fun k => addFast 0 (1001 + k))

def race : List Label :=
  addFast 0 7 ++                                  -- index 255
  [⟨1, .startAdd 8⟩, ⟨0, .startAdd 9⟩,
   lab 1, lab 0,                                  -- fetch: thread 1 gets 256, thread 0 gets 257
   lab 1, lab 0,                                  -- both load bucket 23: null
   lab 1,                                         -- thread 1 takes the mutex
   lab 0,                                         -- thread 0 blocked (stutter)
   lab 1, lab 1, lab 1,                           -- recheck (null) → allocate, store, unlock
   lab 0, lab 0, lab 0,                           -- thread 0: lock, recheck (found), unlock
   lab 0, lab 1,                                  -- both write
   ⟨0, .startGet 256⟩, lab 0, lab 0, lab 0,       -- thread 0 reads thread 1's element
   ⟨1, .startLen⟩, lab 1]

/-- observable summary of a state -/
def summary (s : St) : Nat × List Nat × List (Nat × Nat) × Bool × DropRes :=
  (len s, (addRefs s.hist).take 3, s.stores, (List.range 4).all (fun t => s.thr t == .idle),
   match dropArena s with
   | .ok d f => .ok (d.drop 126) f
   | r => r)

example : (run init (prefill ++ race)).map summary =
    some (130, [256, 257, 255], [(23, 1), (24, 0)], true, .ok [1126, 7, 8, 9] [0, 1]) := by
  decide +kernel

example : (run init (prefill ++ race)).map (fun s => s.hist.take 2) =
    some [.lenRet 1 130, .getRet 0 256 (some 8) (.ok 8)] := by
  decide +kernel

/-- the hypotheses of the trace theorems are met by this trace (`Quiescent` included) -/
example : ∃ s, run init (prefill ++ race) = some s ∧ s.next < W ∧ Quiescent s := by
  have h : ∃ s, run init (prefill ++ race) = some s ∧ s.next < W ∧
      (List.range 2).all (fun t => s.thr t == .idle) = true := by
    have : ((run init (prefill ++ race)).map fun s =>
        (decide (s.next < W), (List.range 2).all (fun t => s.thr t == .idle))) = some (true, true) := by
      decide +kernel
    cases hr : run init (prefill ++ race) with
    | none => rw [hr] at this; cases this
    | some s =>
      rw [hr] at this
      simp only [Option.map_some, Option.some.injEq, Prod.mk.injEq, decide_eq_true_eq] at this
      exact ⟨s, rfl, this.1, this.2⟩
  obtain ⟨s, hr, hw, hq⟩ := h
  refine ⟨s, hr, hw, ?_⟩
  intro t
  by_cases ht : t < 2
  · have := List.all_eq_true.1 hq t (List.mem_range.2 ht)
    simpa using this
  · have hf := run_frame hr (n := 2) (by decide +kernel) t (Nat.le_of_not_lt ht)
    rw [hf]; rfl

end IsoVerif.Props.C06
