/-
C22 — Formatting preserves meaning and is idempotent.

Model: `IsoVerif.Format.format`, the fold of `format_extraction` (format.rs after 6222385) over the
literal's semantic tokens `(text, legend entry)`; the legend is regenerated from the Rust source
(translator T3), so the table facts below are re-proved whenever mod.rs / line_behavior.rs change.

What is proved here, for every token list:
  * the output consists of exactly the kept tokens' texts, in order, separated by separators made
    of spaces and line feeds only (`C22_tokens`), and is a function of the kept tokens alone
    (`C22_kept_only`, hence `C22_idem`);
  * wherever two grammar-adjacent tokens would lex differently when glued, the separator is
    non-empty (`C22_separated`, from the closed table fact `C22_table`);
  * before every token at which the parser consults "comma or line break", the separator contains
    a line feed (`C22_breaks`) — the formatter puts a line break wherever a comma was the only
    separator.
`C22_meaning_partial` derives "same declaration" from these under an explicit hypothesis on the
parser (`ParserDependsOnlyOnTokens`); that hypothesis, the lexical reading of `glueSafe`, and the
two grammar tables of Model/Format.lean are tied to the real lexer/parser by correspondence (the
check re-parses every formatted literal with the real parser), not by a Lean proof.
The edit-range clause of the property is `C23_edit`.
-/
import IsoVerif.Lemmas.Format

namespace IsoVerif.Props.C22
open IsoVerif.Util IsoVerif.Format IsoVerif.Gen.Legend IsoVerif.Lemmas.Format

/-- Table facts over the regenerated legend × the grammar-adjacency and lexical-class tables:
grammar-adjacent entries are separated or glue safely; the tables cover every legend entry; every
entry at which the parser consults "comma or line break" starts a new line. -/
theorem C22_table : glueTableOk = true ∧ tablesCoverLegend = true ∧ breakTableOk = true := by
  decide +kernel

/-- The output is a function of the kept (non-comma) token sequence only. -/
theorem C22_kept_only (toks : List FTok) : format toks = format (kept toks) :=
  format_kept toks

/-- Idempotence core: any token list with the same kept tokens formats to the same text — in
particular the tokens of the formatted text itself, once `C22_tokens` and the tie to the real
parser say that they are the kept tokens with the same entries. -/
theorem C22_idem (toks toks' : List FTok) (h : kept toks' = kept toks) :
    format toks' = format toks := by
  rw [C22_kept_only toks', C22_kept_only toks, h]

/-- The formatter only emits the kept tokens' own text plus whitespace separators:
`segments toks` lists, for each kept token, the separator written before it. -/
theorem C22_tokens (toks : List FTok) (out : Bytes) (h : format toks = .ok out) :
    ∃ segs trailer, segments toks = some (segs, trailer) ∧ out = render segs trailer ∧
      segs.map (·.2) = kept toks ∧ (∀ p ∈ segs, isWs p.1 = true) ∧ isWs trailer = true :=
  format_segments toks out h

/-- Separators are present wherever gluing would change a token boundary. -/
theorem C22_separated (toks : List FTok) (segs : List (Bytes × FTok)) (trailer : Bytes)
    (h : segments toks = some (segs, trailer))
    (hadj : adjOk (kept toks) = true) (hcls : clsOk toks = true) :
    gluedBadly segs = false :=
  segments_separated toks segs trailer h hadj hcls

/-- A line feed is written before every token that starts a new line, in particular before every
token at which the parser consults "comma or line break". -/
theorem C22_breaks (toks : List FTok) (segs : List (Bytes × FTok)) (trailer : Bytes)
    (h : segments toks = some (segs, trailer)) :
    ∀ p ∈ segs, breakConsulted.contains p.2.st = true → p.1.contains nl = true :=
  segments_breaks toks segs trailer h

/-- No panic while the nesting depth stays inside the `i8` indent counter. -/
theorem C22_total (toks : List FTok) (h : indentBounded 1 (kept toks) = true) :
    ∃ out, format toks = .ok out :=
  format_total toks h

/-- What a parser can see of a literal besides comments-free whitespace: its kept tokens and,
before each, whether a comma or a line feed precedes it. -/
abbrev View := List (FTok × Bool)

/-- Hypothesis on the parser: the declaration depends only on the view, and a separator flag is
consulted only before the `breakConsulted` entries, where a set flag is all that is required. -/
def ParserDependsOnlyOnTokens {δ : Type} (parse : View → Option δ) : Prop :=
  ∀ (v v' : View) (d : δ), v.map (·.1) = v'.map (·.1) →
    (∀ p ∈ List.zip v v', breakConsulted.contains p.1.1.st = true → p.1.2 = true → p.2.2 = true) →
    parse v = some d → parse v' = some d

/-- the view of the formatted text -/
def viewOfSegs (segs : List (Bytes × FTok)) : View := segs.map fun p => (p.2, p.1.contains nl)

/-- Same declaration after formatting, relative to `ParserDependsOnlyOnTokens`. -/
theorem C22_meaning_partial {δ : Type} (parse : View → Option δ)
    (hp : ParserDependsOnlyOnTokens parse) (toks : List FTok) (flags : List Bool) (d : δ)
    (hlen : flags.length = (kept toks).length)
    (hin : parse (List.zip (kept toks) flags) = some d)
    (segs : List (Bytes × FTok)) (trailer : Bytes) (h : segments toks = some (segs, trailer)) :
    parse (viewOfSegs segs) = some d :=
  meaning_of_segments parse hp toks flags d hlen hin segs trailer h

/- non-vacuity: `field Query.x { a { b }, c }` (comma after a closing brace, the former
non-idempotence witness) -/
def demo : List FTok := [
  ⟨strBytes "field", stKeywordDeclaration⟩, ⟨strBytes "Query", stServerObjectType⟩,
  ⟨strBytes ".", stDot⟩, ⟨strBytes "x", stClientSelectableName⟩, ⟨strBytes "{", stOpenBrace⟩,
  ⟨strBytes "a", stSelectionNameOrAlias⟩, ⟨strBytes "{", stOpenBrace⟩,
  ⟨strBytes "b", stSelectionNameOrAlias⟩, ⟨strBytes "}", stCloseBrace⟩, ⟨strBytes ",", stComma⟩,
  ⟨strBytes "c", stSelectionNameOrAlias⟩, ⟨strBytes "}", stCloseBrace⟩]

example : adjOk (kept demo) = true ∧ clsOk demo = true ∧ indentBounded 1 (kept demo) = true ∧
    format demo =
      .ok (strBytes "\n  field Query.x {\n    a {\n      b\n    }\n    c\n  }\n") := by
  decide +kernel

end IsoVerif.Props.C22
