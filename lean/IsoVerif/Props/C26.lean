/-
C26 — Persisted document ids match the documents they name.

Model: `generateOperationText` (crates/artifact_content/src/operation_text.rs), the
`persisted_documents` map threaded through all entrypoints and refetch queries of a compilation
(`runOps`), `persistedDocumentsJson` (persisted_documents.rs).  The hash function is an opaque
parameter `H` (md5 / sha256 of the UTF-8 text): the theorems are about the plumbing; the real
digests are recomputed by the harness on every run (props/C26.py).

`C26_same`: the recorded document is the compact text, the non-persisted build sends the
JavaScript value of the pretty text embedded in query_text.ts; both are renderings of the same
selection tree (`C26_same_tree`), and they agree up to insignificant characters outside string
literals when no name or string contains a quote, a backslash or a line terminator
(`C26_same_partial`).  A backslash in a string argument used to make the two differ (the
embedded text is evaluated by JavaScript); since /repo dc59a0f the text is escaped when embedded
(`C26_backslash_repaired`).  The full statement still fails for a string holding an unescaped
`"` (`C26_witness_quote`; not writable in an iso literal).
-/
import IsoVerif.Lemmas.PrintersPersisted

namespace IsoVerif.Props.C26
open IsoVerif.Core

/-- Every operation id an artifact sends equals `H` of the document recorded under that id. -/
theorem C26_ids (H : Str → Str) (opts : PersistOpts) (ops : List OpIn) :
    ∀ id ∈ (runOps H opts ops []).1,
      ∃ t, (runOps H opts ops []).2.lookup id = some t ∧ H t = id :=
  runOps_ids H opts ops

/-- …and every recorded document sits under its own hash. -/
theorem C26_docs_hashed (H : Str → Str) (opts : PersistOpts) (ops : List OpIn) :
    ∀ e ∈ (runOps H opts ops []).2, H e.2 = e.1 :=
  runOps_docs_hashed H opts ops

/-- The file records exactly the operations the artifacts reference. -/
theorem C26_exact (H : Str → Str) (opts : PersistOpts) (ops : List OpIn) (id : Str) :
    id ∈ ((runOps H opts ops []).2.map (·.1)) ↔ id ∈ (runOps H opts ops []).1 :=
  runOps_exact H opts ops id

/-- The artifact of an operation carries the id `H compact` (definitional), and the document
recorded under it is the compact text of an operation with that hash. -/
theorem C26_records (H : Str → Str) (opts : PersistOpts) (ops : List OpIn) (op : OpIn) (h : op ∈ ops) :
    (runOps H opts ops []).2.lookup (H op.compact) = some op.compact ∨
      ∃ op' ∈ ops, H op'.compact = H op.compact ∧
        (runOps H opts ops []).2.lookup (H op.compact) = some op'.compact :=
  runOps_records_compact H opts ops op h

/-- Compact and pretty texts are renderings of one selection tree, differing in the separators
(`newLine`, `indentFor`) only. -/
theorem C26_same_tree (kind name vt : Str) (m : SelMap) :
    printQueryCore .compact kind name vt m
        = queryHeader .compact kind name vt ++ renderTrees .compact 1 (queryTree m) ++ [125]
    ∧ printQueryCore .pretty kind name vt m
        = queryHeader .pretty kind name vt ++ renderTrees .pretty 1 (queryTree m) ++ [125] :=
  ⟨printQueryCore_render .compact kind name vt m, printQueryCore_render .pretty kind name vt m⟩

/-- full statement: the recorded document equals what the non-persisted build sends — the
JavaScript value of the text embedded in query_text.ts (`escapeJsBody`, /repo dc59a0f) — up to
insignificant characters -/
def C26_same_statement : Prop :=
  ∀ (kind name vt : Str) (m : SelMap) (sent : Str),
    jsSingleQuotedValue (escapeJsBody (printQueryCore .pretty kind name vt m)) = some sent →
    stripInsignificant sent = stripInsignificant (printQueryCore .compact kind name vt m)

/-- holds when names and strings are free of quotes, backslashes and line terminators -/
theorem C26_same_partial (kind name vt : Str) (m : SelMap)
    (hk : isPlain kind = true) (hn : isPlain name = true) (hv : isPlain vt = true)
    (hm : Tree.plainList (queryTree m) = true) :
    ∃ t, jsSingleQuotedSimple (escapeJsBody (printQueryCore .pretty kind name vt m)) = some t ∧
      stripInsignificant t = stripInsignificant (printQueryCore .compact kind name vt m) :=
  compact_embedded_same kind name vt m hk hn hv hm

def backslashMap : SelMap :=
  [(⟨0, .serverField cs!"label" [(cs!"lang", .str cs!"a\\\\nb")]⟩,
    Sel.scalar true cs!"label" [(cs!"lang", .str cs!"a\\\\nb")])]

/-- `label(lang: "a\\nb")` (p13_escape; F13 family, repaired by dc59a0f): the backslashes of the
string argument are escaped when the text is embedded, so JavaScript gives back the very text the
persisted document records.  (Before the repair the embedded text was evaluated, `\\\\` ↦ `\\`, and the
two documents differed.) -/
theorem C26_backslash_repaired :
    jsSingleQuotedValue (escapeJsBody (printQueryCore .pretty cs!"query" cs!"Home" [] backslashMap))
      = some (cs!"query Home {  label____lang___s_a__nb: label(lang: \"a\\\\nb\"),}")
    ∧ stripInsignificant (cs!"query Home {  label____lang___s_a__nb: label(lang: \"a\\\\nb\"),}")
      = stripInsignificant (printQueryCore .compact cs!"query" cs!"Home" [] backslashMap) := by
  constructor <;> decide +kernel

/-- A string argument holding an unescaped `"` (not writable in an iso literal: the lexer wants
`\\"`): what follows it is inside a string literal for a GraphQL lexer, and there the separators of
the two formats are significant. -/
theorem C26_witness_quote : ¬ C26_same_statement := by
  intro h
  have := h cs!"query" cs!"Home" []
    [(⟨0, .serverField cs!"label" [(cs!"lang", .str cs!"a\"b")]⟩,
      Sel.scalar true cs!"label" [(cs!"lang", .str cs!"a\"b")])]
    (cs!"query Home {  label____lang___s_a_b: label(lang: \"a\"b\"),}") (by decide +kernel)
  revert this
  decide +kernel

/- Non-vacuity of C26_same_partial: an operation with a string argument. -/
example : Tree.plainList (queryTree [(⟨0, .serverField cs!"user" [(cs!"name", .str cs!"it is")]⟩,
    Sel.linked true cs!"user" [(cs!"name", .str cs!"it is")] (.concrete cs!"User")
      [(⟨1, .id⟩, Sel.scalar false cs!"id" [])])]) = true := by decide +kernel

end IsoVerif.Props.C26
