/-
C23 — Language-server positions address the right text.

Spec: `IsoVerif.LspPos.utf16Pos : bytes → byte offset → (line, UTF-16 column)` (a left fold: a line
feed starts a new line at column 0, every other byte adds the UTF-16 units of the character it
starts).  Models: `IsoVerif.LspPos.*`, transcriptions of the server's conversion functions after
the repairs 25f08fe (char_index_to_position), 65d5810 (semantic tokens), 61b6f0d
(get_index_of_line_char).  All theorems are for every text (induction over the bytes), not for
sampled documents.

Domain hypotheses are the ones the callers guarantee: offsets on character boundaries inside the
text (token spans come from the lexer, literal extents from the extraction regex), and two facts
true of every valid UTF-8 text (every Rust `String`), stated as hypotheses rather than derived
from a validity predicate: the text does not begin with a continuation byte (`isBoundary s 0`) and
no continuation byte directly follows a line feed (`NlThenBoundary`).
-/
import IsoVerif.Lemmas.LspPos

namespace IsoVerif.Props.C23
open IsoVerif.Util IsoVerif.LspPos

/-- The spec read declaratively: the line is the number of line feeds before the offset, the
column is the UTF-16 length of the text between the last of them and the offset. -/
theorem C23_spec (s : Bytes) (off : Nat) :
    utf16Pos s off = (countNl (s.take off), utf16Len (afterLastNl (s.take off))) :=
  Lemmas.LspPos.utf16Pos_eq s off

/-- `char_index_to_position` = `utf16Pos` (formatting edits, diagnostics, go-to-definition). -/
theorem C23_loc (content : Bytes) (off : Nat) (h0 : isBoundary content 0 = true)
    (hle : off ≤ content.length) (hb : isBoundary content off = true) :
    charIndexToPosition content off = .ok (utf16Pos content off) :=
  Lemmas.LspPos.charIndexToPosition_eq content off h0 hle hb

example : isBoundary (strBytes "é😀`x") 0 = true ∧ isBoundary (strBytes "é😀`x") 6 = true ∧ utf16Pos (strBytes "é😀`x") 6 = (0, 3) := by
  decide +kernel

/-- `delta_line_delta_start` of a text is the position of its end. -/
theorem C23_delta (t : Bytes) : deltaLineDeltaStart t = utf16Pos t t.length :=
  Lemmas.LspPos.deltaLineDeltaStart_eq t

/-- The formatting edit's range decodes to exactly the literal's extent. -/
theorem C23_edit (content : Bytes) (start len : Nat) (h0 : isBoundary content 0 = true)
    (hle : start + len ≤ content.length)
    (hs : isBoundary content start = true) (he : isBoundary content (start + len) = true) :
    rangeOfExtraction content start len =
      .ok (utf16Pos content start, utf16Pos content (start + len)) :=
  Lemmas.LspPos.rangeOfExtraction_eq content start len h0 hle hs he

/-- Diagnostic / definition ranges: both ends of the span, relative to the literal's start. -/
theorem C23_range (content : Bytes) (base s e : Nat) (h0 : isBoundary content 0 = true)
    (hse : s ≤ e) (hle : base + e ≤ content.length)
    (hs : isBoundary content (base + s) = true) (he : isBoundary content (base + e) = true) :
    locationRange content base s e =
      .ok (utf16Pos content (base + s), utf16Pos content (base + e)) :=
  Lemmas.LspPos.locationRange_eq content base s e h0 hse hle hs he

/-- no continuation byte directly after a line feed (valid UTF-8) -/
def NlThenBoundary (page : Bytes) : Prop :=
  ∀ i, i < page.length → page[i]? = some nl → isBoundary page (i + 1) = true

/-- Decoding the emitted delta-encoded semantic tokens yields exactly, for every source token and
every per-line piece of it, the piece's `utf16Pos` start and its UTF-16 length. -/
theorem C23_tokens (page : Bytes) (lits : List LitToks) (h0 : isBoundary page 0 = true)
    (hnl : NlThenBoundary page) (h : spansOk page 0 (absSpans lits) = true) :
    ∃ ts, lspTokens page lits = .ok ts ∧ decode ts = expectedTokens page lits :=
  Lemmas.LspPos.lspTokens_decode page lits h0 hnl h

/-- … and these ranges are increasing and do not overlap. -/
theorem C23_tokens_increasing (page : Bytes) (lits : List LitToks)
    (h : spansOk page 0 (absSpans lits) = true) :
    increasing (expectedTokens page lits) = true :=
  Lemmas.LspPos.expectedTokens_increasing page lits h

/- non-vacuity: a page with é and an astral character before a two-token literal whose second
token spans two lines -/
example :
    let page := strBytes "é😀 iso(`ab \"\"\"x\ny\"\"\"`)"
    let lits : List LitToks := [⟨12, [⟨0, 2, 15⟩, ⟨3, 12, 17⟩]⟩]
    isBoundary page 0 = true ∧
      (∀ i, i < page.length → page[i]? = some nl → isBoundary page (i + 1) = true) ∧
      spansOk page 0 (absSpans lits) = true ∧
      expectedTokens page lits = [⟨0, 9, 2, 15⟩, ⟨0, 12, 5, 17⟩, ⟨1, 0, 4, 17⟩] := by
  decide +kernel

/-- Hover / go-to-definition, inner step: `get_index_of_line_char` inverts `utf16Pos`. -/
theorem C23_hover_index (src : Bytes) (o : Nat) (hle : o ≤ src.length)
    (hb : isBoundary src o = true) :
    getIndexOfLineChar src (utf16Pos src o).1 (utf16Pos src o).2 = o :=
  Lemmas.LspPos.getIndexOfLineChar_inv src o hle hb

/-- Hover / go-to-definition: the position of byte `o` of the `k`-th literal is resolved to
exactly `(k, o)`. -/
theorem C23_hover (page : Bytes) (lits : List (Nat × Nat)) (k start len o : Nat)
    (h0 : isBoundary page 0 = true)
    (hl : litsOk page 0 true lits = true) (hk : lits[k]? = some (start, len)) (ho : o ≤ len)
    (hb : isBoundary page (start + o) = true) :
    hoverOffset page lits (utf16Pos page (start + o)) = .ok (some (k, o)) :=
  Lemmas.LspPos.hoverOffset_inv page lits k start len o h0 hl hk ho hb

example :
    let page := strBytes "é iso(`ab`) 😀 iso(`c\ndé`)"
    isBoundary page 0 = true ∧ litsOk page 0 true [(8, 2), (23, 5)] = true ∧
      hoverOffset page [(8, 2), (23, 5)] (utf16Pos page (23 + 3)) = .ok (some (1, 3)) := by
  decide +kernel

end IsoVerif.Props.C23
