/-
C03 — Garbage collection keeps retained results and never breaks reads.

Model: `IsoVerif.Pico` (M-PICO): `gc`, `mark`, `lruPut`, the retained counts.  Statements only;
lemmas live in `IsoVerif.Lemmas.Pico*`.

`C03_statement`: no collection panics, and every collection keeps, with unchanged value, stamps
and dependency list, every node reachable from a root the property names — the retained ids and
the `cap` most recently called distinct top-level queries.  It is FALSE of today's code (witnesses
below, replayed on the real crate): the collector panics on a retained reference to a node that an
earlier collection removed, and after a first call that panicked.  (The LRU eviction of a
re-verified query by its own dependencies was repaired together with F22.)  What is proved: the LRU refines
"last `cap` distinct" of the sequence it is fed (`C03_lru_spec`), the collector keeps everything
reachable from ITS roots unchanged and only ever removes nodes (`C03_gc_keeps_reachable`,
`C03_gc_only_removes`), its LRU is "last `cap` distinct" of everything ever pushed onto
`top_level_calls` (`C03_lru_invariant`), and hence the property's retention clause holds whenever
nothing but the user's own calls was pushed (`C03_retention_partial`).
Since the repair of F22 that hypothesis is a theorem: `pushes` is exactly the sequence of top-level calls
made (`C03_pushes_are_calls`), so the retention clause holds for ALL programs and histories whenever
the collection returns (`C03_roots_are_calls`, `C03_retention`).
The memory-safety clause (raw pointers of `intern_ref`) is outside this model: see PARTIAL.
-/
import IsoVerif.Lemmas.Pico
import IsoVerif.Lemmas.PicoGc
import IsoVerif.Lemmas.PicoPush
import IsoVerif.Model.PicoIntern

namespace IsoVerif.Props.C03
open IsoVerif.Pico

/-- ids of the top-level calls of a history that returned a value, oldest first -/
def userCalls (fuel cap : Nat) (P : Prog) : List Op → List NodeId → Storage → List NodeId
  | [], acc, _ => acc
  | op :: ops, acc, s =>
    let r := step fuel P s op
    match op, r.2 with
    | .call f a, .val _ => userCalls fuel cap P ops (acc ++ [nodeOf P f a]) r.1
    | _, _ => userCalls fuel cap P ops acc r.1

/-- the roots the property names after history `h`: retained ∪ last `cap` distinct top-level calls -/
def specRoots (fuel cap : Nat) (P : Prog) (h : List Op) : List NodeId :=
  lastDistinct cap (userCalls fuel cap P h [] (initS cap P)) ++ (after fuel cap P h).retained.map (·.1)

/-- C03 on one history. -/
def C03_statement_at (fuel cap : Nat) (P : Prog) (h : List Op) : Prop :=
  ∀ pre rest, h = pre ++ Op.gc :: rest →
    (step fuel P (after fuel cap P pre) .gc).2 = .ok ∧
    ∀ r, r ∈ specRoots fuel cap P pre → ∀ n, Reach (after fuel cap P pre).derived r n →
      alookup (after fuel cap P (pre ++ [.gc])).derived n = alookup (after fuel cap P pre).derived n

/-- **C03 (retention and reads) at full strength** -/
def C03_statement : Prop := ∀ fuel cap P h, C03_statement_at fuel cap P h

/-! ### witnesses (known findings) -/

def progLru : Prog := [⟨0, .call 1 .param⟩, ⟨0, .src .param⟩]
def histLru : List Op := [.set 0 1, .set 1 0, .call 0 0, .set 1 5, .call 0 0, .gc]

/-- (repaired with F22, /repo) capacity 1: the most recently called top-level query `(0,0)` used to be
evicted from the LRU by its own dependency, which was pushed onto `top_level_calls` while the query
was re-verified.  On the repaired code it is still there after the collection, unchanged. -/
example : alookup (after 8 1 progLru histLru).derived ⟨0, 0⟩ =
    alookup (after 8 1 progLru [.set 0 1, .set 1 0, .call 0 0, .set 1 5, .call 0 0]).derived ⟨0, 0⟩ ∧
    (alookup (after 8 1 progLru histLru).derived ⟨0, 0⟩).isSome = true := by
  decide +kernel

/-- the collection panics: a reference to a node that an earlier collection removed is retained. -/
theorem C03_witness_gc_panic_stale_retain :
    ¬ C03_statement_at 8 1 [⟨2, .lit 1⟩, ⟨2, .lit 2⟩] [.call 0 0, .call 1 0, .gc, .retain 0 0, .gc] := fun H =>
  absurd (H [.call 0 0, .call 1 0, .gc, .retain 0 0] [] rfl).1 (by decide +kernel)

/-- the collection panics after a first call that panicked. -/
theorem C03_witness_gc_panic_after_failed_call :
    ¬ C03_statement_at 8 10 [⟨0, .src .param⟩] [.call 0 0, .gc] := fun H =>
  absurd (H [.call 0 0] [] rfl).1 (by decide +kernel)

theorem C03_statement_false : ¬ C03_statement := fun H => C03_witness_gc_panic_stale_retain (H 8 1 _ _)

/-! ### what is proved -/

/-- The LRU (`LruCache::put` = move to front + evict the least recent) refines "the `cap` most
recently used distinct ids, most recent first" of the sequence it is fed. -/
theorem C03_lru_spec (cap : Nat) (hcap : 1 ≤ cap) (calls : List NodeId) :
    calls.foldl (lruPut cap) [] = lastDistinct cap calls := lru_spec cap hcap calls

example : 1 ≤ 2 ∧ ([⟨0, 0⟩, ⟨1, 0⟩, ⟨0, 0⟩, ⟨2, 5⟩, ⟨0, 0⟩] : List NodeId).foldl (lruPut 2) []
    = [⟨0, 0⟩, ⟨2, 5⟩] := by decide

/-- a history after which the collection with capacity 1 removes two nodes and with capacity 2 none -/
def histGc : List Op := [.set 0 1, .set 1 7, .call 0 0, .call 1 1]

/-- A collection that returns only removes nodes: what is there afterwards was there before,
unchanged. -/
theorem C03_gc_only_removes (s s' : Storage) (h : gc s = (s', .ok ())) (n : NodeId) (r : Rev) :
    alookup s'.derived n = some r → alookup s.derived n = some r := gc_only_removes s s' h n r

example : ∃ s s' n r, gc s = (s', .ok ()) ∧ alookup s'.derived n = some r ∧
    s'.derived.length < s.derived.length :=
  ⟨after 8 1 progLru histGc, (gc (after 8 1 progLru histGc)).1, ⟨1, 1⟩, ⟨7, 3, 3, [⟨.source (.src 1), 3⟩]⟩,
    Prod.ext rfl (by decide +kernel), by decide +kernel, by decide +kernel⟩

/-- A collection that returns touches nothing but `derived`, `top_level_calls` and the LRU. -/
theorem C03_gc_frame (s s' : Storage) (h : gc s = (s', .ok ())) :
    s'.epoch = s.epoch ∧ s'.srcs = s.srcs ∧ s'.retained = s.retained ∧ s'.maps = s.maps ∧
    s'.runs = s.runs ∧ s'.topCalls = [] ∧ s'.lru = gcLru s := gc_frame s s' h

example : ∃ s s', gc s = (s', .ok ()) ∧ s.topCalls ≠ [] ∧ s.lru ≠ gcLru s :=
  ⟨after 8 1 progLru histGc, (gc (after 8 1 progLru histGc)).1,
    Prod.ext rfl (by decide +kernel), by decide +kernel, by decide +kernel⟩

/-- The collector keeps every node reachable from ITS roots, with unchanged value, stamps and
dependency list. -/
theorem C03_gc_keeps_reachable (s s' : Storage) (h : gc s = (s', .ok ())) (root n : NodeId)
    (hr : root ∈ gcRoots s) (hreach : Reach s.derived root n) :
    alookup s'.derived n = alookup s.derived n := gc_keeps_reachable s s' h root n hr hreach

example : ∃ s s' root n, gc s = (s', .ok ()) ∧ root ∈ gcRoots s ∧ Reach s.derived root n ∧ n ≠ root :=
  ⟨after 8 2 progLru histGc, (gc (after 8 2 progLru histGc)).1, ⟨0, 0⟩, ⟨1, 0⟩,
    Prod.ext rfl (by decide +kernel), by decide +kernel,
    Reach.step (r := ⟨1, 2, 3, [⟨.derived ⟨1, 0⟩, 3⟩]⟩) (Reach.refl _) (by decide +kernel) (by decide +kernel),
    by decide⟩

/-- The collector's roots: the LRU after the pending top-level calls have been folded in, then the
retained ids. -/
theorem C03_roots_are_spec (s : Storage) :
    gcRoots s = s.topCalls.foldl (lruPut s.cap) s.lru ++ s.retained.map (·.1) := roots_are_spec s

/-- **The LRU against the whole history.**  After any history, the LRU the next collection will use
is exactly "the last `cap` distinct ids" of EVERYTHING ever pushed onto `top_level_calls` (the ghost
field `pushes`; since the repair of F22 these are exactly the top-level calls the user made). -/
theorem C03_lru_invariant (fuel : Nat) (P : Prog) (cap : Nat) (hcap : 1 ≤ cap) (h : List Op) :
    gcLru (after fuel cap P h) = lastDistinct cap (after fuel cap P h).pushes :=
  (lru_invariant fuel P cap hcap h).1

/-- a history across a collection -/
example : 1 ≤ 2 ∧
    (after 8 2 progLru [.set 0 1, .set 1 0, .call 0 0, .set 1 5, .call 0 0, .gc, .call 1 1, .call 0 0]).pushes
      = [⟨0, 0⟩, ⟨0, 0⟩, ⟨1, 1⟩, ⟨0, 0⟩] ∧
    gcLru (after 8 2 progLru [.set 0 1, .set 1 0, .call 0 0, .set 1 5, .call 0 0, .gc, .call 1 1, .call 0 0])
      = [⟨0, 0⟩, ⟨1, 1⟩] := by decide +kernel

/-- **Retention, partial.**  Extra hypothesis, explicit: `pushes = userCalls` — since the start of
the history nothing but the user's own successful top-level calls was pushed onto
`top_level_calls` (no top-level query was re-verified after a source change, no call panicked); and
`1 ≤ cap`.  Then a collection that does not panic keeps, with unchanged value, stamps and
dependency list, every node reachable from a root the PROPERTY names (retained ∪ the `cap` most
recent distinct top-level queries). -/
theorem C03_retention_partial (fuel cap : Nat) (P : Prog) (pre : List Op) (hcap : 1 ≤ cap)
    (hpush : (after fuel cap P pre).pushes = userCalls fuel cap P pre [] (initS cap P))
    (s' : Storage) (hgc : gc (after fuel cap P pre) = (s', .ok ()))
    (r : NodeId) (hr : r ∈ specRoots fuel cap P pre) (n : NodeId) (hn : Reach (after fuel cap P pre).derived r n) :
    alookup s'.derived n = alookup (after fuel cap P pre).derived n := by
  refine C03_gc_keeps_reachable _ _ hgc r n ?_ hn
  unfold specRoots at hr
  unfold gcRoots
  rw [C03_lru_invariant fuel P cap hcap pre, hpush]
  exact hr

/- Non-vacuity: two top-level queries with a shared dependency, one retained, capacity 1; the
collection drops the other one and keeps the retained one with its dependency. -/
example :
    (after 8 1 progLru [.set 0 1, .set 1 7, .call 0 0, .retain 0 0, .call 0 1]).pushes
      = userCalls 8 1 progLru [.set 0 1, .set 1 7, .call 0 0, .retain 0 0, .call 0 1] [] (initS 1 progLru) ∧
    (gc (after 8 1 progLru [.set 0 1, .set 1 7, .call 0 0, .retain 0 0, .call 0 1])).2 = .ok () ∧
    specRoots 8 1 progLru [.set 0 1, .set 1 7, .call 0 0, .retain 0 0, .call 0 1] = [⟨0, 1⟩, ⟨0, 0⟩] := by
  decide +kernel

/-! ### memory safety of interned references (`intern_ref`, allocation liveness only) -/

open IsoVerif.Pico.Intern in
/-- No stored result holds a dangling interned reference: after every prefix of the history, the
`MemoRef` that a live ref node obtained from `intern_ref` points into an allocation that is still
alive (so `MemoRef::lookup` on it reads valid memory). -/
def C03_memsafe_at (fuel cap : Nat) (P : Prog) (h : List Op) : Prop :=
  ∀ pre rest, h = pre ++ rest →
    ∀ n v, alookup (runL fuel P (initS cap P, Layer.init) pre).2.regs n = some v →
      (alookup (runL fuel P (initS cap P, Layer.init) pre).1.derived n).isSome = true →
      dangling (runL fuel P (initS cap P, Layer.init) pre).2 v = false

def C03_memsafe : Prop := ∀ fuel cap P h, C03_memsafe_at fuel cap P h

/-- F19: two ref functions intern equal values of two owners in one epoch; the intern node keeps
the pointer into the first owner; only the second ref function is retained; the collection frees
the first owner's value: the retained result `(0,1)` holds a dangling reference. -/
theorem C03_witness_intern_alias :
    ¬ C03_memsafe_at 8 1 [⟨3, .call 1 .param⟩, ⟨0, .src .param⟩]
        [.set 0 7, .set 1 7, .call 0 0, .call 0 1, .retain 0 1, .gc] := fun H =>
  absurd (H [.set 0 7, .set 1 7, .call 0 0, .call 0 1, .retain 0 1, .gc] [] (by simp) ⟨0, 1⟩ 7
            (by decide +kernel) (by decide +kernel)) (by decide +kernel)

theorem C03_memsafe_false : ¬ C03_memsafe := fun H => C03_witness_intern_alias (H 8 1 _ _)

/-- with the two owners interned in DIFFERENT epochs the intern node is re-pointed to the second
owner and, after the same collection, nothing dangles: the witness is about the same-epoch case. -/
example :
    Intern.dangling (Intern.runL 8 [⟨3, .call 1 .param⟩, ⟨0, .src .param⟩] (initS 1 [⟨3, .call 1 .param⟩, ⟨0, .src .param⟩], Intern.Layer.init)
      [.set 0 7, .set 1 7, .set 2 0, .call 0 0, .set 2 1, .call 0 1, .retain 0 1, .gc]).2 7 = false ∧
    Intern.dangling (Intern.runL 8 [⟨3, .call 1 .param⟩, ⟨0, .src .param⟩] (initS 1 [⟨3, .call 1 .param⟩, ⟨0, .src .param⟩], Intern.Layer.init)
      [.set 0 7, .set 1 7, .set 2 0, .call 0 0, .call 0 1, .retain 0 1, .gc]).2 7 = true := by
  decide +kernel

/-! ### retention for all programs and histories -/

/-- **What was pushed is what was called.**  After any history, the ghost `pushes` (every id ever
pushed onto `top_level_calls`) is exactly the sequence of ids of the top-level calls the history
made (`callIds`: one id per `call` operation issued on a live storage, in order): a call made
while a memoised function is running, and the verification of a dependency, push nothing. -/
theorem C03_pushes_are_calls (fuel cap : Nat) (P : Prog) (h : List Op) :
    (after fuel cap P h).pushes = callIds fuel P (initS cap P) h := pushes_after fuel cap P h

/-- a history with a nested call, a re-verification after a source change and a collection -/
example :
    callIds 8 progLru (initS 2 progLru)
        [.set 0 1, .set 1 0, .call 0 0, .set 0 5, .call 0 0, .gc, .call 1 1, .call 0 0]
      = [⟨0, 0⟩, ⟨0, 0⟩, ⟨1, 1⟩, ⟨0, 0⟩] ∧
    (after 8 2 progLru [.set 0 1, .set 1 0, .call 0 0, .set 0 5, .call 0 0, .gc, .call 1 1, .call 0 0]).log.length
      = 5 := by
  decide +kernel

/-- **The collector's roots are the property's roots.**  With `1 ≤ cap`, after any history the
roots of the next collection are the `cap` most recently made distinct top-level calls followed by
the retained ids. -/
theorem C03_roots_are_calls (fuel cap : Nat) (P : Prog) (hcap : 1 ≤ cap) (h : List Op) :
    gcRoots (after fuel cap P h) =
      lastDistinct cap (callIds fuel P (initS cap P) h) ++ (after fuel cap P h).retained.map (·.1) := by
  unfold gcRoots
  rw [C03_lru_invariant fuel P cap hcap h, C03_pushes_are_calls]

/-- the history of the non-vacuity examples below: a query `(1,2)` called once, a query `(0,0)`
called twice with a change of the source it reads in between (the second call re-verifies it and
re-executes its dependency), then retained, then a third query `(0,1)` -/
def histRet : List Op :=
  [.set 0 1, .set 1 7, .set 2 9, .call 1 2, .call 0 0, .set 0 2, .call 0 0, .retain 0 0, .call 0 1]

example : 1 ≤ 1 ∧ gcRoots (after 8 1 progLru histRet) = [⟨0, 1⟩, ⟨0, 0⟩] ∧
    callIds 8 progLru (initS 1 progLru) histRet = [⟨1, 2⟩, ⟨0, 0⟩, ⟨0, 0⟩, ⟨0, 1⟩] ∧
    (after 8 1 progLru histRet).retained.map (·.1) = [⟨0, 0⟩] := by
  decide +kernel

/-- **Retention (the retention clause of C03, for ALL programs and histories).**  With `1 ≤ cap`, a
collection that returns keeps, with unchanged value, stamps and dependency list, every node
reachable from the retained queries and from the `cap` most recently made distinct top-level calls
(`callIds`: the ids of the `call` operations of the history, in order).  No hypothesis on the
program or on the history. -/
theorem C03_retention (fuel cap : Nat) (P : Prog) (pre : List Op) (hcap : 1 ≤ cap)
    (s' : Storage) (hgc : gc (after fuel cap P pre) = (s', .ok ()))
    (r : NodeId)
    (hr : r ∈ lastDistinct cap (callIds fuel P (initS cap P) pre) ++ (after fuel cap P pre).retained.map (·.1))
    (n : NodeId) (hn : Reach (after fuel cap P pre).derived r n) :
    alookup s'.derived n = alookup (after fuel cap P pre).derived n := by
  refine C03_gc_keeps_reachable _ _ hgc r n ?_ hn
  rw [C03_roots_are_calls fuel cap P hcap pre]
  exact hr

/- Non-vacuity: capacity 1, `histRet`.  The collection returns; `(0,0)` is a root only because it is
retained, `(0,1)` only because it is the most recent call; the dependency `(1,0)` of the retained
query is reachable and kept; `(1,2)` is collected. -/
example : ∃ s' r n, 1 ≤ 1 ∧ gc (after 8 1 progLru histRet) = (s', .ok ()) ∧
    r ∈ lastDistinct 1 (callIds 8 progLru (initS 1 progLru) histRet) ++
          (after 8 1 progLru histRet).retained.map (·.1) ∧
    r ∉ lastDistinct 1 (callIds 8 progLru (initS 1 progLru) histRet) ∧
    Reach (after 8 1 progLru histRet).derived r n ∧ n ≠ r ∧
    (alookup s'.derived n).isSome = true ∧
    s'.derived.length < (after 8 1 progLru histRet).derived.length :=
  ⟨(gc (after 8 1 progLru histRet)).1, ⟨0, 0⟩, ⟨1, 0⟩, by decide,
    Prod.ext rfl (by decide +kernel), by decide +kernel, by decide +kernel,
    Reach.step (r := ⟨2, 5, 5, [⟨.derived ⟨1, 0⟩, 5⟩]⟩) (Reach.refl _) (by decide +kernel) (by decide +kernel),
    by decide, by decide +kernel, by decide +kernel⟩

/-- **Served without re-execution.**  After a collection that returns, calling a query the property
names (retained, or among the `cap` most recent distinct top-level calls) — or anything it depends
on — that was verified in the current epoch (i.e. called since the last source change) runs NO
body and returns the stored value: the collector kept the node with value and stamps unchanged
(`C03_retention`), and a node verified in the current epoch is served from the cache.  (If a source
changed in between, whether a body runs is C02's question, not the collector's.) -/
theorem C03_served_without_execution (fuel cap : Nat) (P : Prog) (pre : List Op) (hcap : 1 ≤ cap) (hfuel : 1 ≤ fuel)
    (s' : Storage) (hgc : gc (after fuel cap P pre) = (s', .ok ()))
    (r : NodeId) (hr : r ∈ lastDistinct cap (callIds fuel P (initS cap P) pre) ++ (after fuel cap P pre).retained.map (·.1))
    (f a : Nat) (hn : Reach (after fuel cap P pre).derived r (nodeOf P f a)) (rev : Rev)
    (hrev : alookup (after fuel cap P pre).derived (nodeOf P f a) = some rev) (htv : rev.tv = (after fuel cap P pre).epoch)
    (hstk : (after fuel cap P pre).stack = []) :
    (step fuel P s' (.call f a)).1.runs = s'.runs ∧
      ((step fuel P s' (.call f a)).2 = .dead ∨ (step fuel P s' (.call f a)).2 = .val rev.val) := by
  have hkeep := C03_retention fuel cap P pre hcap s' hgc r hr (nodeOf P f a) hn
  obtain ⟨he, _, _, _, _, _, _⟩ := C03_gc_frame _ _ hgc
  obtain ⟨keep, _, hs'⟩ := gc_ok _ _ hgc
  have hst' : s'.stack = [] := by rw [hs']; exact hstk
  have := step_call_verified_runs (P := P) fuel hfuel s' f a rev hst' (by rw [hkeep]; exact hrev) (by rw [he]; exact htv)
  exact ⟨this.1, this.2.2⟩

/- Non-vacuity: capacity 1; `(0,0)` is retained and was called after the last write; the collection
drops `(1,2)`; the next call of `(0,0)` — and of its dependency `(1,0)` — runs nothing. -/
example :
    (gc (after 8 1 progLru histRet)).2 = .ok () ∧
    (⟨0, 0⟩ : NodeId) ∈ lastDistinct 1 (callIds 8 progLru (initS 1 progLru) histRet) ++ (after 8 1 progLru histRet).retained.map (·.1) ∧
    ((alookup (after 8 1 progLru histRet).derived ⟨0, 0⟩).map (·.tv)) = some (after 8 1 progLru histRet).epoch ∧
    (step 8 progLru (gc (after 8 1 progLru histRet)).1 (.call 0 0)).1.runs = (gc (after 8 1 progLru histRet)).1.runs := by
  decide +kernel

end IsoVerif.Props.C03
