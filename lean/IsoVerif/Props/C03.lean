/-
C03 — Garbage collection keeps retained results and never breaks reads.

Model: `IsoVerif.Pico` (M-PICO): `gc`, `mark`, `lruPut`, the retained counts.  Statements only;
lemmas live in `IsoVerif.Lemmas.Pico*`.

`C03_statement`: no collection panics, and every collection keeps, with unchanged value, stamps
and dependency list, every node reachable from a root the property names — the retained ids and
the `cap` most recently called distinct top-level queries.  It is FALSE of today's code (witnesses
below, replayed on the real crate): while a top-level query is re-verified, its dependencies are
pushed onto `top_level_calls` after it and evict it from the LRU.  What is proved: the LRU refines
"last `cap` distinct" of the sequence it is fed (`C03_lru_spec`), the collector keeps everything
reachable from ITS roots unchanged and only ever removes nodes (`C03_gc_keeps_reachable`,
`C03_gc_only_removes`), and the two root sets coincide when no top-level query was re-verified
since the last collection (`C03_roots_partial`).
The memory-safety clause (raw pointers of `intern_ref`) is outside this model: see PARTIAL.
-/
import IsoVerif.Lemmas.Pico
import IsoVerif.Lemmas.PicoGc

namespace IsoVerif.Props.C03
open IsoVerif.Pico

/-- ids of the top-level calls of a history that returned a value, oldest first -/
def userCalls (fuel cap : Nat) (P : Prog) : List Op → List NodeId → Storage → List NodeId
  | [], acc, _ => acc
  | op :: ops, acc, s =>
    let r := step fuel P s op
    match op, r.2 with
    | .call f a, .val _ => userCalls fuel cap P ops (acc ++ [nodeOf P f a]) r.1
    | _, _ => userCalls fuel cap P ops acc r.1

/-- the roots the property names after history `h`: retained ∪ last `cap` distinct top-level calls -/
def specRoots (fuel cap : Nat) (P : Prog) (h : List Op) : List NodeId :=
  lastDistinct cap (userCalls fuel cap P h [] (initS cap P)) ++ (after fuel cap P h).retained.map (·.1)

/-- C03 on one history. -/
def C03_statement_at (fuel cap : Nat) (P : Prog) (h : List Op) : Prop :=
  ∀ pre rest, h = pre ++ Op.gc :: rest →
    (step fuel P (after fuel cap P pre) .gc).2 = .ok ∧
    ∀ r, r ∈ specRoots fuel cap P pre → ∀ n, Reach (after fuel cap P pre).derived r n →
      alookup (after fuel cap P (pre ++ [.gc])).derived n = alookup (after fuel cap P pre).derived n

/-- **C03 (retention and reads) at full strength** -/
def C03_statement : Prop := ∀ fuel cap P h, C03_statement_at fuel cap P h

/-! ### witnesses (known findings) -/

def progLru : Prog := [⟨0, .call 1 .param⟩, ⟨0, .src .param⟩]
def histLru : List Op := [.set 0 1, .set 1 0, .call 0 0, .set 1 5, .call 0 0, .gc]

/-- capacity 1: the most recently called top-level query `(0,0)` is not there after the collection. -/
theorem C03_witness_lru_evicted : ¬ C03_statement_at 8 1 progLru histLru := fun H =>
  absurd ((H [.set 0 1, .set 1 0, .call 0 0, .set 1 5, .call 0 0] [] rfl).2 ⟨0, 0⟩ (by decide +kernel)
            ⟨0, 0⟩ (Reach.refl _)) (by decide +kernel)

/-- the collection panics: a reference to a node that an earlier collection removed is retained. -/
theorem C03_witness_gc_panic_stale_retain :
    ¬ C03_statement_at 8 1 [⟨2, .lit 1⟩, ⟨2, .lit 2⟩] [.call 0 0, .call 1 0, .gc, .retain 0 0, .gc] := fun H =>
  absurd (H [.call 0 0, .call 1 0, .gc, .retain 0 0] [] rfl).1 (by decide +kernel)

/-- the collection panics after a first call that panicked. -/
theorem C03_witness_gc_panic_after_failed_call :
    ¬ C03_statement_at 8 10 [⟨0, .src .param⟩] [.call 0 0, .gc] := fun H =>
  absurd (H [.call 0 0] [] rfl).1 (by decide +kernel)

theorem C03_statement_false : ¬ C03_statement := fun H => C03_witness_lru_evicted (H 8 1 _ _)

/-! ### what is proved -/

/-- The LRU (`LruCache::put` = move to front + evict the least recent) refines "the `cap` most
recently used distinct ids, most recent first" of the sequence it is fed. -/
theorem C03_lru_spec (cap : Nat) (hcap : 1 ≤ cap) (calls : List NodeId) :
    calls.foldl (lruPut cap) [] = lastDistinct cap calls := lru_spec cap hcap calls

example : 1 ≤ 2 ∧ ([⟨0, 0⟩, ⟨1, 0⟩, ⟨0, 0⟩, ⟨2, 5⟩, ⟨0, 0⟩] : List NodeId).foldl (lruPut 2) []
    = [⟨0, 0⟩, ⟨2, 5⟩] := by decide

/-- a history after which the collection with capacity 1 removes two nodes and with capacity 2 none -/
def histGc : List Op := [.set 0 1, .set 1 7, .call 0 0, .call 1 1]

/-- A collection that returns only removes nodes: what is there afterwards was there before,
unchanged. -/
theorem C03_gc_only_removes (s s' : Storage) (h : gc s = (s', .ok ())) (n : NodeId) (r : Rev) :
    alookup s'.derived n = some r → alookup s.derived n = some r := gc_only_removes s s' h n r

example : ∃ s s' n r, gc s = (s', .ok ()) ∧ alookup s'.derived n = some r ∧
    s'.derived.length < s.derived.length :=
  ⟨after 8 1 progLru histGc, (gc (after 8 1 progLru histGc)).1, ⟨1, 1⟩, ⟨7, 1, 1, [⟨.source (.src 1), 1⟩]⟩,
    Prod.ext rfl (by decide +kernel), by decide +kernel, by decide +kernel⟩

/-- A collection that returns touches nothing but `derived`, `top_level_calls` and the LRU. -/
theorem C03_gc_frame (s s' : Storage) (h : gc s = (s', .ok ())) :
    s'.epoch = s.epoch ∧ s'.srcs = s.srcs ∧ s'.retained = s.retained ∧ s'.maps = s.maps ∧
    s'.runs = s.runs ∧ s'.topCalls = [] ∧ s'.lru = gcLru s := gc_frame s s' h

example : ∃ s s', gc s = (s', .ok ()) ∧ s.topCalls ≠ [] ∧ s.lru ≠ gcLru s :=
  ⟨after 8 1 progLru histGc, (gc (after 8 1 progLru histGc)).1,
    Prod.ext rfl (by decide +kernel), by decide +kernel, by decide +kernel⟩

/-- The collector keeps every node reachable from ITS roots, with unchanged value, stamps and
dependency list. -/
theorem C03_gc_keeps_reachable (s s' : Storage) (h : gc s = (s', .ok ())) (root n : NodeId)
    (hr : root ∈ gcRoots s) (hreach : Reach s.derived root n) :
    alookup s'.derived n = alookup s.derived n := gc_keeps_reachable s s' h root n hr hreach

example : ∃ s s' root n, gc s = (s', .ok ()) ∧ root ∈ gcRoots s ∧ Reach s.derived root n ∧ n ≠ root :=
  ⟨after 8 2 progLru histGc, (gc (after 8 2 progLru histGc)).1, ⟨0, 0⟩, ⟨1, 0⟩,
    Prod.ext rfl (by decide +kernel), by decide +kernel,
    Reach.step (r := ⟨1, 1, 1, [⟨.derived ⟨1, 0⟩, 1⟩]⟩) (Reach.refl _) (by decide +kernel) (by decide +kernel),
    by decide⟩

/-- The collector's roots: the LRU after the pending top-level calls have been folded in, then the
retained ids. -/
theorem C03_roots_are_spec (s : Storage) :
    gcRoots s = s.topCalls.foldl (lruPut s.cap) s.lru ++ s.retained.map (·.1) := roots_are_spec s

/-- **The LRU against the whole history.**  After any history, the LRU the next collection will use
is exactly "the last `cap` distinct ids" of EVERYTHING ever pushed onto `top_level_calls` (the ghost
field `pushes`: the user's calls and, finding F-C03, the dependencies re-verified under them). -/
theorem C03_lru_invariant (fuel : Nat) (P : Prog) (cap : Nat) (hcap : 1 ≤ cap) (h : List Op) :
    gcLru (after fuel cap P h) = lastDistinct cap (after fuel cap P h).pushes :=
  (lru_invariant fuel P cap hcap h).1

/-- a history across a collection; `pushes` holds more than the user's calls -/
example : 1 ≤ 2 ∧
    (after 8 2 progLru [.set 0 1, .set 1 0, .call 0 0, .set 1 5, .call 0 0, .gc, .call 1 1, .call 0 0]).pushes
      = [⟨0, 0⟩, ⟨0, 0⟩, ⟨1, 0⟩, ⟨1, 1⟩, ⟨0, 0⟩] ∧
    gcLru (after 8 2 progLru [.set 0 1, .set 1 0, .call 0 0, .set 1 5, .call 0 0, .gc, .call 1 1, .call 0 0])
      = [⟨0, 0⟩, ⟨1, 1⟩] := by decide +kernel

end IsoVerif.Props.C03
