/-
C17 — A failed compile leaves the artifact directory untouched.

Model: `IsoVerif.Fs.compile` (`Model/Fs.lean`).  `artifacts = none` stands for "validation reported
diagnostics": in `batch_compile::compile` the statement
`let (artifacts, stats) = get_artifact_path_and_content(db)?;` returns the diagnostics before
`get_file_system_operations` (which replaces the in-memory state) and before
`apply_file_system_operations` (which touches the directory) are reached.  That order, and that
nothing before it touches the state or the file system, is pinned from the current source by
translator `t_fs` on every run (a change makes the translator fail, i.e. breaks the tie); in the
model it is the first `match` of `compile`.

The theorems hold for every session state `s` — no in-memory state (batch mode, first compile of a
watch session) or any state left by earlier compiles (watch-mode recompile) — and for every
directory contents.
-/
import IsoVerif.Lemmas.FsSession
import IsoVerif.Gen.FsFacts

namespace IsoVerif.Props.C17
open IsoVerif.Util IsoVerif.Fs IsoVerif.Gen.FsFacts

variable {α : Type} [DecidableEq α]

/-- **A compile that reports diagnostics changes neither the directory nor the in-memory state**, in
any session state, with or without a pending injected fault. -/
theorem C17_untouched (hash : Bytes → Bytes) (s : Session α) (fault : Option Nat) :
    compile createRoot resetOnIoError hash s none fault = (s, .diagnostics) := by
  exact compile_diagnostics createRoot resetOnIoError hash s fault

/-- batch mode: a fresh process on any directory -/
theorem C17_batch (hash : Bytes → Bytes) (fs : Fs α) :
    (compile createRoot resetOnIoError hash ⟨none, fs⟩ none none).1.fs = fs ∧
    (compile createRoot resetOnIoError hash ⟨none, fs⟩ none none).2 = .diagnostics := by
  exact ⟨rfl, rfl⟩

/-- watch mode: after any history of compiles (successful, failed validation, I/O faults), a
recompile that reports diagnostics leaves the directory and the in-memory state as they were, so the
rest of the session behaves as if it had not happened. -/
theorem C17_watch (hash : Bytes → Bytes) (s₀ : Session α) (before after : List (Step α)) (fault : Option Nat) :
    runSteps createRoot resetOnIoError hash s₀ (before ++ ⟨none, fault⟩ :: after) =
      runSteps createRoot resetOnIoError hash s₀ (before ++ after) := by
  induction before generalizing s₀ with
  | nil => rfl
  | cons st rest ih => simp only [List.cons_append, runSteps]; exact ih _

/-- In particular the directory still equals the artifacts of the last successful compile. -/
theorem C17_keeps_last_success (hash : Bytes → Bytes) (s : Session α) (arts : List (Artifact α))
    (h : ∀ p, Fs.get s.fs p = expectedGet arts p) (fault : Option Nat) :
    ∀ p, Fs.get (compile createRoot resetOnIoError hash s none fault).1.fs p = expectedGet arts p := by
  exact h

end IsoVerif.Props.C17
