/-
C14 — Compilation output is deterministic.

The iteration order `π` of every `HashMap`/`HashSet` differs between processes.  Translator T8 lists every
such iteration in the anchored files (`Gen/HashIterSites.lean`); `Model/Core/Determinism.lean` assigns each
site the shapes of the sinks its elements are fed to; here each shape is proved invariant under permutation
of the iterated list (`C14_perm_invariant`), and the kernel decides that the classification covers exactly the
generated sites (`C14_sites_classified`) — a new hash iteration in an anchored file, or a sink changing its
container type, falsifies it until the site is modelled.

The tie of the classification itself (that a loop body really is of the shape it is filed under, e.g. that
the value inserted under a key depends on the key only, that artifact paths are unique per element) is by
reading plus the process-level oracle: every generated project is compiled by the real CLI in fresh processes
(different `RandomState`), with files created in reverse order, and with the declarations regrouped into other
files; artifacts and diagnostics are byte-compared.

Two order-sensitive folds existed outside the anchored files (first definition wins, the later one is
reported): fixed in ae7fd9c / 9ce2dae by visiting the source files in path order (`C14_fixed_first_wins`).
-/
import IsoVerif.Lemmas.ArtsDeterminism

namespace IsoVerif.Props.C14
open IsoVerif.Core.Determinism

/-- What "order-insensitive" means for each sink shape: for every element type with decidable equality, every
total order on it (the `Ord` of the key type) and every two orders `xs ~ ys` in which the hash container
may hand out its elements. -/
def ShapeInvariant : Shape → Prop
  | .intoSortedSet | .collectThenSortedSet =>
    ∀ (α : Type) [DecidableEq α] (le : α → α → Bool), TotalOrder le →
      ∀ (s xs ys : List α), StrictSorted le s → xs.Perm ys → extendSet le s xs = extendSet le s ys
  | .collectThenSort =>
    ∀ (α : Type) [DecidableEq α] (le : α → α → Bool), TotalOrder le →
      ∀ (xs ys : List α), xs.Perm ys → collectThenSort le xs = collectThenSort le ys
  | .keyedInsert =>
    ∀ (α β : Type) [DecidableEq α] (le : α → α → Bool), TotalOrder le →
      ∀ (f : α → β) (m : List (α × β)) (xs ys : List α), StrictSorted le (m.map Prod.fst) → xs.Perm ys →
        keyedInsert le f m xs = keyedInsert le f m ys
  | .pathKeyedVec =>
    ∀ (α β : Type) [DecidableEq α] (le : α → α → Bool), TotalOrder le →
      ∀ (xs ys : List (α × β)), xs.Perm ys → (xs.map Prod.fst).Nodup → toMap le xs = toMap le ys
  | .commutativeCount =>
    ∀ (α : Type) (w : α → Nat) (n : Nat) (xs ys : List α), xs.Perm ys → countBy w n xs = countBy w n ys
  | .setToSet =>
    ∀ (α : Type) [DecidableEq α] (acc xs ys : List α), acc.Nodup → xs.Perm ys →
      (∀ a, a ∈ hashInsertAll acc xs ↔ a ∈ hashInsertAll acc ys) ∧ (hashInsertAll acc xs).Perm (hashInsertAll acc ys)

/-- Every sink shape is invariant under permutation of the iterated elements. -/
theorem C14_perm_invariant : ∀ s : Shape, ShapeInvariant s := by
  intro s
  cases s
  · intro α _ le h s xs ys hs p; exact extendSet_perm h s hs p
  · intro α _ le h s xs ys hs p; exact extendSet_perm h s hs p
  · intro α _ le h xs ys p; exact sortBy_perm h p
  · intro α β _ le h f m xs ys hm p; exact keyedInsert_perm h f m hm p
  · intro α β _ le h xs ys p hk; exact toMap_perm h p hk
  · intro α w n xs ys p
    classical
    exact countBy_perm w n p
  · intro α _ acc xs ys hacc p
    have := hashInsertAll_perm acc hacc p
    exact ⟨this.1, this.2.2.2⟩

/-- The classification covers exactly the hash iterations T8 found in the source, sink hints included. -/
theorem C14_sites_classified : sitesCovered = true ∧ sitesShaped = true := by decide +kernel

/-- Every generated site only feeds sinks of proved shapes. -/
theorem C14_sites_invariant :
    ∀ site ∈ Gen.HashIterSites.sites, shapesOf site ≠ [] ∧ ∀ s ∈ shapesOf site, ShapeInvariant s := by
  intro site hs
  refine ⟨?_, fun s _ => C14_perm_invariant s⟩
  revert site
  decide +kernel

/- non-vacuity: a total order and a permutation -/
example : TotalOrder (fun a b : Nat => decide (a ≤ b)) :=
  ⟨fun a b => by simp; omega, fun a b h1 h2 => by simp at h1 h2; omega, fun a b c h1 h2 => by simp at *; omega⟩
example : extendSet (fun a b : Nat => decide (a ≤ b)) [2] [3, 1, 3] = extendSet (fun a b : Nat => decide (a ≤ b)) [2] [1, 3, 3] := by
  decide

/-- "First definition wins, later ones are reported" IS order-sensitive: the two orders of two definitions of
key 1 (in files 10 and 20) report different duplicates — the behaviour before ae7fd9c / 9ce2dae. -/
theorem C14_witness_first_wins_order_sensitive :
    firstWins (fun x : Nat × Nat => x.2) [(10, 1), (20, 1)] ≠ firstWins (fun x : Nat × Nat => x.2) [(20, 1), (10, 1)] := by
  decide

/-- After the fixes the files are visited in path order: the report no longer depends on the hash order. -/
theorem C14_fixed_first_wins {α β : Type} [DecidableEq α] [DecidableEq β] (le : β → β → Bool) (h : TotalOrder le)
    (key : β → α) {xs ys : List β} (p : xs.Perm ys) :
    firstWins key (sortBy le xs) = firstWins key (sortBy le ys) := by
  rw [sortBy_perm h p]

end IsoVerif.Props.C14
