/-
C19 — An interrupted artifact write is repaired by the next successful compile.

Model: `IsoVerif.Fs` (`Model/Fs.lean`).  A failure is anything but `ok`: a real I/O error, the
injected fault at any operation index `k`, or a panic; the theorems do not look at where it
happened — they hold for an **arbitrary** directory state after the failure (`RootOk`: the artifact
directory is absent or a directory, anything below it), which also covers torn writes and a killed
process.  That a failure cannot turn the artifact directory into something else is
`C19_failure_keeps_rootOk`.

(a) new process: no in-memory state, `recreate_all` — `C19_fresh_process`.
(b) same session: `compile` drops the in-memory state when applying fails (`resetOnIoError`, read
    from the current source by translator `t_fs`; F9 was its absence) — `C19_state_after_failure`,
    so the next compile is again a `recreate_all` — `C19_same_session`.
`C19_history` quantifies over whole histories: any sequence of compiles, each with a validation
failure, a fault at any operation, or success, followed by a fault-free compile.
-/
import IsoVerif.Lemmas.FsSession
import IsoVerif.Gen.FsFacts

namespace IsoVerif.Props.C19
open IsoVerif.Util IsoVerif.Fs IsoVerif.Gen.FsFacts

/-- the current source drops the in-memory state when applying fails (the F9 repair), and it
re-creates the artifact directory in `recreate_all` (the F8 repair) -/
theorem C19_gen_facts : resetOnIoError = true ∧ createRoot.creates ∧ stateReplacedBeforeApply = true := by
  refine ⟨by decide, ?_, by decide⟩
  show createRoot ≠ CreateRoot.never
  decide

variable {α : Type} [DecidableEq α]

/-- (b), the reduction: a compile that does not succeed leaves the session without in-memory state. -/
theorem C19_state_after_failure (hash : Bytes → Bytes) (s : Session α) (arts : List (Artifact α))
    (fault : Option Nat)
    (hfail : (compile createRoot resetOnIoError hash s (some arts) fault).2 ≠ .ok) :
    (compile createRoot resetOnIoError hash s (some arts) fault).1.fsState = none := by
  exact compile_fail_state createRoot hash s arts fault hfail

/-- a failed compile — whatever the in-memory state was, wherever it stopped — leaves the artifact
directory absent or a directory -/
theorem C19_failure_keeps_rootOk (hash : Bytes → Bytes) (s : Session α) (arts : Option (List (Artifact α)))
    (fault : Option Nat) (h : RootOk s.fs) :
    RootOk (compile createRoot resetOnIoError hash s arts fault).1.fs := by
  exact compile_rootOk createRoot resetOnIoError hash s arts fault h

/-- (a) **new process**: on an arbitrary directory state left by a failure (or a kill), the next
fault-free compile succeeds and leaves exactly its artifacts. -/
theorem C19_fresh_process (R : α → Bool) (hash : Bytes → Bytes) (fs : Fs α) (h : RootOk fs)
    (arts : List (Artifact α)) (hs : NamesSane R arts) :
    ∃ fs', compile createRoot resetOnIoError hash ⟨none, fs⟩ (some arts) none =
        (⟨some (fromArtifacts hash arts), fs'⟩, .ok) ∧
      ∀ p, Fs.get fs' p = expectedGet arts p := by
  exact compile_first R createRoot C19_gen_facts.2.1 resetOnIoError hash ⟨none, fs⟩ arts rfl h hs

/-- (b) **same session**: after a compile of `arts₁` that failed at any point, in any session state,
the next fault-free compile (of any `arts₂`) succeeds and leaves exactly `arts₂`. -/
theorem C19_same_session (R : α → Bool) (hash : Bytes → Bytes) (s : Session α) (h : RootOk s.fs)
    (arts₁ : List (Artifact α)) (fault : Option Nat)
    (hfail : (compile createRoot resetOnIoError hash s (some arts₁) fault).2 ≠ .ok)
    (arts₂ : List (Artifact α)) (hs : NamesSane R arts₂) :
    ∃ fs', compile createRoot resetOnIoError hash
        (compile createRoot resetOnIoError hash s (some arts₁) fault).1 (some arts₂) none =
        (⟨some (fromArtifacts hash arts₂), fs'⟩, .ok) ∧
      ∀ p, Fs.get fs' p = expectedGet arts₂ p := by
  exact compile_first R createRoot C19_gen_facts.2.1 resetOnIoError hash _ arts₂
    (C19_state_after_failure hash s arts₁ fault hfail)
    (C19_failure_keeps_rootOk hash s (some arts₁) fault h) hs

/-- **Every history**: start a process on any directory (`RootOk`), run any sequence of compiles —
each one failing validation, hit by a fault at any operation index, or succeeding — then a
fault-free compile: it succeeds and the directory is exactly its artifacts.  `C` is the set of
contents that occur; the hash is assumed injective on it (MD5 in the code). -/
theorem C19_history (R : α → Bool) (C : Bytes → Prop) (hash : Bytes → Bytes) (hinj : HashInjOn hash C)
    (fs₀ : Fs α) (h₀ : RootOk fs₀) (steps : List (Step α)) (hok : ∀ st ∈ steps, StepOk R C st)
    (arts : List (Artifact α)) (hs : NamesSane R arts) (hC : ∀ x ∈ arts, C x.content) :
    ∃ fs', compile createRoot resetOnIoError hash
        (runSteps createRoot resetOnIoError hash ⟨none, fs₀⟩ steps) (some arts) none =
        (⟨some (fromArtifacts hash arts), fs'⟩, .ok) ∧
      ∀ p, Fs.get fs' p = expectedGet arts p := by
  exact compile_of_inv R C createRoot C19_gen_facts.2.1 resetOnIoError hash hinj _
    (inv_runSteps R C createRoot C19_gen_facts.2.1 hash hinj steps hok _ (inv_fresh R C hash fs₀ h₀))
    arts hs hC

/-! Non-vacuity and the defect as a fact about the model. -/

def exR : Nat → Bool := fun n => decide (100 ≤ n)
def exArts : List (Artifact Nat) := [⟨some (1, 2), 3, [97]⟩, ⟨some (1, 2), 4, [98]⟩, ⟨none, 100, [99]⟩]

example : NamesSane exR exArts := by
  intro a ha
  simp [exArts] at ha
  rcases ha with rfl | rfl | rfl <;> decide
/-- a fault at operation 2 of the first compile really is a failure (hypothesis `hfail`) -/
example : (compile createRoot resetOnIoError id (⟨none, []⟩ : Session Nat) (some exArts) (some 2)).2 ≠ .ok := by
  decide +kernel
example : HashInjOn (fun b => b) (fun _ => True) := fun _ _ _ _ h => h

/-- F9 as a fact about the model: without the reset (the source before the repair), after a fault at
operation 2 the same-session recompile of the same artifacts "succeeds" and leaves the directory
without `1/2/3`. -/
theorem C19_witness_F9_no_reset :
    let s₁ := (compile createRoot false id (⟨none, []⟩ : Session Nat) (some exArts) (some 2)).1
    let r := compile createRoot false id s₁ (some exArts) none
    r.2 = .ok ∧ Fs.get r.1.fs [1, 2, 3] = none ∧ expectedGet exArts [1, 2, 3] = some (.file [97]) := by
  decide +kernel

end IsoVerif.Props.C19
