/-
C11 — Normalization ASTs describe exactly the operation they accompany.

Models: `printQuery` (crates/graphql_network_protocol/src/query_text.rs) and `printNormAst`
(crates/artifact_content/src/normalization_ast_text.rs), both over the merged selection map that
the artifact generator hands to them (dump hook `artifact_content::verif`).  `queryTree m` /
`normTree m` are the abstract selection trees (field, arguments, inline fragment, nesting) the two
printers write down; the first two theorems say that the printed texts are renderings of these
trees, the third that the trees are equal for EVERY merged map (this includes the `__typename`
placeholder of an empty selection set, repaired in /repo by 6f9acf2, and `ClientObjectSelectable`
entries, which both printers skip).

Refetch queries: the artifact generator does not hand the same map to the two printers — an inline
fragment on `wrap_refetch_field_with_inline_fragment` is added for the operation text only.  The
full statement for refetch queries (`C11_refetch_statement`) is therefore false; it is refuted on a
witness and proved for `wrap = none`.

`concreteType` is printed from the map's `concrete_target_entity_name` verbatim; that this flag is
`Concrete` exactly for fields of concrete type is a property of the merge, checked by the oracle
on the implementation's files (see props/C11.py).
-/
import IsoVerif.Lemmas.PrintersTree

namespace IsoVerif.Props.C11
open IsoVerif.Core

/-- The operation text is the rendering of `queryTree m` (both formats). -/
theorem C11_query_render (fmt : Format) (kind name varsText : Str) (m : SelMap) :
    printQueryCore fmt kind name varsText m
      = queryHeader fmt kind name varsText ++ renderTrees fmt 1 (queryTree m) ++ [125] :=
  printQueryCore_render fmt kind name varsText m

/-- The normalization AST text is the rendering of the decorated tree `normTreeD m`, whose
erasure is `normTree m`. -/
theorem C11_norm_render (level : Nat) (m : SelMap) :
    printNormAstCore level m = renderTs level (normTreeD m) ∧ normTree m = NTree.eraseList (normTreeD m) :=
  ⟨printNormAstCore_render level m, rfl⟩

/-- Same fields, arguments, inline fragments and nesting, for every merged selection map. -/
theorem C11_same_tree (m : SelMap) : normTree m = queryTree m := normTree_eq_queryTree m

/-- Both printers panic on exactly the same maps (a list value in a printed argument). -/
theorem C11_same_panics (fmt : Format) (kind name : Str) (m : SelMap) (level : Nat) :
    (printQuery fmt kind name [] m).isNone = (printNormAst level m).isNone := by
  simp [printQuery, printNormAst, variablesText]
  cases SelMap.printPanics m <;> simp

/-- refetch queries: full statement (false, see the witness) -/
def C11_refetch_statement : Prop :=
  ∀ (nested : SelMap) (subfields : List WrapSel) (wrap : Option Str),
    normTree (refetchNormMap nested subfields) = queryTree (refetchQueryMap nested subfields wrap)

/-- When no inline fragment is requested the two printers get one map. -/
theorem C11_refetch_partial (nested : SelMap) (subfields : List WrapSel) :
    normTree (refetchNormMap nested subfields) = queryTree (refetchQueryMap nested subfields none) := by
  simpa [refetchNormMap, refetchQueryMap] using C11_same_tree (selectionMapWrapped nested subfields)

/-- pet-demo `Query.SmartestPetRoute`, refetch query 1 (`checkinsPointer to [ICheckin!]!`): the
operation text selects `node { ... on ICheckin { … } }`, the normalization AST `node { … }`. -/
theorem C11_witness_refetch_fragment : ¬ C11_refetch_statement := by
  intro h
  have := h [(⟨1, .id⟩, Sel.scalar false cs!"id" [])]
    [.linked cs!"node" [(cs!"id", .var cs!"id")] .abstract true] (some cs!"ICheckin")
  have := congrArg Tree.sizeList this
  revert this
  decide +kernel

/- Non-vacuity of C11_refetch_partial: a nested map wrapped in `node(id: $id) { … }`. -/
example : renderTrees .compact 1 (queryTree (refetchQueryMap [(⟨1, .id⟩, Sel.scalar false cs!"id" [])]
    [.linked cs!"node" [(cs!"id", .var cs!"id")] .abstract true] none))
    = cs!"node____id___v_id: node(id: $id) { id, }, " := by
  decide +kernel

end IsoVerif.Props.C11
