/-
C09 — every generated operation, taken as the string the runtime reads from the artifact, parses as
GraphQL and passes validation against the schema.

`C09_holds_at schema file`: the property for ONE generated `query_text.ts` /
`__refetch__query_text__N.ts`: the module evaluates to a string (`jsValue`, ECMAScript string-literal
semantics), the string parses with the reference lexer and parser written from the June-2018
specification (gql family), and the document passes `validate` (Model/Core/GqlValid.lean, §5 of the
specification).  The oracle evaluates exactly this on every file the real compiler writes, with node's
evaluation of the module in place of `jsValue` (and compares the two).

False on the unchanged tree.  Repaired and re-proved: the embedding (F13, dc59a0f), variables inside
object arguments (F12/F12b, af3b32d), non-null list variables (e06371c), variables below client
pointers (31b992f) — each with the text the REAL compiler wrote before and after.  Still open: the
response aliases (F11), shown by witnesses.  Proved for all inputs: the JavaScript level
(`C09_js_embedding`: EVERY printable text, apostrophes and backslashes included, comes back from the
module unchanged), mergeability from distinct response names (`C09_distinct_keys_merge`), declared =
used variables for every merged map (`C09_declared_eq_used`), and the composition `C09_valid_partial`.
-/
import IsoVerif.Lemmas.OpsWitness
import IsoVerif.Lemmas.OpsJs
import IsoVerif.Lemmas.OpsValid

namespace IsoVerif.Props.C09
open IsoVerif.Core IsoVerif.Ops IsoVerif.GqlValid

/-- the property for one generated artifact -/
def C09_holds_at (schema : VSchema) (file : Str) : Prop :=
  ∃ text doc, jsValue file = some text ∧ parseDoc text = some doc ∧ Valid schema doc = true

/-- the property: it holds at every file the compiler writes for an accepted program; the two files
below are such files (each is replayed against the real compiler on every run) -/
def C09_statement : Prop :=
  ∀ file ∈ [Witness.plainFile, Ops.queryTextFile Witness.f11NegPretty], C09_holds_at Witness.schema file

/-! ### witnesses (texts printed by the real compiler for accepted programs) -/

/-- F11: `user(n: -5)` — the module is JavaScript, but the alias `user____n___l_-5` is not a Name and
the text does not parse -/
theorem C09_witness_negative_int_alias : ¬ C09_holds_at Witness.schema (Ops.queryTextFile Witness.f11NegPretty) := by
  rintro ⟨text, doc, h, hp, _⟩
  rw [Witness.f11neg_javascript] at h
  cases h
  have := Witness.f11neg_unparsed
  simp [Witness.check, hp] at this

theorem C09_statement_false : ¬ C09_statement := fun h =>
  C09_witness_negative_int_alias (h _ (by simp))

/-- F13, repaired by dc59a0f: `user(name: "it's")` used to be embedded verbatim — not JavaScript; the
file written now evaluates to the operation, which is valid -/
theorem C09_fixed_apostrophe :
    jsValue Witness.f13File = none ∧
    Witness.f13File = exportDefault ++ Witness.f13Pretty ++ cs!"';" ∧
    C09_holds_at Witness.schema (Ops.queryTextFile Witness.f13Pretty) := by
  refine ⟨Witness.f13_not_javascript, Witness.f13_before_is_unescaped, ?_⟩
  have hv := Witness.f13_repaired_valid
  unfold Witness.check at hv
  cases hp : parseDoc cs!"query Home {  user____name___s_it_s: user(name: \"it's\") {    id,    name,  },}" with
  | none => simp [hp] at hv
  | some doc =>
    simp [hp] at hv
    exact ⟨_, doc, Witness.f13_repaired_javascript, hp, hv⟩

/-- F12, repaired by af3b32d: `user(filter: { id: $id })` used to be printed without declaring `$id`;
the operation printed now declares it -/
theorem C09_fixed_undeclared_nested_variable :
    Witness.check Witness.f12Text = some false ∧ Witness.check Witness.f12Repaired = some true :=
  ⟨Witness.f12_invalid, Witness.f12_repaired_valid⟩

/-- F12b, repaired by af3b32d: the object argument `{ id: $uid }` passed to a client field used to be
replaced by `$uid` (an `ID` at a `UserFilter` position); now the object is kept -/
theorem C09_fixed_object_replaced_by_variable :
    Witness.check Witness.f12bText = some false ∧ Witness.check Witness.f12bRepaired = some true :=
  ⟨Witness.f12b_invalid, Witness.f12b_repaired_valid⟩

/-- F11: `"a b"` and `"a_b"` collapse to one response name: FieldsInSetCanMerge fails -/
theorem C09_witness_alias_collision : Witness.check Witness.f11CollideText = some false :=
  Witness.f11collide_invalid

/-- repaired by e06371c: `$ids: [ID!]!` used to be declared `[ID!]` -/
theorem C09_fixed_non_null_list_variable :
    Witness.check Witness.listVarBefore = some false ∧ Witness.check Witness.listVarAfter = some true :=
  ⟨Witness.listVar_before_invalid, Witness.listVar_after_valid⟩

/-- repaired by 31b992f: a variable used only below a client pointer used to be declared (unused) -/
theorem C09_fixed_unused_pointer_variable :
    Witness.check Witness.pointerVarBefore = some false ∧ Witness.check Witness.pointerVarAfter = some true :=
  ⟨Witness.pointerVar_before_invalid, Witness.pointerVar_after_valid⟩

/-- a plain operation with variables, literals and nested selections is valid -/
theorem C09_plain_valid : Witness.check Witness.plainText = some true := Witness.plain_valid

/-! ### what holds for every input -/

/-- JavaScript level: for EVERY text the printer can produce (any characters of the Basic Multilingual
Plane, apostrophes and backslashes included; line feeds only as the printer's backslash+LF
continuations; no carriage return), the file the compiler writes (`queryTextFile`: `export default '`
++ the text with `'` and `\` escaped ++ `';`) evaluates to the text with the continuations removed -/
theorem C09_js_embedding (t : Str) (h : embeddable t = true) :
    jsValue (Ops.queryTextFile t) = some (dropContinuations t) :=
  jsValue_queryTextFile t h

example : embeddable cs!"query Q {\\\n  user(name: \"it's\") {\\\n    id,\\\n  },\\\n}" = true := by decide

/-- before dc59a0f the text was embedded as is; that was right exactly for texts without apostrophe
or stray backslash -/
theorem C09_js_embedding_before_repair (t : Str) (h : safeEmbedded t = true) :
    jsValue (exportDefault ++ t ++ cs!"';") = some (dropContinuations t) :=
  jsValue_embed t h

/-- response names: a selection set whose fields have pairwise distinct response names passes
FieldsInSetCanMerge — for every schema, whatever the fields are -/
theorem C09_distinct_keys_merge (s : VSchema) (fuel : Nat) (fields : List CField)
    (h : (fields.map (·.response)).Nodup) : canMergeSet s (fuel + 1) fields = [] :=
  canMergeSet_of_distinct s fuel fields h

/-- variables: the compiler declares the variables it collects from the merged map
(`reachable_variables`, nested ones included since af3b32d); these are exactly the variables the
printed operation uses, in the same order — every used variable is declared and every declared
variable is used (client pointer entries, which are not printed, contribute none since 31b992f) -/
theorem C09_declared_eq_used (m : SelMap) : Vars.printedMap m = Vars.reachableMap m :=
  Vars.printed_eq_reachable m

/-- before af3b32d (`get_variables` only looked at top-level argument values) that held only when no
variable was nested in an object or list … -/
theorem C09_declared_eq_used_before_repair (m : SelMap) (h : Vars.flatMap m = true) :
    Vars.printedMap m = Vars.reachableOldMap m :=
  Vars.printed_eq_reachableOld_of_flat m h

/-- … and F12 was the other case: `{ i: $x }` is printed, `$x` was not collected -/
theorem C09_fixed_nested_variable_not_collected :
    Vars.printedMap Vars.f12Map ≠ Vars.reachableOldMap Vars.f12Map ∧
    Vars.printedMap Vars.f12Map = Vars.reachableMap Vars.f12Map :=
  ⟨Vars.f12_printed_ne_reachableOld, Vars.printed_eq_reachable _⟩

/-- composition: for every printable text the property reduces to the GraphQL level — the parse and
validation of the operation text itself -/
theorem C09_valid_partial (schema : VSchema) (t : Str) (doc : List Gql.ExecDef)
    (hsafe : embeddable t = true)
    (hparse : parseDoc (dropContinuations t) = some doc)
    (hvalid : Valid schema doc = true) :
    C09_holds_at schema (Ops.queryTextFile t) :=
  ⟨dropContinuations t, doc, jsValue_queryTextFile t hsafe, hparse, hvalid⟩

example : C09_holds_at Witness.schema (Ops.queryTextFile Witness.f13Pretty) := C09_fixed_apostrophe.2.2

end IsoVerif.Props.C09
