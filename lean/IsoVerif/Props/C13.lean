/-
C13 — All generated artifacts are syntactically valid and import-closed.

Three parts (DESIGN §8, C13):

* `C13_holes…`: over the TypeScript lexical-context automaton of `Model/TsLex.lean` (code, `'…'`, `"…"`,
  template, `//`, `/* */`), for every hole through which a generator splices user-controlled text into an
  artifact, the text as embedded by the code stays inside the hole's context and leaves the automaton in the
  state it found it — so nothing after the hole changes its lexical meaning (`C13_holes_lexState`).
  Full strength for schema descriptions (after fix ce7cb8c `*/ ↦ *\/`), string arguments in the single-quoted
  operation text (after fix dc59a0f, F13) and in double-quoted positions, and names; FALSE, with witnesses, for
  `generated_file_header` (CR, U+2028, U+2029 end the `//` comment) and for source file paths in the resolver
  import (`'`, `\`): there the provable part carries the hypothesis `Hole.safe`.
* `C13_imports…`: the path arithmetic of every import template of the generators, and closure of an
  artifact plan.  That the plan of the REAL generator is closed is established by the oracle on every
  compiled project (imports are read back from the implementation's artifacts), not by a theorem; it is
  false today for two templates (open findings, `C13_witness_unclosed_…`).
* That the skeletons are TypeScript / JSON is the external oracle (swc_ecma_parser, serde_json) on every
  artifact of every compiled generated project.
-/
import IsoVerif.Lemmas.ArtsTsLex
import IsoVerif.Lemmas.ArtsImports

namespace IsoVerif.Props.C13
open IsoVerif.TsLex IsoVerif.Core.Imports

/-- The property at one hole and one text the front end lets through to it. -/
def C13_holes_statement_at (h : Hole) (t : Text) : Prop :=
  h.domain t = true → holeOk h (h.embed t) = true

/-- Every hole, every text of its domain that meets the hole's `safe` condition (`true` for descriptions, string
arguments in both quoted positions and names). -/
theorem C13_holes_partial (h : Hole) (t : Text) (hs : h.safe t = true) : C13_holes_statement_at h t :=
  fun hd => holeOk_of_safe h t hd hs

/-- Full strength: schema descriptions in doc comments (every text, `*/` included). -/
theorem C13_holes_desc (t : Text) : C13_holes_statement_at .desc t := C13_holes_partial .desc t rfl

/-- Full strength: string arguments in double-quoted positions (normalization AST, reader AST). -/
theorem C13_holes_strDouble (t : Text) : C13_holes_statement_at .strDouble t := C13_holes_partial .strDouble t rfl

/-- Full strength: names in identifier positions. -/
theorem C13_holes_name (t : Text) : C13_holes_statement_at .name t := C13_holes_partial .name t rfl

example : Hole.domain .desc [116, 104, 101, 32, 42, 47, 32, 101, 118, 105, 108] = true := by decide   -- "the */ evil"
example : Hole.domain .strSingle [105, 116, 39, 115, 32, 92, 34] = true := by simp [Hole.domain, strArgDomain, isBmp]   -- `it's \"`

theorem term_neutral (h : Hole) : run h.fam.base h.term = h.fam.base := by
  cases h <;> rfl

/-- The form of DESIGN §8: splicing the embedded text into ANY artifact text at a position that lies in the
hole's context does not change the lexical state of anything that follows. -/
theorem C13_holes_lexState (h : Hole) (t pre suf : Text) (hd : h.domain t = true) (hs : h.safe t = true)
    (hpre : lexState pre = h.fam.base) :
    lexState (pre ++ (h.embed t ++ h.term) ++ suf) = lexState (pre ++ h.term ++ suf) := by
  have hok := holeOk_of_safe h t hd hs
  simp only [holeOk, Bool.and_eq_true, beq_iff_eq] at hok
  rw [lex_lift pre (h.embed t ++ h.term) suf _ hpre hok.2, lex_lift pre h.term suf _ hpre (term_neutral h)]

/-- Full strength: string arguments in the single-quoted operation text (after fix dc59a0f: `\` ↦ `\\`, `'` ↦ `\'`). -/
theorem C13_holes_strSingle (t : Text) : C13_holes_statement_at .strSingle t := C13_holes_partial .strSingle t rfl

/-- F13 is fixed (dc59a0f): `it's` as a string argument stays inside the single-quoted operation text; spliced
verbatim (the code before the fix) it ended the string. -/
theorem C13_fixed_witness_F13 :
    holeOk .strSingle (Hole.embed .strSingle [105, 116, 39, 115]) = true ∧
    holeOk .strSingle [105, 116, 39, 115] = false := by
  decide

/-- `generated_file_header: "a\rb"` passes the config check (`lines().count() == 1`) and puts `b` into code
position (open finding). -/
theorem C13_witness_header_cr : ¬ C13_holes_statement_at .header [97, 13, 98] := by
  intro h
  have := h (by decide)
  revert this
  decide

/-- a source file `it's.ts` ends the single-quoted specifier of the resolver import (open finding). -/
theorem C13_witness_path_quote : ¬ C13_holes_statement_at .path [105, 116, 39, 115] := by
  intro h
  have := h (by decide)
  revert this
  decide

/-- F13b is fixed (ce7cb8c): `the name */ evil` stays inside the doc comment; before the fix the verbatim
text left it. -/
theorem C13_fixed_witness_F13b :
    holeOk .desc (Hole.embed .desc [116, 104, 101, 32, 110, 97, 109, 101, 32, 42, 47, 32, 101, 118, 105, 108]) = true ∧
    holeOk .desc [116, 104, 101, 32, 110, 97, 109, 101, 32, 42, 47, 32, 101, 118, 105, 108] = false := by
  decide

/-! ## Imports -/

/-- Every import template, printed from a place it fits, names the file it is meant to name: `./x`,
`../../T/f/x`, `import("../../T/f/entrypoint")`, iso.ts's `../__isograph/T/f/entrypoint` and `./T/f/x`,
with and without `.ts` in the specifier. -/
theorem C13_imports_template (art : Path) (ext : Bool) (place : Place) (t : Template)
    (hart : allPlain art = true) (hlast : art.getLast? = some "__isograph")
    (hplace : match place with
      | .nested ty field file => plain ty = true ∧ plain field = true ∧ plain file = true
      | .iso => True)
    (hnames : match t with
      | .cousin ty field _ | .cousinNoExt ty field _ | .isoUp ty field _ | .isoDown ty field _ =>
        plain ty = true ∧ plain field = true
      | .sibling _ => True)
    (hfits : t.fits place = true) :
    names (resolve (place.path art) (t.spec ext)) (t.target art place) = true :=
  template_resolves art ext place t hart hlast hplace hnames hfits

/-- The resolver import `import { X as resolver } from '<diff_paths(source, artifact dir/Type/Field)>'`
resolves, from any file of that directory, to the source file. -/
theorem C13_imports_resolver (pre source base : Path) (file : String)
    (hp : allPlain source = true) (hb : allPlain base = true) :
    resolve (pre ++ base ++ [file]) (diffPaths source base) = pre ++ source :=
  resolve_diffPaths pre source base file hp hb

/-- In a closed plan every relative import names a generated file. -/
theorem C13_imports (p : Plan) (hwf : p.wellFormed = true) (hc : p.closed = true) :
    ∀ fs ∈ p.importsOf, ∃ q ∈ p.paths, names (resolve fs.1 fs.2) q = true :=
  plan_imports_resolve p hwf hc

/-- the plan of `field Query.H { name }` + `entrypoint Query.H` (what the compiler generates for it) -/
def planH (ext : Bool) : Plan :=
  { art := ["src", "__isograph"], ext,
    files := [
      ⟨.nested "Query" "H" "entrypoint.ts",
        [.sibling .paramType, .sibling .outputType, .sibling .rawResponseType, .sibling .resolverReader,
         .sibling .queryText, .sibling .normalizationAst]⟩,
      ⟨.nested "Query" "H" "resolver_reader.ts", [.sibling .paramType, .sibling .outputType]⟩,
      ⟨.nested "Query" "H" "param_type.ts", []⟩,
      ⟨.nested "Query" "H" "output_type.ts", []⟩,
      ⟨.nested "Query" "H" "raw_response_type.ts", []⟩,
      ⟨.nested "Query" "H" "query_text.ts", []⟩,
      ⟨.nested "Query" "H" "normalization_ast.ts", []⟩,
      ⟨.iso, [.isoDown "Query" "H" .paramType, .isoUp "Query" "H" .entrypoint]⟩] }

example : (planH true).wellFormed = true ∧ (planH true).closed = true := by decide
example : (planH false).wellFormed = true ∧ (planH false).closed = true := by decide

/-- Open finding: a client field with variables that no entrypoint reaches gets `param_type.ts` (which imports
`./parameters_type`) but no `parameters_type.ts` — the generator's plan is not closed. -/
def planUnreachableWithVars : Plan :=
  { art := ["src", "__isograph"], ext := false,
    files := [⟨.nested "Query" "F" "param_type.ts", [.sibling .parametersType]⟩,
              ⟨.iso, [.isoDown "Query" "F" .paramType]⟩] }

theorem C13_witness_unclosed_parameters_type :
    planUnreachableWithVars.wellFormed = true ∧ planUnreachableWithVars.closed = false := by decide

/-- Open finding: iso.ts imports `./<Target>/__link/output_type` for every client pointer, but that file is
generated only when some reader selects `__link` on the target type. -/
def planPointerLink : Plan :=
  { art := ["src", "__isograph"], ext := false,
    files := [⟨.nested "Query" "P" "param_type.ts", []⟩,
              ⟨.iso, [.isoDown "Query" "P" .paramType, .isoDown "Pet" "__link" .outputType]⟩] }

theorem C13_witness_unclosed_link_output_type :
    planPointerLink.wellFormed = true ∧ planPointerLink.closed = false := by decide

end IsoVerif.Props.C13
