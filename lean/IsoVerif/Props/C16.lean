/-
C16 — Invalid selections are rejected and valid ones accepted.

"A program is rejected with at least one diagnostic if it selects an undefined field, selects an object
field without a selection set or a scalar field with one, passes an undefined argument, omits a required
argument, uses an undeclared variable, declares an unused variable, passes a value or variable of an
incompatible type, or gives two selections the same response name.  Conversely, within the generated
language subset, a program with none of these errors compiles without diagnostics."

Model: `IsoVerif/Model/Core/Validate.lean` — `validate` (= `validateWith .asImplemented`) is the
transcription of validate_selection_sets.rs / validate_use_of_arguments.rs / validate_argument_types.rs;
`wellFormed r` is the declarative judgement (one Boolean rule per item of the list above:
`ruleDefined`, `ruleShape`, `ruleArgsDefined`, `ruleRequiredArgs`, `ruleArgTypes` (value / variable types and
declaredness of variables), `ruleVarsUsed`, `uniqueNamesSels`; plus `ruleDirectives`, which the same pass
checks).  `r : Rules` holds the three switches in which the code deviated from the intended rules; two of
them were repaired in /repo (8835cbc, 1645c28), one is an open finding.
Subset = what `hx_projgen` generates: the other validators aggregated by `validate_entire_schema` and all
parse errors are outside the model (C16's "generated language subset").
Lemmas: `Lemmas/Validate.lean`.
-/
import IsoVerif.Lemmas.Validate

namespace IsoVerif.Props.C16

open IsoVerif.Core IsoVerif.Core.Validate

/-! ### no diagnostic ⟺ well-formed -/

/-- For every choice of the three switches the validators report nothing iff the judgement holds. -/
theorem C16_iff_rules (r : Rules) (p : Project) : validateWith r p = [] ↔ wellFormed r p = true :=
  validateWith_nil_iff r p

/-- a program the compiler accepts is well-formed (rules as implemented) -/
theorem C16_sound (p : Project) : validate p = [] → wellFormed .asImplemented p = true :=
  C16_sound_impl p

/-- a well-formed program (rules as implemented) compiles without diagnostics -/
theorem C16_complete (p : Project) : wellFormed .asImplemented p = true → validate p = [] :=
  C16_complete_impl p

/-! ### the property at full strength (INTENDED rules)

`C16_statement_at p`: the validators as they are decide the intended judgement on `p`.
It fails on the unchanged tree at `witnessIdArgument` (an undefined argument called `id` is accepted:
`field Query.Home { pet(id: 1) { name(id: 2) } }`) — open finding `mutant-accepted:undefined-argument-id`,
replayed from corpus/C16/witnesses.txt on every run.  The two other deviations found on the unchanged tree
were repaired; their witnesses are kept (`C16_before_fix_*` / `C16_fixed_witness_*`). -/

theorem C16_witness_id_argument : ¬ C16_statement_at witnessIdArgument :=
  Validate.C16_witness_id_argument

theorem C16_fixed_witness_linked_missing : C16_statement_at witnessLinkedMissing :=
  Validate.C16_fixed_witness_linked_missing

theorem C16_before_fix_linked_missing :
    ¬ (validateWith .beforeFixes witnessLinkedMissing = [] ↔ wellFormed .intended witnessLinkedMissing = true) :=
  Validate.C16_before_fix_linked_missing

theorem C16_fixed_witness_nullable_list_variable : C16_statement_at witnessNullableListVariable :=
  Validate.C16_fixed_witness_nullable_list_variable

theorem C16_before_fix_nullable_list_variable :
    ¬ (validateWith .beforeFixes witnessNullableListVariable = [] ↔
        wellFormed .intended witnessNullableListVariable = true) :=
  Validate.C16_before_fix_nullable_list_variable

/-- Where the deviations do not change the validators' output, the compiler decides the intended judgement. -/
theorem C16_partial (p : Project) (h : validateWith .intended p = validate p) :
    validate p = [] ↔ wellFormed .intended p = true :=
  Validate.C16_partial p h

/-- A syntactic sufficient condition: no argument type with an unguarded nullable list, no undeclared
argument called `id`, no required argument missing on a selection with a selection set. -/
theorem C16_partial_quirkFree (p : Project) (h : quirkFree p = true) : C16_statement_at p :=
  C16_quirkFree p h

example : quirkFree exampleQuirkFree = true := by decide
example : validateWith .intended exampleQuirkFree = validate exampleQuirkFree := by decide

/-! ### each rule has its diagnostic

`DeclOf p parent vars top`: `top` is the selection set of a client field / pointer on `parent` with variables
`vars`.  `Reach p parent top ty set`: `set` is a selection set inside it, selected on type `ty`, all of whose
ancestors resolve to something that takes a selection set — the validators do not look below a selection
that does not resolve (one error is reported for it).  `s ∈ set` is the offending selection. -/

section
variable {r : Rules} {p : Project} {parent ty : String} {vars : List VarDef} {top set : List Selection}
  {s : Selection}

theorem C16_each_rule_undefined_field (hd : DeclOf p parent vars top) (hr : Reach p parent top ty set)
    (hs : s ∈ set) (h : lookup p ty s.head.name = none) : Kind.undefinedField ∈ validateWith r p :=
  each_rule_undefined_field hd hr hs h

theorem C16_each_rule_object_without_selection_set (hd : DeclOf p parent vars top)
    (hr : Reach p parent top ty set) (hs : s ∈ set) {h : SelHead} {sel : Selectable}
    (he : s = .scalar h) (hl : lookup p ty h.name = some sel)
    (hk : sel.kind = .serverObject ∨ sel.kind = .asConcrete) :
    Kind.objectSelectedAsScalar ∈ validateWith r p :=
  each_rule_object_without_selection_set hd hr hs he hl hk

theorem C16_each_rule_scalar_with_selection_set (hd : DeclOf p parent vars top)
    (hr : Reach p parent top ty set) (hs : s ∈ set) {h : SelHead} {kids : List Selection} {sel : Selectable}
    (he : s = .linked h kids) (hl : lookup p ty h.name = some sel)
    (hk : sel.kind = .serverScalar ∨ sel.kind = .typename) :
    Kind.scalarSelectedAsObject ∈ validateWith r p :=
  each_rule_scalar_with_selection_set hd hr hs he hl hk

/-- an argument the selected field does not declare (with the switch on: unless it is called `id`) -/
theorem C16_each_rule_undefined_argument (hd : DeclOf p parent vars top) (hr : Reach p parent top ty set)
    (hs : s ∈ set) {sel : Selectable} {a : String × Value}
    (hl : lookup p ty s.head.name = some sel) (hshape : sel.kind.isLinked = s.kids?.isSome)
    (ha : a ∈ s.head.args) (hn : ∀ d ∈ sel.args, d.name ≠ a.1)
    (hid : ¬ (r.idArgExempt = true ∧ a.1 = "id")) :
    Kind.undefinedArgument ∈ validateWith r p :=
  each_rule_undefined_argument hd hr hs hl hshape ha hn hid

/-- a required argument that is not given (`@loadable` selections may omit arguments) -/
theorem C16_each_rule_missing_argument (hd : DeclOf p parent vars top) (hr : Reach p parent top ty set)
    (hs : s ∈ set) {sel : Selectable} {d : VarDef}
    (hl : lookup p ty s.head.name = some sel) (hshape : sel.kind.isLinked = s.kids?.isSome)
    (hdm : d ∈ sel.args) (hreq : isRequiredArg d = true) (hn : ∀ a ∈ s.head.args, a.1 ≠ d.name)
    (hmay : match (generalizing := false) s with
      | .scalar h => isLoadable h = false
      | .linked _ _ => r.linkedMayMissArgs = false) :
    Kind.missingArgument ∈ validateWith r p :=
  each_rule_missing_argument hd hr hs hl hshape hdm hreq hn hmay

theorem C16_each_rule_undeclared_variable (hd : DeclOf p parent vars top) (hr : Reach p parent top ty set)
    (hs : s ∈ set) {sel : Selectable} {d : VarDef} {n x : String}
    (hl : lookup p ty s.head.name = some sel) (hshape : sel.kind.isLinked = s.kids?.isSome)
    (hdm : d ∈ sel.args) (hf : s.head.args.find? (·.1 == d.name) = some (n, .var x))
    (hn : ∀ vd ∈ vars, vd.name ≠ x) :
    Kind.undeclaredVariable ∈ validateWith r p :=
  each_rule_undeclared_variable hd hr hs hl hshape hdm hf hn

theorem C16_each_rule_unused_variable (hd : DeclOf p parent vars top) {d : VarDef} (hdm : d ∈ vars)
    (hn : d.name ∉ usedSels p parent top) : Kind.unusedVariable ∈ validateWith r p :=
  each_rule_unused_variable hd hdm hn

/-- a value or variable of an incompatible type: whatever `value_satisfies_type` answers for a given
argument is reported (`valueTypeMismatch`, `variableTypeMismatch`, `nullForNonNull`, …) -/
theorem C16_each_rule_argument_type (hd : DeclOf p parent vars top) (hr : Reach p parent top ty set)
    (hs : s ∈ set) {sel : Selectable} {d : VarDef} {n : String} {v : Value} {k : Kind}
    (hl : lookup p ty s.head.name = some sel) (hshape : sel.kind.isLinked = s.kids?.isSome)
    (hdm : d ∈ sel.args) (hf : s.head.args.find? (·.1 == d.name) = some (n, v))
    (hv : valueSat r p vars v d.ty = some k) : k ∈ validateWith r p :=
  each_rule_argument_type hd hr hs hl hshape hdm hf hv

theorem C16_each_rule_duplicate_response_name (hd : DeclOf p parent vars top) (hr : Reach p parent top ty set)
    {a b c : List Selection} {s t : Selection} (he : set = a ++ s :: (b ++ t :: c))
    (hn : s.responseName = t.responseName) : Kind.duplicateResponseName ∈ validateWith r p :=
  each_rule_duplicate_response_name hd hr he hn

end

/-- the hypotheses are met: in `field Query.Home { pet(id: 1) { name(id: 2) } }` the selection `name(id: 2)`
is reached, resolves, has the right shape, and passes an argument `name` does not declare — under the
intended rules that is an `undefinedArgument` diagnostic -/
example : Kind.undefinedArgument ∈ validateWith .intended witnessIdArgument := by decide

end IsoVerif.Props.C16
