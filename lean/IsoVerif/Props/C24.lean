/-
C24 — Each iso literal resolves to its own generated overload.

Model: `IsoVerif.IsoOverload` — the comparator `sort_field_name`, the two `sort_by` comparators, the
overload pattern text, and the two TypeScript rules the generated `iso.ts` relies on (first accepting
overload wins; `Whitespace<T> extends `${P}${string}`` = strip leading ' ', '\t', '\n', then prefix
test).  TypeScript's checker itself is not run (not installed): those two rules are the modelled part.
-/
import IsoVerif.Lemmas.IsoOverload

namespace IsoVerif.Props.C24
open IsoVerif.Util IsoVerif.IsoOverload

/-- `sort_field_name` is a strict total order on distinct names: never `Equal`, antisymmetric,
transitive — so Rust's `sort_by` yields a sorted permutation — and a name that extends another one
sorts FIRST (`FooBar` before `Foo`). -/
theorem C24_order (a b c : Bytes) (hab : a ≠ b) (hbc : b ≠ c) :
    sortFieldName a b ≠ .eq ∧
    (sortFieldName a b = .lt ↔ sortFieldName b a = .gt) ∧
    (sortFieldName a b = .lt → sortFieldName b c = .lt → a ≠ c ∧ sortFieldName a c = .lt) ∧
    (startsWith a b = true → sortFieldName a b = .lt) :=
  ⟨sortFieldName_ne_eq a b hab, sortFieldName_antisymm a b hab,
   fun h1 h2 => sortFieldName_trans a b c hab hbc h1 h2,
   fun hp => sortFieldName_longer_first a b hab hp⟩

/-- Every declaration has an overload (and nothing else does). -/
theorem C24_total (decls : List Decl) (d : Decl) : d ∈ overloads decls ↔ d ∈ decls :=
  mem_overloads decls d

/-- **First match is the literal's own overload**, for every program with GraphQL names and unique
`Type.field` per group, every declaration, any leading whitespace and any continuation that does not
extend the field name (`{`, `(`, ` `, `@`, newline, end of text …). -/
theorem C24_first_match (decls : List Decl) (hwf : WF decls) (hu : KeyUnique decls)
    (d : Decl) (hd : d ∈ decls) (lead rest : Bytes) (hl : leadOk lead = true) (hr : restOk rest = true) :
    firstMatch (overloads decls) (canonicalLiteral d lead rest) = some d :=
  first_match decls hwf hu d hd lead rest hl hr

/-- The full property also covers headers the parser accepts but the compiler does not print that
way (several spaces after the keyword, spaces around the dot, comments).  It is FALSE for them
(finding F17): with two spaces after `field` no specific overload accepts the literal. -/
def C24_statement_at (decls : List Decl) (d : Decl) (lit : Bytes) : Prop :=
  firstMatch (overloads decls) lit = some d

def qFoo : Decl := ⟨.field, [81, 117, 101, 114, 121], [102, 111, 111]⟩   -- field Query.foo

/-- `field  Query.foo {` (two spaces) -/
def litDoubleSpace : Bytes :=
  [102, 105, 101, 108, 100, 32, 32, 81, 117, 101, 114, 121, 46, 102, 111, 111, 32, 123]

theorem C24_witness_double_space : ¬ C24_statement_at [qFoo] qFoo litDoubleSpace := by
  unfold C24_statement_at; decide +kernel

/- Non-vacuity of C24_first_match: `Query.foo` and `Query.fooBar` (one a prefix of the other). -/
def qFooBar : Decl := ⟨.field, [81, 117, 101, 114, 121], [102, 111, 111, 66, 97, 114]⟩
example : overloads [qFoo, qFooBar] = [qFooBar, qFoo] := by decide +kernel
example : firstMatch (overloads [qFoo, qFooBar]) (canonicalLiteral qFooBar [10, 32] [32, 123]) = some qFooBar := by
  decide +kernel
example : firstMatch (overloads [qFoo, qFooBar]) (canonicalLiteral qFoo [10, 32] [40]) = some qFoo := by
  decide +kernel

end IsoVerif.Props.C24
