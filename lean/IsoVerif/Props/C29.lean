/-
C29 — GraphQL syntax parsing matches the specification (relay-crates/graphql-syntax).

Reference: `specExec` / `specSdl` — the June-2018 lexical grammar (`specLex`) and grammar (`pExecDefs`,
`pTsDefs` with every deviation switch off), written from the specification text.
Model of the crate: `relayExec` / `relaySdl` — relay's logos token table (regenerated from
relay_lexer.rs on every run, `Gen/GqlTokens.lean`) run by `relayLex`, and the same grammar with the
deviation switches `Quirks.relay` that were observed on the real crate; printing is `relayPrint`
(model of the crate's `impl Display`).  The 2 290-line relay parser is *not* modelled function by
function: that `relayExec`/`relaySdl` equal `graphql_syntax::parse_executable` /
`parse_schema_document` is established differentially by the check (correspondence), and the oracle
compares the crate's answers with `specExec` / `specSdl` directly.

The full statement `C29_statement` is false on the unchanged crate; each known finding has a
witness theorem below.  What is proved in general:
  * `C29_lex_*`     — the token classes of the generated table are the specification's
                      (Name, punctuators, ignored characters, string characters, escapes);
  * `C29_roundtrip_*_partial` — the reference parser reads back what the token printer writes,
                      for types, values and field definitions (token level).
-/
import IsoVerif.Lemmas.GqlLex
import IsoVerif.Lemmas.GqlPrint
import IsoVerif.Model.GqlOracle

namespace IsoVerif.Props.C29
open IsoVerif.Gql IsoVerif.Gql.Re IsoVerif.Gen.GqlTokens

/-! ### the property -/

/-- same acceptance and same tree for an executable document -/
def C29_exec_at (s : Str) : Prop := relayExec s = specExec s
/-- same acceptance and same tree for a type-system document -/
def C29_sdl_at (s : Str) : Prop := relaySdl s = specSdl s
/-- printing a parsed schema and parsing it again yields an equal tree -/
def C29_roundtrip_at (s : Str) : Prop :=
  ∀ ds, tsDocOf true Quirks.relay s = .ok ds → relaySdl (relayPrint ds) = relaySdl s
/-- C29 at full strength, over documents of the June-2018 character set -/
def C29_statement : Prop :=
  ∀ s : Str, inDomain s = true → C29_exec_at s ∧ C29_sdl_at s ∧ C29_roundtrip_at s

/-! ### C29_lex: the generated token table against the lexical grammar -/

/-- relay's `Identifier` regex matches exactly the specification's Name -/
theorem C29_lex_name (s : Str) : isMatch (ruleRe tokenKind "Identifier") s = isName s :=
  identifier_eq_name s

/-- the punctuator rules of the table are the literal punctuators of the specification
(`! $ & ( ) ... : = @ [ ] { | }`), one rule each, and the specification lexes each to that token -/
theorem C29_lex_punctuators : punctTableOk = true := punct_table

/-- the skipped rule is `[ws]+ | #[^\n\r]*` where `ws` = the specification's one-character Ignored
tokens (BOM, tab, space, LF, CR, comma) plus the form feed -/
theorem C29_lex_ignored :
    (tokenKind.filter (·.skip)).map (·.re) =
      [.alt (plus (.cls [(32, 32), (9, 9), (13, 13), (10, 10), (12, 12), (44, 44), (65279, 65279)]))
            (.seq (.cls [(35, 35)]) (.star (.ncls [(10, 10), (13, 13)])))] ∧
    (∀ c, inRanges c [(32, 32), (9, 9), (13, 13), (10, 10), (12, 12), (44, 44), (65279, 65279)] =
      (isIgnoredChar c || c == 12)) ∧
    (∀ c, inRanges c [(10, 10), (13, 13)] = (c == 10 || c == 13)) :=
  ⟨skip_shape, ignored_class, comment_class⟩

/-- the sub-lexers of quoted and block strings use the specification's character classes:
StringCharacter, EscapedCharacter, EscapedUnicode (four hex digits), BlockStringCharacter -/
theorem C29_lex_strings :
    ruleRe stringToken "StringCharacters" = plus (.cls [(9, 9), (32, 32), (33, 33), (35, 91), (93, 65535)]) ∧
    (∀ c, inRanges c [(9, 9), (32, 32), (33, 33), (35, 91), (93, 65535)] =
      (isSourceChar c && !(c == 34) && !(c == 92) && !(c == 10) && !(c == 13))) ∧
    ruleRe stringToken "EscapedCharacter" =
      .seq (.cls [(92, 92)]) (.cls [(34, 34), (92, 92), (47, 47), (98, 98), (102, 102), (110, 110), (114, 114), (116, 116)]) ∧
    (∀ c, inRanges c [(34, 34), (92, 92), (47, 47), (98, 98), (102, 102), (110, 110), (114, 114), (116, 116)] =
      isEscapedChar c) ∧
    ruleRe stringToken "EscapedUnicode" =
      .seq (.cls [(92, 92)]) (.seq (.cls [(117, 117)]) (.seq (.cls [(48, 57), (65, 70), (97, 102)])
        (.seq (.cls [(48, 57), (65, 70), (97, 102)]) (.seq (.cls [(48, 57), (65, 70), (97, 102)])
          (.cls [(48, 57), (65, 70), (97, 102)]))))) ∧
    (∀ c, inRanges c [(48, 57), (65, 70), (97, 102)] = isHexDigit c) ∧
    ruleRe blockStringToken "Other" = .cls [(9, 9), (10, 10), (13, 13), (32, 65535)] ∧
    (∀ c, inRanges c [(9, 9), (10, 10), (13, 13), (32, 65535)] = isSourceChar c) :=
  ⟨string_shapes.1, stringChar_class, string_shapes.2.1, escapedChar_class, string_shapes.2.2.1, hex_class,
   string_shapes.2.2.2.2.1, blockChar_class⟩

/-! ### C29_roundtrip on the model (token level) -/

/-- a printed type is read back -/
theorem C29_roundtrip_type_partial (t : Ty) (f : Nat) (rest : List Tok) (hwf : t.wf = true) (hf : t.depth ≤ f)
    (hrest : noBang rest = true) : pType f (t.toks ++ rest) = some (t, rest) :=
  pType_roundtrip t f rest hwf hf hrest

example : (Ty.nonNull (.list (.nonNull (.named (cps "Int"))))).wf = true := by decide

/-- a printed value is read back (strings with their escapes, integers of any size) -/
theorem C29_roundtrip_value_partial (const : Bool) (v : Value) (f : Nat) (rest : List Tok)
    (hwf : v.wf const = true) (hf : v.size ≤ f) :
    pValue Quirks.spec const f (v.toks ++ rest) = some (v, rest) :=
  pValue_roundtrip const v f rest hwf hf

example : (Value.list (.cons (.str (cps "a\"b\n")) (.cons (.obj (.cons (cps "k") (.int (-5)) .nil)) .nil))).wf true = true := by
  decide

/-- a printed field definition (description, argument definitions with defaults and directives,
type, directives) is read back -/
theorem C29_roundtrip_fielddef_partial (fd : FieldDef) (f : Nat) (rest : List Tok) (hwf : fd.wf = true)
    (hf : fd.size ≤ f) (hrest : noHead [.bang, .at, .lparen] rest = true) :
    pFieldDef Quirks.spec f (fd.toks ++ rest) = some (fd, rest) :=
  pFieldDef_toks fd f rest hwf hf hrest

example : (FieldDef.mk (some (cps "the \"id\"")) none (cps "f")
    [{ desc := none, name := cps "a", ty := .named (cps "Int"), default := some (.int 1),
       dirs := [{ name := cps "d", args := .nil }] }]
    (.nonNull (.named (cps "T"))) []).wf = true := by decide

/-! ### witnesses of the known findings (the model reproduces each deviation of the crate) -/

theorem C29_witness_number_followed_by_name : ¬ C29_exec_at (cps "{f(x:[1a])}") := by
  unfold C29_exec_at; decide +kernel
theorem C29_witness_number_leading_zero : ¬ C29_exec_at (cps "{f(x:[01])}") := by
  unfold C29_exec_at; decide +kernel
theorem C29_witness_string_escapes_verbatim : ¬ C29_exec_at (cps "{f(x:\"\\n\")}") := by
  unfold C29_exec_at; decide +kernel
theorem C29_witness_lone_cr_block_string : ¬ C29_exec_at (cps "{f(x:\"\"\"a\r  b\"\"\")}") := by
  unfold C29_exec_at; decide +kernel
theorem C29_witness_escaped_triple_quote : ¬ C29_exec_at (cps "{f(x:\"\"\"a\\\"\"\"b\"\"\")}") := by
  unfold C29_exec_at; decide +kernel
theorem C29_witness_int_overflow_i64 : ¬ C29_exec_at (cps "{f(x:9223372036854775808)}") := by
  unfold C29_exec_at; decide +kernel
theorem C29_witness_fragment_named_on : ¬ C29_exec_at (cps "fragment on on T {a}") := by
  unfold C29_exec_at; decide +kernel
theorem C29_witness_variable_directives : ¬ C29_exec_at (cps "query($a:Int @d){a}") := by
  unfold C29_exec_at; decide +kernel
theorem C29_witness_empty_document : ¬ C29_exec_at [] ∧ ¬ C29_sdl_at [] := by
  unfold C29_exec_at C29_sdl_at; decide +kernel
theorem C29_witness_double_description : ¬ C29_sdl_at (cps "\"a\" \"b\" scalar S") := by
  unfold C29_sdl_at; decide +kernel
theorem C29_witness_description_on_extension : ¬ C29_sdl_at (cps "\"d\" extend scalar S @x") := by
  unfold C29_sdl_at; decide +kernel
theorem C29_witness_schema_description : ¬ C29_sdl_at (cps "\"d\" schema {query:Q}") := by
  unfold C29_sdl_at; decide +kernel
theorem C29_witness_interface_implements : ¬ C29_sdl_at (cps "interface I implements J {a:Int}") := by
  unfold C29_sdl_at; decide +kernel
theorem C29_witness_repeatable : ¬ C29_sdl_at (cps "directive @d repeatable on FIELD") := by
  unfold C29_sdl_at; decide +kernel
theorem C29_witness_variable_definition_location : ¬ C29_sdl_at (cps "directive @d on VARIABLE_DEFINITION") := by
  unfold C29_sdl_at; decide +kernel
theorem C29_witness_empty_extension : ¬ C29_sdl_at (cps "extend scalar A") := by
  unfold C29_sdl_at; decide +kernel
theorem C29_witness_enum_value_reserved_name : ¬ C29_sdl_at (cps "enum E {true}") := by
  unfold C29_sdl_at; decide +kernel
/-- a type-system document ending in a dangling string: the crate unwraps an `Err` -/
theorem C29_witness_panic_dangling_description :
    relaySdl (cps "scalar S \"abc\"") = .panic ∧ specSdl (cps "scalar S \"abc\"") = .reject := by
  decide +kernel

/-- the printer drops descriptions: the re-parsed tree has lost the field's description -/
theorem C29_witness_print_drops_description :
    relayRoundTrip (cps "type T {\"d\" f:Int}") ≠ some (relaySdl (cps "type T {\"d\" f:Int}")) := by
  decide +kernel
/-- a block-string value is printed between plain quotes, unescaped: the text no longer parses -/
theorem C29_witness_print_block_string :
    relayRoundTrip (cps "type T {f(a:S=\"\"\" \"x\" \"\"\"):Int}") = some .reject := by
  decide +kernel
theorem C29_witness_print_drops_repeatable :
    relayRoundTrip (cps "directive @d repeatable on FIELD") ≠ some (relaySdl (cps "directive @d repeatable on FIELD")) := by
  decide +kernel

/-- hence the full statement does not hold of the crate as modelled -/
theorem C29_statement_false : ¬ C29_statement := by
  intro h
  exact C29_witness_string_escapes_verbatim (h _ (by decide +kernel)).1

/-- agreement where no deviation is involved: one document with every construct class -/
example : C29_exec_at (cps "query Q($a:[Int!]=[1 2] $b:T){x:f(k:{e:E n:null b:true s:\"q\" v:$a l:[1.5e3]}) @d ...F ...on T{y} ...@i{z}} fragment F on T{a}") := by
  unfold C29_exec_at; decide +kernel
example : C29_sdl_at (cps "type T implements A & B @d(x:1) {\"desc\" f(a:Int=1 @x):[Int!]!} union U=|A|B enum E{A B} input I{a:Int} extend type T @k directive @d(a:Int) on FIELD|QUERY schema{query:T}") := by
  unfold C29_sdl_at; decide +kernel

end IsoVerif.Props.C29
