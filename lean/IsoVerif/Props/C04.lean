/-
C04 — Distinct memoized functions never share cached results.

Model: `IsoVerif.Memo` (M-MEMO): a memo table keyed by `(function key, parameter ids)`; the function
key follows the recipe T4 reads out of crates/pico_macros/src/memo_macro.rs on every run
(`currentRecipe`), over the `#[memo]` sites T4 finds in the current sources (`Gen.MemoSigs`).

Defect F4 (signature text alone was hashed: `mod a { #[memo] fn f(db) }` and `mod b { #[memo] fn f(db) }`
returned each other's results) is repaired in /repo by commit d265481; the theorems below are about
the repaired recipe and stop elaborating if the repair is undone.  The witnesses of the unrepaired
recipe are kept as theorems about `sigOnly`.

Statements only; helper lemmas live in `IsoVerif.Lemmas.Memo`.
-/
import IsoVerif.Lemmas.Memo

namespace IsoVerif.Props.C04
open IsoVerif.Memo IsoVerif.Gen.MemoSigs

/-- **Isolation.**  If the function key is injective on the program's functions, then in every
history of calls over one database every call returns its own function's value — never a value
cached by another function, whatever was called before. -/
theorem C04_isolation (prog : List MemoFn) (key : FnDecl → Nat)
    (hinj : KeyInjectiveOn prog key) (h : List (MemoFn × Args)) (hin : ∀ c, c ∈ h → c.1 ∈ prog) :
    (run key [] h).2 = ownValues h := by
  exact (run_spec hinj h [] (inv_nil prog key) hin).1

/-- **Calling one memoized function never changes the value another returns**: after any two
histories, a call of `f` at `a` yields the same value. -/
theorem C04_noninterference (prog : List MemoFn) (key : FnDecl → Nat) (hinj : KeyInjectiveOn prog key)
    (h1 h2 : List (MemoFn × Args)) (hin1 : ∀ c, c ∈ h1 → c.1 ∈ prog) (hin2 : ∀ c, c ∈ h2 → c.1 ∈ prog)
    (f : MemoFn) (hf : f ∈ prog) (a : Args) :
    (call key (run key [] h1).1 f a).2 = (call key (run key [] h2).1 f a).2 := by
  rw [(call_spec hinj (run_spec hinj h1 [] (inv_nil prog key) hin1).2 hf a).1,
      (call_spec hinj (run_spec hinj h2 [] (inv_nil prog key) hin2).2 hf a).1]

/-- **The key of the macro as it is today is injective** on any program, under two stated facts:
`SiteUnique` (Rust: two function items cannot carry their `#[memo]` attribute at the same line and
column of the same module) and `HashInjectiveOn` (the 64-bit hash does not collide on the program's
(signature text, site text) pairs — a hypothesis, discharged concretely for this repository by
`C04_repo_nodup`).  The site text `module_path:line:column` is shown to determine its three parts. -/
theorem C04_key_injective (H : Bytes → Nat) (prog : List MemoFn)
    (hH : HashInjectiveOn H currentRecipe prog) (hlang : SiteUnique prog) :
    KeyInjectiveOn prog (keyOf H currentRecipe) := by
  exact key_injective H currentRecipe prog hH hlang

/-- the repaired recipe is what the source contains (fails to elaborate when the repair is undone) -/
theorem C04_recipe_includes_site : currentRecipe.includesSite = true ∧ currentRecipe.prime % 2 = 1 := by
  decide

/-! #### non-vacuity: two functions with identical signature text in sibling modules -/

/-- `fn f(db : & TestDatabase) -> u32` -/
def sigF : Bytes := [102, 110, 32, 102, 40, 100, 98, 32, 58, 32, 38, 32, 84, 41]
/-- `mod a` at 19:5 and `mod b` at 27:5 -/
def declA : FnDecl := { modulePath := [97], line := 19, col := 5, name := [102], sigText := sigF }
def declB : FnDecl := { modulePath := [98], line := 27, col := 5, name := [102], sigText := sigF }
def fnA : MemoFn := ⟨declA, fun a => 1000 + a.sum⟩
def fnB : MemoFn := ⟨declB, fun a => 2000 + a.sum⟩
def toyH (b : Bytes) : Nat := b.sum

theorem fnA_ne_fnB : fnA ≠ fnB := by
  intro h
  have := congrArg (fun f => f.decl.line) h
  simp [fnA, fnB, declA, declB] at this

/-- the hypotheses of `C04_key_injective` hold for this program (the hash hypothesis is checked by
evaluation: the two keys differ) … -/
example : HashInjectiveOn toyH currentRecipe [fnA, fnB] ∧ SiteUnique [fnA, fnB] := by
  constructor
  · intro f hf g hg hk
    simp only [List.mem_cons, List.not_mem_nil, or_false] at hf hg
    rcases hf with rfl | rfl <;> rcases hg with rfl | rfl
    · exact ⟨rfl, rfl⟩
    · exact absurd hk (by decide +kernel)
    · exact absurd hk (by decide +kernel)
    · exact ⟨rfl, rfl⟩
  · intro f hf g hg _ hl _
    simp only [List.mem_cons, List.not_mem_nil, or_false] at hf hg
    rcases hf with rfl | rfl <;> rcases hg with rfl | rfl
    · rfl
    · exact absurd hl (by decide)
    · exact absurd hl (by decide)
    · rfl

/-- … and a history over it returns each function's own value (evaluated). -/
example : (run (keyOf toyH currentRecipe) [] [(fnA, []), (fnB, []), (fnA, []), (fnB, [])]).2
    = [1000, 2000, 1000, 2000] := by
  decide +kernel

/-! #### the unrepaired recipe (F4): witnesses -/

/-- The property's full statement for one recipe, one hash and one program: every history of calls
returns each function's own value. -/
def C04_statement_at (H : Bytes → Nat) (r : Recipe) (prog : List MemoFn) : Prop :=
  ∀ h : List (MemoFn × Args), (∀ c, c ∈ h → c.1 ∈ prog) → (run (keyOf H r) [] h).2 = ownValues h

/-- With the signature text alone in the key, two distinct declarations get equal keys — for every
hash function. -/
theorem C04_witness_same_sig (H : Bytes → Nat) :
    declA ≠ declB ∧ keyOf H sigOnly declA = keyOf H sigOnly declB := by
  exact ⟨by decide, rfl⟩

/-- … and isolation fails on a two-call history: `b::f` returns `a::f`'s cached 1000. -/
theorem C04_witness_isolation_fails (H : Bytes → Nat) : ¬ C04_statement_at H sigOnly [fnA, fnB] := by
  intro hst
  have h := hst [(fnA, []), (fnB, [])] (by
    intro c hc
    simp only [List.mem_cons, List.not_mem_nil, or_false] at hc
    rcases hc with rfl | rfl <;> simp)
  simp [run, call, keyOf, sigOnly, ownValues, fnA, fnB, declA, declB] at h

/-- The same statement holds of the recipe in the source today, for every program meeting the two
stated facts. -/
theorem C04_statement_current (H : Bytes → Nat) (prog : List MemoFn)
    (hH : HashInjectiveOn H currentRecipe prog) (hlang : SiteUnique prog) :
    C04_statement_at H currentRecipe prog := by
  exact fun h hin => C04_isolation prog _ (C04_key_injective H prog hH hlang) h hin

/-! #### open finding: one `macro_rules!` invocation defining the function twice in one module

`SiteUnique` is a real restriction.  Inside a `macro_rules!` expansion `line!()` and `column!()` are
those of the outermost invocation, so two `#[memo]` functions that one invocation puts into the same
module (two impl blocks, say) see one module path, one line, one column; with identical signature
texts the macro has nothing left to tell them apart.  Confirmed on the real crate by the harness
(family `gen_m` of engine `samesig`, signature `same-signature-collision:macro-generated`). -/

/-- `impl GA { #[memo] fn m }` and `impl GB { #[memo] fn m }` from one invocation at 46:1 -/
def declG : FnDecl := { modulePath := [103], line := 46, col := 1, name := [109], sigText := sigF }
def fnGA : MemoFn := ⟨declG, fun a => 40000 + a.sum⟩
def fnGB : MemoFn := ⟨declG, fun a => 41000 + a.sum⟩

/-- The program violates `SiteUnique`, its two functions get one key under EVERY recipe and hash, and
the property's statement fails for the recipe in the source today: `GB::m` returns `GA::m`'s value. -/
theorem C04_witness_macro_generated (H : Bytes → Nat) :
    ¬ SiteUnique [fnGA, fnGB] ∧ (∀ r, keyOf H r fnGA.decl = keyOf H r fnGB.decl) ∧
    ¬ C04_statement_at H currentRecipe [fnGA, fnGB] := by
  have hne : fnGA ≠ fnGB := by
    intro h
    have := congrArg (fun f => f.body []) h
    simp [fnGA, fnGB] at this
  refine ⟨?_, fun _ => rfl, ?_⟩
  · intro hu
    exact hne (hu fnGA (by simp) fnGB (by simp) rfl rfl rfl)
  · intro hst
    have h := hst [(fnGA, []), (fnGB, [])] (by
      intro c hc
      simp only [List.mem_cons, List.not_mem_nil, or_false] at hc
      rcases hc with rfl | rfl <;> simp)
    rw [run_two_collide (keyOf H currentRecipe) fnGA fnGB [] rfl] at h
    have h2 := congrArg (fun l => l.getD 1 0) h
    simp [ownValues, fnGA, fnGB] at h2

/-- What is proved of the current code: the full statement for every program whose functions have
pairwise different definition sites (`C04_statement_current` under its two hypotheses). -/
theorem C04_isolation_partial (H : Bytes → Nat) (prog : List MemoFn)
    (hH : HashInjectiveOn H currentRecipe prog) (hlang : SiteUnique prog) :
    C04_statement_at H currentRecipe prog := by
  exact C04_statement_current H prog hH hlang

/-! #### the `#[memo]` functions of this repository (regenerated by T4 on every run) -/

/-- The key the model computes (from the real `DefaultHasher` value of the signature text; site text
and fold done in Lean) is the key the harness computed in Rust, for every site.  Kernel evaluation. -/
theorem C04_repo_keys_consistent :
    keysConsistent repoSites = true ∧ keysConsistent harnessSites = true := by
  decide +kernel

/-- **No two `#[memo]` functions that can meet in one database have the same key** — on the real
64-bit values.  This discharges the hash hypothesis for this repository.  Kernel evaluation. -/
theorem C04_repo_nodup : ∀ g, g ∈ groups → (g.sites.map (·.key)).Nodup := by
  decide +kernel

/-- Stronger than needed: no two `#[memo]` functions of the whole repository (library targets and
every test target together) have the same key. -/
theorem C04_repo_nodup_all : (repoSites.map (·.key)).Nodup := by
  decide +kernel

/-- The table is not empty: at least one group with more than forty functions (the library group). -/
theorem C04_repo_nonempty : groups.any (fun g => decide (g.sites.length > 40)) = true ∧ harnessSites.length ≥ 20 := by
  decide +kernel

end IsoVerif.Props.C04
