/-
C27 — Generated TypeScript types describe the data actually provided.

Parameter types: `paramType` (crates/artifact_content/src/generate_updatable_and_parameter_type.rs)
over the reader selection set of a client field, each selection resolved against the schema by the
dump hook (`PSel`).  Raw response types: `rawAlts` / `printRawResponseType`
(crates/artifact_content/src/raw_response_type.rs) over the merged selection map, with the schema
facts the Rust code looks up supplied as a table.

* `C27_param`: exactly one property per selection, named by the selection's alias or name.
* `C27_type_text`: the type text of a (single-variant, i.e. schema-produced) type annotation is
  `(… | null)` exactly when the type is nullable and `ReadonlyArray<…>` exactly when it is a list;
  `C27_param_server_field` instantiates it for the properties of server fields.
* `C27_raw_statement`: the raw response type has the response keys, nesting and list structure
  the operation's selection tree (with GraphQL field merging) asks for.  FALSE on the unchanged
  tree in two ways — an empty selection set (`{ __typename }` in the operation, `{}` in the type)
  and an inline fragment whose fields overlap the enclosing selection (`BTreeMap::extend` replaces
  the enclosing field instead of merging the sub-selections) — refuted on witnesses, and proved
  for maps without inline fragments and empty selection sets (`C27_raw_partial`).
-/
import IsoVerif.Lemmas.PrintersTypes

namespace IsoVerif.Props.C27
open IsoVerif.Core

/-- Exactly one property per selection of the client field, in order, named by alias-or-name
(`paramLine level s body = [doc comment] readonly <s.name>: <body>,`). -/
theorem C27_param (level : Nat) (sels : List PSel) :
    paramSels level sels = (sels.map fun s => paramLine level s (paramBody level s)).flatten :=
  paramSels_eq level sels

/-- nullable ⇔ `| null`, list ⇔ `ReadonlyArray<…>` -/
theorem C27_type_text (innerText : Str) (ty : TypeAnn) (h : ty.singleVariant = true) :
    jsType innerText ty = wrapShape innerText ty.shape :=
  jsType_eq_wrapShape innerText ty h

/-- the property of a server scalar field -/
theorem C27_param_server_field (level : Nat) (name : Str) (desc : Option Str) (ty : TypeAnn)
    (innerText : Str) (u : Bool) (h : ty.singleVariant = true) :
    paramBody level (.serverScalar name desc ty innerText u) = wrapShape innerText ty.shape := by
  simp only [paramBody]
  exact jsType_eq_wrapShape innerText ty h

/-- the property of a server object field: the wrappers of its type around the nested type -/
theorem C27_param_server_object (level : Nat) (name : Str) (desc : Option Str) (ty : TypeAnn)
    (u : Bool) (sels : List PSel) (h : ty.singleVariant = true) :
    paramBody level (.serverObject name desc ty u sels)
      = wrapShape (cs!"{\n" ++ paramSels (level + 1) sels ++ indent level ++ [125]) ty.shape := by
  simp only [paramBody]
  exact jsType_eq_wrapShape _ ty h

/-- the Rust recursion terminates (the model's fuel is never exhausted) -/
theorem C27_raw_total (schema : Schema) (parent : Str) (m : SelMap) :
    printRawResponseType schema parent m ≠ .outOfFuel := by
  unfold printRawResponseType
  have := rawAlts_fuel schema (SelMap.size m + 1) parent m (Nat.lt_succ_self _)
  split <;> simp_all

/-- full statement for raw response types (false today) -/
def C27_raw_statement : Prop :=
  ∀ (schema : Schema) (fuel efuel : Nat) (parent : Str) (m : SelMap)
    (alts : List (List RTree)) (expected : List (List Shape)),
    rawAlts schema fuel parent m = .ok alts →
    expectedAlts schema efuel parent (queryTree m) = some expected →
    RTree.shapeAlts alts = expected

/-- maps without inline fragments and without empty selection sets -/
theorem C27_raw_partial (schema : Schema) (fuel : Nat) (parent : Str) (m : SelMap)
    (alts : List (List RTree))
    (hf : SelMap.fragFree m = true) (he : m.isEmpty = false) (hn : SelMap.noEmpty m = true)
    (h : rawAlts schema fuel parent m = .ok alts) :
    ∀ efuel, Tree.depthList (queryTree m) < efuel →
      expectedAlts schema efuel parent (queryTree m) = some (RTree.shapeAlts alts) :=
  rawAlts_shape schema fuel parent m alts hf he hn h

def witnessSchema : Schema :=
  [ ⟨cs!"Query", cs!"stats", false, true, .union true [.scalar cs!"Stats"], []⟩,
    ⟨cs!"Stats", cs!"__typename", true, false, .scalar cs!"String", cs!"\"Stats\""⟩,
    ⟨cs!"Query", cs!"animal", false, false, .union true [.scalar cs!"Animal"], []⟩,
    ⟨cs!"Animal", cs!"owner", false, true, .union true [.scalar cs!"Owner"], []⟩,
    ⟨cs!"Cat", cs!"owner", false, true, .union true [.scalar cs!"Owner"], []⟩,
    ⟨cs!"Owner", cs!"email", true, false, .union true [.scalar cs!"String"], cs!"string"⟩,
    ⟨cs!"Owner", cs!"name", true, false, .scalar cs!"String", cs!"string"⟩ ]

/-- `stats { }` (p02_empty_linked, pet-demo `Query.OnlyOneRootLoadablePet`): the operation selects
`stats { __typename }`, the raw response type is `stats?: ({} | null)`. -/
def witnessEmpty : SelMap :=
  [(⟨0, .serverField cs!"stats" []⟩, Sel.linked true cs!"stats" [] (.concrete cs!"Stats") [])]

theorem C27_witness_empty_selection : ¬ C27_raw_statement := by
  intro h
  have := h witnessSchema 10 10 cs!"Query" witnessEmpty
    [[.object cs!"stats" (.union true [.scalar cs!"Stats"]) [[]]]]
    [[.prop cs!"stats" (.nullable .leaf) (some [[.prop cs!"__typename" .leaf none]])]]
    (by rfl) (by rfl)
  have := congrArg Shape.sizeAlts this
  revert this
  decide +kernel

/-- `animal { owner { email } ... on Cat { owner { name } } }` (p05_fragments): a `Cat` response
holds `owner { email name }`, the raw response type only `owner { name }`. -/
def witnessOverlap : SelMap :=
  [(⟨0, .serverField cs!"animal" []⟩, Sel.linked true cs!"animal" [] .abstract
    [ (⟨1, .serverField cs!"owner" []⟩, Sel.linked true cs!"owner" [] (.concrete cs!"Owner")
        [(⟨2, .serverField cs!"email" []⟩, Sel.scalar true cs!"email" [])]),
      (⟨3, .inlineFragment cs!"Cat"⟩, Sel.frag cs!"Cat"
        [(⟨1, .serverField cs!"owner" []⟩, Sel.linked true cs!"owner" [] (.concrete cs!"Owner")
          [(⟨4, .serverField cs!"name" []⟩, Sel.scalar false cs!"name" [])])]) ])]

theorem C27_witness_fragment_overlap : ¬ C27_raw_statement := by
  intro h
  have := h witnessSchema 10 10 cs!"Query" witnessOverlap
    [[.object cs!"animal" (.union true [.scalar cs!"Animal"])
        [[.object cs!"owner" (.union true [.scalar cs!"Owner"]) [[.scalar cs!"name" (.scalar cs!"String") cs!"string"]]]]]]
    [[.prop cs!"animal" (.nullable .leaf)
        (some [[.prop cs!"owner" (.nullable .leaf)
          (some [[.prop cs!"email" (.nullable .leaf) none, .prop cs!"name" .leaf none]])]])]]
    (by rfl) (by rfl)
  have := congrArg Shape.sizeAlts this
  revert this
  decide +kernel

/- Non-vacuity of C27_raw_partial and of the single-variant hypothesis. -/
example : SelMap.fragFree witnessEmpty = true ∧ witnessEmpty.isEmpty = false := by decide +kernel
example : (TypeAnn.union true [.plural (.union true [.scalar cs!"String"])]).singleVariant = true
    ∧ jsType cs!"string" (.union true [.plural (.union true [.scalar cs!"String"])])
      = cs!"(ReadonlyArray<(string | null)> | null)" := by decide +kernel

end IsoVerif.Props.C27
