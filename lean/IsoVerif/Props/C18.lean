/-
C18 — After a successful compile the artifact directory equals the artifacts; later compiles write
only changed artifacts.

Model: `IsoVerif.Fs` (executable; `Model/Fs.lean`).  Names are an arbitrary type `α` with decidable
equality; hash maps are association lists in an arbitrary order, so every statement holds for every
iteration order.  The two facts of the source the model is parameterised by come from
`Gen/FsFacts.lean`, regenerated from the Rust source by translator `t_fs` on every run:
`createRoot` (what `recreate_all` pushes after the `DeleteDirectory`) and `resetOnIoError`.

Hypotheses, spelled out:
* `RootOk fs₀` — the artifact directory is absent (and then nothing is below it) or a directory
  with any contents; its parent exists.
* `NamesSane R arts` — a predicate `R` separates root file names from entity names (no root file is
  named like an entity; in the compiler root files are `iso.ts`, `tsconfig.json`, … and entities are
  GraphQL names).
* `HashFaithful hash old new` — equal hash ⇒ equal content for the compared contents (MD5 in the
  code; collision freedom is not a theorem).

Statements only; the proofs are in `IsoVerif.Lemmas.Fs*`.
-/
import IsoVerif.Lemmas.FsSession
import IsoVerif.Lemmas.FsMinimal
import IsoVerif.Gen.FsFacts

namespace IsoVerif.Props.C18
open IsoVerif.Util IsoVerif.Fs IsoVerif.Gen.FsFacts

/-- The current source re-creates the artifact directory in `recreate_all` (the F8 repair).
Re-proved against the regenerated fact; with `createRoot = never` this fails and so does C18_first. -/
theorem C18_gen_creates_root : createRoot.creates := by
  show createRoot ≠ CreateRoot.never
  decide

variable {α : Type} [DecidableEq α]

/-- **First compile of a session**, whatever the directory held before (including nothing): the
operations of `recreate_all` all succeed and the directory is exactly the artifacts. -/
theorem C18_first (R : α → Bool) (hash : Bytes → Bytes) (arts : List (Artifact α))
    (hs : NamesSane R arts) (fs₀ : Fs α) (h₀ : RootOk fs₀) :
    ∃ fs₁, applyAll arts fs₀ (recreateAll createRoot (fromArtifacts hash arts)) 0 none = (fs₁, .ok) ∧
      ∀ p, Fs.get fs₁ p = expectedGet arts p := by
  exact first_correct R createRoot C18_gen_creates_root hash arts hs fs₀ h₀

/-- The same for any well-formed in-memory state (duplicate-free keys at every level, no entity
without a selectable), not only those built by `fromArtifacts`. -/
theorem C18_first_state (R : α → Bool) (st : State α) (arts : List (Artifact α)) (hwf : st.WF)
    (hs : st.Sane R) (hv : ∀ p i h, st.file p = some (i, h) → ∃ a, arts[i]? = some a)
    (fs₀ : Fs α) (h₀ : RootOk fs₀) :
    ∃ fs₁, applyAll arts fs₀ (recreateAll createRoot st) 0 none = (fs₁, .ok) ∧
      ∀ p, Fs.get fs₁ p = treeOf st arts p := by
  obtain ⟨fs₁, hr, ht⟩ := recreate_correct R createRoot C18_gen_creates_root st arts hwf hs hv fs₀ h₀
  exact ⟨fs₁, applyAll_of_run _ _ _ _ _ hr, ht⟩

/-- **Later compile of a session**: if the directory still is the tree of the previous artifacts,
the operations of `diff` all succeed and the directory is exactly the new artifacts. -/
theorem C18_next (R : α → Bool) (hash : Bytes → Bytes) (old new : List (Artifact α))
    (hso : NamesSane R old) (hsn : NamesSane R new) (hf : HashFaithful hash old new)
    (fs : Fs α) (h : ∀ p, Fs.get fs p = expectedGet old p) :
    ∃ fs', applyAll new fs (diff (fromArtifacts hash old) (fromArtifacts hash new)) 0 none = (fs', .ok) ∧
      ∀ p, Fs.get fs' p = expectedGet new p := by
  exact next_correct R hash old new hso hsn hf fs h

/-- **Minimality**: `diff` writes a path iff the new artifacts hold a file there and the old
artifacts hold no file there with the same hash.  (Unchanged content ⇒ unchanged hash ⇒ not
written; no hypothesis on the hash.) -/
theorem C18_minimal (hash : Bytes → Bytes) (old new : List (Artifact α)) (p : Path α) :
    (∃ k, Op.writeFile p k ∈ diff (fromArtifacts hash old) (fromArtifacts hash new)) ↔
      ∃ c, expectedGet new p = some (.file c) ∧
        ∀ c', expectedGet old p = some (.file c') → hash c' ≠ hash c := by
  exact minimal_artifacts hash old new p

/-- … and no path is written twice: with `C18_minimal` the written paths are, as a multiset, exactly
the paths of the new artifacts whose hash is new or differs. -/
theorem C18_minimal_once (hash : Bytes → Bytes) (old new : List (Artifact α)) :
    (writePaths (diff (fromArtifacts hash old) (fromArtifacts hash new))).Nodup ∧
    ∀ p, p ∈ writePaths (diff (fromArtifacts hash old) (fromArtifacts hash new)) ↔
      ∃ k, Op.writeFile p k ∈ diff (fromArtifacts hash old) (fromArtifacts hash new) := by
  exact ⟨diff_writes_nodup _ _ (wf_fromArtifacts hash new), fun p => mem_writePaths _ p⟩

/-- Minimality at the level of states, with the index that is written. -/
theorem C18_minimal_state (old new : State α) (hwf : new.WF) (p : Path α) (k : Nat) :
    Op.writeFile p k ∈ diff old new ↔ ∃ h, new.file p = some (k, h) ∧ changedIn old p h := by
  exact mem_diff_write old new hwf p k

/-- **Sequences**: the first compile on any directory and every later fault-free compile of the
session leave exactly their artifacts (induction over the history; see also C19_history). -/
theorem C18_sequence (R : α → Bool) (C : Bytes → Prop) (hash : Bytes → Bytes) (hinj : HashInjOn hash C)
    (fs₀ : Fs α) (h₀ : RootOk fs₀) (history : List (List (Artifact α)))
    (hh : ∀ a ∈ history, NamesSane R a ∧ ∀ x ∈ a, C x.content)
    (arts : List (Artifact α)) (hs : NamesSane R arts) (hC : ∀ x ∈ arts, C x.content) :
    ∃ fs', compile createRoot resetOnIoError hash
        (runSteps createRoot true hash ⟨none, fs₀⟩ (history.map fun a => ⟨some a, none⟩))
        (some arts) none = (⟨some (fromArtifacts hash arts), fs'⟩, .ok) ∧
      ∀ p, Fs.get fs' p = expectedGet arts p := by
  refine compile_of_inv R C createRoot C18_gen_creates_root resetOnIoError hash hinj _ ?_ arts hs hC
  refine inv_runSteps R C createRoot C18_gen_creates_root hash hinj _ ?_ _ (inv_fresh R C hash fs₀ h₀)
  intro st hst arts' ha
  obtain ⟨a, hmem, rfl⟩ := List.mem_map.mp hst
  simp only [Option.some.injEq] at ha
  subst ha
  exact hh a hmem

/-! Non-vacuity: concrete inputs meeting the hypotheses (root file names are the numbers ≥ 100). -/

def exR : Nat → Bool := fun n => decide (100 ≤ n)
def exOld : List (Artifact Nat) :=
  [⟨some (1, 2), 3, [97]⟩, ⟨none, 100, [98]⟩, ⟨some (1, 2), 3, [99]⟩, ⟨some (4, 5), 6, [1]⟩]
def exNew : List (Artifact Nat) :=
  [⟨some (1, 2), 3, [99]⟩, ⟨some (1, 7), 3, [5]⟩, ⟨none, 101, []⟩]
/-- absent directory; a directory with a stale file, a stale directory and a directory named like a root file -/
def exFs : Fs Nat := [([], .dir), ([9], .file [1]), ([1], .dir), ([1, 2], .dir), ([100], .dir), ([100, 0], .file [])]

example : NamesSane exR exOld := by
  intro a ha
  simp [exOld] at ha
  rcases ha with rfl | rfl | rfl | rfl <;> decide
example : NamesSane exR exNew := by
  intro a ha
  simp [exNew] at ha
  rcases ha with rfl | rfl | rfl <;> decide
example : RootOk exFs := Or.inl (by decide)
example : RootOk ([] : Fs Nat) := Or.inr (fun _ => rfl)
example : HashFaithful (fun b => b) exOld exNew := fun _ _ _ _ h => h
/-- the model really runs these: first compile on `exFs`, then the diff to `exNew` -/
example : (applyAll exOld exFs (recreateAll createRoot (fromArtifacts id exOld)) 0 none).2 = .ok := by
  decide +kernel
example : (diff (fromArtifacts id exOld) (fromArtifacts id exNew)).length = 5 := by decide +kernel

/-- F8 as a fact about the model: with `createRoot = never` (the source before the repair) the
first compile of a project whose artifacts are only root files fails. -/
theorem C18_witness_F8_never :
    (applyAll [(⟨none, 100, [98]⟩ : Artifact Nat)] ([] : Fs Nat)
      (recreateAll .never (fromArtifacts id [(⟨none, 100, [98]⟩ : Artifact Nat)])) 0 none).2 = .ioError := by
  decide +kernel

end IsoVerif.Props.C18
