/-
C07 — The iso literal parser is total and reports well-formed locations.

Models: `IsoVerif.Lex` (generic lexer over the tables T1 regenerates from token_kind.rs),
`IsoVerif.IsoLex` (the iso lexer: tables + hand-modelled callbacks and logos-0.12 number scanner),
`IsoVerif.IsoParse.parseIso` (PeekableLexer + the recursive-descent parser, function by function,
every Rust panic site an explicit `.panic site` outcome; this is the code AFTER the fixes 1759df9 /
d3ab1d7, which turned the integer-overflow, block-string and directive-argument panics into
diagnostics).

`GoodSpan src sp`: `sp.s ≤ sp.e ≤ |src|` and both ends are character boundaries of `src`
(`str::is_char_boundary`).  `Decl.spans d`: every span of a parsed declaration — AST nodes,
directive / argument / value / type / selection spans and the semantic tokens.
-/
import IsoVerif.Lemmas.IsoParseText

namespace IsoVerif.Props.C07
open IsoVerif.Lex IsoVerif.IsoLex IsoVerif.IsoParse IsoVerif.Gen.IsoTokens

/-! ## the lexer, for EVERY table / callback set / override hook -/

/-- token spans are non-empty -/
theorem C07_lex_nonempty {κ : Type} (L : Lexer κ) (s : List UInt8) : ∀ t ∈ lex L s, t.s < t.e :=
  lex_nonempty L s

/-- token spans are consecutive: sorted and non-overlapping -/
theorem C07_lex_sorted {κ : Type} (L : Lexer κ) (s : List UInt8) : (lex L s).Pairwise (fun a b => a.e ≤ b.s) :=
  lex_sorted L s

/-- token spans lie inside the input -/
theorem C07_lex_inside {κ : Type} (L : Lexer κ) (s : List UInt8) : ∀ t ∈ lex L s, t.e ≤ s.length :=
  lex_inside L s

/-- both ends of every token span are character boundaries (no UTF-8 validity hypothesis needed) -/
theorem C07_lex_boundaries {κ : Type} (L : Lexer κ) (s : List UInt8) :
    ∀ t ∈ lex L s, isBoundary s t.s = true ∧ isBoundary s t.e = true :=
  lex_boundaries L s

/-! ## the parser -/

/-- the fact about the iso lexer that makes the parser's string slicing safe: a `StringLiteral`
token is `"`…`"`, a `BlockStringLiteral` token `"""`…`"""`, with one-byte quotes — for every input -/
theorem C07_string_tokens (src : List UInt8) : StringTokensOK src := stringTokensOK src

/-- No panic: for every input the parser model never reaches a Rust panic site
(`Span::new`'s debug assertion, string slicing, the optional-result debug assertion). -/
theorem C07_no_panic (src : List UInt8) (ex : Option (List UInt8)) :
    ∀ site, parseIso src ex ≠ .panic site := by
  intro site hp
  have := parseIso_spec src ex (stringTokensOK src)
  rw [hp] at this
  exact this

/-- Totality: for every input the parser model returns a declaration or a diagnostic — it neither
panics nor exhausts its recursion budget (`|src| + 2`, more than the number of tokens). -/
theorem C07_total (src : List UInt8) (ex : Option (List UInt8)) :
    (∃ d, parseIso src ex = .ok d) ∨ (∃ d, parseIso src ex = .diag d) := by
  cases h : parseIso src ex with
  | ok d => exact .inl ⟨d, rfl⟩
  | diag d => exact .inr ⟨d, rfl⟩
  | panic s => exact (C07_no_panic src ex s h).elim
  | fuel => exact (parseIso_no_fuel src ex h).elim

/-- Every span of a returned declaration — AST nodes and semantic tokens — satisfies
`start ≤ end ≤ |src|` with both ends on character boundaries. -/
theorem C07_spans (src : List UInt8) (ex : Option (List UInt8)) (d : Decl)
    (hd : parseIso src ex = .ok d) : ∀ sp ∈ Decl.spans d, GoodSpan src sp := by
  have := parseIso_spec src ex (stringTokensOK src)
  rw [hd] at this
  exact this.1

/-- The span of a returned diagnostic is well-formed (or the diagnostic has `Location::Generated`). -/
theorem C07_diag_span (src : List UInt8) (ex : Option (List UInt8)) (d : Diag)
    (hd : parseIso src ex = .diag d) : match d.loc with | .span sp => GoodSpan src sp | .gen => True := by
  have := parseIso_spec src ex (stringTokensOK src)
  rw [hd] at this
  exact this

/-- Semantic tokens are non-empty, non-overlapping and in increasing order. -/
theorem C07_tokens_sorted (src : List UInt8) (ex : Option (List UInt8)) (d : Decl)
    (hd : parseIso src ex = .ok d) :
    (Decl.sem d).Pairwise (fun a b => a.span.e ≤ b.span.s) ∧ ∀ a ∈ Decl.sem d, a.span.s < a.span.e := by
  have := parseIso_spec src ex (stringTokensOK src)
  rw [hd] at this
  exact ⟨this.2.1, fun a ha => (this.2.2 a ha).1⟩

/-! Non-vacuity (kernel evaluation of the model): `field Q.f {\n}` parses to a declaration; the F5
witness `field Q.f { a(x: 99999999999999999999)\n }` is the diagnostic `int` at the number. -/
def isOk : Outcome → Bool
  | .ok _ => true
  | _ => false

def diagOf : Outcome → Option Diag
  | .diag d => some d
  | _ => none

example : isOk (parseIso [102, 105, 101, 108, 100, 32, 81, 46, 102, 32, 123, 10, 125] (some [120])) = true := by
  decide +kernel

example : diagOf (parseIso [102, 105, 101, 108, 100, 32, 81, 46, 102, 32, 123, 32, 97, 40, 120, 58, 32, 57, 57, 57, 57,
    57, 57, 57, 57, 57, 57, 57, 57, 57, 57, 57, 57, 57, 57, 57, 57, 41, 10, 32, 125] (some [120])) =
    some ⟨.int, .span ⟨17, 37⟩⟩ := by
  decide +kernel

end IsoVerif.Props.C07
