/-
C31 — Diagnostic excerpts underline exactly the reported span.

Model: `IsoVerif.Carats.render` (executable transcription of text_with_carats.rs, with every Rust
panic site explicit).  Spec: `IsoVerif.CaratsSpec.specRender` (declarative, per line: which lines
are printed, which get a caret line, one cell per *character*, `^` exactly under the characters
whose first byte lies in the span; row = 1 + number of line feeds before the span start).

Domain: `goodSpan` — a non-empty span inside the text whose ends are character boundaries (the
property's "non-empty span inside it"; the lexers only produce such spans, see C07).
-/
import IsoVerif.Lemmas.Carats

namespace IsoVerif.Props.C31
open IsoVerif.Util IsoVerif.Carats IsoVerif.CaratsSpec

/-- Totality + row + carets in one statement: on every good span (any outer offset, any context
size) the implementation model does not panic and returns exactly the specified excerpt and row. -/
theorem C31_render_eq_spec (text : Bytes) (o a b buffer : Nat)
    (hgood : goodSpan text (o + a) (o + b) = true) :
    observe (render text o a b buffer) = some (specRender text (o + a) (o + b) buffer) :=
  render_eq_spec text o a b buffer hgood

/-- never panics (corollary) -/
theorem C31_total (text : Bytes) (o a b buffer : Nat)
    (hgood : goodSpan text (o + a) (o + b) = true) :
    ∀ site, render text o a b buffer ≠ .panic site := by
  intro site h
  have := C31_render_eq_spec text o a b buffer hgood
  rw [h] at this
  simp [observe] at this

/-- The reported row is the line on which the span starts. -/
theorem C31_row (text : Bytes) (s e buffer : Nat) (hgood : goodSpan text s e = true) :
    (specRender text s e buffer).2 = some (1 + ((text.take s).filter (· == 10)).length) := by
  have h : s ≤ text.length := by
    simp [goodSpan] at hgood; omega
  unfold specRender
  simp only [h, if_true, rowOf]
  split <;> rfl

/-- One caret-line cell per character of the source line. -/
theorem C31_one_cell_per_char (s e sol : Nat) (L : Bytes) :
    (caretCells s e sol 0 L).length = charCount L := caretCells_length s e sol 0 L

/-- Carets sit under exactly the characters of the line that lie in the span. -/
theorem C31_carets_exact (s e sol : Nat) (L : Bytes) :
    ((caretCells s e sol 0 L).filter (· == caret)).length =
      (((List.range L.length).filter fun i =>
          (match L[i]? with | some b => isLead b | none => false) &&
          decide (s ≤ sol + 0 + i) && decide (sol + 0 + i < e))).length :=
  caretCells_carets s e sol 0 L

/- Non-vacuity: "héllo wörld", the span of "wörld" (the F6 witness), is a good span, and the
excerpt has five carets under columns 6..10. -/
example : goodSpan (strBytes "héllo wörld") 7 13 = true := by decide +kernel
example : (specRender (strBytes "héllo wörld") 7 13 2).1 = strBytes "héllo wörld\n      ^^^^^" := by
  decide +kernel

end IsoVerif.Props.C31
