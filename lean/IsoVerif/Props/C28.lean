/-
C28 — The SWC transform resolves each literal to the artifact the compiler wrote.

Model: `IsoVerif.Swc` (executable).  The regex AST of OPERATION_REGEX, the white-space / identifier
tables of the lexer, the keyword tables of parser and transform, the pieces of the path format and the
compiler's entrypoint file name are regenerated from the Rust sources by translator t7_swc on every
run, so every theorem below is re-proved against what the code says now.

* `parseHeader lit = some (kw, type, field)`: the first four tokens of the literal are
  `keyword Identifier . Identifier` -- every literal `parse_iso_literal` accepts has such a header
  (the hypothesis is weaker than "the compiler accepts the literal", so the theorems cover more).
* `swcMatch lit`: the three texts OPERATION_REGEX captures in `lit.trim()` under leftmost-first
  semantics (list-of-successes backtracking matcher, unanchored search).

After the repair of the regex (/repo 3bc2a88; F16) no "canonical header" side condition is left:
`CanonicalHeader` is every header the parser accepts.

Statements only; helper lemmas live in `IsoVerif.Lemmas.Swc*`.
-/
import IsoVerif.Lemmas.SwcVisitor

namespace IsoVerif.Props.C28
open IsoVerif.Swc IsoVerif.Gen.SwcLits

/-- The shape on which transform and parser provably agree: every header the parser accepts. -/
def CanonicalHeader (lit : Str) : Prop := (parseHeader lit).isSome = true

/-- The literals of the three sources fit together (re-proved whenever they are regenerated): what the
transform appends (`entrypoint` + `.ts`) is the compiler's ENTRYPOINT_FILE_NAME; the parser's
entrypoint keyword is the transform's Entrypoint type and its field / pointer keywords the Field type;
every white-space character of the lexer is in the regex's white-space class; the regex's name class is
the lexer's Identifier; the transform trims before matching. -/
theorem C28_consts :
    entrypointDisplay ++ pathSuffix = entrypointFileName ∧
    (∀ p ∈ parserKeywords, artifactType p.1 = some (p.2 == 0)) ∧
    rangesSubset lexWs reWs = true ∧
    rangesSubset lexIdentStart reIdS = true ∧ rangesSubset reIdS lexIdentStart = true ∧
    rangesSubset lexIdentCont reIdC = true ∧ rangesSubset reIdC lexIdentCont = true ∧
    trimsInput = true := by
  refine ⟨entry_file_eq, kinds_agree, lexWs_sub_reWs, identStart_sub, by decide, identCont_sub, reIdC_sub,
    trimsInput_true⟩

/-- **Classification.**  For every literal text whose header the parser accepts -- any white space
(including U+FEFF) before the keyword, between the tokens and around the dot, any names over the
identifier alphabet, anything after the field name (directive glued or not, `(`, `{`, end) -- the
transform captures exactly the parser's keyword, type and field. -/
theorem C28_classify (lit k t f : Str) (h : parseHeader lit = some (k, t, f)) :
    swcMatch lit = some (k, t, f) := by
  obtain ⟨r, hr⟩ := parseHeader_rest h
  simp [swcMatch, captures_of_parse hr]

/-- ... and therefore classifies it the same way: Entrypoint exactly for the parser's entrypoint
declarations (kind 0), Field for client fields (1) and pointers (2). -/
theorem C28_kind (lit k t f : Str) (n : Nat) (h : parseHeader lit = some (k, t, f)) (hk : parserKind k = some n) :
    (swcMatch lit).map (fun c => artifactType c.1) = some (some (n == 0)) := by
  simp [C28_classify lit k t f h, artifactType_of_parserKind hk]

/- Non-vacuity: a header with leading white space, spaces around the dot and a directive glued to the
field name is accepted, and the transform reads the same three names (both sides by evaluation). -/
-- "\n  entrypoint Query . foo@lazyLoad\n"
def exLit : Str :=
  [10, 32, 32, 101, 110, 116, 114, 121, 112, 111, 105, 110, 116, 32, 81, 117, 101, 114, 121, 32, 46, 32, 102, 111, 111,
   64, 108, 97, 122, 121, 76, 111, 97, 100, 10]
def sEntrypoint : Str := [101, 110, 116, 114, 121, 112, 111, 105, 110, 116]
def sQuery : Str := [81, 117, 101, 114, 121]
def sFoo : Str := [102, 111, 111]

example : parseHeader exLit = some (sEntrypoint, sQuery, sFoo) := by decide +kernel
example : swcMatch exLit = some (sEntrypoint, sQuery, sFoo) := by decide +kernel
example : CanonicalHeader exLit := by unfold CanonicalHeader; decide +kernel

/-- **Path.**  For a file at any depth below (or beside, or above) the artifact directory, the relative
path the transform emits, appended to the directory of the file and normalised, is exactly
`<artifact_dir>/__isograph/<t>/<f>/<ENTRYPOINT_FILE_NAME>` -- the file the compiler writes.  The path does
not depend on the module setting (`cfg.esm` is unconstrained).  Hypotheses: the directory components are
ordinary names (no `..`, no empty name); `t`, `f` are ordinary names (Identifiers are, `C28_entrypoint`). -/
theorem C28_path (fileDir : List Str) (cfg : Cfg) (t f : Str)
    (hA : NormalComps (artifactDirComps cfg)) (hD : NormalComps fileDir) (ht : NormalComp t) (hf : NormalComp f) :
    ∃ p, pathForArtifact fileDir cfg t f = .ok p ∧
      resolveFrom fileDir p = compilerArtifact cfg t f ∧
      compilerArtifact cfg t f = some (artifactDirComps cfg ++ [t, f, entrypointFileName]) := by
  exact path_resolves hA hD ht hf

-- file in src/components/deep, project_root "./src/components", no artifact_directory
def sSrc : Str := [115, 114, 99]
def sComponents : Str := [99, 111, 109, 112, 111, 110, 101, 110, 116, 115]
def sDeep : Str := [100, 101, 101, 112]
def exCfg (esm : Bool) : Cfg :=
  { projectRoot := [46, 47, 115, 114, 99, 47, 99, 111, 109, 112, 111, 110, 101, 110, 116, 115],
    artifactDirectory := none, esm := esm }

example : NormalComps (artifactDirComps (exCfg true)) ∧ NormalComps [sSrc, sComponents, sDeep] ∧
    NormalComp sQuery ∧ NormalComp sFoo :=
  ⟨normalComps_of_all (by decide +kernel), normalComps_of_all (by decide +kernel),
   normalComp_of_B (by decide +kernel), normalComp_of_B (by decide +kernel)⟩

-- "../__isograph/Query/foo/entrypoint.ts"
example : pathForArtifact [sSrc, sComponents, sDeep] (exCfg true) sQuery sFoo =
    .ok [46, 46, 47, 95, 95, 105, 115, 111, 103, 114, 97, 112, 104, 47, 81, 117, 101, 114, 121, 47, 102, 111, 111, 47,
         101, 110, 116, 114, 121, 112, 111, 105, 110, 116, 46, 116, 115] := by decide +kernel

/-- **Entrypoints, end to end, both module settings.**  A literal whose header is the entrypoint
declaration of `t.f` is replaced -- whether or not the `iso(...)` call is itself called -- by a default
import (esmodule) resp. `require(..).default` (commonjs) of a path that resolves to the entrypoint
artifact the compiler generates for `t.f`. -/
theorem C28_entrypoint (fileDir : List Str) (cfg : Cfg) (lit k t f : Str) (fn : FnArgs)
    (h : parseHeader lit = some (k, t, f)) (hk : parserKind k = some 0)
    (hA : NormalComps (artifactDirComps cfg)) (hD : NormalComps fileDir) :
    ∃ p, compileIsoCall fileDir cfg (.one lit) fn
        = (if cfg.esm then .importDefault p (identPre ++ t ++ identMid ++ f) else .requireDefault p) ∧
      resolveFrom fileDir p = compilerArtifact cfg t f ∧
      compilerArtifact cfg t f = some (artifactDirComps cfg ++ [t, f, entrypointFileName]) := by
  obtain ⟨r, hr⟩ := parseHeader_rest h
  obtain ⟨it, ifd⟩ := parse_idents hr
  obtain ⟨p, hp, hres, hc⟩ := path_resolves (cfg := cfg) hA hD (ident_normal it) (ident_normal ifd)
  refine ⟨p, ?_, hres, hc⟩
  have ha := artifactType_of_parserKind hk
  simp only [compileIsoCall, captures_of_parse hr, ha, hp]
  rfl

/-- **Identity.**  A literal whose header is a client field or pointer declaration: `iso(...)(x)` is
replaced by `x`, an `iso(...)` that is not called by the identity function; nothing is imported. -/
theorem C28_identity (fileDir : List Str) (cfg : Cfg) (lit k t f : Str) (n : Nat)
    (h : parseHeader lit = some (k, t, f)) (hk : parserKind k = some n) (hn : n ≠ 0) :
    compileIsoCall fileDir cfg (.one lit) .one = .argument ∧
    compileIsoCall fileDir cfg (.one lit) .absent = .identity ∧
    compileIsoCall fileDir cfg (.one lit) .wrongCount = .error "fn-one-arg" := by
  obtain ⟨r, hr⟩ := parseHeader_rest h
  have ha := artifactType_of_parserKind hk
  have hb : (n == 0) = false := by simpa using hn
  simp [compileIsoCall, captures_of_parse hr, ha, hb]

-- "field Query.Home @component {}"
def exField : Str :=
  [102, 105, 101, 108, 100, 32, 81, 117, 101, 114, 121, 46, 72, 111, 109, 101, 32, 64, 99, 111, 109, 112, 111, 110, 101,
   110, 116, 32, 123, 125]
example : parseHeader exField = some ([102, 105, 101, 108, 100], sQuery, [72, 111, 109, 101]) ∧
    parserKind [102, 105, 101, 108, 100] = some 1 := by decide +kernel

/-- Everything that is not a well-formed call is reported and left as it is (no replacement). -/
theorem C28_errors_keep (fileDir : List Str) (cfg : Cfg) (fn : FnArgs) :
    compileIsoCall fileDir cfg .wrongCount fn = .error "iso-one-arg" ∧
    compileIsoCall fileDir cfg .notTemplate fn = .error "only-tpl" ∧
    compileIsoCall fileDir cfg .subst fn = .error "subst" := by
  simp [compileIsoCall]

/-! ### Open finding: the emitted specifier is not always a relative one

`import x from "generated/__isograph/..."` is resolved by Node / bundlers as a package, not relative to
the importing file.  `path_for_artifact` puts `./` in front only when the relative directory *is*
`__isograph`; when the artifact directory lies strictly below the directory of the file (artifact
directory `src/generated`, file in `src`) the specifier is bare, and for a file inside `__isograph`
itself it starts with `/`.  As a *path* it is still right (`C28_path`). -/

def C28_specifier_statement : Prop :=
  ∀ (fileDir : List Str) (cfg : Cfg) (t f p : Str),
    NormalComps (artifactDirComps cfg) → NormalComps fileDir → NormalComp t → NormalComp f →
    pathForArtifact fileDir cfg t f = .ok p → isRelativeSpecifier p = true

-- artifact_directory "./src/generated", file in src:  "generated/__isograph/Query/foo/entrypoint.ts"
def bareCfg : Cfg :=
  { projectRoot := [46, 47, 115, 114, 99],
    artifactDirectory := some [46, 47, 115, 114, 99, 47, 103, 101, 110, 101, 114, 97, 116, 101, 100], esm := true }
def sGenerated : Str := [103, 101, 110, 101, 114, 97, 116, 101, 100]
def barePath : Str :=
  [103, 101, 110, 101, 114, 97, 116, 101, 100, 47, 95, 95, 105, 115, 111, 103, 114, 97, 112, 104, 47, 81, 117, 101, 114, 121,
   47, 102, 111, 111, 47, 101, 110, 116, 114, 121, 112, 111, 105, 110, 116, 46, 116, 115]

theorem C28_witness_bare_specifier : ¬ C28_specifier_statement := by
  intro h
  have hp : pathForArtifact [sSrc] bareCfg sQuery sFoo = .ok barePath := by decide +kernel
  have := h [sSrc] bareCfg sQuery sFoo barePath (normalComps_of_all (by decide +kernel))
    (normalComps_of_all (by decide +kernel)) (normalComp_of_B (by decide +kernel))
    (normalComp_of_B (by decide +kernel)) hp
  exact absurd this (by decide +kernel)

/-- Second shape of the same finding: a file inside `__isograph` itself gets `/Query/foo/entrypoint.ts`. -/
theorem C28_witness_absolute_specifier :
    pathForArtifact [sSrc, isographFolder] { projectRoot := [46, 47, 115, 114, 99], artifactDirectory := none, esm := false }
      sQuery sFoo
      = .ok [47, 81, 117, 101, 114, 121, 47, 102, 111, 111, 47, 101, 110, 116, 114, 121, 112, 111, 105, 110, 116, 46, 116, 115] ∧
    isRelativeSpecifier
      [47, 81, 117, 101, 114, 121, 47, 102, 111, 111, 47, 101, 110, 116, 114, 121, 112, 111, 105, 110, 116, 46, 116, 115] = false := by
  constructor <;> decide +kernel

/-- The provable part: a file in or below the directory that holds `__isograph` (the usual layout: the
artifact directory defaults to the project root and the sources live below it), not inside `__isograph`
itself, gets `./__isograph/...` or `../.../__isograph/...`. -/
theorem C28_specifier_partial (cfg : Cfg) (below : List Str) (t f : Str)
    (hE : NormalComps below) (hiso : below.head? ≠ some isographFolder) :
    ∃ p, pathForArtifact (components (cfg.artifactDirectory.getD cfg.projectRoot) ++ below) cfg t f = .ok p ∧
      isRelativeSpecifier p = true := by
  exact specifier_relative_below hE hiso

example : NormalComps [sDeep] ∧ [sDeep].head? ≠ some isographFolder :=
  ⟨normalComps_of_all (by decide +kernel), by decide⟩

/-! ### F16 (fixed by /repo 3bc2a88): the regex as it was, on the two headers of DESIGN §7

`oldMatch` runs the same matcher on the AST of the old regex.  Both literals are accepted by the parser;
the old regex reads `foo@lazyLoad` as the field name of the first and does not match the second, nor a
U+FEFF between keyword and type.  The repaired regex (`swcMatch`) reads all three as the parser does. -/

-- "entrypoint Query.foo@lazyLoad"
def f16Glued : Str :=
  [101, 110, 116, 114, 121, 112, 111, 105, 110, 116, 32, 81, 117, 101, 114, 121, 46, 102, 111, 111, 64, 108, 97, 122, 121,
   76, 111, 97, 100]
-- "entrypoint Query . foo"
def f16Spaced : Str :=
  [101, 110, 116, 114, 121, 112, 111, 105, 110, 116, 32, 81, 117, 101, 114, 121, 32, 46, 32, 102, 111, 111]
-- "entrypoint﻿Query.foo"
def f16Bom : Str :=
  [101, 110, 116, 114, 121, 112, 111, 105, 110, 116, 65279, 81, 117, 101, 114, 121, 46, 102, 111, 111]

theorem C28_fixed_witness_F16 :
    parseHeader f16Glued = some (sEntrypoint, sQuery, sFoo) ∧
    oldMatch f16Glued = some (sEntrypoint, sQuery, [102, 111, 111, 64, 108, 97, 122, 121, 76, 111, 97, 100]) ∧
    swcMatch f16Glued = some (sEntrypoint, sQuery, sFoo) ∧
    parseHeader f16Spaced = some (sEntrypoint, sQuery, sFoo) ∧
    oldMatch f16Spaced = none ∧
    swcMatch f16Spaced = some (sEntrypoint, sQuery, sFoo) ∧
    parseHeader f16Bom = some (sEntrypoint, sQuery, sFoo) ∧
    oldMatch f16Bom = some (sEntrypoint, [65279, 81, 117, 101, 114, 121], sFoo) ∧
    swcMatch f16Bom = some (sEntrypoint, sQuery, sFoo) := by
  refine ⟨?_, ?_, ?_, ?_, ?_, ?_, ?_, ?_, ?_⟩ <;> decide +kernel

end IsoVerif.Props.C28
