/-
C12 — Response keys are unique per field+arguments and agree with the runtime.

Compiler side: `aliasOf` / `aliasT` (Rust `get_aliased_mutation_field_name` over
`to_alias_str_chunk`, per `char`); `responseKeyT f a` is the key of a selection (the alias when
there are arguments, the field name otherwise).  Runtime side: `networkResponseKey f a`
(`getNetworkResponseKey` / `getArgumentValueChunk` of cache.ts applied to the JavaScript value of
the normalization-AST node the compiler writes for `(f, a)`; UTF-16 code units).

All three clauses of the property are FALSE on the unchanged tree (F11); each full statement is
kept as a `def … : Prop`, refuted on a concrete witness, and proved on the argument class on which
it does hold:
* `SafeArgs` (`safeArgs`): variables, integers in [0, 2^53), booleans, enum values, null, objects
  thereof, strings over [A-Za-z0-9_], every name a GraphQL name — for legality and for agreement
  with the runtime;
* the tight class (`tightArgs`): additionally no `_` in names / enum values / strings inside
  objects, no empty object, top-level strings without `_` at the ends and without `__` — for
  injectivity (underscores are the separators of the encoding).
What the code guarantees in general is `C12_alias_factor` + `C12_char`: the key depends on the
arguments only through the collapse of their strings, and on the tight class it determines
exactly that collapse.
-/
import IsoVerif.Lemmas.PrintersAlias

namespace IsoVerif.Props.C12
open IsoVerif.Core

/-! ### full statements (false today) -/

/-- every key is a GraphQL name -/
def C12_legal_statement : Prop :=
  ∀ (f : Str) (a : Args), isGqlName f = true → argsHaveList a = false →
    isGqlName (responseKeyT f a) = true

/-- same key ⇔ same field and arguments -/
def C12_inj_statement : Prop :=
  ∀ (f g : Str) (a b : Args), isGqlName f = true → isGqlName g = true →
    argsHaveList a = false → argsHaveList b = false →
    (responseKeyT f a = responseKeyT g b ↔ (f = g ∧ a = b))

/-- the compiler's key is the key the runtime computes from the normalization AST node -/
def C12_runtime_statement : Prop :=
  ∀ (f : Str) (a : Args), isGqlName f = true → argsHaveList a = false →
    networkResponseKey f a = some (utf16 (responseKeyT f a))

/-! ### witnesses -/

/-- `friend(n: -5)` ↦ `friend____n___l_-5` -/
theorem C12_witness_negative_int : ¬ C12_legal_statement := by
  intro h
  have := h cs!"friend" [(cs!"n", .int (-5))] (by decide +kernel) (by decide +kernel)
  revert this
  decide +kernel

/-- `friend(name: "a b")` and `friend(name: "a_b")` ↦ `friend____name___s_a_b` -/
theorem C12_witness_collapse : ¬ C12_inj_statement := by
  intro h
  have := (h cs!"friend" cs!"friend" [(cs!"name", .str cs!"a b")] [(cs!"name", .str cs!"a_b")]
    (by decide +kernel) (by decide +kernel) (by decide +kernel) (by decide +kernel)).mp (by decide +kernel)
  have h2 := this.2
  simp at h2

/-- separators are underscores: `a(b: "x____c___v_y")` and `a(b: "x", c: $y)` share a key although
all strings are over [A-Za-z0-9_] -/
theorem C12_witness_underscore :
    responseKeyT cs!"a" [(cs!"b", .str cs!"x____c___v_y")]
      = responseKeyT cs!"a" [(cs!"b", .str cs!"x"), (cs!"c", .var cs!"y")] := by
  decide +kernel

/-- U+1F600 is one `char` for the compiler and two code units for `/\W/g` -/
theorem C12_witness_astral : ¬ C12_runtime_statement := by
  intro h
  have := h cs!"friend" [(cs!"name", .str [0x1F600])] (by decide +kernel) (by decide +kernel)
  revert this
  decide +kernel

/-- the runtime sees the JavaScript value of the literal: `"a\nb"` (backslash, n) is a line feed -/
theorem C12_witness_js_escape :
    networkResponseKey cs!"friend" [(cs!"name", .str cs!"a\\nb")]
      ≠ some (utf16 (responseKeyT cs!"friend" [(cs!"name", .str cs!"a\\nb")])) := by
  decide +kernel

/-- the runtime's `Literal` is a double: 2^53 + 1 prints as 2^53 -/
theorem C12_witness_int53 :
    networkResponseKey cs!"f" [(cs!"n", .int 9007199254740993)]
      ≠ some (utf16 (responseKeyT cs!"f" [(cs!"n", .int 9007199254740993)])) := by
  decide +kernel

/-! ### what holds -/

/-- the explicit-panic alias function and the total one agree on list-free arguments -/
theorem C12_alias_total (f : Str) (a : Args) (h : argsHaveList a = false) :
    aliasOf f a = some (aliasT f a) := aliasOf_eq_aliasT f a h

/-- legality on `SafeArgs` -/
theorem C12_legal_partial (f : Str) (a : Args) (hf : isGqlName f = true) (ha : safeArgs a = true) :
    isGqlName (responseKeyT f a) = true := by
  unfold responseKeyT
  split
  · exact hf
  · exact aliasT_legal f a hf ha

/-- agreement with the runtime on `SafeArgs` -/
theorem C12_runtime_partial (f : Str) (a : Args) (hf : isGqlName f = true) (ha : safeArgs a = true) :
    networkResponseKey f a = some (utf16 (aliasT f a)) :=
  networkResponseKey_eq_alias f a hf ha

/-- injectivity on the tight class -/
theorem C12_inj_partial (f g : Str) (a b : Args) (hf : isAtom f = true) (hg : isAtom g = true)
    (ha : tightArgs a = true) (hb : tightArgs b = true) :
    aliasT f a = aliasT g b ↔ (f = g ∧ a = b) :=
  ⟨aliasT_injective f g a b hf hg ha hb, fun ⟨h1, h2⟩ => by rw [h1, h2]⟩

/-- the key depends on the arguments only through the collapse of their strings -/
theorem C12_alias_factor (f : Str) (a : Args) : aliasT f a = aliasT f (collapseArgs a) :=
  aliasT_collapse f a

/-- exact characterisation: on arguments whose collapse is tight, two selections have the same
key iff they select the same field with arguments that collapse to the same thing -/
theorem C12_char (f g : Str) (a b : Args) (hf : isAtom f = true) (hg : isAtom g = true)
    (ha : tightArgs (collapseArgs a) = true) (hb : tightArgs (collapseArgs b) = true) :
    aliasT f a = aliasT g b ↔ (f = g ∧ collapseArgs a = collapseArgs b) := by
  rw [C12_alias_factor f a, C12_alias_factor g b]
  exact C12_inj_partial f g _ _ hf hg ha hb

/- Non-vacuity of the hypotheses. -/
example : safeArgs [(cs!"first", .int 10), (cs!"after", .var cs!"cursor"),
    (cs!"filter", .obj [(cs!"role", .enum cs!"ADMIN"), (cs!"name", .str cs!"a_b")])] = true := by decide +kernel
example : tightArgs [(cs!"first", .int 10), (cs!"name", .str cs!"a_b"),
    (cs!"filter", .obj [(cs!"role", .enum cs!"ADMIN"), (cs!"nested", .obj [(cs!"flag", .bool true)])])] = true := by
  decide +kernel
example : tightArgs (collapseArgs [(cs!"name", .str cs!"a b")]) = true
    ∧ collapseArgs [(cs!"name", .str cs!"a b")] = collapseArgs [(cs!"name", .str cs!"a-b")] := by
  exact ⟨by decide +kernel, rfl⟩

end IsoVerif.Props.C12
