/-
C21 — Language-server answers match a fresh server on the same contents.

Model: `IsoVerif.LspState` — the server's two maps (disk view, open buffers), the handlers'
effect on them, the effective contents they denote, and the memo layer that makes the running
server answer from a `read_iso_literals_source` result computed before the `OpenFileMap` counter
singleton existed (DESIGN F1, confirmed on the real server: signature `stale-after-first-open`).

  * `C21_maps`, `C21_effective`: for every history the server's maps denote the same effective
    contents as a freshly started server given the final disk and the final open buffers.
  * `C21_statement tracked`: the property itself — what the running server *answers from* equals
    that.  `C21`: it holds for every history when pico tracks reads of absent singletons
    (`tracked = true`; whether the current pico does is regenerated into Gen/LspPicoFacts.lean).
    Without that (`tracked = false`, the original code) it is false:
    `C21_witness_stale_after_first_open`.
  * `C21_partial`: even then it holds for every history in which no request is answered before
    the first buffer notification; `C21_stale_characterised` says what the defect can do
    otherwise: a stale path is answered from its disk text instead of its open buffer.
That every answer (diagnostics, tokens, formatting, hover, go-to-definition) is a function of the
contents the server answers from is the memoisation property C01 plus determinism of the compiler;
here it is tied by correspondence (every answer compared with a fresh real server after each step).
-/
import IsoVerif.Lemmas.LspState

namespace IsoVerif.Props.C21
open IsoVerif.Util IsoVerif.LspState IsoVerif.Lemmas.LspState

/-- the world after the history: disk and editor buffers, independent of any server -/
def world (d0 : FMap) (hist : List Op) : St := runOps ⟨d0, []⟩ hist

/-- The handlers keep the server's maps equal (as maps) to the world's. -/
theorem C21_maps (tracked : Bool) (d0 : FMap) (hist : List Op) (p : Path) :
    (srvRun tracked (start d0) hist).st.disk.get p = (world d0 hist).disk.get p ∧
    (srvRun tracked (start d0) hist).st.bufs.get p = (world d0 hist).bufs.get p :=
  srv_maps tracked d0 hist p

/-- Effective contents of the server state = those of a fresh server on the final disk and the
final open buffers. -/
theorem C21_effective (tracked : Bool) (d0 : FMap) (hist : List Op) (p : Path) :
    effective (srvRun tracked (start d0) hist).st p =
      effective (fresh (world d0 hist).disk (world d0 hist).bufs) p :=
  srv_effective tracked d0 hist p

/-- The property: what the running server answers from is what a fresh server answers from. -/
def C21_statement (tracked : Bool) (d0 : FMap) (hist : List Op) : Prop :=
  ∀ p, observed (srvRun tracked (start d0) hist) p =
    effective (fresh (world d0 hist).disk (world d0 hist).bufs) p

/-- **C21**, for every history, when reads of absent singletons are tracked. -/
theorem C21 (d0 : FMap) (hist : List Op) : C21_statement true d0 hist :=
  srv_observed_of_tracked d0 hist

def witnessDisk : FMap := [("src/a.ts", some (strBytes "iso(`entrypoint Query.A`)"))]
def witnessHist : List Op := [.check, .didOpen "src/a.ts" (strBytes "iso(`entrypoint Query.B`)")]

/-- Without the tracking: diagnostics are computed once, then the file is opened with other text:
the server keeps answering from the disk text. -/
theorem C21_witness_stale_after_first_open : ¬ C21_statement false witnessDisk witnessHist := by
  intro h
  have := h "src/a.ts"
  revert this
  decide +kernel

/- `noCheckBeforeBufferOp hist`: every request comes after the first buffer notification
(defined in Lemmas/LspState.lean). -/
theorem C21_partial (tracked : Bool) (d0 : FMap) (hist : List Op)
    (h : noCheckBeforeBufferOp hist = true) : C21_statement tracked d0 hist :=
  srv_observed_of_no_early_check tracked d0 hist h

example : noCheckBeforeBufferOp
    [.diskWrite "src/b.ts" [1], .didOpen "src/a.ts" [2], .check, .didChange "src/a.ts" [3], .check]
      = true := by decide

/-- What the defect can do: a wrong answer source is always "the disk text of a file that has an
open buffer", for a path memoised before the first buffer notification. -/
theorem C21_stale_characterised (tracked : Bool) (d0 : FMap) (hist : List Op) (p : Path)
    (h : observed (srvRun tracked (start d0) hist) p ≠
      effective (srvRun tracked (start d0) hist).st p) :
    (srvRun tracked (start d0) hist).stale.contains p = true ∧
      ((srvRun tracked (start d0) hist).st.bufs.get p).isSome = true ∧
      observed (srvRun tracked (start d0) hist) p = (srvRun tracked (start d0) hist).st.disk.get p :=
  srv_stale_characterised tracked d0 hist p h

end IsoVerif.Props.C21
