/-
C20 — Watch mode produces what a fresh batch compile would.

Model: `Model/Watch.lean` (M-WATCH): the source database (iso-literal map, schema, schema extensions)
as maps `path ↦ content`, `initialize_sources`, the event categorisation of `watch.rs`, `update_sources`
of `source_files.rs` with its four handlers, the filters of `read_files.rs`.  The six places where the
code deviated (DESIGN F10: string prefix, unfiltered single-file events, renames of untracked files,
non-UTF-8 files, `Modify(Name(From|To))`, `Create(Folder)`) are parameters regenerated from the source
by translator `t7_watch`; `C20_facts` re-proves on every run that the source has all six repairs, and
the other theorems are about `currentFacts`, so un-repairing the source re-opens the proofs.

Reading of the property.  `Reflects cfg db fs`: the database holds, path for path, what
`initialize_sources` — a fresh batch compile — reads from `fs` (`C20_fresh`).  `C20_refine`: the
incremental update keeps that, for one delivered batch, `C20_session` for any sequence of batches
(induction over the list).  The compile itself is a function of the database (pico: memoised result =
from-scratch result, property C01), so equal databases give equal artifacts and diagnostics; that
composition is exercised by the harness (watch-mode compile vs. fresh `CompilerState`), not proved here.
`C20_alive`: `update_sources` returns no error — the only thing that ends the watch loop — whatever
files (non-source, non-UTF-8) the events are about, as long as what an event reports as created still
exists when the batch is handled and the schema files are edited in place.

The hypothesis `DeliversAll` is the assumption about `notify` + debouncer: for every path, the last
thing the batch says about it is true of the file system at hand, and a path the batch says nothing
about has not changed.  The harness' event table (real inotify + debouncer, `harness/watch/src/tree.rs`)
is checked against its decidable form `deliversAllB` on every generated case.
-/
import IsoVerif.Lemmas.WatchIso
import IsoVerif.Lemmas.WatchRest
import IsoVerif.Lemmas.WatchCheck

namespace IsoVerif.Props.C20
open IsoVerif.Watch

/-- The current source has all six repairs (decided against the regenerated `Gen/WatchLits.lean`). -/
theorem C20_facts : currentFacts = repairedFacts := by decide

/-- **One batch.**  If the database reflects `fs` and the batch delivers all changes from `fs` to `fs'`,
the updated database reflects `fs'`. -/
theorem C20_refine (cfg : Cfg) (db : Db) (fs fs' : Fs) (evs : List Raw)
    (h : Reflects cfg db fs) (hd : DeliversAll currentFacts cfg evs fs fs') :
    Reflects cfg (updateSources currentFacts cfg fs' db (categorise currentFacts cfg fs' evs)).1 fs' := by
  rw [C20_facts] at hd ⊢
  exact ⟨refine_iso cfg db fs fs' evs h.1 hd.sources, refine_schema cfg db fs fs' evs h hd⟩

/-- **`Reflects` is "equal to a fresh batch compile's sources".**  What `initialize_sources` reads from
`fs` reflects `fs`; hence a database that reflects `fs` agrees with it on every path. -/
theorem C20_fresh (cfg : Cfg) (fs : Fs) (db fresh : Db) (h : Reflects cfg db fs)
    (hf : initializeSources currentFacts cfg fs = .ok fresh) :
    (∀ p, db.iso.get p = fresh.iso.get p) ∧ db.schema = fresh.schema ∧
      (∀ p, db.exts.get p = fresh.exts.get p) := by
  rw [C20_facts] at hf
  have r := initialize_reflects cfg fs fresh hf
  exact ⟨fun p => (h.1 p).trans (r.1 p).symm, h.2.1.trans r.2.1.symm,
    fun p => (h.2.2 p).trans (r.2.2 p).symm⟩

/-- **Any history.**  Starting from a database that reflects the tree (e.g. the initial batch compile
of watch mode, `C20_fresh`), after any sequence of delivered batches the database reflects the last tree. -/
theorem C20_session (cfg : Cfg) (bs : List (List Raw × Fs)) :
    ∀ (db : Db) (fs : Fs), Reflects cfg db fs → DeliversSession currentFacts cfg fs bs →
      Reflects cfg (runSession currentFacts cfg db bs) (lastFs fs bs) := by
  induction bs with
  | nil => intro db fs h _; exact h
  | cons b rest ih =>
    intro db fs h hd
    obtain ⟨evs, fs'⟩ := b
    exact ih _ fs' (C20_refine cfg db fs fs' evs h hd.1) hd.2

/-- **The watcher keeps running.**  No event batch makes `update_sources` return an error, whatever
the files are (wrong extension, `__isograph`, not UTF-8), unless a path reported as created has vanished
again (`NoRace`) or the schema / an extension was removed, renamed or made unreadable (`SchemaInPlace`). -/
theorem C20_alive (cfg : Cfg) (db : Db) (fs' : Fs) (evs : List Raw) (hr : NoRace fs' evs)
    (hp : SchemaInPlace currentFacts cfg evs fs') :
    (updateSources currentFacts cfg fs' db (categorise currentFacts cfg fs' evs)).2 = [] := by
  rw [C20_facts] at hp ⊢
  exact alive_repaired cfg db fs' evs hr hp

/-! ### The hypotheses are met by a non-trivial history, and the repaired defects in the model

`src/a/x.ts` (content 0), `src/ab/x.ts` (1), `src/ab/n.md` (2, not a source), a binary `src/logo.png`;
the schema is `s`.  Batch: folder `src/a` removed, `src/ab/n.md` renamed to `src/ab/n.ts`, a binary
`src/ab/y.js` written. -/

namespace Ex

def src : Name := [115, 114, 99]
def a : Name := [97]
def ab : Name := [97, 98]
def xts : Name := [120, 46, 116, 115]
def nmd : Name := [110, 46, 109, 100]
def nts : Name := [110, 46, 116, 115]
def yjs : Name := [121, 46, 106, 115]
def png : Name := [108, 46, 112, 110, 103]
def s : Name := [115]

def cfg : Cfg :=
  { projectRoot := [src], artifactDir := [src, [95, 95, 105, 115, 111, 103, 114, 97, 112, 104]],
    schema := [s], exts := [], config := [[99]] }

def fs₀ : Fs :=
  [([src], .dir), ([src, a], .dir), ([src, a, xts], .file ⟨0, true⟩), ([src, ab], .dir),
   ([src, ab, xts], .file ⟨1, true⟩), ([src, ab, nmd], .file ⟨2, true⟩),
   ([src, png], .file ⟨3, false⟩), ([s], .file ⟨9, true⟩)]

def fs₁ : Fs :=
  [([src], .dir), ([src, ab], .dir), ([src, ab, xts], .file ⟨1, true⟩),
   ([src, ab, nts], .file ⟨2, true⟩), ([src, ab, yjs], .file ⟨4, false⟩),
   ([src, png], .file ⟨3, false⟩), ([s], .file ⟨9, true⟩)]

def batch : List Raw :=
  [.remove [src, a], .both [src, ab, nmd] [src, ab, nts], .createFile [src, ab, yjs], .other [src, ab, yjs]]

def db₀ : Db :=
  { iso := [([src, ab, xts], ⟨1, true⟩), ([src, a, xts], ⟨0, true⟩)], schema := some ⟨9, true⟩, exts := [] }

end Ex

/-- `db₀` is what the initial batch compile of watch mode reads from `fs₀` (the `.md` and the binary
`.png` are not read), hence reflects it. -/
theorem Ex.init : initializeSources repairedFacts Ex.cfg Ex.fs₀ = .ok Ex.db₀ := by
  have h : (initializeSources repairedFacts Ex.cfg Ex.fs₀).toOption = some Ex.db₀ := by decide +kernel
  cases hi : initializeSources repairedFacts Ex.cfg Ex.fs₀ with
  | error e => rw [hi] at h; cases h
  | ok db => rw [hi] at h; cases h; rfl

example : Reflects Ex.cfg Ex.db₀ Ex.fs₀ := initialize_reflects _ _ _ Ex.init

example : DeliversAll currentFacts Ex.cfg Ex.batch Ex.fs₀ Ex.fs₁ :=
  deliversAllB_sound _ _ _ _ _ (by decide +kernel)

example : NoRace Ex.fs₁ Ex.batch := noRaceB_sound _ _ (by decide +kernel)

example : SchemaInPlace currentFacts Ex.cfg Ex.batch Ex.fs₁ :=
  schemaInPlaceB_sound _ _ _ _ (by decide +kernel)

/-- On that batch the ORIGINAL code loses `src/ab/x.ts` (string prefix `src/a`), does not pick up
`src/ab/n.ts` (the rename's source was not tracked) and returns the fatal UTF-8 error; the repaired
code ends with exactly what a batch compile reads and no error.  (`fixed` entries of F10.) -/
theorem C20_fixed_witness_F10 :
    (let r := updateSources originalFacts Ex.cfg Ex.fs₁ Ex.db₀ (categorise originalFacts Ex.cfg Ex.fs₁ Ex.batch)
     r.1.iso.get [Ex.src, Ex.ab, Ex.xts] = none ∧ r.1.iso.get [Ex.src, Ex.ab, Ex.nts] = none ∧
       r.2 = [Fatal.utf8]) ∧
    (let r := updateSources repairedFacts Ex.cfg Ex.fs₁ Ex.db₀ (categorise repairedFacts Ex.cfg Ex.fs₁ Ex.batch)
     r.1.iso.get [Ex.src, Ex.ab, Ex.xts] = some ⟨1, true⟩ ∧
       r.1.iso.get [Ex.src, Ex.ab, Ex.nts] = some ⟨2, true⟩ ∧
       r.1.iso.get [Ex.src, Ex.ab, Ex.yjs] = none ∧ r.2 = []) := by
  decide +kernel

/-- Moves across the watched boundary and a folder created together with its files: the original
categorisation drops `Modify(Name(From))`, `Modify(Name(To))` and `Create(Folder)`. -/
theorem C20_fixed_witness_events :
    categorise originalFacts Ex.cfg Ex.fs₁
        [.from_ [Ex.src, Ex.a], .to [Ex.src, Ex.ab, Ex.nts], .createFolder [Ex.src, Ex.ab]] = [] ∧
    categorise repairedFacts Ex.cfg Ex.fs₁
        [.from_ [Ex.src, Ex.a], .to [Ex.src, Ex.ab, Ex.nts], .createFolder [Ex.src, Ex.ab]] =
      [(.remove [Ex.src, Ex.a], .folder), (.createOrModify [Ex.src, Ex.ab, Ex.nts], .file),
       (.createOrModify [Ex.src, Ex.ab], .folder)] := by
  decide +kernel

end IsoVerif.Props.C20
