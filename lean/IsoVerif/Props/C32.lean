/-
C32 — Cursor positions resolve to the innermost syntax node.

Model: `IsoVerif.Resolve.resolve` over a generic span tree (`Tree`: kind, span, resolvable children
in the order the derived `resolve` tries them), `astOf` = the tree of a declaration parsed by the
parser model, following the `#[resolve_field]` fields that translator T5 extracts.  "contains" is
`Span::contains(Span::new(o, o))`: inclusive at both ends.

`resolve o t` is the chain "resolved node, parent, …, root" (what `IsographResolvedNode` + its
`parent` links are).  `Path t chain n` says that `chain` is a path of the tree from the root `t`
down to the node `n`.
-/
import IsoVerif.Lemmas.Resolve

namespace IsoVerif.Props.C32
open IsoVerif.Resolve IsoVerif.IsoParse

/-- For EVERY span tree and offset: the returned chain is a path of the tree from the root to a node
`n` such that no resolvable child of `n` contains `o` (innermost), every node on the path below the
root contains `o` (parent chain), and if the root contains `o` so does `n`.  (No nesting hypothesis
is needed for this direction.) -/
theorem C32_innermost {κ : Type} (t : Tree κ) (o : Nat) :
    ∃ n, Path t (resolve o t) n ∧ NoChildContains n o ∧ BelowRootContain (resolve o t) o ∧
      (t.containsOff o = true → n.containsOff o = true) :=
  resolve_spec o t

/-- If the declaration's span contains `o`, every node of the returned chain contains `o`. -/
theorem C32_chain_contains {κ : Type} (t : Tree κ) (o : Nat) (h : t.containsOff o = true) :
    ∀ l ∈ resolve o t, containsOff l.s l.e o = true :=
  resolve_all_contain o t h

/-- "THE innermost node": in a tree whose children lie inside their parents (`Nested`) and whose
siblings are disjoint at `o` (`StrictAt o`), any node that contains `o` and has no child containing
`o` is the resolved one, reached by the returned chain. -/
theorem C32_unique {κ : Type} (t : Tree κ) (o : Nat) (chain : List (Link κ)) (m : Tree κ)
    (hn : Nested t) (hs : StrictAt o t) (hp : Path t chain m) (hm : m.containsOff o = true)
    (hno : NoChildContains m o) : chain = resolve o t :=
  resolve_unique o t chain m hn hs hp hm hno

/-- The statement for the trees of parsed literals: instance of `C32_innermost` at `astOf d`. -/
theorem C32_parsed (src : List UInt8) (ex : Option (List UInt8)) (d : Decl) (_h : parseIso src ex = .ok d) (o : Nat) :
    ∃ n, Path (astOf d) (resolve o (astOf d)) n ∧ NoChildContains n o ∧
      BelowRootContain (resolve o (astOf d)) o ∧ ((astOf d).containsOff o = true → n.containsOff o = true) :=
  resolve_spec o (astOf d)

/-! Non-vacuity: `field Q.f "d"{ a,b,\n }` — the description `"d"` (10..13) touches the selection set
(13..22) and the selections `a,` (15..17) and `b,` (17..19) touch each other. -/
def exTree : Tree NodeKind :=
  .node .ClientFieldDeclaration 6 22
    (.cons (.node .EntityNameWrapper 6 7 .nil)
    (.cons (.node .ClientScalarSelectableNameWrapper 8 9 .nil)
    (.cons (.node .Description 10 13 .nil)
    (.cons (.node .SelectionSet 13 22
        (.cons (.node .ScalarSelection 15 17 .nil) (.cons (.node .ScalarSelection 17 19 .nil) .nil))) .nil))))

example : (resolve 16 exTree).map (·.kind) = [.ScalarSelection, .SelectionSet, .ClientFieldDeclaration] := by
  decide
/-- at the touching point 17 the first sibling in field order wins -/
example : (resolve 17 exTree).map (fun l => (l.kind, l.s)) =
    [(.ScalarSelection, 15), (.SelectionSet, 13), (.ClientFieldDeclaration, 6)] := by decide
example : (resolve 13 exTree).map (·.kind) = [.Description, .ClientFieldDeclaration] := by decide
example : Nested exTree := by simp [exTree, Nested, NestedIn, Tree.s, Tree.e]
example : StrictAt 16 exTree := by
  simp [exTree, StrictAt, StrictIn, Tree.containsOff, containsOff, Tree.s, Tree.e, Forest.toList]
example : exTree.containsOff 16 = true := by decide

end IsoVerif.Props.C32
