/-
C10 — readers only read data that the entrypoint fetches and normalizes.

Compiler side (`IsoVerif.Ops.Cover`, Model/Core/OpsCover.lean): `mergeKeys` = the (path, key) entries
of the entrypoint's merged selection map as create_merged_selection_set.rs / variable_context.rs build
it; `readKeys` = the (path, store key) pairs the entrypoint's reader and the readers of the client
fields it reaches look up, with the arguments substituted the way read.ts does at run time.

Runtime side (`IsoVerif.Ops`, Model/Core/Runtime.lean): `normalize`, `readEntry` — compared on every run
with the runtime's own normalizeData / readData (sliced out of cache.ts / read.ts, run under node on
the generated artifacts), and used as the oracle "no read reports missing data" on generated
conforming responses.

The full statement is false on the unchanged tree: an object argument with a variable (F12b) and a
defaulted client-field variable make the reader look up keys the query never fetched (both confirmed
with the real compiler + the real runtime, corpus/C10/witnesses.txt).  Inside the envelope `selsSafe`
the reads are exactly the merged keys.
-/
import IsoVerif.Lemmas.OpsCover
import IsoVerif.Model.Core.Runtime

namespace IsoVerif.Props.C10
open IsoVerif.Ops.Cover

/-- the compiler-side core of the property: every key a reader reads is a key of the merged map -/
def C10_statement : Prop :=
  ∀ (prog : Prog) (fuel : Nat) (vars : List (Nat × Option V)) (sels : List S),
    ∀ x ∈ readKeys prog fuel (identityCtx vars) sels, x ∈ mergeKeys prog fuel (identityCtx vars) sels

/-- F12b: `Inner(f: { id: $uid })`; the compiler replaces the object by `$uid`, the runtime keeps it -/
theorem C10_witness_object_argument : ¬ C10_statement := fun h =>
  f12b_not_covered (h progF12b 5 [(9, none)] selsF12b)

/-- a defaulted variable: the compiler writes the default into the query, the runtime reads `null` -/
theorem C10_witness_variable_default : ¬ C10_statement := fun h =>
  default_not_covered (h progDefault 5 [] selsDefault)

/-- `merge_covers`: inside the envelope (arguments are declared variables, literals, null or constant
objects; every variable of a called client field is passed or has no default) every key that is read
is a key of the merged selection map — for every program, nesting depth and chain of client fields -/
theorem C10_merge_covers_partial (prog : Prog) (fuel : Nat) (vars : List (Nat × Option V)) (sels : List S)
    (hsafe : selsSafe prog fuel (vars.map (·.1)) sels = true) :
    ∀ x ∈ readKeys prog fuel (identityCtx vars) sels, x ∈ mergeKeys prog fuel (identityCtx vars) sels :=
  merge_covers prog fuel vars sels hsafe

/-- … and nothing else is fetched for them: inside the envelope the two lists are equal -/
theorem C10_read_eq_merge_partial (prog : Prog) (fuel : Nat) (vars : List (Nat × Option V)) (sels : List S)
    (hsafe : selsSafe prog fuel (vars.map (·.1)) sels = true) :
    readKeys prog fuel (identityCtx vars) sels = mergeKeys prog fuel (identityCtx vars) sels :=
  read_eq_merge_entry prog fuel vars sels hsafe

example : selsSafe progOk 8 [9] selsOk = true := by decide

/-- both witnesses are outside the envelope -/
theorem C10_witnesses_not_safe :
    selsSafe progF12b 5 ([(9, (none : Option V))].map (·.1)) selsF12b = false ∧
    selsSafe progDefault 5 (([] : List (Nat × Option V)).map (·.1)) selsDefault = false :=
  ⟨f12b_not_safe, default_not_safe⟩

/-! runtime side: the store keys of F12b as cache.ts computes them (`getParentRecordKey`) -/
section
open IsoVerif.Core IsoVerif.Ops

/-- the key normalization writes for `friend(filter: $uid)` and the key Inner's reader looks up for
`friend(filter: $f)` with `f = { id: uid }`, for `uid = "u1"` -/
theorem C10_witness_store_keys :
    storeKey cs!"friend" [(cs!"filter", .var cs!"uid")] [(cs!"uid", .str cs!"u1")]
      = cs!"friend____filter___u1" ∧
    storeKey cs!"friend" [(cs!"filter", .var cs!"f")] [(cs!"f", .obj [(cs!"id", .str cs!"u1")])]
      = cs!"friend____filter___{\"id\":\"u1\"}" := by
  constructor <;> decide +kernel
end

end IsoVerif.Props.C10
