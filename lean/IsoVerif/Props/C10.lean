/-
C10 — readers only read data that the entrypoint fetches and normalizes.

Compiler side (`IsoVerif.Ops.Cover`, Model/Core/OpsCover.lean): `mergeKeys` = the (path, key) entries
of the entrypoint's merged selection map as create_merged_selection_set.rs / variable_context.rs build
it; `readKeys` = the (path, store key) pairs the entrypoint's reader and the readers of the client
fields it reaches look up, with the arguments substituted the way read.ts does at run time.

Runtime side (`IsoVerif.Ops`, Model/Core/Runtime.lean): `normalize`, `readEntry` — compared on every run
with the runtime's own normalizeData / readData (sliced out of cache.ts / read.ts, run under node on
the generated artifacts), and used as the oracle "no read reports missing data" on generated
conforming responses.

The full statement is false: a defaulted client-field variable makes the reader look up a key the
query never fetched (confirmed with the real compiler + the real runtime, corpus/C10/witnesses.txt;
open finding).  An object argument holding a variable (F12b) did the same until af3b32d; the model
follows the repaired code and keeps the old functions for the witness.  Inside the envelope
`selsSafe` (used variables are declared, no default is relied on) the reads are exactly the merged keys.
-/
import IsoVerif.Lemmas.OpsCover
import IsoVerif.Model.Core.Runtime

namespace IsoVerif.Props.C10
open IsoVerif.Ops.Cover

/-- the compiler-side core of the property: every key a reader reads is a key of the merged map -/
def C10_statement : Prop :=
  ∀ (prog : Prog) (fuel : Nat) (vars : List (Nat × Option V)) (sels : List S),
    ∀ x ∈ readKeys prog fuel (identityCtx vars) sels, x ∈ mergeKeys prog fuel (identityCtx vars) sels

/-- F12b before af3b32d: `Inner(f: { id: $uid })`; the compiler replaced the object by `$uid`, the
runtime keeps it: a read that the OLD merge does not cover -/
theorem C10_fixed_object_argument :
    (¬ ∀ x ∈ readKeys progF12b 5 (identityCtx [(9, none)]) selsF12b,
        x ∈ mergeKeysOld progF12b 5 (identityCtx [(9, none)]) selsF12b) ∧
    (∀ x ∈ readKeys progF12b 5 (identityCtx [(9, none)]) selsF12b,
        x ∈ mergeKeys progF12b 5 (identityCtx [(9, none)]) selsF12b) :=
  ⟨f12b_not_covered_before_repair, f12b_covered⟩

/-- a defaulted variable: the compiler writes the default into the query, the runtime reads `null` -/
theorem C10_witness_variable_default : ¬ C10_statement := fun h =>
  default_not_covered (h progDefault 5 [] selsDefault)

/-- `merge_covers`: inside the envelope (every variable an argument uses, at any depth, is declared —
what validation guarantees; every variable of a called client field is passed or has no default)
every key that is read is a key of the merged selection map — for every program, nesting depth and
chain of client fields -/
theorem C10_merge_covers_partial (prog : Prog) (fuel : Nat) (vars : List (Nat × Option V)) (sels : List S)
    (hsafe : selsSafe prog fuel (vars.map (·.1)) sels = true) :
    ∀ x ∈ readKeys prog fuel (identityCtx vars) sels, x ∈ mergeKeys prog fuel (identityCtx vars) sels :=
  merge_covers prog fuel vars sels hsafe

/-- … and nothing else is fetched for them: inside the envelope the two lists are equal -/
theorem C10_read_eq_merge_partial (prog : Prog) (fuel : Nat) (vars : List (Nat × Option V)) (sels : List S)
    (hsafe : selsSafe prog fuel (vars.map (·.1)) sels = true) :
    readKeys prog fuel (identityCtx vars) sels = mergeKeys prog fuel (identityCtx vars) sels :=
  read_eq_merge_entry prog fuel vars sels hsafe

example : selsSafe progOk 8 [9] selsOk = true := by decide

/-- the default witness is outside the envelope, the F12b program is inside it now -/
theorem C10_witnesses_envelope :
    selsSafe progDefault 5 (([] : List (Nat × Option V)).map (·.1)) selsDefault = false ∧
    selsSafe progF12b 5 ([(9, (none : Option V))].map (·.1)) selsF12b = true :=
  ⟨default_not_safe, f12b_safe⟩

/-! runtime side: the store keys of F12b (before the repair) as cache.ts computes them (`getParentRecordKey`) -/
section
open IsoVerif.Core IsoVerif.Ops

/-- the key normalization writes for `friend(filter: $uid)` and the key Inner's reader looks up for
`friend(filter: $f)` with `f = { id: uid }`, for `uid = "u1"` -/
theorem C10_witness_store_keys :
    storeKey cs!"friend" [(cs!"filter", .var cs!"uid")] [(cs!"uid", .str cs!"u1")]
      = cs!"friend____filter___u1" ∧
    storeKey cs!"friend" [(cs!"filter", .var cs!"f")] [(cs!"f", .obj [(cs!"id", .str cs!"u1")])]
      = cs!"friend____filter___{\"id\":\"u1\"}" := by
  constructor <;> decide +kernel
end

end IsoVerif.Props.C10
