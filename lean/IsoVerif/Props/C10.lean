/-
C10 — readers only read data that the entrypoint fetches and normalizes.

Compiler side (`IsoVerif.Ops.Cover`, Model/Core/OpsCover.lean): `mergeKeys` = the (path, key) entries
of the entrypoint's merged selection map as create_merged_selection_set.rs / variable_context.rs build
it; `readKeys` = the (path, store key) pairs the entrypoint's reader and the readers of the client
fields it reaches look up, with the arguments substituted the way read.ts does at run time.

Runtime side (`IsoVerif.Ops`, Model/Core/Runtime.lean): `normalize`, `readEntry` — compared on every run
with the runtime's own normalizeData / readData (sliced out of cache.ts / read.ts, run under node on
the generated artifacts), and used as the oracle "no read reports missing data" on generated
conforming responses.

Two defects made the reader look up keys the query never fetched (both confirmed with the real
compiler + the real runtime, corpus/C10/witnesses.txt) and were repaired: an object argument holding a
variable (F12b, af3b32d) and a defaulted client-field variable (901ffd9).  The model follows the
repaired code and keeps the old functions for the two `C10_fixed_…` facts.  For every program that
validation accepts (`progDistinct`, `selsSafe`) the reads are exactly the merged keys.
-/
import IsoVerif.Lemmas.OpsCover
import IsoVerif.Model.Core.Runtime

namespace IsoVerif.Props.C10
open IsoVerif.Ops.Cover

/-- the compiler-side core of the property: every key a reader reads is a key of the merged map -/
def C10_statement : Prop :=
  ∀ (prog : Prog) (fuel : Nat) (vars : List (Nat × Option V)) (sels : List S),
    ∀ x ∈ readKeys prog fuel (identityCtx vars) sels, x ∈ mergeKeys prog fuel (identityCtx vars) sels

/-- F12b before af3b32d: `Inner(f: { id: $uid })`; the compiler replaced the object by `$uid`, the
runtime keeps it: a read that the OLD merge does not cover -/
theorem C10_fixed_object_argument :
    (¬ ∀ x ∈ readKeys progF12b 5 (identityCtx [(9, none)]) selsF12b,
        x ∈ mergeKeysOld progF12b 5 (identityCtx [(9, none)]) selsF12b) ∧
    (∀ x ∈ readKeys progF12b 5 (identityCtx [(9, none)]) selsF12b,
        x ∈ mergeKeys progF12b 5 (identityCtx [(9, none)]) selsF12b) :=
  ⟨f12b_not_covered_before_repair, f12b_covered⟩

/-- the full statement for the CURRENT compiler, over every program of the model: it fails only for
programs that validation rejects (here: a client field that declares one variable name twice) -/
theorem C10_witness_duplicate_variable_names : ¬ C10_statement := fun h =>
  dup_not_covered (h progDup 5 [] selsDup)

/-- a defaulted variable before 901ffd9: the compiler writes the default into the query, the reader
was given nothing and read `null`; the reader's Resolver node now carries the default -/
theorem C10_fixed_variable_default :
    (¬ ∀ x ∈ readKeysOld progDefault 5 (identityCtx []) selsDefault,
        x ∈ mergeKeys progDefault 5 (identityCtx []) selsDefault) ∧
    (∀ x ∈ readKeys progDefault 5 (identityCtx []) selsDefault,
        x ∈ mergeKeys progDefault 5 (identityCtx []) selsDefault) :=
  ⟨default_not_covered_before_repair, default_covered⟩

/-- `merge_covers`: for every program whose client fields declare distinct variable names, whose
defaults are constants and whose arguments only use declared variables (at any depth) — i.e. what
validation accepts — every key that is read is a key of the merged selection map, for every nesting
depth and chain of client fields -/
theorem C10_merge_covers_partial (prog : Prog) (hd : progDistinct prog = true) (fuel : Nat)
    (vars : List (Nat × Option V)) (sels : List S)
    (hsafe : selsSafe prog fuel (vars.map (·.1)) sels = true) :
    ∀ x ∈ readKeys prog fuel (identityCtx vars) sels, x ∈ mergeKeys prog fuel (identityCtx vars) sels :=
  merge_covers prog hd fuel vars sels hsafe

/-- … and nothing else is fetched for them: the two lists are equal -/
theorem C10_read_eq_merge_partial (prog : Prog) (hd : progDistinct prog = true) (fuel : Nat)
    (vars : List (Nat × Option V)) (sels : List S)
    (hsafe : selsSafe prog fuel (vars.map (·.1)) sels = true) :
    readKeys prog fuel (identityCtx vars) sels = mergeKeys prog fuel (identityCtx vars) sels :=
  read_eq_merge_entry prog hd fuel vars sels hsafe

example : progDistinct progOk = true ∧ selsSafe progOk 8 [9] selsOk = true := by decide

/-- the former witnesses are inside the envelope now; the remaining one is outside it -/
theorem C10_witnesses_envelope :
    selsSafe progDefault 5 (([] : List (Nat × Option V)).map (·.1)) selsDefault = true ∧
    selsSafe progF12b 5 ([(9, (none : Option V))].map (·.1)) selsF12b = true ∧
    progDistinct progDup = false :=
  ⟨default_safe, f12b_safe, dup_not_distinct⟩

/-! runtime side: the store keys of F12b (before the repair) as cache.ts computes them (`getParentRecordKey`) -/
section
open IsoVerif.Core IsoVerif.Ops

/-- the key normalization writes for `friend(filter: $uid)` and the key Inner's reader looks up for
`friend(filter: $f)` with `f = { id: uid }`, for `uid = "u1"` -/
theorem C10_witness_store_keys :
    storeKey cs!"friend" [(cs!"filter", .var cs!"uid")] [(cs!"uid", .str cs!"u1")]
      = cs!"friend____filter___u1" ∧
    storeKey cs!"friend" [(cs!"filter", .var cs!"f")] [(cs!"f", .obj [(cs!"id", .str cs!"u1")])]
      = cs!"friend____filter___{\"id\":\"u1\"}" := by
  constructor <;> decide +kernel
end

end IsoVerif.Props.C10
