/-
C05 — Interning is a faithful bijection under every thread schedule.

Models: `IsoVerif.InternT` (`Model/Intern.lean`: `InternTable::intern` / `get_interned` / `get`
over `ShardedSet` + the arena of C06, a thread-indexed transition system) and
`IsoVerif.InternSeq` (`Model/InternSeq.lean`: `SmallBytes`, orderings, serde back references).
Constants come from `Gen/ArenaConsts.lean` (translator T6).

The concurrent theorems quantify over EVERY finite trace of atomic steps of any number of
threads and over EVERY hash function `sh` (the shard of a value); the only hypothesis is that
the arena's 32-bit counter did not wrap.  The model is sequentially consistent.

Statements only; lemmas are in `Lemmas/Intern*.lean`.
-/
import IsoVerif.Lemmas.InternThms
import IsoVerif.Lemmas.InternSeq

namespace IsoVerif.Props.C05
open IsoVerif.Arena IsoVerif.ArenaT IsoVerif.InternT IsoVerif.InternSeq IsoVerif.Gen.ArenaConsts

/-! ## Concurrent interning -/

/-- a table as created by `InternTable::new()` or `InternTable::with_zero(z)` (first use) -/
def IStart (sh : Val → Nat) (s₀ : ISt) : Prop := s₀ = iinit ∨ ∃ z, s₀ = iinitZero sh z

theorem istart_inv {sh : Val → Nat} {s₀ : ISt} (h : IStart sh s₀) : JInv sh s₀ := by
  rcases h with rfl | ⟨z, rfl⟩
  · exact jinv_iinit
  · exact jinv_iinitZero z

/-- **C05_eq_iff**: two completed `intern` calls (any threads, any schedule) return the same id
exactly when their values are equal. -/
theorem C05_eq_iff (sh : Val → Nat) (s₀ s : ISt) (tr : List ILabel) (h0 : IStart sh s₀)
    (hr : irun sh s₀ tr = some s) (hw : s.ar.next < W)
    (t₁ t₂ : Tid) (v₁ v₂ : Val) (id₁ id₂ : Nat)
    (h1 : IEv.internRet t₁ v₁ id₁ ∈ s.hist) (h2 : IEv.internRet t₂ v₂ id₂ ∈ s.hist) :
    id₁ = id₂ ↔ v₁ = v₂ := by
  exact eq_iff (jinv_run (istart_inv h0) hr hw) h1 h2

/-- **C05_lookup**: the id returned by `intern v` holds `v` in the arena, in the state where it
returned and (ids and slots being stable: the history only grows and the theorem holds in every
later state of the trace) forever after; `get` of it returns `v` by `C05_get`. -/
theorem C05_lookup (sh : Val → Nat) (s₀ s : ISt) (tr : List ILabel) (h0 : IStart sh s₀)
    (hr : irun sh s₀ tr = some s) (hw : s.ar.next < W)
    (t : Tid) (v : Val) (id : Nat) (h : IEv.internRet t v id ∈ s.hist) :
    arVal s.ar id = some v ∧ ∃ t', Ev.addRet t' v id ∈ s.ar.hist := by
  exact lookup_val (jinv_run (istart_inv h0) hr hw) h

/-- **C05_get**: a `get(id)` (the arena steps `get.check`, `get.load_bucket`, `get.read`, run by
any thread, interleaved with anything) that started after the id's value `v` had been added
returns `v` — no debug panic, no null bucket, no uninitialised slot. -/
theorem C05_get (sh : Val → Nat) (s₀ s : ISt) (tr : List ILabel) (h0 : IStart sh s₀)
    (hr : irun sh s₀ tr = some s) (hw : s.ar.next < W)
    (t : Tid) (id : Nat) (v : Val) (res : GetRes) (hg : Ev.getRet t id (some v) res ∈ s.ar.hist) :
    res = .ok v := by
  exact (jinv_run (istart_inv h0) hr hw).arInv.get_ret t id v res hg

/-- `get_interned` only ever returns an id that holds the value asked for. -/
theorem C05_get_interned (sh : Val → Nat) (s₀ s : ISt) (tr : List ILabel) (h0 : IStart sh s₀)
    (hr : irun sh s₀ tr = some s) (hw : s.ar.next < W)
    (t : Tid) (v : Val) (id : Nat) (h : IEv.lookupRet t v (some id) ∈ s.hist) :
    arVal s.ar id = some v := by
  obtain ⟨_, t', ha⟩ := (jinv_run (istart_inv h0) hr hw).lookOk t v id h
  exact arVal_of_addRet (jinv_run (istart_inv h0) hr hw).arInv ha

/-- **C05_dense**: once every call has returned, the ids are exactly the dense indices
`0 … len-1`: every index below `len` is the id of a value stored in the table (in the shard
of that value), distinct ids hold distinct values, and every id in the table is below `len`. -/
theorem C05_dense (sh : Val → Nat) (s₀ s : ISt) (tr : List ILabel) (h0 : IStart sh s₀)
    (hr : irun sh s₀ tr = some s) (hw : s.ar.next < W) (hq : IQuiescent s) :
    (∀ i, i < ArenaT.len s.ar → ∃ v, arVal s.ar (minSize + i) = some v ∧ (minSize + i) ∈ s.shard (sh v)) ∧
    (∀ k k' id id' v, id ∈ s.shard k → id' ∈ s.shard k' → arVal s.ar id = some v → arVal s.ar id' = some v → id = id') ∧
    (∀ k id, id ∈ s.shard k → minSize ≤ id ∧ idIndex id < ArenaT.len s.ar) := by
  have hb : s.ar.base = minSize := by
    rw [ar_base_run hr]
    rcases h0 with rfl | ⟨z, rfl⟩
    · show initNext = minSize; decide
    · rfl
  exact dense_all (jinv_run (istart_inv h0) hr hw) hq hb

/-- The shard lock does its job in every reachable state: a thread holding a shard for writing
excludes every reader and every other writer of that shard. -/
theorem C05_lock_exclusive (sh : Val → Nat) (s₀ s : ISt) (tr : List ILabel) (h0 : IStart sh s₀)
    (hr : irun sh s₀ tr = some s) (hw : s.ar.next < W)
    (t t' : Tid) (v v' : Val) (hwr : wval (s.thr t) = some v)
    (hother : rval (s.thr t') = some v' ∨ (wval (s.thr t') = some v' ∧ t' ≠ t)) : sh v ≠ sh v' := by
  exact lock_excl (jinv_run (istart_inv h0) hr hw) hwr hother

/-! ### Non-vacuity: two threads intern the same new value, a third value shares the shard

`sh v = v % 2`.  Threads 0 and 1 both intern 5: thread 0 takes the write lock of shard 1,
thread 1 fails `try_write`, blocks on the read lock, then finds the id.  Thread 1 then interns
7 (same shard, new value) and looks 5 up. -/

def sh2 (v : Val) : Nat := v % 2
def il (t : Tid) : ILabel := ⟨t, .step⟩

def demo : List ILabel :=
  [⟨0, .startIntern 5⟩, ⟨1, .startIntern 5⟩,
   il 0,                 -- try_write ok
   il 1,                 -- try_write fails
   il 1,                 -- read lock: blocked by the writer (stutter)
   il 0,                 -- check: absent → arena add starts
   il 0, il 0, il 0, il 0, il 0, il 0, il 0,   -- fetch_add, load (null), lock, recheck, store, unlock, write
   il 0,                 -- insert
   il 1,                 -- still blocked
   il 0,                 -- unlock, returns 128
   il 1, il 1, il 1,     -- read lock, look up: found, release and return 128
   ⟨1, .startIntern 7⟩, il 1, il 1, il 1, il 1, il 1, il 1, il 1,
   ⟨0, .startLookup 5⟩, il 0, il 0]

example : (irun sh2 iinit demo).map (fun s => (internPairs s.hist, s.shard 1, ArenaT.len s.ar, s.hist.head?)) =
    some ([(7, 129), (5, 128), (5, 128)], [129, 128], 2, some (.lookupRet 0 5 (some 128))) := by
  decide +kernel

/-! ## Sequential algebra -/

/-- **SmallBytes** across the inline boundary: the bytes read back, equality is equality of
the bytes, the hash only sees the bytes, the inline form is used exactly up to `SMALL_MAX_LEN`
bytes (which fits the `u8` length), and the `ByteBuf` serde bridge is the identity. -/
theorem C05_smallbytes (a b : Bytes) :
    deref (fromBytes b) = b ∧
    (sbEq (fromBytes a) (fromBytes b) = true ↔ a = b) ∧
    (fromBytes a = fromBytes b ↔ a = b) ∧
    (∀ (α : Type) (h : Bytes → α), sbHash h (fromBytes b) = h b) ∧
    isSmall (fromBytes b) = decide (b.length ≤ smallMaxLen) ∧
    serdeRoundTrip (fromBytes b) = fromBytes b ∧ smallMaxLen < 256 := by
  exact ⟨deref_fromBytes b, sbEq_fromBytes a b, fromBytes_inj a b, fun _ h => sbHash_fromBytes h b,
    isSmall_fromBytes b, serdeRoundTrip_fromBytes b, smallMaxLen_lt⟩

example : isSmall (fromBytes (List.replicate 22 65)) = true ∧ isSmall (fromBytes (List.replicate 23 65)) = false := by
  decide

/-- **Interned strings order like their text**: for ids whose lookup is `look` (C05_lookup),
`StringId::cmp` and `BytesId::cmp` (with its equal-id short cut) are the lexicographic byte
order of the texts; it is `Equal` exactly on equal texts and antisymmetric. -/
theorem C05_ord_str (look : Nat → Bytes) (a b : Nat) :
    cmpStringId look a b = cmpBytes (look a) (look b) ∧
    cmpBytesId look a b = cmpBytes (look a) (look b) ∧
    (cmpBytes (look a) (look b) = .eq ↔ look a = look b) ∧
    cmpBytes (look b) (look a) = (cmpBytes (look a) (look b)).swap := by
  exact ⟨rfl, cmpBytesId_eq look a b, cmpBytes_eq_iff _ _, cmpBytes_swap _ _⟩

/-- **PathId comparison** is the top-down, component-wise comparison of the component texts,
and it is `Equal` exactly when the component texts are equal. -/
theorem C05_ord_path (node : Nat → PathNode) (look : Nat → Bytes) (f p q : Nat) :
    cmpPathId node look f p q =
      cmpList cmpBytes ((components node f p).map look) ((components node f q).map look) ∧
    (cmpPathId node look f p q = .eq ↔ (components node f p).map look = (components node f q).map look) := by
  refine ⟨cmpPathId_eq node look f p q, ?_⟩
  rw [cmpPathId_eq]
  exact cmpList_eq_iff cmpBytes cmpBytes_eq_iff _ _

/-- **Serde with intern sharing**: data whose ids are used consistently (every occurrence of
an id carries the value the intern table gives it — true of every real data structure, by
C05_lookup) serialises and deserialises, under fresh guards, to the same data with every id
replaced by the id of its value in the deserialising process: equal values, same sharing.
Repeated ids (back references) and ids nested inside interned values, of several intern
types, are covered; the proof is by induction with the invariant `Rel` relating the two
back-reference tables. -/
theorem C05_serde (val : Nat → Nat → T) (I : Nat → S → Nat) (t : T) (h : Agrees val t) :
    roundTrip I t = some (relabel I t) ∧ strip (relabel I t) = strip t := by
  exact ⟨roundTrip_relabel val I t h, strip_relabel I t⟩

/-- In the same process (`I` is the numbering the data already uses) the round trip is the
identity, as the crate's tests assert. -/
theorem C05_serde_same_process (val : Nat → Nat → T) (I : Nat → S → Nat) (t : T)
    (h : Agrees val t) (hc : Canon I t) : roundTrip I t = some t := by
  rw [roundTrip_relabel val I t h, relabel_canon I t hc]

/-- non-vacuity: id 1 (type 0) holds a pair that contains id 0; the data uses id 1 twice and
id 0 once more on its own. -/
def demoVal : Nat → Nat → T
  | 0, 0 => .leaf 7
  | 0, 1 => .pair (.ref 0 0 (.leaf 7)) (.leaf 9)
  | _, _ => .leaf 0

def demoT : T :=
  .pair (.ref 0 1 (demoVal 0 1)) (.pair (.ref 0 0 (demoVal 0 0)) (.ref 0 1 (demoVal 0 1)))

example : Agrees demoVal demoT := by simp [Agrees, demoT, demoVal]

example : (enc demoT st0).1 =
    .pair (.value 0 (.pair (.value 0 (.leaf 7)) (.leaf 9))) (.pair (.backref 0 0) (.backref 0 1)) := by
  decide

end IsoVerif.Props.C05
