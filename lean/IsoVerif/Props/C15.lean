/-
C15 — Merged operations are independent of how selections are arranged.

"The generated operations and normalization ASTs of an entrypoint depend only on the set of
(field, arguments) paths its readers need.  Reordering selections, repeating a selection, or moving
selections between client fields that are selected at the same place leaves them unchanged."

Model: `IsoVerif/Model/Core/Merge.lean` (the traversal of create_merged_selection_set.rs as the list of
`entry().or_insert()` insertions, the merged map as a sorted association list keyed by paths of
normalization keys).  Lemmas: `Lemmas/MergeMap.lean`, `Lemmas/MergeOrder.lean`, `Lemmas/MergeSel.lean`.
The operation text and the normalization AST are printed from the merged map (C11 / C12 own the
printers); the theorems below are about the map.  Refetch-path numbering is not part of the map and
is excluded here (C25).

`Coherent l` (node data is a function of the key path) is the one semantic hypothesis: the Rust code
keeps the data of the FIRST insertion at a key, so without it the winner would depend on the order.
The driver evaluates it (`coherentB`) on every generated case.
-/
import IsoVerif.Lemmas.MergeSel

namespace IsoVerif.Props.C15

open IsoVerif.Core IsoVerif.Core.Merge

/-! ### the algebra of merged maps (`union a b`: the entries of `b` that `a` lacks are added) -/

theorem merge_idem {a : MergedMap} (ha : Sorted pathLt a) : union pathLt a a = a :=
  Merge.merge_idem pathLt_strictTotal ha

theorem merge_assoc {a b c : MergedMap} (ha : Sorted pathLt a) (hb : Sorted pathLt b) :
    union pathLt (union pathLt a b) c = union pathLt a (union pathLt b c) :=
  Merge.merge_assoc pathLt_strictTotal ha hb

/-- commutative on maps that agree on their common keys -/
theorem merge_comm {a b : MergedMap} (ha : Sorted pathLt a) (hb : Sorted pathLt b) (h : Agree pathLt a b) :
    union pathLt a b = union pathLt b a :=
  Merge.merge_comm pathLt_strictTotal ha hb h

/-- sortedness is an invariant of merging a selection set into a map -/
theorem mergeSel_sorted (p : Project) (ex : Expand) (ty : String) (sels : List LSel) (c : VarCtx)
    {m : MergedMap} (hm : Sorted pathLt m) : Sorted pathLt (mergeSel p ex ty sels c m) :=
  insertAll_sorted pathLt_strictTotal _ hm

/-! ### concrete programs used by the examples and witnesses -/

def inputIn : TypeDef := ⟨"In", none, .input [⟨"a", none, .named "Int", none⟩]⟩
def petT : TypeDef :=
  ⟨"Pet", none, .object [] [⟨"id", none, [], .nonNull (.named "ID")⟩, ⟨"name", none, [], .named "String"⟩,
    ⟨"age", none, [], .named "Int"⟩]⟩
def queryT : TypeDef :=
  ⟨"Query", none, .object []
    [⟨"score", none, [⟨"by", none, .named "In", none⟩], .named "Int"⟩,
     ⟨"pet", none, [⟨"name", none, .named "String", none⟩], .named "Pet"⟩]⟩

/-- `field Query.Home($n: String) { … }` + `entrypoint Query.Home`, and a second client field -/
def project (sels : List Selection) (more : List (String × Decl)) : Project :=
  { schema := ⟨[queryT, petT, inputIn]⟩, extensions := [],
    decls := [("src/Home.tsx", .clientField ⟨"Query", "Home", [⟨"n", .named "String", none⟩], [], none, sels⟩),
              ("src/Home.tsx", .entrypoint ⟨"Query", "Home", []⟩)] ++ more,
    options := {}, extraFiles := [] }

def selPet (alias : Option String) (kids : List Selection) : Selection :=
  .linked ⟨alias, "pet", [("name", .var "n")], []⟩ kids
def selName : Selection := .scalar ⟨none, "name", [], []⟩
def selAge : Selection := .scalar ⟨none, "age", [], []⟩
def selScore (alias : Option String) : Selection :=
  .scalar ⟨alias, "score", [("by", .object [("a", .int 1)])], []⟩

/-! ### C15: permutation -/

/-- Rearranging a selection set — permuting it, and permuting the sub-selections of its members, at every
depth — does not change the merged map. -/
theorem C15_perm (p : Project) (ex : Expand) (ty : String) (c : VarCtx) (pre : List KeyK) {m : MergedMap}
    {sels sels' : List LSel} (hm : Sorted pathLt m) (hp : SelsPerm sels sels')
    (hc : Coherent (emitSet p ex ty c pre sels)) :
    insertAll pathLt m (emitSet p ex ty c pre sels) = insertAll pathLt m (emitSet p ex ty c pre sels') :=
  mergeSel_perm hm hp hc

/-- the statement with `List.Perm` of the top-level selections and `mergeSel` -/
theorem C15_perm_list (p : Project) (ex : Expand) (ty : String) (c : VarCtx) {m : MergedMap}
    {sels sels' : List LSel} (hm : Sorted pathLt m) (hp : List.Perm sels sels')
    (hc : Coherent (emitSet p ex ty c [] sels)) :
    mergeSel p ex ty sels c m = mergeSel p ex ty sels' c m :=
  mergeSel_perm hm (SelsPerm.of_perm hp) hc

/-- `coherentB` decides `Coherent` -/
theorem coherent_of_coherentB {l : List Entry} (h : coherentB l = true) : Coherent l := by
  intro e he e' he' hk
  have h1 := List.all_eq_true.1 h e he
  have h2 := List.all_eq_true.1 h1 e' he'
  rw [hk] at h2
  simpa using h2

def lName : LSel := .scalar ⟨"name", [], []⟩
def lAge : LSel := .scalar ⟨"age", [], []⟩
def lPet (kids : List LSel) : LSel := .linked ⟨"pet", [⟨"name", .var "n"⟩], []⟩ kids
def lScore : LSel := .scalar ⟨"score", [⟨"by", .object [0, 0, 1, 0] [("a", .int 1)]⟩], []⟩

/-- the hypotheses are met by `{ pet(name: $n) { name, age }, score(by: {a: 1}) }` and the deep
rearrangement `{ score(by: {a: 1}), pet(name: $n) { age, name } }` -/
example :
    let p := project [selPet none [selName, selAge], selScore none] []
    Coherent (emitSet p (fieldMap p 3) "Query" (initialCtx [⟨"n", .named "String", none⟩]) [] [lPet [lName, lAge], lScore])
      ∧ SelsPerm [lPet [lName, lAge], lScore] [lScore, lPet [lAge, lName]] :=
  ⟨coherent_of_coherentB (by decide),
   .trans (.cons (.linked _ (.swap lName lAge [])) (SelsPerm.refl _)) (.swap _ _ [])⟩

/-! ### C15: a second selection of the same field and arguments -/

/-- Selecting again something that is already selected in the same set (anywhere in it) changes nothing. -/
theorem C15_dup (p : Project) (ex : Expand) (ty : String) (c : VarCtx) (pre : List KeyK) {m : MergedMap}
    (hm : Sorted pathLt m) {s : LSel} {a b : List LSel} (hs : s ∈ a ++ b)
    (hc : Coherent (emitSet p ex ty c pre (a ++ b))) :
    insertAll pathLt m (emitSet p ex ty c pre (a ++ s :: b)) = insertAll pathLt m (emitSet p ex ty c pre (a ++ b)) :=
  mergeSel_dup hm hs hc

/-- "Under another reader alias": the located selection does not contain the alias, and when no argument
is an object / list literal it does not depend on the source position either — so the duplicate IS
the same located selection and `C15_dup` applies. -/
theorem C15_dup_alias (s : Selection) (h : SelHead) (alias : Option String) (hs : s = .scalar h)
    (hn : noCompositeSel s = true) (loc loc' : List Nat) :
    locSel loc' (.scalar { h with alias := alias }) = locSel loc s := by
  subst hs
  rw [locSel_alias]
  exact locSel_noComposite hn loc' loc

example : noCompositeSel selName = true := by decide

/-- The unchanged compiler VIOLATES the property for arguments that are object / list literals: the
literal's source location is part of the key, so the duplicate is a second key.
`{ score(by: {a: 1}) }` has one entry, `{ score(by: {a: 1}), dup: score(by: {a: 1}) }` has two
(open finding `maps-differ:dup:composite-arg`, replayed from corpus/C15/witnesses.txt). -/
def C15_dup_statement_at (sels : List Selection) (h : SelHead) (alias : String) : Prop :=
  entrypointMap (project (sels ++ [.scalar { h with alias := some alias }]) []) "Query" "Home"
    = entrypointMap (project sels []) "Query" "Home"

theorem C15_witness_dup_object_argument :
    ¬ C15_dup_statement_at [selScore none] ⟨none, "score", [("by", .object [("a", .int 1)])], []⟩ "dup" := by
  unfold C15_dup_statement_at
  decide

example : (entrypointMap (project [selScore none] []) "Query" "Home").map (·.length) = some 1 := by decide
example : (entrypointMap (project [selScore none, selScore (some "dup")] []) "Query" "Home").map (·.length) = some 2 := by decide

/-! ### C15: extraction into a client field -/

/-- Moving part of a selection set (`body`) into a new client field `ty.name` whose variables are the
variables `body` uses, and selecting that field at the same place with every variable passed through
under its own name, does not change the merged map — whatever `body` selects (server fields, inline
fragments, other client fields, pointers). -/
theorem C15_extract (p : Project) (ex : Expand) (ty name : String) (vars : List VarDef) (body a b : List LSel)
    (c : VarCtx) (pre : List KeyK) {m : MergedMap}
    (hm : Sorted pathLt m) (hx : Extracted p ex ty name vars body) (hd : DefaultsNotVar p)
    (hvars : ∀ v ∈ lselsVars body, v ∈ vars.map (·.name))
    (hbound : ∀ d ∈ vars, (ctxGet c d.name).isSome)
    (hcb : Coherent (emitSet p ex ty (initialCtx vars) [] body))
    (hc : Coherent (emitSet p ex ty c pre (a ++ body ++ b))) :
    insertAll pathLt m (emitSet p ex ty c pre (a ++ callOf name vars :: b))
      = insertAll pathLt m (emitSet p ex ty c pre (a ++ body ++ b)) :=
  mergeSel_extract hm hx hd hvars hbound hcb hc

/-- the rearrangement on a concrete program: `{ pet(name: $n) { name }, score(by: {a: 1}) }` and
`{ Extracted1(n: $n), score(by: {a: 1}) }` with `field Query.Extracted1($n: String) { pet(name: $n) { name } }`
have the same entrypoint map -/
example :
    entrypointMap (project [selPet none [selName], selScore none] []) "Query" "Home"
      = (entrypointMap
          (project [.scalar ⟨none, "Extracted1", [("n", .var "n")], []⟩, selScore none]
            [("src/Home.tsx", .clientField ⟨"Query", "Extracted1", [⟨"n", .named "String", none⟩], [], none,
                [selPet none [selName]]⟩)]) "Query" "Home") := by decide

example : defaultsNotVarB (project [selPet none [selName]] []) = true := by decide

/-! ### the order of the entries

The ORDER in which a map is iterated (hence the order of fields in the printed operation) is not a
function of the set of paths: it is whatever the order on keys makes it — the same insertions under two
key orders give two different lists (`C15_witness_order`).  In the implementation the order is the derived
`Ord` of `NormalizationKey` (`Merge.cmpKey`; the driver prints the model's maps in that order and the
correspondence compares them with the implementation's iteration order), which looks at the source
LOCATION of an object literal's field name before it looks at the field's value: two selections
`pet(by: {a: 2})`, `pet(by: {a: 1})` are iterated in the order in which they were WRITTEN
(`C15_witness_order_location_before_value`; open findings `order:composite-args`, `order:same-text`,
replayed from corpus/C15). -/
def C15_order_statement : Prop :=
  ∀ (lt lt' : Nat → Nat → Bool), StrictTotal lt → StrictTotal lt' →
    ∀ l : List (Nat × Unit), build lt l = build lt' l

theorem C15_witness_order : ¬ C15_order_statement := by
  intro h
  have hlt : StrictTotal natLt := natLt_strictTotal
  have hgt : StrictTotal (fun a b => natLt b a) :=
    ⟨fun a => hlt.irrefl a, fun a b c hab hbc => hlt.trans c b a hbc hab,
     fun a b hab hba => (hlt.total b a hab hba).symm⟩
  have := h natLt (fun a b => natLt b a) hlt hgt [(1, ()), (2, ())]
  revert this
  decide

/-- the key of `pet(by: {a: n})` written as argument 0 of selection number `i` of declaration 0 -/
def petBy (n : Int) (i : Nat) : KeyK := .serverField "pet" [⟨"by", .object [0, 0, i, 0] [("a", .int n)]⟩]

/-- "the order of two keys depends only on their (field, arguments)": with `x` written before `y` -/
def C15_order_by_content_at (x y : Int) : Prop :=
  cmpKey (project [] []) (petBy x 0) (petBy y 1) = compare x y

/-- The implementation orders `pet(by: {a: 2})` (written first) BEFORE `pet(by: {a: 1})` (written second),
and the other way round when they are written the other way round. -/
theorem C15_witness_order_location_before_value :
    ¬ C15_order_by_content_at 2 1
      ∧ cmpKey (project [] []) (petBy 2 0) (petBy 1 1) = .lt
      ∧ cmpKey (project [] []) (petBy 1 0) (petBy 2 1) = .lt := by
  unfold C15_order_by_content_at
  decide

end IsoVerif.Props.C15
