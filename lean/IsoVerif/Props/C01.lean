/-
C01 — Memoised results always equal a from-scratch evaluation.

Model: `IsoVerif.Pico` (M-PICO, executable, tied to crates/pico by the `pico` correspondence).
`evalScratch` is the denotation of a call with no cache.  Statements only; lemmas live in
`IsoVerif.Lemmas.Pico*`.

F1 and F2 (absent singleton then first write; remove then inner re-run) were repaired in /repo
79c6822 and the model follows the repaired code.  The full statement `C01_statement` is still
FALSE of today's code: the witness theorem below exhibits a history (replayed against the real
crate on every run, corpus/C01) on which the model — which agrees with the crate — answers
something else than a from-scratch evaluation: a caught panic leaves stale verified nodes.  F22
(and with it the spurious panic and the re-entrant stale read it caused) was repaired as well.
What is proved is the family of `_partial` theorems, each with its extra hypothesis spelled out.
-/
import IsoVerif.Lemmas.Pico

namespace IsoVerif.Props.C01
open IsoVerif.Pico

/-- The answer `o` of a memoised call agrees with the from-scratch result `r`.  No claim is made
when either side ran out of fuel (the real code would overflow its stack), nor once the collector
has panicked (`dead`; that is C03's business). -/
def Agree (o : Out) (r : Res Nat) : Prop :=
  o = outOfRes r ∨ o = .panic .fuel ∨ r = .panic .fuel ∨ o = .dead

instance (o : Out) (r : Res Nat) : Decidable (Agree o r) := by unfold Agree; infer_instance

/-- C01 on one history: every `call` in it answers what a from-scratch evaluation against the
sources current at that moment answers. -/
def C01_statement_at (fuel cap : Nat) (P : Prog) (h : List Op) : Prop :=
  ∀ pre f a rest, h = pre ++ Op.call f a :: rest →
    Agree (step fuel P (after fuel cap P pre) (.call f a)).2
          (evalScratch fuel P (after fuel cap P pre) (nodeOf P f a))

/-- **C01 at full strength**: all programs, all histories (set / remove, singletons, tracked
fields, nested calls with every parameter shape, retain / clear / never-gc, gc), all capacities. -/
def C01_statement : Prop := ∀ fuel cap P h, C01_statement_at fuel cap P h

/-! ### witnesses: the full statement fails on today's code (known findings) -/

/-- After a caught panic the same call, in the same epoch, serves the stale value. -/
theorem C01_witness_after_panic :
    ¬ C01_statement_at 8 10 [⟨0, .src .param⟩] [.set 0 5, .call 0 0, .rem 0, .call 0 0, .call 0 0] :=
  fun H => absurd (H [.set 0 5, .call 0 0, .rem 0, .call 0 0] 0 0 [] rfl) (by decide +kernel)

/-- F22 (repaired, /repo): a node that had registered itself on the caller's frame while a callee
was being verified used to be re-executed first when the caller was verified again — here after its
source was removed — so that the call panicked although its from-scratch evaluation succeeds.  The
same history on the repaired code: -/
example : C01_statement_at 8 10
    [⟨0, .call 1 .param⟩, ⟨0, .ite (.src (.lit 5)) (.call 2 .param) (.lit 0)⟩, ⟨0, .src .param⟩]
    [.set 5 1, .set 0 3, .set 9 0, .call 1 0, .set 9 1, .call 0 0, .set 5 0, .rem 0, .call 0 0] := by
  intro pre f a rest hh
  have hcases : pre = [.set 5 1, .set 0 3, .set 9 0] ∨ pre = [.set 5 1, .set 0 3, .set 9 0, .call 1 0, .set 9 1] ∨
      pre = [.set 5 1, .set 0 3, .set 9 0, .call 1 0, .set 9 1, .call 0 0, .set 5 0, .rem 0] := by
    match pre, hh with
    | [], hh => simp at hh
    | [_], hh => simp at hh
    | [_, _], hh => simp at hh
    | [_, _, _], hh => simp at hh; simp [hh.1, hh.2.1, hh.2.2.1]
    | [_, _, _, _], hh => simp at hh
    | [_, _, _, _, _], hh => simp at hh; simp [hh.1, hh.2.1, hh.2.2.1, hh.2.2.2.1, hh.2.2.2.2.1]
    | [_, _, _, _, _, _], hh => simp at hh
    | [_, _, _, _, _, _, _], hh => simp at hh
    | [_, _, _, _, _, _, _, _], hh =>
      simp at hh
      simp [hh.1, hh.2.1, hh.2.2.1, hh.2.2.2.1, hh.2.2.2.2.1, hh.2.2.2.2.2.1, hh.2.2.2.2.2.2.1, hh.2.2.2.2.2.2.2.1]
    | _ :: _ :: _ :: _ :: _ :: _ :: _ :: _ :: _ :: _, hh => simp at hh
  rcases hcases with rfl | rfl | rfl
  · simp at hh; obtain ⟨⟨rfl, rfl⟩, _⟩ := hh; decide +kernel
  · simp at hh; obtain ⟨⟨rfl, rfl⟩, _⟩ := hh; decide +kernel
  · simp at hh; obtain ⟨⟨rfl, rfl⟩, _⟩ := hh; decide +kernel

/-! ### what is proved -/

/-- **Stage 1** (nesting depth 0).  Extra hypotheses, both explicit: `Flat P` — no body calls a
memoised function; `CleanCalls` — the from-scratch evaluation of every call of the history, at the
moment of the call, does not panic (reads of ABSENT singletons / never-written tracked fields are
allowed: that is the repaired F1/F2).  The history is otherwise arbitrary: set / remove of keyed
sources and singletons, tracked inserts / removes, calls with every parameter shape, lookups,
retain / clear / never-gc and collections with any capacity.  Then every call answers exactly the
from-scratch value (or `dead`, after a collector panic — C03's business). -/
theorem C01_stage1_partial (fuel cap : Nat) (P : Prog) (h : List Op) (hflat : Flat P)
    (hclean : CleanCalls fuel cap P h) : C01_statement_at fuel cap P h := by
  intro pre f a rest hh
  rcases c01_stage1 hflat fuel cap h hclean pre f a rest hh with hd | hv
  · exact Or.inr (Or.inr (Or.inr hd))
  · exact Or.inl hv

/- Non-vacuity: a flat program reading a keyed source, a singleton and a tracked field, and a
history with an absent-then-present key, equal and unequal writes, remove-then-set, retain and two
collections with capacity 1, all of whose calls are clean. -/
def progS1 : Prog := [⟨0, .add (.src .param) (.sing 0)⟩, ⟨2, .trk 1⟩, ⟨1, .ite (.eq (.src .param) (.lit 3)) (.lit 1) (.half (.src (.lit 0)))⟩]
def histS1 : List Op :=
  [.set 0 4, .sset 0 1, .tins 1 5, .call 0 0, .call 1 0, .set 0 4, .call 0 0, .set 0 3, .call 2 0, .gc, .call 0 0,
   .rem 0, .set 0 7, .retain 2 0, .call 2 0, .tins 1 6, .call 1 0, .gc, .sset 0 2, .call 0 0, .look 2 0]

example : Flat progS1 ∧ CleanCalls 4 1 progS1 histS1 :=
  ⟨by decide, cleanCalls_of_B 4 1 progS1 histS1 (by decide +kernel)⟩

/-- **Stage 2a** (nested calls, one epoch).  ANY program — chains, diamonds, every parameter shape,
ref functions — and any history of the form `writes ++ reads`: `writes` contains no call (sets,
removes, singleton and tracked-field writes, also retain / gc), `reads` contains no source
operation (calls, lookups, retain / clear / never-gc, collections with any capacity, in any
order).  Extra hypothesis: `CleanCalls`.  `exec` then simulates the from-scratch evaluator
fuel for fuel — the dependency stack is its path, `assert_no_cycles` its cycle check — every node
created is correct, and a node met again (same epoch, possibly after a collection re-created it)
is served or rebuilt with the same value. -/
theorem C01_stage2_single_epoch_partial (fuel cap : Nat) (P : Prog) (writes reads : List Op)
    (hw : ∀ op, op ∈ writes → op.isCall = false) (hr : ∀ op, op ∈ reads → op.isSrc = false)
    (hclean : CleanCalls fuel cap P (writes ++ reads)) : C01_statement_at fuel cap P (writes ++ reads) := by
  intro pre f a rest hh
  rcases c01_stage2a fuel cap writes reads hw hr hclean pre f a rest hh with hd | hv
  · exact Or.inr (Or.inr (Or.inr hd))
  · exact Or.inl hv

/- Non-vacuity: a chain of depth 3 with a value-preserving middle, a diamond over a shared leaf, a
singleton reader, capacity 1; calls interleaved with two collections and a retain. -/
def progS2 : Prog :=
  [⟨0, .add (.call 1 .param) (.call 2 .param)⟩, ⟨0, .half (.call 3 .param)⟩, ⟨1, .add (.call 3 .param) (.sing 1)⟩,
   ⟨0, .src .param⟩]
def writesS2 : List Op := [.set 0 4, .set 1 9, .sset 1 2, .tins 0 1, .rem 1, .set 1 6]
def readsS2 : List Op :=
  [.call 0 0, .call 0 1, .gc, .call 1 1, .retain 1 1, .call 0 0, .look 0 1, .gc, .call 2 1, .call 0 1, .unretain 1 1]

example : (∀ op, op ∈ writesS2 → op.isCall = false) ∧ (∀ op, op ∈ readsS2 → op.isSrc = false) ∧
    CleanCalls 6 1 progS2 (writesS2 ++ readsS2) :=
  ⟨by decide, by decide, cleanCalls_of_B 6 1 progS2 _ (by decide +kernel)⟩

/-- **Stages 2 and 3** (nested calls ACROSS source changes, with collections).  Any program whose
call graph is acyclic (`Acyclic P rank`: every call goes to a function of smaller rank) and any
history — sets and removes of keyed sources and singletons, tracked-field writes, calls with every
parameter shape, lookups, retain / clear / never-gc, collections with any capacity, in any order.
Extra hypotheses, all explicit: the fuel exceeds every rank (no artificial fuel exhaustion), and
`CleanCalls` — every call of the history evaluates from scratch without panicking at the moment it
is made (this excludes caught panics; it does NOT ask anything of the other stored nodes: a stored
node that would panic now — a read through a removed `SourceId` — is never re-executed, because the
dependencies are verified in recorded order and a callee is only reached when everything read
before it is unchanged, i.e. when the current evaluation still calls it).
This is the early-cutoff argument for pico's stamps: verification of derived dependencies in
recorded order, `time_verified` set before the dependencies are examined, `time_updated` reported
even when backdating, absent sources as dependencies, collection of unreachable nodes. -/
theorem C01_incremental_partial (fuel cap : Nat) (P : Prog) (rank : Nat → Nat) (h : List Op)
    (hacy : Acyclic P rank) (hrank : ∀ g, rank g < fuel) (hclean : CleanCalls fuel cap P h) :
    C01_statement_at fuel cap P h := by
  intro pre f a rest hh
  rcases c01_inc hacy fuel cap hrank h hclean pre f a rest hh with hd | hv
  · exact Or.inr (Or.inr (Or.inr hd))
  · exact Or.inl hv

/- Non-vacuity: a chain of depth 3 with a value-preserving middle, a diamond over a shared leaf, a
reader of an (initially absent) singleton; writes, equal writes, removes and re-inserts interleaved
with calls, two collections with capacity 1 and a retain. -/
def progInc : Prog :=
  [⟨0, .add (.call 1 .param) (.call 2 .param)⟩, ⟨0, .half (.call 3 .param)⟩, ⟨1, .add (.call 3 .param) (.sing 1)⟩,
   ⟨0, .src .param⟩]
def histInc : List Op :=
  [.set 0 4, .set 1 9, .call 0 0, .set 0 5, .call 0 0, .sset 1 2, .call 0 0, .call 2 1, .gc, .set 0 5, .call 0 0,
   .rem 1, .set 1 6, .retain 0 0, .call 0 1, .gc, .srem 1, .call 0 0, .set 0 8, .call 1 0, .call 0 0, .look 0 1]

example : Acyclic progInc (fun i => 4 - i) ∧ (∀ g, (fun i => 4 - i) g < 6) ∧ CleanCalls 6 1 progInc histInc :=
  ⟨acyclic_of_bounded _ _ (by decide), fun g => by simp; omega, cleanCalls_of_B 6 1 progInc histInc (by decide +kernel)⟩

/- Non-vacuity, the guarded read: `f0` calls `f1` only while singleton 0 is set; `f1` reads keyed
source 0.  After both are removed the STORED node `f1(0)` would panic if it were re-executed
(so the history is outside `CleanStore`), yet every call is clean and the theorem applies: the
verification of `f0` stops at the changed singleton and never reaches `f1(0)`. -/
def progGuard : Prog := [⟨0, .ite (.sing 0) (.call 1 .param) (.lit 7)⟩, ⟨0, .src .param⟩]
def histGuard : List Op :=
  [.set 0 5, .sset 0 1, .call 0 0, .srem 0, .rem 0, .call 0 0, .gc, .set 0 6, .call 0 0, .sset 0 3, .call 0 0]

example : Acyclic progGuard (fun i => 2 - i) ∧ (∀ g, (fun i => 2 - i) g < 4) ∧ CleanCalls 4 8 progGuard histGuard :=
  ⟨acyclic_of_bounded _ _ (by decide), fun g => by simp; omega, cleanCalls_of_B 4 8 progGuard histGuard (by decide +kernel)⟩

example : (alookup (after 4 8 progGuard (histGuard.take 5)).derived ⟨1, 0⟩).isSome = true ∧
    evalS 4 progGuard (after 4 8 progGuard (histGuard.take 5)).srcs (after 4 8 progGuard (histGuard.take 5)).maps [] ⟨1, 0⟩
      = .panic .absentSource ∧
    (run 4 progGuard (initS 8 progGuard) histGuard).2 =
      [.ok, .ok, .val 5, .ok, .ok, .val 7, .ok, .ok, .val 7, .ok, .val 6] := by decide +kernel

/-! ### repaired defects (F1, F2; /repo 79c6822) — the former witness histories now satisfy the statement -/

/-- F1 (repaired): read an absent singleton, set it for the first time, call again. -/
example : C01_statement_at 8 10 [⟨2, .sing 0⟩] [.call 0 0, .sset 0 1, .call 0 0] :=
  C01_stage1_partial 8 10 _ _ (by decide) (cleanCalls_of_B _ _ _ _ (by decide +kernel))

/-- F1 through a tracked field (repaired): tracked read of the never-written map, first insert. -/
example : C01_statement_at 8 10 [⟨2, .trk 0⟩] [.call 0 0, .tins 0 7, .call 0 0] :=
  C01_stage1_partial 8 10 _ _ (by decide) (cleanCalls_of_B _ _ _ _ (by decide +kernel))

/-- F2 (repaired): the outer function sees the removal although the inner reader re-ran on its own. -/
example : (run 8 [⟨0, .call 1 .param⟩, ⟨2, .add (.sing 0) (.lit 2)⟩] (initS 10 [⟨0, .call 1 .param⟩, ⟨2, .add (.sing 0) (.lit 2)⟩])
    [.sset 0 1, .call 0 0, .srem 0, .call 1 0, .call 0 0]).2 = [.ok, .val 4, .ok, .val 2, .val 2] := by
  decide +kernel

/-- `C01_statement` is therefore false. -/
theorem C01_statement_false : ¬ C01_statement :=
  fun H => C01_witness_after_panic (H 8 10 _ _)

end IsoVerif.Props.C01
