/-
C01 — Memoised results always equal a from-scratch evaluation.

Model: `IsoVerif.Pico` (M-PICO, executable, tied to crates/pico by the `pico` correspondence).
`evalScratch` is the denotation of a call with no cache.  Statements only; lemmas live in
`IsoVerif.Lemmas.Pico*`.

The full statement `C01_statement` is FALSE of today's code: the three witness theorems below
exhibit histories (replayed against the real crate on every run, corpus/C01) on which the model —
which agrees with the crate — returns a stale value.  What is proved instead is the family of
`_partial` theorems, each with its extra hypothesis spelled out.
-/
import IsoVerif.Lemmas.Pico

namespace IsoVerif.Props.C01
open IsoVerif.Pico

/-- The answer `o` of a memoised call agrees with the from-scratch result `r`.  No claim is made
when either side ran out of fuel (the real code would overflow its stack), nor once the collector
has panicked (`dead`; that is C03's business). -/
def Agree (o : Out) (r : Res Nat) : Prop :=
  o = outOfRes r ∨ o = .panic .fuel ∨ r = .panic .fuel ∨ o = .dead

instance (o : Out) (r : Res Nat) : Decidable (Agree o r) := by unfold Agree; infer_instance

/-- C01 on one history: every `call` in it answers what a from-scratch evaluation against the
sources current at that moment answers. -/
def C01_statement_at (fuel cap : Nat) (P : Prog) (h : List Op) : Prop :=
  ∀ pre f a rest, h = pre ++ Op.call f a :: rest →
    Agree (step fuel P (after fuel cap P pre) (.call f a)).2
          (evalScratch fuel P (after fuel cap P pre) (nodeOf P f a))

/-- **C01 at full strength**: all programs, all histories (set / remove, singletons, tracked
fields, nested calls with every parameter shape, retain / clear / never-gc, gc), all capacities. -/
def C01_statement : Prop := ∀ fuel cap P h, C01_statement_at fuel cap P h

/-! ### witnesses: the full statement fails on today's code (known findings) -/

/-- F1: read an absent singleton, set it for the first time, call again: still `None`. -/
theorem C01_witness_absent_singleton :
    ¬ C01_statement_at 8 10 [⟨2, .sing 0⟩] [.call 0 0, .sset 0 1, .call 0 0] :=
  fun H => absurd (H [.call 0 0, .sset 0 1] 0 0 [] rfl) (by decide +kernel)

/-- F1 through a tracked field: tracked read of the never-written map, first tracked insert. -/
theorem C01_witness_absent_tracked_counter :
    ¬ C01_statement_at 8 10 [⟨2, .trk 0⟩] [.call 0 0, .tins 0 7, .call 0 0] :=
  fun H => absurd (H [.call 0 0, .tins 0 7] 0 0 [] rfl) (by decide +kernel)

/-- F2: singleton removed, the inner reader re-run on its own, the outer one stays stale. -/
theorem C01_witness_after_remove :
    ¬ C01_statement_at 8 10 [⟨0, .call 1 .param⟩, ⟨2, .add (.sing 0) (.lit 2)⟩]
        [.sset 0 1, .call 0 0, .srem 0, .call 1 0, .call 0 0] :=
  fun H => absurd (H [.sset 0 1, .call 0 0, .srem 0, .call 1 0] 0 0 [] rfl) (by decide +kernel)

/-- After a caught panic the same call, in the same epoch, serves the stale value. -/
theorem C01_witness_after_panic :
    ¬ C01_statement_at 8 10 [⟨0, .src .param⟩] [.set 0 5, .call 0 0, .rem 0, .call 0 0, .call 0 0] :=
  fun H => absurd (H [.set 0 5, .call 0 0, .rem 0, .call 0 0] 0 0 [] rfl) (by decide +kernel)

/-- `C01_statement` is therefore false. -/
theorem C01_statement_false : ¬ C01_statement :=
  fun H => C01_witness_absent_singleton (H 8 10 _ _)

end IsoVerif.Props.C01
