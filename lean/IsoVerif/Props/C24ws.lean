/-
C24 — the white-space rule of iso.ts, tied to the source.

`Model/IsoOverload.lean` models `Whitespace<In>` as `stripWs` (strip leading ' ', '\t', '\n').  The set is a
literal in the TypeScript text that iso_overload_file.rs emits (`type WhitespaceCharacter = …`); translator
`t_iso_overload` regenerates it into `Gen/IsoOverloadLits.lean` on every run, and `C24_whitespace_set` states
that the generated set is exactly the set `stripWs` strips — so a change of the union (e.g. dropping the tab)
breaks this obligation, and with it the hypothesis under which `C24_first_match` speaks about the code.

The iso lexer skips more than that before the keyword (`[ \t\r\n\f\u{feff}]+`).  CR never reaches the type
(a template literal's value has CR LF and CR normalised to LF), but a form feed or U+FEFF before the keyword
is accepted by the compiler and not stripped by `Whitespace<T>`: no specific overload matches (witnesses;
open findings `leading-whitespace-not-stripped:ff`, `:bom`).
-/
import IsoVerif.Props.C24
import IsoVerif.Gen.IsoOverloadLits

namespace IsoVerif.Props.C24
open IsoVerif.Util IsoVerif.IsoOverload

/-- The `WhitespaceCharacter` union in the source today = the characters `stripWs` strips: every member is
one byte, and a byte is a member iff `stripWs` removes it. -/
theorem C24_whitespace_set :
    (Gen.IsoOverloadLits.whitespace.all fun m => m.length == 1) = true ∧
    ((List.range 256).all fun n =>
      Gen.IsoOverloadLits.whitespace.contains [UInt8.ofNat n] == (stripWs [UInt8.ofNat n, 120] == [120])) = true := by
  decide +kernel

/-- a form feed before the keyword (skipped by the iso lexer) is not stripped by `Whitespace<T>` -/
theorem C24_witness_formfeed : ¬ C24_statement_at [qFoo] qFoo ([12] ++ pattern qFoo ++ [32, 123]) := by
  unfold C24_statement_at; decide +kernel

/-- U+FEFF before the keyword (skipped by the iso lexer) is not stripped either -/
theorem C24_witness_bom : ¬ C24_statement_at [qFoo] qFoo ([0xEF, 0xBB, 0xBF] ++ pattern qFoo ++ [32, 123]) := by
  unfold C24_statement_at; decide +kernel

/- tab-indented literals are covered by `C24_first_match` (`leadOk`) -/
example : firstMatch (overloads [qFoo, qFooBar]) (canonicalLiteral qFooBar [9, 9] [32, 123]) = some qFooBar := by
  decide +kernel

end IsoVerif.Props.C24
