/-
C33 — Signed generated files verify, and any edit breaks the signature.

Model: `IsoVerif.Signed` (executable; literals regenerated from the Rust source by T7).
The hash `h` is an arbitrary function: nothing below assumes injectivity.  What is assumed of
it is stated as the hypothesis `HexHash h` (the output is `reHexLen` lower-case hex digits — true
of `hex::encode(md5)`), and it is only used by `C33_verify`.

Statements only; helper lemmas live in `IsoVerif.Lemmas.Signed`.
-/
import IsoVerif.Lemmas.Signed

namespace IsoVerif.Props.C33
open IsoVerif.Util IsoVerif.Signed IsoVerif.Gen.SignedLits

/-- The constants of the Rust source fit together (re-proved whenever T7 regenerates them):
the `+ 25` skips exactly the regex's literal prefix, the `- 2` drops exactly its literal suffix,
what `sign` writes is what the regex reads, and the signing token is `@generated ` + NEWTOKEN. -/
theorem C33_consts :
    rePrefix.length = hashSliceStart ∧ reSuffix.length = hashSliceEndBack ∧
    matchLen - hashSliceEndBack - hashSliceStart = reHexLen ∧
    rePrefix = genPrefix ++ sigOpen ∧ reSuffix = sigClose ∧
    signingToken = genPrefix ++ newToken ∧ unsignReplacesAll = true := by
  decide

/-- **Verification of a freshly signed file** (one token).  `c = A ++ "@generated " ++ NEWTOKEN ++ B`
where the token occurs nowhere else, and the signed text has no other place where the signature
regex matches (no pre-existing or accidental signature). -/
theorem C33_verify (h : Bytes → Bytes) (hh : HexHash h) (A B : Bytes)
    (hA : NoOccBefore newToken (A ++ genPrefix) (newToken ++ B))
    (hB : NoOccBefore newToken B [])
    (hM : ∀ k, k ≠ A.length → matchHere ((A ++ genPrefix ++ signature h (A ++ signingToken ++ B) ++ B).drop k) = false) :
    isValidSignature h (sign h (A ++ signingToken ++ B)) = true := by
  exact verify_single h hh A B hA hB hM

/-- **Tampering.**  If two *different* texts both verify, have the signature regex matching at the
same places, and agree on the bytes of every match (i.e. they differ only outside the
signatures), then they exhibit a collision of `h`.  So an accepted edit outside the signature
*is* a hash collision; no injectivity of `h` is assumed. -/
theorem C33_tamper (h : Bytes → Bytes) (s s' : Bytes)
    (hlen : s.length = s'.length)
    (hsame : ∀ k, matchHere (s.drop k) = matchHere (s'.drop k))
    (hagree : ∀ k, matchHere (s.drop k) = true → (s.drop k).take matchLen = (s'.drop k).take matchLen)
    (hv : isValidSignature h s = true) (hv' : isValidSignature h s' = true) (hne : s ≠ s') :
    ∃ x y, x ≠ y ∧ h x = h y := by
  exact tamper_collision h s s' hlen hsame hagree hv hv' hne

/-- An edit *after* the last byte of a text never changes whether/where the regex matches earlier
— used to see that `C33_tamper`'s hypotheses are met by appending (the repo's own test). -/
theorem C33_append_detected (h : Bytes → Bytes) (s t : Bytes) (ht : t ≠ [])
    (hnm : ∀ k, matchHere ((s ++ t).drop k) = matchHere (s.drop k))
    (hv : isValidSignature h s = true) (hv' : isValidSignature h (s ++ t) = true) :
    ∃ x y, x ≠ y ∧ h x = h y := by
  exact append_collision h s t ht hnm hv hv'

/- Non-vacuity: a concrete content meets the hypotheses of `C33_verify` (checked by evaluation
with a toy hash that returns 32 hex digits). -/
def toyHash (b : Bytes) : Bytes := List.replicate 32 (if b.length % 2 == 0 then 48 else 97)

example : isValidSignature toyHash (sign toyHash ([35, 32] ++ signingToken ++ [10, 120])) = true := by
  decide +kernel

end IsoVerif.Props.C33
