/-
C30 — The schema parser reads the schema the specification defines
(crates/graphql_schema_parser: parse_schema.rs, description.rs, peekable_lexer.rs).

Model: `isoSchema ext` = `GqlSchema.parseSchemaText true ext` — the hand model of parse_schema.rs
(function by function, every Rust panic site explicit) over relay's logos lexer (`relayLex`, table
regenerated from relay_lexer.rs) and `DirectiveLocation::from_str` (table regenerated from
graphql_lang_types).  Reference: `specSchema ext` — the June-2018 lexical grammar and type-system
grammar (`specLex`, `pTsDefs` with every switch off) restricted to the supported subset
(`isoSupported`: definitions, plus `extend type` in an extension document; each root operation
type at most once).

The full statement `C30_statement` is false on the unchanged crate; each known finding has a witness
theorem.  Proved in general:
  * `C30_block_partial` — `clean_block_string_literal` = BlockStringValue() on every raw text
    without a lone CR and without `\"""` (witnesses show both exclusions are necessary);
  * `C30_total` — no `expect`/`assert!` of the parser is reachable, on any token list;
  * `C30_type`, `C30_value_partial`, `C30_description`, `C30_directives_partial`,
    `C30_inputvalue_partial`, `C30_fields_partial` — `parse_type_annotation`, `parse_constant_value`
    (with the alternatives committed), `parse_optional_description`, `parse_constant_directives`,
    `parse_argument_definition`, `parse_optional_fields` read exactly the Type, constant Value,
    Description, Directives, InputValueDefinition and FieldsDefinition of the reference grammar
    with the compiler's deviation switches — same acceptance, same tree, same rest — on every
    token list and for every fuel;
  * the rest of `C30_accept` / `C30_tree` (the definition keywords, implements/union/enum/schema/
    directive definitions, the document loop and the supported-subset filter) is tied
    differentially: the check evaluates hand model, reference-with-switches and reference on every
    generated document.
-/
import IsoVerif.Lemmas.GqlBlock
import IsoVerif.Lemmas.GqlSchemaParse

namespace IsoVerif.Props.C30
open IsoVerif.Gql IsoVerif.GqlSchema

/-- same acceptance and same tree as the reference, for `parse_schema` (ext = false) and
`parse_schema_extensions` (ext = true) -/
def C30_at (ext : Bool) (s : Str) : Prop := isoSchema ext s = specSchema ext s

def C30_statement : Prop := ∀ ext s, C30_at ext s

/-! ### block strings -/

def C30_block_statement : Prop := ∀ raw : Str, cleanBlockString raw = blockStringValue raw

theorem C30_block_partial (raw : Str) (h1 : noLoneCr raw = true) (h2 : noEscTriple raw = true) :
    cleanBlockString raw = blockStringValue raw :=
  clean_eq_blockStringValue raw h1 h2

example : noLoneCr (cps "\n    Hello,\r\n      World!\n\n    Yours,\n      GraphQL.\n  ") = true ∧
    noEscTriple (cps "\n    Hello,\r\n      World!\n\n    Yours,\n      GraphQL.\n  ") = true := by decide
example : blockStringValue (cps "\n    Hello,\r\n      World!\n\n    Yours,\n      GraphQL.\n  ") =
    cps "Hello,\n  World!\n\nYours,\n  GraphQL." := by decide +kernel

/-- a lone carriage return is a LineTerminator of the specification, not of `str::lines` -/
theorem C30_witness_lone_cr : cleanBlockString (cps "a\r  b\r  c") ≠ blockStringValue (cps "a\r  b\r  c") := by
  decide +kernel
example : cleanBlockString (cps "a\r  b\r  c") = cps "a\r  b\r  c" ∧
    blockStringValue (cps "a\r  b\r  c") = cps "a\nb\nc" := by decide +kernel

/-- `\"""` stands for `"""` -/
theorem C30_witness_escaped_triple_quote :
    cleanBlockString (cps "a\\\"\"\"b") ≠ blockStringValue (cps "a\\\"\"\"b") := by decide +kernel

theorem C30_block_statement_false : ¬ C30_block_statement := fun h => C30_witness_lone_cr (h _)

/-! ### totality -/

/-- `parse_schema` / `parse_schema_extensions` reach none of their `expect` / `assert!` sites, whatever
the tokens (the remaining panic is inside relay's lexer, see `C30_witness_panic_block_string_char`) -/
theorem C30_total (resume ext : Bool) (ts : List Tok) : parseSchemaToks resume ext ts ≠ .panic :=
  parseSchemaToks_total resume ext ts

/-! ### hand model = reference grammar with the compiler's switches -/

theorem C30_type (f : Nat) (ts : List Tok) : (parseTypeAnnotation f ts).toOpt = pType f ts :=
  parseType_eq f ts

theorem C30_value_partial (f : Nat) (ts : List Tok) :
    (parseConstantValue false false f ts).toOpt = pValue Quirks.iso true f ts :=
  (value_eq f).1 ts

/-- descriptions: quoted strings verbatim, block strings through `clean_block_string_literal` -/
theorem C30_description (ts : List Tok) : parseOptionalDescription ts = pDesc Quirks.iso ts := desc_eq ts

/-- directives with their constant arguments -/
theorem C30_directives_partial (f : Nat) (ts : List Tok) :
    (parseConstantDirectives false f ts).toOpt = pDirs Quirks.iso true f ts := dirs_eq f ts

/-- argument / input-field definitions: description, name, type annotation, default value, directives -/
theorem C30_inputvalue_partial (f : Nat) (ts : List Tok) :
    (parseArgumentDefinition false f ts).toOpt = pInputVal Quirks.iso f ts := inputVal_eq f ts

/-- `C30_accept` and `C30_tree` for a braced list of field definitions (each with description,
argument definitions, type annotation, directives): same acceptance, same tree, same rest -/
theorem C30_fields_partial (f : Nat) (ts : List Tok) :
    (parseOptionalFields false f ts).toOpt = pFieldDefsOpt Quirks.iso f ts := optionalFields_eq f ts

def isAccept : Outcome → Bool
  | .accept _ => true
  | _ => false

/-- with the alternatives *not* committed (the code as it is) the two differ: the parser accepts
`a: <integer outside i64> true` (reading `true`) and `a: [{{b:1}` (reading `{b:1}`) -/
theorem C30_witness_value_alternative_resumes :
    isAccept (isoSchema false (cps "scalar S @d(a:9223372036854775808 true)")) = true ∧
    specSchema false (cps "scalar S @d(a:9223372036854775808 true)") = .reject ∧
    isAccept (isoSchema false (cps "scalar S @d(a:[{{b:1})")) = true ∧
    specSchema false (cps "scalar S @d(a:[{{b:1})") = .reject := by
  decide +kernel

/-! ### witnesses of the other known findings -/

theorem C30_witness_string_escapes_verbatim : ¬ C30_at false (cps "\"a\\nb\" scalar S") := by
  unfold C30_at; decide +kernel
theorem C30_witness_lone_cr_block_string : ¬ C30_at false (cps "\"\"\"a\r  b\"\"\" scalar S") := by
  unfold C30_at; decide +kernel
theorem C30_witness_escaped_triple_quote_doc : ¬ C30_at false (cps "\"\"\"a\\\"\"\"b\"\"\" scalar S") := by
  unfold C30_at; decide +kernel
theorem C30_witness_block_string_constant : ¬ C30_at false (cps "scalar S @d(a:\"\"\"x\"\"\")") := by
  unfold C30_at; decide +kernel
/-- repaired in /repo (dfabac6, a28cef5): the `@` of a directive definition is required, `SCHEMA`
is a directive location — the former witnesses now agree with the reference -/
theorem C30_fixed_directive_definition_missing_at :
    C30_at false (cps "directive d on FIELD") ∧ specSchema false (cps "directive d on FIELD") = .reject := by
  unfold C30_at; decide +kernel
theorem C30_fixed_directive_location_schema :
    C30_at false (cps "directive @d on SCHEMA") ∧ isAccept (specSchema false (cps "directive @d on SCHEMA")) = true := by
  unfold C30_at; decide +kernel
theorem C30_witness_union_without_members : ¬ C30_at false (cps "union U") := by
  unfold C30_at; decide +kernel
theorem C30_witness_int_overflow_i64 : ¬ C30_at false (cps "scalar S @d(a:9223372036854775808)") := by
  unfold C30_at; decide +kernel
theorem C30_witness_empty_extension : ¬ C30_at true (cps "extend type A") := by
  unfold C30_at; decide +kernel
theorem C30_witness_empty_document : ¬ C30_at false [] := by
  unfold C30_at; decide +kernel
theorem C30_witness_repeatable : ¬ C30_at false (cps "directive @d repeatable on FIELD") := by
  unfold C30_at; decide +kernel
theorem C30_witness_interface_implements : ¬ C30_at false (cps "interface I implements J {a:Int}") := by
  unfold C30_at; decide +kernel
theorem C30_witness_schema_description : ¬ C30_at false (cps "\"d\" schema {query:Q}") := by
  unfold C30_at; decide +kernel
theorem C30_witness_variable_definition_location : ¬ C30_at false (cps "directive @d on VARIABLE_DEFINITION") := by
  unfold C30_at; decide +kernel
theorem C30_witness_number_followed_by_name : ¬ C30_at false (cps "scalar S @d(a:[1a])") := by
  unfold C30_at; decide +kernel
theorem C30_witness_number_leading_zero : ¬ C30_at false (cps "scalar S @d(a:[01])") := by
  unfold C30_at; decide +kernel
/-- a character outside `[\t\n\r\u0020-\uFFFF]` inside a block string: relay's
`BlockStringToken::Error => unreachable!()` -/
theorem C30_witness_panic_block_string_char :
    isoSchema false (cps "\"\"\"😀\"\"\" scalar S") = .panic := by decide +kernel

theorem C30_statement_false : ¬ C30_statement := fun h => C30_witness_union_without_members (h _ _)

/-- agreement where no deviation is involved -/
example : C30_at false (cps "\"d\" type T implements A & B @d(x:[1 2.5 \"s\" {k:E}]) {\"\"\"\n  f\n\"\"\" f(a:[Int!]=[1] @x b:T):[Int!]!} union U=|A|B enum E{A @d B} input I{a:Int=1} scalar S directive @d(a:Int) on FIELD|QUERY schema{query:T mutation:M}") := by
  unfold C30_at; decide +kernel
example : C30_at true (cps "extend type T implements A @k {f:Int} type U") := by
  unfold C30_at; decide +kernel

end IsoVerif.Props.C30
