/-
C02 — Memoised functions re-run only when something they read changed.

Model: `IsoVerif.Pico` (M-PICO).  The ghost execution log `Storage.log` records every body that
ran.  Statements only; lemmas live in `IsoVerif.Lemmas.Pico*`.

`C02_statement` (history level: every execution is justified by a first run, a collection, or a
changed DIRECT semantic dependency — which contains the clauses "equal-value writes", "unrelated
writes" and "backdating") is not known to fail any more: F3 (equal write re-stamps the source,
/repo b7bfe5c) and F22 (dependencies registered during verification) were repaired and the model
follows the repaired code.  It is not proved in that form; proved are, for any nesting depth
(acyclic programs, clean calls): the stamp-level form for one call from a reachable state
(`C02_runs_justified_partial`), backdating (`C02_backdating_partial`), unrelated writes
(`C02_unrelated_writes_nested_partial`); and for all programs: equal writes are no-ops, quiet
nodes are served without running.
-/
import IsoVerif.Lemmas.Pico

namespace IsoVerif.Props.C02
open IsoVerif.Pico

/-- the body of node `n` ran during the `i`-th operation of `h` -/
def RanAt (fuel cap : Nat) (P : Prog) (h : List Op) (i : Nat) (n : NodeId) : Prop :=
  n ∈ execsOf fuel P (after fuel cap P (h.take i)) (h.getD i .gc)

instance (fuel cap P h i n) : Decidable (RanAt fuel cap P h i n) := by unfold RanAt; infer_instance

/-- the `k`-th operation is a collection that discarded node `n` -/
def DiscardedAt (fuel cap : Nat) (P : Prog) (h : List Op) (k : Nat) (n : NodeId) : Prop :=
  h.getD k .gc = .gc ∧ (alookup (after fuel cap P (h.take k)).derived n).isSome = true ∧
    (alookup (after fuel cap P (h.take (k + 1))).derived n).isSome = false

instance (fuel cap P h k n) : Decidable (DiscardedAt fuel cap P h k n) := by unfold DiscardedAt; infer_instance

/-- the `j`-th operation ended in a panic (the property makes no claim about what a caught panic
leaves behind) -/
def PanickedAt (fuel cap : Nat) (P : Prog) (h : List Op) (j : Nat) : Prop :=
  ∃ p, (step fuel P (after fuel cap P (h.take j)) (h.getD j .gc)).2 = .panic p

instance (fuel cap P h j) : Decidable (PanickedAt fuel cap P h j) := by
  unfold PanickedAt
  cases hq : (step fuel P (after fuel cap P (h.take j)) (h.getD j .gc)).2 with
  | panic p => exact isTrue ⟨p, rfl⟩
  | ok => exact isFalse (fun ⟨_, h⟩ => by cases h)
  | val v => exact isFalse (fun ⟨_, h⟩ => by cases h)
  | noref => exact isFalse (fun ⟨_, h⟩ => by cases h)
  | dead => exact isFalse (fun ⟨_, h⟩ => by cases h)

/-- Why node `n` may run during operation `i`, given that it last ran during operation `j < i`:
it was collected in between, or the earlier run ended in a panic, or one of the DIRECT semantic
dependencies of that earlier run (a source it read — also an absent one — or a callee's value)
has, at some moment `k` in `(j, i]`, been worth something else than at the time of that run. -/
def Changed (fuel cap : Nat) (P : Prog) (h : List Op) (j i : Nat) (n : NodeId) : Prop :=
  (∃ k, k < i ∧ (j < k ∧ DiscardedAt fuel cap P h k n))
  ∨ PanickedAt fuel cap P h j
  ∨ (∃ d, d ∈ directReads fuel P (after fuel cap P (h.take (j + 1))) n ∧
      ∃ k, k < i + 1 ∧ (j < k ∧
        depObs fuel P (after fuel cap P (h.take k)) d ≠ depObs fuel P (after fuel cap P (h.take (j + 1))) d))

instance (fuel cap P h j i n) : Decidable (Changed fuel cap P h j i n) := by unfold Changed; infer_instance

/-- C02 on one history: every execution of a body is a first execution or is justified. -/
def C02_statement_at (fuel cap : Nat) (P : Prog) (h : List Op) : Prop :=
  ∀ i, i < h.length → ∀ n, n ∈ execsOf fuel P (after fuel cap P (h.take i)) (h.getD i .gc) →
    (∀ j, j < i → ¬ RanAt fuel cap P h j n)
    ∨ (∃ j, j < i ∧ (RanAt fuel cap P h j n ∧ (∀ k, k < i → j < k → ¬ RanAt fuel cap P h k n) ∧
          Changed fuel cap P h j i n))

instance (fuel cap P h) : Decidable (C02_statement_at fuel cap P h) := by
  unfold C02_statement_at; infer_instance

/-- **C02 at full strength** -/
def C02_statement : Prop := ∀ fuel cap P h, C02_statement_at fuel cap P h

/-! ### the former witness of F22 -/

def progF22 : Prog :=
  [⟨0, .call 1 .param⟩, ⟨0, .eq (.add (.call 2 .param) (.call 3 .param)) (.lit 9)⟩, ⟨0, .src .param⟩, ⟨2, .src (.lit 2)⟩]

def histF22 : List Op :=
  [.set 0 1, .set 2 1, .set 3 0, .call 1 0, .set 3 1, .call 0 0, .set 0 2, .call 0 0]

/-- F22 (repaired, /repo): `t` (function 0) used to re-execute in the last call although its only
direct dependency `g` (function 1) kept its value — the nodes verified while `g` was being verified
inside `t`'s body had been registered as dependencies of `t`.  On the repaired code the former
witness history satisfies the statement. -/
example : C02_statement_at 8 10 progF22 histF22 := by
  decide +kernel

/-- the same history without the detour (calling `t` first) satisfies the statement: the witness
is about the registration during verification, not about the program. -/
example : C02_statement_at 8 10 progF22 [.set 0 1, .set 2 1, .set 3 0, .call 0 0, .set 0 2, .call 0 0] := by
  decide +kernel

/-! ### what is proved -/

/-- **Equal-value writes** (the code after the repair of F3): setting a keyed source to the value it
already has leaves the whole storage — epoch, every stamp, every dependency list — untouched … -/
theorem C02_equal_write_noop (fuel : Nat) (P : Prog) (s : Storage) (k v : Nat) (nd : SrcNode)
    (h : alookup s.srcs (.src k) = some nd) (hv : nd.val = v) :
    (step fuel P s (.set k v)).1 = s :=
  step_set_equal fuel P s k v nd h hv

/-- … and so does setting a singleton to the value it already has. -/
theorem C02_equal_write_noop_singleton (fuel : Nat) (P : Prog) (s : Storage) (i v : Nat) (nd : SrcNode)
    (h : alookup s.srcs (.sing i) = some nd) (hv : nd.val = v) :
    (step fuel P s (.sset i v)).1 = s :=
  step_sset_equal fuel P s i v nd h hv

/-- Hence an equal-value write causes no re-execution, whatever follows: the run counters (and
the execution log, and every answer) after `set k v :: ops` are those after `ops`. -/
theorem C02_equal_write_no_rerun (fuel : Nat) (P : Prog) (s : Storage) (k v : Nat) (nd : SrcNode) (ops : List Op)
    (h : alookup s.srcs (.src k) = some nd) (hv : nd.val = v) :
    runS fuel P s (.set k v :: ops) = runS fuel P s ops := by
  rw [runS_cons, C02_equal_write_noop fuel P s k v nd h hv]

example : alookup (after 8 10 progF22 [.set 0 1, .set 2 1, .set 3 0, .call 0 0, .set 3 1]).srcs (.src 0) = some ⟨1, 2⟩ := by
  decide +kernel

/-- **Unrelated writes, nesting depth 0.**  Extra hypotheses: `Flat P`; the calls of `pre` and the
call of `(f, a)` are clean (`CleanCalls`); `1 ≤ fuel`.  After the call of `(f, a)`, writing any
value to — or removing — a keyed source `k` that is not among the dependencies pico recorded for
that node, and calling `(f, a)` again, runs no body: the run counters and the log are unchanged.
(The recorded dependencies of a call-free body are exactly the keys it read.) -/
theorem C02_unrelated_write_partial (fuel cap : Nat) (P : Prog) (pre : List Op) (f a k : Nat) (op : Op)
    (hflat : Flat P) (hfuel : 1 ≤ fuel) (hclean : CleanCalls fuel cap P (pre ++ [.call f a]))
    (hop : (∃ v, op = .set k v) ∨ op = .rem k)
    (hk : ∀ r, alookup (after fuel cap P (pre ++ [.call f a])).derived (nodeOf P f a) = some r →
          ∀ d, d ∈ r.deps → d.node ≠ .source (.src k) ∧ d.node ≠ .absent (.src k)) :
    (after fuel cap P (pre ++ [.call f a, op, .call f a])).runs = (after fuel cap P (pre ++ [.call f a, op])).runs ∧
    (after fuel cap P (pre ++ [.call f a, op, .call f a])).log = (after fuel cap P (pre ++ [.call f a, op])).log := by
  have hinv : Inv1 P (after fuel cap P pre) := by
    unfold after
    refine inv1_runS hflat fuel pre _ (Inv1.init P cap P.length) ?_
    intro p f' a' rest' hp
    exact hclean p f' a' (rest' ++ [.call f a]) (by rw [hp]; simp)
  have hc := hclean pre f a [] rfl
  have e1 : after fuel cap P (pre ++ [.call f a]) = (step fuel P (after fuel cap P pre) (.call f a)).1 := by
    unfold after; rw [runS_append]; rfl
  have e2 : after fuel cap P (pre ++ [.call f a, op]) =
      (step fuel P (step fuel P (after fuel cap P pre) (.call f a)).1 op).1 := by
    unfold after; rw [runS_append]; rfl
  have e3 : after fuel cap P (pre ++ [.call f a, op, .call f a]) =
      (step fuel P (step fuel P (step fuel P (after fuel cap P pre) (.call f a)).1 op).1 (.call f a)).1 := by
    unfold after; rw [runS_append]; rfl
  rw [e2, e3]
  exact unrelated_write_no_rerun hflat fuel hfuel _ f a hinv hc op k hop (by rw [← e1]; exact hk)

/- Non-vacuity: a reader of key 0 and of singleton 0; key 1 is written and then removed. -/
example : Flat [⟨0, .add (.src .param) (.sing 0)⟩] ∧
    CleanCalls 4 10 [⟨0, .add (.src .param) (.sing 0)⟩] ([.set 0 4, .set 1 1, .sset 0 2] ++ [.call 0 0]) ∧
    (∀ r, alookup (after 4 10 [⟨0, .add (.src .param) (.sing 0)⟩] ([.set 0 4, .set 1 1, .sset 0 2] ++ [.call 0 0])).derived ⟨0, 0⟩ = some r →
      ∀ d, d ∈ r.deps → d.node ≠ .source (.src 1) ∧ d.node ≠ .absent (.src 1)) :=
  ⟨by decide, cleanCalls_of_B _ _ _ _ (by decide +kernel), by
    intro r hr; have : r = ⟨7, 4, 4, [⟨.source (.src 0), 4⟩, ⟨.source (.sing 0), 4⟩]⟩ := by
      have h2 : alookup (after 4 10 [⟨0, .add (.src .param) (.sing 0)⟩] ([.set 0 4, .set 1 1, .sset 0 2] ++ [.call 0 0])).derived ⟨0, 0⟩ =
          some ⟨7, 4, 4, [⟨.source (.src 0), 4⟩, ⟨.source (.sing 0), 4⟩]⟩ := by decide +kernel
      rw [h2] at hr; cases hr; rfl
    subst this; decide⟩

/-- **Unrelated writes, nested calls** (any nesting depth, early cut-off included).  Extra hypotheses,
all explicit: the call graph is acyclic (`Acyclic P rank`), the fuel exceeds every rank, the calls of
`pre` and the call of `(f, a)` are clean (`CleanCalls`).  After the call of `(f, a)`, any sequence
`ws` of source operations — `set`/`rem` of keyed sources, singleton writes and removals,
tracked-field inserts and removals, with any values — each on a key that the dependency closure
pico recorded for that node does not mention (`Avoids`, decidable: it walks the recorded dependency
lists of the stored nodes), followed by another call of `(f, a)`, runs no body at all: the run
counters and the execution log are unchanged by that call. -/
theorem C02_unrelated_writes_nested_partial (fuel cap : Nat) (P : Prog) (rank : Nat → Nat) (pre : List Op) (f a : Nat)
    (ws : List Op) (hacy : Acyclic P rank) (hrank : ∀ g, rank g < fuel)
    (hclean : CleanCalls fuel cap P (pre ++ [.call f a]))
    (hws : ∀ op, op ∈ ws → OpAvoids (after fuel cap P (pre ++ [.call f a])).derived fuel (nodeOf P f a) op) :
    (after fuel cap P (pre ++ .call f a :: ws ++ [.call f a])).runs = (after fuel cap P (pre ++ .call f a :: ws)).runs ∧
    (after fuel cap P (pre ++ .call f a :: ws ++ [.call f a])).log = (after fuel cap P (pre ++ .call f a :: ws)).log := by
  refine unrelated_writes_no_rerun hacy fuel cap hrank pre f a ws hclean ?_
  intro op hop
  have := hws op hop
  unfold OpAvoids at this
  cases hk : op.srcKey with
  | none => rw [hk] at this; exact absurd this id
  | some k => rw [hk] at this; exact ⟨k, rfl, this⟩

/-- **The mechanism behind it** (any program, any storage, no hypothesis on cleanliness): a stored node
all of whose recorded dependencies are, transitively, as they were when they were recorded
(`QuietN`: sources not re-stamped since, absent sources still absent, callees not updated since and
themselves quiet) is served by a top-level call without running any body. -/
theorem C02_quiet_no_rerun (fuel : Nat) (P : Prog) (s : Storage) (f a g : Nat) (hg : g ≤ fuel)
    (hq : QuietN s g (nodeOf P f a)) :
    (step fuel P s (.call f a)).1.runs = s.runs ∧ (step fuel P s (.call f a)).1.log = s.log :=
  step_call_quiet fuel s f a g hg hq

/- Non-vacuity: `t` calls `g`; `g` calls two readers (keyed source `param`, and key 2 through a
parameterless function).  After `t(0)`: writes to key 5 and key 7, removal of key 3, a singleton
write, a tracked-field insert — none is in the recorded closure of `t(0)`. -/
example : Acyclic progF22 (fun i => 4 - i) ∧ (∀ g, (fun i => 4 - i) g < 6) ∧
    CleanCalls 6 10 progF22 ([.set 0 1, .set 2 1, .set 3 0, .set 5 5] ++ [.call 0 0]) ∧
    (∀ op, op ∈ [Op.set 5 6, .rem 3, .sset 1 4, .tins 0 3, .set 7 1, .set 5 5] →
      OpAvoids (after 6 10 progF22 ([.set 0 1, .set 2 1, .set 3 0, .set 5 5] ++ [.call 0 0])).derived 6 (nodeOf progF22 0 0) op) :=
  ⟨acyclic_of_bounded _ _ (by decide), fun g => by simp; omega, cleanCalls_of_B _ _ _ _ (by decide +kernel),
   by decide +kernel⟩

/- … while a write to key 0, which `t(0)` reads through `g` and the reader, is in the closure. -/
example : ¬ Avoids (after 6 10 progF22 ([.set 0 1, .set 2 1, .set 3 0, .set 5 5] ++ [.call 0 0])).derived (.src 0) 6 (nodeOf progF22 0 0) := by
  decide +kernel

/-- **Backdating** (any nesting depth).  Extra hypotheses, all explicit: acyclic call graph, fuel above
every rank, the calls of `pre` and the call of `(f, a)` are clean.  Across the call, every stored
node either is left alone, or (if not yet verified in this epoch) is verified — and then a node
whose value after the call equals its value before keeps its `time_updated` exactly, even when its
body was re-executed; `time_updated` never decreases. -/
theorem C02_backdating_partial (fuel cap : Nat) (P : Prog) (rank : Nat → Nat) (pre : List Op) (f a : Nat)
    (hacy : Acyclic P rank) (hrank : ∀ g, rank g < fuel) (hclean : CleanCalls fuel cap P (pre ++ [.call f a]))
    (q : NodeId) (rq rq' : Rev) (h0 : alookup (after fuel cap P pre).derived q = some rq)
    (h1 : alookup (after fuel cap P (pre ++ [.call f a])).derived q = some rq') :
    (rq'.val = rq.val → rq'.tu = rq.tu) ∧ rq.tu ≤ rq'.tu := by
  obtain ⟨hm, _⟩ := call_moves_just hacy fuel cap hrank pre f a hclean
  obtain ⟨r2, h2, hc⟩ := hm.node q rq h0
  rw [h1] at h2; cases h2
  have htu : rq.tu ≤ rq.tv := by
    have hinv : TopInv P (after fuel cap P pre) := by
      unfold after
      refine topInv_runS hacy fuel hrank pre _ (TopInv.init P cap P.length) ?_
      intro p f' a' rest' hp
      exact hclean p f' a' (rest' ++ [.call f a]) (by rw [hp]; simp)
    exact (hinv.nodes q rq h0).tu_tv
  rcases hc with rfl | ⟨_, _, hcase⟩
  · exact ⟨fun _ => rfl, Nat.le_refl _⟩
  · rcases hcase with ⟨_, e⟩ | ⟨_, hlt, hne⟩
    · exact ⟨fun _ => e, by rw [e]; exact Nat.le_refl _⟩
    · exact ⟨fun e => absurd e hne, by omega⟩

/-- **Every execution is justified** (stamp level, any nesting depth; same hypotheses).  The bodies
that run during the call of `(f, a)` are the new entries of the execution log; each of them belongs
to a node `m` that was not stored before the call, or that was stored, not yet verified in this
epoch, with a recorded dependency `d` that is stale (`StaleDep`): a source re-stamped after `d` was
recorded, an absent source now present, or a callee re-stamped after `d` was recorded — before the
call, or at the moment `sx` of the call because it was re-executed and produced a different value.
Together with `C02_backdating_partial`: a re-executed callee whose value did not change is not a
reason to run its dependents. -/
theorem C02_runs_justified_partial (fuel cap : Nat) (P : Prog) (rank : Nat → Nat) (pre : List Op) (f a : Nat)
    (hacy : Acyclic P rank) (hrank : ∀ g, rank g < fuel) (hclean : CleanCalls fuel cap P (pre ++ [.call f a])) :
    ∃ new, (after fuel cap P (pre ++ [.call f a])).log = new ++ (after fuel cap P pre).log ∧
      ∀ m, m ∈ new →
        alookup (after fuel cap P pre).derived m = none ∨
        ∃ rev d sx, alookup (after fuel cap P pre).derived m = some rev ∧ rev.tv < (after fuel cap P pre).epoch ∧
          d ∈ rev.deps ∧ Moves (after fuel cap P pre) sx ∧ StaleDep (after fuel cap P pre) sx d := by
  obtain ⟨_, new, e, j⟩ := call_moves_just hacy fuel cap hrank pre f a hclean
  refine ⟨new, e, fun m hm => ?_⟩
  rcases j m hm with h | ⟨rev, d, sx, h1, h2, h3, h4, h5⟩
  · exact Or.inl h
  · exact Or.inr ⟨rev, d, sx, h1, h2, h3, h4, staleDep_of_changed h4 h5⟩

/- Non-vacuity, the backdating chain: `t` calls `h`, `h` halves what the reader `r` returns.
Writing 5 over 4 re-executes `r` (new value) and `h` (same value 2: backdated), not `t`. -/
def progBack : Prog := [⟨0, .call 1 .param⟩, ⟨0, .half (.call 2 .param)⟩, ⟨0, .src .param⟩]

example : Acyclic progBack (fun i => 3 - i) ∧ (∀ g, (fun i => 3 - i) g < 5) ∧
    CleanCalls 5 10 progBack ([.set 0 4, .call 0 0, .set 0 5] ++ [.call 0 0]) ∧
    (after 5 10 progBack [.set 0 4, .call 0 0, .set 0 5]).log = [⟨2, 0⟩, ⟨1, 0⟩, ⟨0, 0⟩] ∧
    (after 5 10 progBack ([.set 0 4, .call 0 0, .set 0 5] ++ [.call 0 0])).log = [⟨1, 0⟩, ⟨2, 0⟩] ++ [⟨2, 0⟩, ⟨1, 0⟩, ⟨0, 0⟩] ∧
    (alookup (after 5 10 progBack [.set 0 4, .call 0 0, .set 0 5]).derived ⟨1, 0⟩).map (fun r => (r.val, r.tu)) = some (2, 2) ∧
    (alookup (after 5 10 progBack ([.set 0 4, .call 0 0, .set 0 5] ++ [.call 0 0])).derived ⟨1, 0⟩).map (fun r => (r.val, r.tu)) = some (2, 2) :=
  ⟨acyclic_of_bounded _ _ (by decide), fun g => by simp; omega, cleanCalls_of_B _ _ _ _ (by decide +kernel),
   by decide +kernel, by decide +kernel, by decide +kernel, by decide +kernel⟩

end IsoVerif.Props.C02
