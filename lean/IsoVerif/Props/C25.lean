/-
C25 — refetch references resolve to the refetch query generated for that field at that position.

Compiler side, abstractly (`IsoVerif.Ops.Book`, Model/Core/Refetch.lean): refetch paths are keys of a
`BTreeMap` (keys abstracted to their rank); a client field's reader numbers its refetchable selections
by the position of their path — relative to the field, in the field's own variables — in the field's
own map (`childIndex`); the parent hands down `usedRefetchQueries`: for the child's paths IN THAT SAME
ORDER, each transformed by the argument substitution `f`, its position in the parent's map; the
runtime composes the two lists (`readResolverFieldData`).  `selectedKey parent f child σ` is the key
of the query the runtime ends up with for the child's selection `σ`.

The statement was false on the unchanged tree (F18): the parent transformed the child's paths FIRST
and sorted the results afterwards, through a set (`usedRefetchQueriesOld`), which is right only when the
substitution preserves the order of the child's keys (and keeps them distinct).  Both counterexamples
were confirmed on the real compiler and the real read.ts (corpus/C25/witnesses.txt, findings.txt).
Repaired by 34522e4; the statement now holds for every substitution.
-/
import IsoVerif.Lemmas.OpsRefetch

namespace IsoVerif.Props.C25
open IsoVerif.Ops.Book

/-- the property: for EVERY argument substitution the composed indices select the query generated
for the transformed key of the selection -/
theorem C25_resolves (parentPaths : List Nat) (f : Nat → Nat) (childPaths : List Nat) (σ : Nat)
    (hσ : σ ∈ childPaths) (hsub : ∀ k ∈ childPaths, f k ∈ parentPaths) :
    selectedKey parentPaths f childPaths σ = some (f σ) :=
  selectedKey_correct parentPaths f childPaths σ hσ hsub

/-- the hypotheses are satisfiable by a substitution that reverses the order AND merges keys -/
example : selectedKey [9, 7, 5, 6, 3] (fun k => 7 - k / 2 * 2) [2, 0, 3, 1, 2] 3 = some 5 := by decide

/-- the same statement about the bookkeeping before the repair -/
def C25_statement_before_repair : Prop :=
  ∀ (parentPaths : List Nat) (f : Nat → Nat) (childPaths : List Nat) (σ : Nat),
    σ ∈ childPaths → (∀ k ∈ childPaths, f k ∈ parentPaths) →
    selectedKeyOld parentPaths f childPaths σ = some (f σ)

/-- F18: two keys whose order the substitution swaps (`$a ↦ "zzz"`, `$b ↦ "aaa"`): the selection
numbered 0 in the child resolved to the OTHER key's query; it resolves to its own now -/
theorem C25_fixed_reorder :
    ¬ C25_statement_before_repair ∧ selectedKey [0, 1] (fun k => 1 - k) [0, 1] 0 = some 1 :=
  ⟨fun h => witnessOld_not_expected (h [0, 1] (fun k => 1 - k) [0, 1] 0 (by decide) (by decide)),
   selectedKey_repaired_reorder⟩

/-- the variant: two keys of the child that BECOME EQUAL under the substitution (`items(only: $n)`
with `n = 100` next to `items(only: 100)`): the parent handed down one index for both, the child's
second index was out of range (read.ts throws); both resolve to the one query now -/
theorem C25_fixed_keys_merge :
    selectedKeyOld [5] (fun _ => 5) [0, 1] 1 = none ∧ selectedKey [5] (fun _ => 5) [0, 1] 1 = some 5 :=
  ⟨selectedKeyOld_witness_merge, selectedKey_repaired_merge⟩

/-- what held before the repair: when the substitution keeps the (strict) order of the child's keys,
the old composition was right too — and agreed with the repaired one -/
theorem C25_before_repair_partial (parentPaths : List Nat) (f : Nat → Nat) (childPaths : List Nat) (σ : Nat)
    (hσ : σ ∈ childPaths) (hop : OrderPreserving f childPaths) (hnd : childPaths.Nodup)
    (hsub : ∀ k ∈ childPaths, f k ∈ parentPaths) :
    selectedKeyOld parentPaths f childPaths σ = some (f σ) :=
  selectedKeyOld_of_orderPreserving parentPaths f childPaths σ hσ hop hnd hsub

example : OrderPreserving (fun k => k + 5) [0, 1, 2] := by
  intro a ha b hb hab
  simp only at *
  omega

/-- sorting commutes with an order-preserving transformation -/
theorem C25_sort_commutes (f : Nat → Nat) (childPaths : List Nat) (h : OrderPreserving f childPaths) :
    sortKeys (childPaths.map f) = (sortKeys childPaths).map f :=
  sortKeys_map_of_orderPreserving f childPaths h

/-- both witnesses were outside that envelope -/
theorem C25_witnesses_not_order_preserving :
    ¬ OrderPreserving (fun k => 1 - k) [0, 1] ∧ ¬ OrderPreserving (fun _ => 5) [0, 1] :=
  ⟨witness_not_orderPreserving, witness_merge_not_orderPreserving⟩

end IsoVerif.Props.C25
