/-
C25 — refetch references resolve to the refetch query generated for that field at that position.

Compiler side, abstractly (`IsoVerif.Ops.Book`, Model/Core/Refetch.lean): refetch paths are keys of a
`BTreeMap`; a client field's reader numbers its refetchable selections by the position of their
UNTRANSFORMED path in the field's own map; the parent hands down, for the field's paths TRANSFORMED by
the argument substitution `f` and then sorted, their positions in its own map; the runtime composes
the two lists.  `selectedKey parent f child σ` is the key of the query the runtime ends up with.

The full statement is false on the unchanged tree (F18, open finding `refetch-order-after-substitution`,
replayed on the real compiler and the real read.ts from corpus/C25/witnesses.txt); it holds when the
substitution preserves the order of the child's keys.
-/
import IsoVerif.Lemmas.OpsRefetch

namespace IsoVerif.Props.C25
open IsoVerif.Ops.Book

/-- the property: for EVERY argument substitution the composed indices select the query generated
for the transformed key of the selection -/
def C25_statement : Prop :=
  ∀ (parentPaths : List Nat) (f : Nat → Nat) (childPaths : List Nat) (σ : Nat),
    σ ∈ childPaths → (∀ k ∈ childPaths, f k ∈ parentPaths) →
    selectedKey parentPaths f childPaths σ = some (f σ)

/-- F18: two keys whose order the substitution swaps (`$a ↦ "zzz"`, `$b ↦ "aaa"`): the selection
numbered 0 in the child resolves to the OTHER key's query -/
theorem C25_witness_reorder : ¬ C25_statement := by
  intro h
  exact witness_not_expected (h [0, 1] (fun k => 1 - k) [0, 1] 0 (by decide) (by decide))

/-- sorting commutes with an order-preserving transformation: the list the parent hands down is the
child's own numbering, transformed -/
theorem C25_sort_commutes (f : Nat → Nat) (childPaths : List Nat) (h : OrderPreserving f childPaths) :
    sortKeys (childPaths.map f) = (sortKeys childPaths).map f :=
  sortKeys_map_of_orderPreserving f childPaths h

/-- what holds: when the substitution keeps the (strict) order of the child's keys, composing the
index lists selects the query generated for that selection at that position -/
theorem C25_partial (parentPaths : List Nat) (f : Nat → Nat) (childPaths : List Nat) (σ : Nat)
    (hσ : σ ∈ childPaths) (hop : OrderPreserving f childPaths) (hnd : childPaths.Nodup)
    (hsub : ∀ k ∈ childPaths, f k ∈ parentPaths) :
    selectedKey parentPaths f childPaths σ = some (f σ) :=
  selectedKey_of_orderPreserving parentPaths f childPaths σ hσ hop hnd hsub

/-- a second way to leave the envelope: two keys of the child that BECOME EQUAL under the substitution
(`items(only: $n)` with `n = 100` next to `items(only: 100)`): the parent hands down one index for
both, the child's second index is out of range (read.ts throws) -/
theorem C25_witness_keys_merge : ¬ C25_statement := by
  intro h
  have := h [5] (fun _ => 5) [0, 1] 1 (by decide) (by decide)
  rw [selectedKey_witness_merge] at this
  cases this

example : OrderPreserving (fun k => k + 5) [0, 1, 2] := by
  intro a ha b hb hab
  simp only at *
  omega

example : selectedKey [9, 7, 5, 6, 3] (fun k => k + 5) [0, 1, 2] 1 = some 6 := by decide

/-- the witness is outside the envelope of `C25_partial` -/
theorem C25_witness_not_order_preserving : ¬ OrderPreserving (fun k => 1 - k) [0, 1] :=
  witness_not_orderPreserving

theorem C25_witness_merge_not_order_preserving : ¬ OrderPreserving (fun _ => 5) [0, 1] :=
  witness_merge_not_orderPreserving

end IsoVerif.Props.C25
