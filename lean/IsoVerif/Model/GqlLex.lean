/-
M-GQL / lexical layer.

* `specLex` — the lexical grammar of the June-2018 GraphQL specification (§2.1), written by hand
  from the specification text: SourceCharacter, UnicodeBOM, WhiteSpace, LineTerminator, Comment,
  Comma (ignored), Punctuator, Name, IntValue, FloatValue, StringValue (quoted and block).
  Tokens are the longest possible match.  June 2018 has **no** look-ahead restriction on numbers
  (that is the later RFC #601): `1a` lexes as `1` `a`, `01` as `0` `1`, `1e` as `1` `e`;
  `1.` is `1` followed by the non-token `.` (lexical error).  A `"""` always opens a block string
  (what the 2018 text leaves implicit and the later editorial change #599 spells out).
  `&` is a punctuator (used by ImplementsInterfaces; missing from the 2018 Punctuator list by
  oversight).
* `relayLex` — model of `TokenKind::lexer` of relay_lexer.rs: logos maximal munch over the rule
  table `IsoVerif.Gen.GqlTokens.tokenKind` (regenerated from the Rust source by translator T2),
  with the two callbacks `lex_string` / `lex_block_string` modelled as nested runs over the
  generated sub-tables.  `BlockStringToken::Error => unreachable!()` is the explicit outcome
  `.panic`.
-/
import IsoVerif.Model.GqlRe
import IsoVerif.Gen.GqlTokens

namespace IsoVerif.Gql

/-! ### tokens -/

inductive Punct where
  | bang | dollar | amp | lparen | rparen | spread | colon | eq | at | lbrack | rbrack
  | lbrace | pipe | rbrace
deriving DecidableEq, Repr, Inhabited

inductive Tok where
  | punct (p : Punct)
  | name (s : Str)
  | int (src : Str)          -- source text of an IntValue
  | float (src : Str)        -- source text of a FloatValue
  | str (raw : Str)          -- source text between the quotes of a quoted string
  | block (raw : Str)        -- source text between the `"""` of a block string
deriving DecidableEq, Repr, Inhabited

/-! ### character classes of the specification -/

def isDigit (c : Nat) : Bool := decide (48 ≤ c) && decide (c ≤ 57)
def isNameStart (c : Nat) : Bool :=
  c == 95 || (decide (65 ≤ c) && decide (c ≤ 90)) || (decide (97 ≤ c) && decide (c ≤ 122))
def isNameCont (c : Nat) : Bool := isNameStart c || isDigit c
def isHexDigit (c : Nat) : Bool :=
  isDigit c || (decide (65 ≤ c) && decide (c ≤ 70)) || (decide (97 ≤ c) && decide (c ≤ 102))
/-- SourceCharacter :: /[\u0009\u000A\u000D -￿]/ -/
def isSourceChar (c : Nat) : Bool :=
  c == 9 || c == 10 || c == 13 || (decide (32 ≤ c) && decide (c ≤ 65535))
/-- WhiteSpace :: tab | space -/
def isWhiteSpace (c : Nat) : Bool := c == 9 || c == 32
/-- one-character Ignored tokens: UnicodeBOM, WhiteSpace, LineTerminator characters, Comma -/
def isIgnoredChar (c : Nat) : Bool :=
  c == 65279 || c == 9 || c == 32 || c == 10 || c == 13 || c == 44
/-- EscapedCharacter :: one of `"` `\` `/` b f n r t -/
def isEscapedChar (c : Nat) : Bool :=
  c == 34 || c == 92 || c == 47 || c == 98 || c == 102 || c == 110 || c == 114 || c == 116

/-- Name :: /[_A-Za-z][_0-9A-Za-z]*/ -/
def isName : Str → Bool
  | [] => false
  | c :: cs => isNameStart c && cs.all isNameCont

def spanP (p : Nat → Bool) : Str → Str × Str
  | [] => ([], [])
  | c :: cs => if p c then let (a, b) := spanP p cs; (c :: a, b) else ([], c :: cs)

/-! ### numbers (spec §2.9.1, §2.9.2), longest match, no look-ahead restriction -/

/-- IntegerPart :: NegativeSign? 0 | NegativeSign? NonZeroDigit Digit* -/
def lexIntegerPart (s : Str) : Option (Str × Str) :=
  let (neg, r) := match s with
    | 45 :: r => ([45], r)
    | _ => ([], s)
  match r with
  | [] => none
  | d :: r1 =>
    if d == 48 then some (neg ++ [48], r1)
    else if isDigit d then
      let (ds, r2) := spanP isDigit r1
      some (neg ++ d :: ds, r2)
    else none

/-- FractionalPart :: . Digit+ (none when the text does not start with one) -/
def lexFraction (s : Str) : Option (Str × Str) :=
  match s with
  | 46 :: d :: r =>
    if isDigit d then
      let (ds, r2) := spanP isDigit r
      some (46 :: d :: ds, r2)
    else none
  | _ => none

/-- ExponentPart :: ExponentIndicator Sign? Digit+ -/
def lexExponent (s : Str) : Option (Str × Str) :=
  match s with
  | e :: r =>
    if e == 101 || e == 69 then
      let (sign, r1) := match r with
        | 43 :: r1 => ([43], r1)
        | 45 :: r1 => ([45], r1)
        | _ => ([], r)
      match r1 with
      | d :: r2 =>
        if isDigit d then
          let (ds, r3) := spanP isDigit r2
          some (e :: sign ++ d :: ds, r3)
        else none
      | [] => none
    else none
  | [] => none

/-- IntValue / FloatValue at the head of `s` (which starts with `-` or a digit). -/
def lexNumber (s : Str) : Option (Tok × Str) :=
  match lexIntegerPart s with
  | none => none
  | some (ip, r) =>
    match lexFraction r with
    | some (fr, r1) =>
      match lexExponent r1 with
      | some (ex, r2) => some (.float (ip ++ fr ++ ex), r2)
      | none => some (.float (ip ++ fr), r1)
    | none =>
      match lexExponent r with
      | some (ex, r2) => some (.float (ip ++ ex), r2)
      | none => some (.int ip, r)

/-! ### strings (spec §2.9.4) -/

/-- after the opening `"`: StringCharacter* `"`; returns the raw inner text and the rest -/
def lexQuoted : Nat → Str → Str → Option (Str × Str)
  | 0, _, _ => none
  | _ + 1, [], _ => none
  | f + 1, c :: r, acc =>
    if c == 34 then some (acc.reverse, r)
    else if c == 92 then
      match r with
      | 117 :: a :: b :: c2 :: d :: r' =>
        if isHexDigit a && isHexDigit b && isHexDigit c2 && isHexDigit d then
          lexQuoted f r' (d :: c2 :: b :: a :: 117 :: 92 :: acc)
        else none
      | e :: r' => if isEscapedChar e then lexQuoted f r' (e :: 92 :: acc) else none
      | [] => none
    else if c == 10 || c == 13 then none
    else if isSourceChar c then lexQuoted f r (c :: acc)
    else none

/-- after the opening `"""`: BlockStringCharacter* `"""` -/
def lexBlock : Nat → Str → Str → Option (Str × Str)
  | 0, _, _ => none
  | _ + 1, [], _ => none
  | f + 1, c :: r, acc =>
    match c, r with
    | 34, 34 :: 34 :: r' => some (acc.reverse, r')
    | 92, 34 :: 34 :: 34 :: r' => lexBlock f r' (34 :: 34 :: 34 :: 92 :: acc)
    | _, _ => if isSourceChar c then lexBlock f r (c :: acc) else none

def punctOf (c : Nat) : Option Punct :=
  if c == 33 then some .bang else if c == 36 then some .dollar else if c == 38 then some .amp
  else if c == 40 then some .lparen else if c == 41 then some .rparen else if c == 58 then some .colon
  else if c == 61 then some .eq else if c == 64 then some .at else if c == 91 then some .lbrack
  else if c == 93 then some .rbrack else if c == 123 then some .lbrace else if c == 124 then some .pipe
  else if c == 125 then some .rbrace else none

/-- The spec lexer: `none` = the text is not a sequence of Ignored and Token. -/
def specLexAux : Nat → Str → List Tok → Option (List Tok)
  | 0, _, _ => none
  | _ + 1, [], acc => some acc.reverse
  | f + 1, c :: r, acc =>
    if isIgnoredChar c then specLexAux f r acc
    else if c == 35 then
      let (cm, r') := spanP (fun x => !(x == 10 || x == 13)) r
      if cm.all isSourceChar then specLexAux f r' acc else none
    else match punctOf c with
    | some p => specLexAux f r (.punct p :: acc)
    | none =>
      if c == 46 then
        match r with
        | 46 :: 46 :: r' => specLexAux f r' (.punct .spread :: acc)
        | _ => none
      else if isNameStart c then
        let (n, r') := spanP isNameCont r
        specLexAux f r' (.name (c :: n) :: acc)
      else if c == 45 || isDigit c then
        match lexNumber (c :: r) with
        | some (t, r') => specLexAux f r' (t :: acc)
        | none => none
      else if c == 34 then
        match r with
        | 34 :: 34 :: r' =>
          match lexBlock (r'.length + 1) r' [] with
          | some (raw, r'') => specLexAux f r'' (.block raw :: acc)
          | none => none
        | _ =>
          match lexQuoted (r.length + 1) r [] with
          | some (raw, r'') => specLexAux f r'' (.str raw :: acc)
          | none => none
      else none

def specLex (s : Str) : Option (List Tok) := specLexAux (s.length + 1) s []

/-! ### relay's lexer: logos over the generated tables -/

inductive LexResult where
  | ok (toks : List Tok)
  | error (kind : Str)       -- first error token (generic `Error` or a specific error kind)
  | panic
deriving DecidableEq, Repr, Inhabited

open IsoVerif.Gen.GqlTokens

inductive SubResult where
  | tok (t : Tok) (rest : Str)
  | error (kind : Str)
  | panic

/-- `lex_string`: run `StringToken` over the remainder after the opening quote. -/
def relayString : Nat → Str → Str → SubResult
  | 0, _, _ => .error (cps "ErrorUnterminatedString")
  | _ + 1, [], _ => .error (cps "ErrorUnterminatedString")
  | f + 1, s@(_ :: _), acc =>
    match bestRule stringToken s with
    | none => .error (cps "ErrorUnsupportedStringCharacter")
    | some (rule, n) =>
      if rule.kind == cps "Quote" then .tok (.str acc) (s.drop n)
      else if rule.kind == cps "LineTerminator" then .error (cps "ErrorUnterminatedString")
      else relayString f (s.drop n) (acc ++ s.take n)

/-- `lex_block_string`: run `BlockStringToken` over the remainder after the opening `"""`. -/
def relayBlock : Nat → Str → Str → SubResult
  | 0, _, _ => .error (cps "ErrorUnterminatedBlockString")
  | _ + 1, [], _ => .error (cps "ErrorUnterminatedBlockString")
  | f + 1, s@(_ :: _), acc =>
    match bestRule blockStringToken s with
    | none => .panic                      -- BlockStringToken::Error => unreachable!()
    | some (rule, n) =>
      if rule.kind == cps "TripleQuote" then .tok (.block acc) (s.drop n)
      else relayBlock f (s.drop n) (acc ++ s.take n)

def punctOfKind (k : Str) : Option Punct :=
  if k == cps "Ampersand" then some .amp else if k == cps "At" then some .at
  else if k == cps "CloseBrace" then some .rbrace else if k == cps "CloseBracket" then some .rbrack
  else if k == cps "CloseParen" then some .rparen else if k == cps "Colon" then some .colon
  else if k == cps "Dollar" then some .dollar else if k == cps "Equals" then some .eq
  else if k == cps "Exclamation" then some .bang else if k == cps "OpenBrace" then some .lbrace
  else if k == cps "OpenBracket" then some .lbrack else if k == cps "OpenParen" then some .lparen
  else if k == cps "Pipe" then some .pipe else if k == cps "Spread" then some .spread else none

/-- All tokens of relay's lexer up to the first error token.  (Every error token — generic or
specific, and the never-accepted `Period` / `PeriodPeriod` — makes both parsers reject, see
Model/GqlParse.lean; the first one is kept for classification.) -/
def relayLexAux : Nat → Str → List Tok → LexResult
  | 0, _, _ => .error (cps "fuel")
  | _ + 1, [], acc => .ok acc.reverse
  | f + 1, s@(_ :: _), acc =>
    match bestRule tokenKind s with
    | none => .error (cps "Error")
    | some (rule, n) =>
      let text := s.take n
      let rest := s.drop n
      if rule.skip then relayLexAux f rest acc
      else if rule.callback == cps "lex_string" then
        match relayString (rest.length + 1) rest [] with
        | .tok t rest' => relayLexAux f rest' (t :: acc)
        | .error k => .error k
        | .panic => .panic
      else if rule.callback == cps "lex_block_string" then
        match relayBlock (rest.length + 1) rest [] with
        | .tok t rest' => relayLexAux f rest' (t :: acc)
        | .error k => .error k
        | .panic => .panic
      else if rule.kind == cps "Identifier" then relayLexAux f rest (.name text :: acc)
      else if rule.kind == cps "IntegerLiteral" then relayLexAux f rest (.int text :: acc)
      else if rule.kind == cps "FloatLiteral" then relayLexAux f rest (.float text :: acc)
      else match punctOfKind rule.kind with
        | some p => relayLexAux f rest (.punct p :: acc)
        | none => .error rule.kind     -- Error* kinds, Period, PeriodPeriod

def relayLex (s : Str) : LexResult := relayLexAux (s.length + 1) s []

end IsoVerif.Gql
