/-
Declarative specification of a diagnostic excerpt (property C31), independent of the
Before/Inside/After state machine of the implementation.  It is executable, so the driver can
evaluate it on the *implementation's* output (the direct oracle), and `Props/C31.lean` proves
that the model of the implementation equals it.

A line `k` of the text starts at byte offset `sol k`; its content (without the `\n`) is `L`.
For a span `[s, e)`:
* the line is *touched* when `s < sol + |L| + 1` and `sol ≤ e`;
* a touched line is *underlined* when some byte of `L` lies at or after `s` (`s - sol < |L|`),
  `e > sol`, i.e. the span reaches into the line's content;
* the caret line has one cell per **character** of `L`: `^` when the character's first byte
  lies in `[s, e)`, a space otherwise.
-/
import IsoVerif.Model.Carats

namespace IsoVerif.CaratsSpec
open IsoVerif.Util IsoVerif.Carats

/-- Caret line for line content `L` starting at absolute offset `sol`. -/
def caretCells (s e sol : Nat) : Nat → Bytes → Bytes
  | _, [] => []
  | j, b :: bs =>
    if isLead b then
      (if s ≤ sol + j ∧ sol + j < e then caret else sp) :: caretCells s e sol (j + 1) bs
    else caretCells s e sol (j + 1) bs

def touched (s e sol len : Nat) : Bool := decide (s < sol + len + 1) && decide (sol ≤ e)

def underlined (s e sol len : Nat) : Bool :=
  decide (s - sol < len) && decide (sol < e) && decide (0 < len)

/-- All output lines (source lines, and a caret line after each underlined one), together with
the out-index just after the first underlined source line and just after the last caret line. -/
def build (s e : Nat) : Nat → List Bytes → Array Bytes → Option Nat → Nat → Array Bytes × Option Nat × Nat
  | _, [], out, first, last => (out, first, last)
  | sol, L :: rest, out, first, last =>
    let out1 := out.push L
    if touched s e sol L.length && underlined s e sol L.length then
      let first' := match first with | none => some out1.size | some f => some f
      build s e (sol + L.length + 1) rest (out1.push (caretCells s e sol 0 L)) first' (out1.size + 1)
    else build s e (sol + L.length + 1) rest out1 first last

/-- 1 + number of `\n` strictly before offset `s`. -/
def rowOf (text : Bytes) (s : Nat) : Nat := 1 + ((text.take s).filter (· == 10)).length

def specRender (text : Bytes) (s e buffer : Nat) : Bytes × Option Nat :=
  let (out, first, last) := build s e 0 (splitLines text) #[] none 0
  let row := if s ≤ text.length then some (rowOf text s) else none
  match first with
  | none => ([], row)
  | some f =>
    let lo := f - (buffer + 1)
    let hi := min (last + buffer) out.size
    (joinLines ((out.toList.drop lo).take (hi - lo)), row)

/-- The hypotheses of C31: a non-empty span inside the text, on character boundaries. -/
def goodSpan (text : Bytes) (s e : Nat) : Bool :=
  decide (s < e) && decide (e ≤ text.length) && isBoundary text s && isBoundary text e

/-- What the property observes of a result: the excerpt and the reported row. -/
def observe : Carats.Result → Option (Bytes × Option Nat)
  | .ok t r => some (t, r.map (·.1))
  | .panic _ => none

/-- Direct oracle: what the implementation returned must be the specified excerpt. -/
def oracle (text : Bytes) (s e buffer : Nat) (implOut : Bytes) (implRow : Option Nat)
    (implPanicked : Bool) : Bool :=
  if !(goodSpan text s e) then true
  else !implPanicked && (specRender text s e buffer == (implOut, implRow))

end IsoVerif.CaratsSpec
