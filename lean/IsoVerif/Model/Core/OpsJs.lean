/-
`jsValue`: the string a JavaScript engine obtains from a generated `query_text.ts` /
`__refetch__query_text__N.ts` module, i.e. the evaluation of

    (// comment lines)*  export default '<single-quoted string literal>';

following ECMAScript §12.9.4 (String Literals) for a strict-mode module: line continuations
(`\` + LF / CR / CR LF / U+2028 / U+2029) contribute nothing, `\' \" \\ \b \f \n \r \t \v`,
`\0` (not followed by a digit), `\xHH`, `\uHHHH`, `\u{H…}`, any other escaped non-line-terminator
character stands for itself, `\1`–`\9` and `\0d` are SyntaxErrors in strict code, an unescaped LF or
CR inside the literal is a SyntaxError, the literal ends at the first unescaped `'`.  `none` = the
module does not compile (SyntaxError) — then there is no string for the runtime to read.

The value is a list of Unicode scalar values (UTF-16 surrogate pairs written as `😀`
are combined, a lone surrogate becomes U+FFFD, which is how the harness transports it as UTF-8).
-/
import IsoVerif.Model.Core.Merged

namespace IsoVerif.Ops
open IsoVerif.Core

def isLineTerminator (c : Nat) : Bool := c == 10 || c == 13 || c == 0x2028 || c == 0x2029

def hexDigit? (c : Nat) : Option Nat :=
  if 48 ≤ c && c ≤ 57 then some (c - 48)
  else if 97 ≤ c && c ≤ 102 then some (c - 87)
  else if 65 ≤ c && c ≤ 70 then some (c - 55)
  else none

def isDecDigit (c : Nat) : Bool := 48 ≤ c && c ≤ 57

/-- `\u{H+}`: digits up to the closing brace, value ≤ 0x10FFFF -/
def braceHex : Nat → Str → Nat → Bool → Option (Nat × Str)
  | 0, _, _, _ => none
  | _, [], _, _ => none
  | fuel + 1, c :: rest, acc, any =>
    if c == 125 then (if any && acc ≤ 0x10FFFF then some (acc, rest) else none)
    else match hexDigit? c with
      | some d => if acc * 16 + d > 0x10FFFF then none else braceHex fuel rest (acc * 16 + d) true
      | none => none

/-- a code point as UTF-16 code units -/
def utf16Units (c : Nat) : List Nat :=
  if c < 0x10000 then [c] else [0xD800 + (c - 0x10000) / 1024, 0xDC00 + (c - 0x10000) % 1024]

/-- the body of a single-quoted string literal (the text after the opening quote):
the code units of its value (reversed accumulator) and the text after the closing quote -/
def sqBody : Nat → Str → List Nat → Option (List Nat × Str)
  | 0, _, _ => none
  | _, [], _ => none
  | fuel + 1, c :: rest, acc =>
    if c == 39 then some (acc.reverse, rest)
    else if c == 10 || c == 13 then none
    else if c == 92 then
      match rest with
      | [] => none
      | e :: r =>
        -- line continuation
        if e == 13 then (match r with
          | 10 :: r' => sqBody fuel r' acc
          | _ => sqBody fuel r acc)
        else if e == 10 || e == 0x2028 || e == 0x2029 then sqBody fuel r acc
        else if e == 98 then sqBody fuel r (8 :: acc)
        else if e == 102 then sqBody fuel r (12 :: acc)
        else if e == 110 then sqBody fuel r (10 :: acc)
        else if e == 114 then sqBody fuel r (13 :: acc)
        else if e == 116 then sqBody fuel r (9 :: acc)
        else if e == 118 then sqBody fuel r (11 :: acc)
        else if e == 48 then (match r with
          | d :: _ => if isDecDigit d then none else sqBody fuel r (0 :: acc)
          | [] => sqBody fuel r (0 :: acc))
        else if isDecDigit e then none
        else if e == 120 then (match r with
          | a :: b :: r' => (match hexDigit? a, hexDigit? b with
            | some x, some y => sqBody fuel r' ((x * 16 + y) :: acc)
            | _, _ => none)
          | _ => none)
        else if e == 117 then (match r with
          | 123 :: r' => (match braceHex (r'.length + 1) r' 0 false with
            | some (v, r'') => sqBody fuel r'' ((utf16Units v).reverse ++ acc)
            | none => none)
          | a :: b :: c2 :: d :: r' => (match hexDigit? a, hexDigit? b, hexDigit? c2, hexDigit? d with
            | some w, some x, some y, some z => sqBody fuel r' ((w * 4096 + x * 256 + y * 16 + z) :: acc)
            | _, _, _, _ => none)
          | _ => none)
        else sqBody fuel r ((utf16Units e).reverse ++ acc)
    else sqBody fuel rest ((utf16Units c).reverse ++ acc)

/-- UTF-16 code units to scalar values (lone surrogates become U+FFFD) -/
def unitsToScalars : List Nat → Str
  | [] => []
  | [u] => if 0xD800 ≤ u && u ≤ 0xDFFF then [0xFFFD] else [u]
  | u :: v :: rest =>
    if 0xD800 ≤ u && u ≤ 0xDBFF && 0xDC00 ≤ v && v ≤ 0xDFFF then
      (0x10000 + (u - 0xD800) * 1024 + (v - 0xDC00)) :: unitsToScalars rest
    else if 0xD800 ≤ u && u ≤ 0xDFFF then 0xFFFD :: unitsToScalars (v :: rest)
    else u :: unitsToScalars (v :: rest)

def isJsSpace (c : Nat) : Bool :=
  c == 32 || c == 9 || c == 10 || c == 13 || c == 11 || c == 12 || c == 0xA0 || c == 0xFEFF || c == 0x2028 || c == 0x2029

/-- white space and `//` line comments -/
def skipTrivia : Nat → Str → Str
  | 0, s => s
  | _, [] => []
  | fuel + 1, c :: rest =>
    if isJsSpace c then skipTrivia fuel rest
    else if c == 47 && rest.head? == some 47 then skipTrivia fuel (rest.dropWhile fun x => !isLineTerminator x)
    else c :: rest

def exportDefault : Str := cs!"export default '"

/-- the default export of the module, when the module is `export default '<literal>';` -/
def jsValue (file : Str) : Option Str :=
  let s := skipTrivia (file.length + 1) file
  if exportDefault.isPrefixOf s then
    let body := s.drop exportDefault.length
    match sqBody (body.length + 1) body [] with
    | none => none
    | some (units, rest) =>
      match skipTrivia (rest.length + 1) rest with
      | 59 :: rest' => if (skipTrivia (rest'.length + 1) rest').isEmpty then some (unitsToScalars units) else none
      | [] => some (unitsToScalars units)        -- automatic semicolon insertion at the end of input
      | _ => none
  else none

/-- `query_text_as_single_quoted_js_string_body` (artifact_content/src/operation_text.rs): how the
operation text is written between the quotes — the printer's backslash+LF line continuations are
kept, every other backslash and every apostrophe (they come from string arguments) is escaped -/
def escapeJs : Str → Str
  | [] => []
  | 92 :: 10 :: rest => 92 :: 10 :: escapeJs rest
  | 92 :: rest => 92 :: 92 :: escapeJs rest
  | 39 :: rest => 92 :: 39 :: escapeJs rest
  | c :: rest => c :: escapeJs rest

/-- the query_text.ts the compiler writes for an operation text -/
def queryTextFile (text : Str) : Str := exportDefault ++ escapeJs text ++ cs!"';"

/-- what the compiler embeds: the text between `export default '` and the final `';` -/
def embeddedRaw (file : Str) : Option Str :=
  let s := skipTrivia (file.length + 1) file
  if exportDefault.isPrefixOf s then
    match (s.drop exportDefault.length).reverse with
    | 59 :: 39 :: r => some r.reverse
    | _ => none
  else none

end IsoVerif.Ops
