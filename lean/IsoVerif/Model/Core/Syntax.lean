/-
M-CORE, abstract syntax.  Import-free.

Mirror of `/verif/harness/projgen/src/model.rs`, constructor for constructor and field for
field (same order), so that the wire format (`Model/Core/Wire.lean` ↔ `wire.rs`) is a
plain structural traversal on both sides.  Changing a type here means changing `model.rs`,
`wire.rs` and `Wire.lean` as well.

Conventions (same as on the Rust side)
* names are `String`s holding exactly the rendered characters;
* `Value.str` holds the RAW text between the quotes of the iso literal (the iso parser does
  not unescape), `Value.float` holds the lexeme;
* file paths are relative to the project directory and use `/`;
* recursive occurrences are nested through `List` (and `String × _`) only; functions over
  `Value` / `Selection` are written as `mutual` blocks with an auxiliary function per list
  (see `Value.variables`), which Lean accepts as structural recursion;
* `DecidableEq` cannot be derived for the two nested inductives (`Value`, `Selection`); it is
  provided by hand (a structural `beq` plus `eq_of_beq` / `beq_self`, axioms `propext`,
  `Quot.sound`), and derived for everything else, so `decide` works on closed syntax.
-/
namespace IsoVerif.Core

/-- GraphQL type reference: `T`, `[T]`, `T!`. -/
inductive TypeRef where
  | named (name : String)
  | list (inner : TypeRef)
  | nonNull (inner : TypeRef)
  deriving Repr, DecidableEq, Inhabited

namespace TypeRef

/-- innermost named type -/
def inner : TypeRef → String
  | named n => n
  | list t => t.inner
  | nonNull t => t.inner

def isNonNull : TypeRef → Bool
  | nonNull _ => true
  | _ => false

def isNullable (t : TypeRef) : Bool := !t.isNonNull

/-- one outer `!` removed -/
def nullable : TypeRef → TypeRef
  | nonNull t => t
  | t => t

/-- a list wrapper occurs somewhere -/
def isList : TypeRef → Bool
  | named _ => false
  | list _ => true
  | nonNull t => t.isList

/-- GraphQL spelling without spaces: `[Pet!]!` -/
def render : TypeRef → String
  | named n => n
  | list t => "[" ++ t.render ++ "]"
  | nonNull t => t.render ++ "!"

end TypeRef

/-- Argument / default values.  The real iso parser has syntax for `int`, `bool`, `null`,
`str`, `var`, `object` only; `float`, `enum`, `list` exist in the compiler's
`NonConstantValue` and therefore in the model. -/
inductive Value where
  | int (i : Int)
  | float (lexeme : String)
  | bool (b : Bool)
  | null
  | enum (name : String)
  | str (raw : String)
  | var (name : String)
  | object (fields : List (String × Value))
  | list (items : List Value)
  deriving Repr, Inhabited

namespace Value

mutual
/-- every variable mentioned, in order of appearance, with duplicates -/
def variables : Value → List String
  | .var n => [n]
  | .object fs => variablesFields fs
  | .list vs => variablesList vs
  | _ => []
def variablesFields : List (String × Value) → List String
  | [] => []
  | (_, v) :: rest => variables v ++ variablesFields rest
def variablesList : List Value → List String
  | [] => []
  | v :: rest => variables v ++ variablesList rest
end

mutual
def beq : Value → Value → Bool
  | .int a, .int b => a == b
  | .float a, .float b => a == b
  | .bool a, .bool b => a == b
  | .null, .null => true
  | .enum a, .enum b => a == b
  | .str a, .str b => a == b
  | .var a, .var b => a == b
  | .object a, .object b => beqFields a b
  | .list a, .list b => beqList a b
  | _, _ => false
def beqFields : List (String × Value) → List (String × Value) → Bool
  | [], [] => true
  | (k, v) :: r, (k', v') :: r' => k == k' && beq v v' && beqFields r r'
  | _, _ => false
def beqList : List Value → List Value → Bool
  | [], [] => true
  | v :: r, v' :: r' => beq v v' && beqList r r'
  | _, _ => false
end

/-! `beq` decides equality (proved, so that `DecidableEq` is available for everything built
on `Value`; `deriving DecidableEq` does not handle nested inductives). -/

mutual
theorem eq_of_beq : ∀ (a b : Value), beq a b = true → a = b
  | .int a, .int b, h => by simp [beq] at h; simp [h]
  | .float a, .float b, h => by simp [beq] at h; simp [h]
  | .bool a, .bool b, h => by simp [beq] at h; simp [h]
  | .null, .null, _ => rfl
  | .enum a, .enum b, h => by simp [beq] at h; simp [h]
  | .str a, .str b, h => by simp [beq] at h; simp [h]
  | .var a, .var b, h => by simp [beq] at h; simp [h]
  | .object a, .object b, h => by simp [beq] at h; rw [eq_of_beqFields a b h]
  | .list a, .list b, h => by simp [beq] at h; rw [eq_of_beqList a b h]
  | .int _, .float _, h | .int _, .bool _, h | .int _, .null, h | .int _, .enum _, h | .int _, .str _, h | .int _, .var _, h | .int _, .object _, h | .int _, .list _, h => by simp [beq] at h
  | .float _, .int _, h | .float _, .bool _, h | .float _, .null, h | .float _, .enum _, h | .float _, .str _, h | .float _, .var _, h | .float _, .object _, h | .float _, .list _, h => by simp [beq] at h
  | .bool _, .int _, h | .bool _, .float _, h | .bool _, .null, h | .bool _, .enum _, h | .bool _, .str _, h | .bool _, .var _, h | .bool _, .object _, h | .bool _, .list _, h => by simp [beq] at h
  | .null, .int _, h | .null, .float _, h | .null, .bool _, h | .null, .enum _, h | .null, .str _, h | .null, .var _, h | .null, .object _, h | .null, .list _, h => by simp [beq] at h
  | .enum _, .int _, h | .enum _, .float _, h | .enum _, .bool _, h | .enum _, .null, h | .enum _, .str _, h | .enum _, .var _, h | .enum _, .object _, h | .enum _, .list _, h => by simp [beq] at h
  | .str _, .int _, h | .str _, .float _, h | .str _, .bool _, h | .str _, .null, h | .str _, .enum _, h | .str _, .var _, h | .str _, .object _, h | .str _, .list _, h => by simp [beq] at h
  | .var _, .int _, h | .var _, .float _, h | .var _, .bool _, h | .var _, .null, h | .var _, .enum _, h | .var _, .str _, h | .var _, .object _, h | .var _, .list _, h => by simp [beq] at h
  | .object _, .int _, h | .object _, .float _, h | .object _, .bool _, h | .object _, .null, h | .object _, .enum _, h | .object _, .str _, h | .object _, .var _, h | .object _, .list _, h => by simp [beq] at h
  | .list _, .int _, h | .list _, .float _, h | .list _, .bool _, h | .list _, .null, h | .list _, .enum _, h | .list _, .str _, h | .list _, .var _, h | .list _, .object _, h => by simp [beq] at h
theorem eq_of_beqFields : ∀ (a b : List (String × Value)), beqFields a b = true → a = b
  | [], [], _ => rfl
  | [], _ :: _, h => by simp [beqFields] at h
  | _ :: _, [], h => by simp [beqFields] at h
  | (k, v) :: r, (k', v') :: r', h => by
    simp [beqFields] at h
    obtain ⟨⟨h1, h2⟩, h3⟩ := h
    rw [h1, eq_of_beq v v' h2, eq_of_beqFields r r' h3]
theorem eq_of_beqList : ∀ (a b : List Value), beqList a b = true → a = b
  | [], [], _ => rfl
  | [], _ :: _, h => by simp [beqList] at h
  | _ :: _, [], h => by simp [beqList] at h
  | v :: r, v' :: r', h => by
    simp [beqList] at h
    rw [eq_of_beq v v' h.1, eq_of_beqList r r' h.2]
end

mutual
theorem beq_self : ∀ (a : Value), beq a a = true
  | .int _ | .float _ | .bool _ | .null | .enum _ | .str _ | .var _ => by simp [beq]
  | .object a => by simp [beq, beqFields_self a]
  | .list a => by simp [beq, beqList_self a]
theorem beqFields_self : ∀ (a : List (String × Value)), beqFields a a = true
  | [] => by simp [beqFields]
  | (k, v) :: r => by simp [beqFields, beq_self v, beqFields_self r]
theorem beqList_self : ∀ (a : List Value), beqList a a = true
  | [] => by simp [beqList]
  | v :: r => by simp [beqList, beq_self v, beqList_self r]
end

instance : DecidableEq Value := fun a b =>
  if h : beq a b = true then isTrue (eq_of_beq a b h)
  else isFalse (fun e => h (e ▸ beq_self a))
end Value

/-- Argument of a field, or field of an input object. -/
structure ArgDef where
  name : String
  description : Option String
  ty : TypeRef
  default : Option Value
  deriving Repr, Inhabited, DecidableEq

structure FieldDef where
  name : String
  description : Option String
  args : List ArgDef
  ty : TypeRef
  deriving Repr, Inhabited, DecidableEq

inductive TypeKind where
  /-- `type T implements A & B { … }` — concrete -/
  | object (implements : List String) (fields : List FieldDef)
  /-- `interface I implements A { … }` — abstract -/
  | interface (implements : List String) (fields : List FieldDef)
  /-- `union U = A | B` — abstract -/
  | union (members : List String)
  | scalar
  | enum (values : List String)
  | input (fields : List ArgDef)
  deriving Repr, Inhabited, DecidableEq

structure TypeDef where
  name : String
  description : Option String
  kind : TypeKind
  deriving Repr, Inhabited, DecidableEq

namespace TypeDef

def isComposite (t : TypeDef) : Bool :=
  match t.kind with
  | .object .. | .interface .. | .union .. => true
  | _ => false

/-- the compiler's `is_concrete` flag -/
def isConcrete (t : TypeDef) : Bool :=
  match t.kind with
  | .object .. | .input .. => true
  | _ => false

def isAbstract (t : TypeDef) : Bool :=
  match t.kind with
  | .interface .. | .union .. => true
  | _ => false

def isLeaf (t : TypeDef) : Bool :=
  match t.kind with
  | .scalar | .enum .. => true
  | _ => false

def fields (t : TypeDef) : List FieldDef :=
  match t.kind with
  | .object _ fs | .interface _ fs => fs
  | _ => []

def field? (t : TypeDef) (name : String) : Option FieldDef :=
  t.fields.find? (·.name == name)

def hasId (t : TypeDef) : Bool := (t.field? "id").isSome

end TypeDef

def builtinScalars : List String := ["String", "Int", "Float", "Boolean", "ID"]

structure Schema where
  /-- in rendering order; the five built-in scalars are implicit -/
  types : List TypeDef
  deriving Repr, Inhabited, DecidableEq

namespace Schema

def get? (s : Schema) (name : String) : Option TypeDef :=
  s.types.find? (·.name == name)

def isLeaf (s : Schema) (name : String) : Bool :=
  builtinScalars.contains name || (match s.get? name with | some t => t.isLeaf | none => false)

def isComposite (s : Schema) (name : String) : Bool :=
  match s.get? name with | some t => t.isComposite | none => false

/-- What the compiler records as the subtypes of an abstract type: union members in
declaration order; for an interface the OBJECT types listing it in `implements`, in schema
order. -/
def concreteSubtypes (s : Schema) (abstractName : String) : List String :=
  match s.get? abstractName with
  | some ⟨_, _, .union members⟩ => members
  | some ⟨_, _, .interface ..⟩ =>
    (s.types.filter fun t =>
      match t.kind with
      | .object impls _ => impls.contains abstractName
      | _ => false).map (·.name)
  | _ => []

end Schema

/-- One `@exposeField(field: "a.b.c", as: "name", fieldMap: [{from, to}])`. -/
structure ExposeField where
  /-- `["set_pet_tagline", "pet"]` is rendered `field: "set_pet_tagline.pet"` -/
  path : List String
  asName : Option String
  /-- (from, to) -/
  fieldMap : List (String × String)
  deriving Repr, Inhabited, DecidableEq

/-- `extend type <onType> @exposeField(…) …` -/
structure Extension where
  onType : String
  expose : List ExposeField
  deriving Repr, Inhabited, DecidableEq

/-- `@name(arg: value, …)`: `@component`, `@loadable`, `@loadable(lazyLoadArtifact: true)`,
`@updatable`, `@lazyLoad`. -/
structure Directive where
  name : String
  args : List (String × Value)
  deriving Repr, Inhabited, DecidableEq

/-- `$name: Type = default` -/
structure VarDef where
  name : String
  ty : TypeRef
  default : Option Value
  deriving Repr, Inhabited, DecidableEq

/-- `alias: name(args) @directives` -/
structure SelHead where
  alias : Option String
  name : String
  args : List (String × Value)
  directives : List Directive
  deriving Repr, Inhabited, DecidableEq

namespace SelHead
/-- the name the reader sees; must be unique within a selection set -/
def responseName (h : SelHead) : String := h.alias.getD h.name
def hasDirective (h : SelHead) (d : String) : Bool := h.directives.any (·.name == d)
end SelHead

/-- A selection.  No fragment syntax exists: type refinement is the linked selection
`asConcreteType { … }`, a store link the scalar selection `__link`, the discriminator
`__typename`, the generated refetch field `__refetch`. -/
inductive Selection where
  /-- no selection set -/
  | scalar (head : SelHead)
  /-- with a (possibly empty) selection set -/
  | linked (head : SelHead) (kids : List Selection)
  deriving Repr, Inhabited

namespace Selection

def head : Selection → SelHead
  | scalar h => h
  | linked h _ => h

def kids? : Selection → Option (List Selection)
  | scalar _ => none
  | linked _ k => some k

def responseName (s : Selection) : String := s.head.responseName

def argVariables (args : List (String × Value)) : List String :=
  args.flatMap fun (_, v) => v.variables

mutual
/-- variables used in arguments anywhere inside (with duplicates) -/
def variables : Selection → List String
  | scalar h => argVariables h.args
  | linked h k => argVariables h.args ++ variablesList k
def variablesList : List Selection → List String
  | [] => []
  | s :: rest => variables s ++ variablesList rest
end

mutual
def beq : Selection → Selection → Bool
  | scalar h, scalar h' => decide (h = h')
  | linked h k, linked h' k' => decide (h = h') && beqList k k'
  | _, _ => false
def beqList : List Selection → List Selection → Bool
  | [], [] => true
  | s :: r, s' :: r' => beq s s' && beqList r r'
  | _, _ => false
end

mutual
theorem eq_of_beq : ∀ (a b : Selection), beq a b = true → a = b
  | scalar h, scalar h', e => by simp [beq] at e; rw [e]
  | linked h k, linked h' k', e => by
    simp [beq] at e
    rw [e.1, eq_of_beqList k k' e.2]
  | scalar _, linked _ _, e => by simp [beq] at e
  | linked _ _, scalar _, e => by simp [beq] at e
theorem eq_of_beqList : ∀ (a b : List Selection), beqList a b = true → a = b
  | [], [], _ => rfl
  | [], _ :: _, e => by simp [beqList] at e
  | _ :: _, [], e => by simp [beqList] at e
  | s :: r, s' :: r', e => by
    simp [beqList] at e
    rw [eq_of_beq s s' e.1, eq_of_beqList r r' e.2]
end

mutual
theorem beq_self : ∀ (a : Selection), beq a a = true
  | scalar _ => by simp [beq]
  | linked _ k => by simp [beq, beqList_self k]
theorem beqList_self : ∀ (a : List Selection), beqList a a = true
  | [] => by simp [beqList]
  | s :: r => by simp [beqList, beq_self s, beqList_self r]
end

instance : DecidableEq Selection := fun a b =>
  if h : beq a b = true then isTrue (eq_of_beq a b h)
  else isFalse (fun e => h (e ▸ beq_self a))

mutual
/-- number of selections, all depths -/
def size : Selection → Nat
  | scalar _ => 1
  | linked _ k => 1 + sizeList k
def sizeList : List Selection → Nat
  | [] => 0
  | s :: rest => size s + sizeList rest
end

end Selection

structure ClientField where
  parent : String
  name : String
  vars : List VarDef
  directives : List Directive
  description : Option String
  selections : List Selection
  deriving Repr, Inhabited, DecidableEq

structure ClientPointer where
  parent : String
  name : String
  /-- `to <TypeRef>` -/
  to : TypeRef
  vars : List VarDef
  directives : List Directive
  description : Option String
  selections : List Selection
  deriving Repr, Inhabited, DecidableEq

structure Entrypoint where
  parent : String
  name : String
  directives : List Directive
  deriving Repr, Inhabited, DecidableEq

inductive Decl where
  | clientField (d : ClientField)
  | clientPointer (d : ClientPointer)
  | entrypoint (d : Entrypoint)
  deriving Repr, Inhabited, DecidableEq

namespace Decl

def parent : Decl → String
  | clientField d => d.parent
  | clientPointer d => d.parent
  | entrypoint d => d.parent

def name : Decl → String
  | clientField d => d.name
  | clientPointer d => d.name
  | entrypoint d => d.name

def vars : Decl → List VarDef
  | clientField d => d.vars
  | clientPointer d => d.vars
  | entrypoint _ => []

def selections? : Decl → Option (List Selection)
  | clientField d => some d.selections
  | clientPointer d => some d.selections
  | entrypoint _ => none

def isEntrypoint : Decl → Bool
  | entrypoint _ => true
  | _ => false

/-- `field` / `pointer` / `entrypoint` -/
def keyword : Decl → String
  | clientField _ => "field"
  | clientPointer _ => "pointer"
  | entrypoint _ => "entrypoint"

end Decl

inductive ModuleKind where
  | esModule
  | commonJs
  deriving Repr, DecidableEq, Inhabited

inductive ValidationLevel where
  | ignore
  | warn
  | error
  deriving Repr, DecidableEq, Inhabited

inductive HashAlgorithm where
  | md5
  | sha256
  deriving Repr, DecidableEq, Inhabited

structure PersistedDocuments where
  /-- custom file name; `none` = `persisted_documents.json` -/
  file : Option String
  algorithm : HashAlgorithm
  includeExtraInfo : Bool
  deriving Repr, DecidableEq, Inhabited

/-- The `isograph.config.json` contents that matter; `default` = the config-file defaults. -/
structure Options where
  projectRoot : String := "src"
  /-- `none` = projectRoot; the compiler appends `__isograph` -/
  artifactDirectory : Option String := none
  module : ModuleKind := .esModule
  includeFileExtensionsInImportStatements : Bool := false
  generatedFileHeader : Option String := none
  persistedDocuments : Option PersistedDocuments := none
  noBabelTransform : Bool := false
  onInvalidIdType : ValidationLevel := .error
  deriving Repr, DecidableEq, Inhabited

/-- A whole project. -/
structure Project where
  schema : Schema
  extensions : List Extension
  /-- (source file, declaration) in order -/
  decls : List (String × Decl)
  options : Options
  /-- additional files written verbatim: (path, bytes) -/
  extraFiles : List (String × List UInt8)
  deriving Repr, Inhabited, DecidableEq

namespace Project

def clientFields (p : Project) : List ClientField :=
  p.decls.filterMap fun (_, d) => match d with | .clientField f => some f | _ => none

def clientPointers (p : Project) : List ClientPointer :=
  p.decls.filterMap fun (_, d) => match d with | .clientPointer f => some f | _ => none

def entrypoints (p : Project) : List Entrypoint :=
  p.decls.filterMap fun (_, d) => match d with | .entrypoint f => some f | _ => none

/-- the field or pointer `parent.name` -/
def decl? (p : Project) (parent name : String) : Option Decl :=
  (p.decls.map (·.2)).find? fun d => !d.isEntrypoint && d.parent == parent && d.name == name

end Project

end IsoVerif.Core
