/-
C10: the tie of the compiler-side model (`IsoVerif.Ops.Cover`) to the real compiler.

For an entrypoint of the modelled subset the harness sends the project as the model's mini program
(`harness/ops/src/tie.rs`); here the model's `mergeKeys` / `readKeys` are compared with what the REAL
compiler generated for that entrypoint: the keys of its normalization AST, and the keys its reader
ASTs read (followed through the Resolver nodes with the arguments substituted as read.ts does).
`id` and `__typename` without arguments are left out on both sides (the compiler selects them on its
own: `select_typename_and_id_fields_in_merged_selection`).
-/
import IsoVerif.Model.Core.OpsCover
import IsoVerif.Model.Core.Refetch

namespace IsoVerif.Ops.Tie
open IsoVerif.Core IsoVerif.Ops IsoVerif.Ops.Cover

/-! ### the mini program on the wire -/

def pV : Nat → P V
  | 0, _ => none
  | fuel + 1, ts =>
    match ts with
    | "v" :: rest => (pNat rest).map fun (n, r) => (V.var n, r)
    | "l" :: rest => (pNat rest).map fun (n, r) => (V.lit n, r)
    | "z" :: rest => some (V.null, rest)
    | "o" :: rest =>
      match pNat rest with
      | none => none
      | some (n, r) => (pVL fuel n r).map fun (fs, r') => (V.obj fs, r')
    | _ => none
where
  pVL (fuel : Nat) : Nat → P VL
    | 0, ts => some (.nil, ts)
    | n + 1, ts =>
      match pNat ts with
      | none => none
      | some (k, r1) =>
        match pV fuel r1 with
        | none => none
        | some (v, r2) => (pVL fuel n r2).map fun (rest, r3) => (VL.cons k v rest, r3)

def pArgsT (fuel : Nat) : P Cover.Args :=
  pSeq fun ts =>
    match pNat ts with
    | none => none
    | some (k, r1) => (pV fuel r1).map fun (v, r) => ((k, v), r)

def pSels : Nat → P (List S)
  | 0, _ => none
  | fuel + 1, ts =>
    pSeq (fun ts =>
      match ts with
      | "s" :: rest =>
        match pNat rest with
        | none => none
        | some (n, r1) => (pArgsT 32 r1).map fun (a, r) => (S.scalar n a, r)
      | "l" :: rest =>
        match pNat rest with
        | none => none
        | some (n, r1) =>
          match pArgsT 32 r1 with
          | none => none
          | some (a, r2) => (pSels fuel r2).map fun (k, r) => (S.linked n a k, r)
      | "c" :: rest =>
        match pNat rest with
        | none => none
        | some (i, r1) => (pArgsT 32 r1).map fun (a, r) => (S.client i a, r)
      | _ => none) ts

def pClientDef : P ClientDef
  | "c" :: rest =>
    match pSeq (fun ts =>
        match pNat ts with
        | none => none
        | some (x, r1) =>
          match r1 with
          | "N" :: r2 => some ((x, (none : Option V)), r2)
          | "S" :: r2 => (pV 32 r2).map fun (d, r) => ((x, some d), r)
          | _ => none) rest with
    | none => none
    | some (vars, r1) => (pSels 64 r1).map fun (body, r) => (⟨vars, body⟩, r)
  | _ => none

structure TieInput where
  names : List Str
  entry : Nat
  prog : Prog

def parseTie (field : String) : Option TieInput :=
  match (field.splitOn " ").filter (· != "") with
  | "T" :: rest =>
    match pSeq pStr rest with
    | none => none
    | some (names, r1) =>
      match pNat r1 with
      | none => none
      | some (entry, r2) =>
        match pSeq pClientDef r2 with
        | some (prog, []) => some ⟨names, entry, prog⟩
        | _ => none
  | _ => none

/-! ### the implementation's keys in the model's vocabulary -/

def nameIdx (names : List Str) (s : Str) : Nat :=
  match names.idxOf? s with
  | some i => i
  | none => names.length + 1 + s.foldl (fun acc c => acc * 31 + c) 7   -- not in the project: never equal

mutual
def ofAVal (names : List Str) : AVal → V
  | .var n => if unboundMark.isPrefixOf n then .null else .var (nameIdx names n)
  | .num t => .lit (nameIdx names (cs!"i:" ++ t))
  | .bool b => .lit (nameIdx names (cs!"b:" ++ showBool b))
  | .null => .null
  | .str s => .lit (nameIdx names (cs!"s:" ++ s))
  | .enum e => .lit (nameIdx names (cs!"e:" ++ e))
  | .obj fs => .obj (ofAFields names fs)
def ofAFields (names : List Str) : List (Str × AVal) → VL
  | [] => .nil
  | (k, v) :: rest => .cons (nameIdx names k) (ofAVal names v) (ofAFields names rest)
end

def ofAArgs (names : List Str) (args : AArgs) : Cover.Args := args.map fun (k, v) => (nameIdx names k, ofAVal names v)

abbrev Entry' := List Cover.Key × Cover.Key

/-- the (path, key) entries of a normalization AST; `none` when it holds an inline fragment (outside
the subset) -/
def normKeys (names : List Str) : Nat → List NNode → Option (List Entry')
  | 0, _ => none
  | _ + 1, [] => some []
  | fuel + 1, node :: rest =>
    match normKeys names fuel rest with
    | none => none
    | some tail =>
      match node with
      | .scalar _ n a => some (([], (nameIdx names n, ofAArgs names a)) :: tail)
      | .linked _ n a _ sel =>
        let k : Cover.Key := (nameIdx names n, ofAArgs names a)
        (normKeys names fuel sel).map fun kids => ([], k) :: kids.map (fun (p, x) => (k :: p, x)) ++ tail
      | .frag .. => none

/-- the (path, key) pairs the reader ASTs read, Resolver nodes followed with the arguments
substituted the way `generateChildVariableMap` does; `none` outside the subset -/
def readerKeys (g : Graph) (names : List Str) : Nat → List RNode → Option Env → Option (List Entry')
  | 0, _, _ => none
  | _ + 1, [], _ => some []
  | fuel + 1, node :: rest, env =>
    match readerKeys g names fuel rest env with
    | none => none
    | some tail =>
      match node with
      | .scalar n _ a => some (([], (nameIdx names n, ofAArgs names (substArgs env a))) :: tail)
      | .linked n _ a none none sel =>
        let k : Cover.Key := (nameIdx names n, ofAArgs names (substArgs env a))
        (readerKeys g names fuel sel env).map fun kids => ([], k) :: kids.map (fun (p, x) => (k :: p, x)) ++ tail
      | .resolver _ a reader _ =>
        (match g.reader? reader with
         | some r => (readerKeys g names fuel r.ast (childEnv env a)).map (· ++ tail)
         | none => none)
      | _ => none

/-! ### comparison -/

def isAuto (names : List Str) (k : Cover.Key) : Bool :=
  k.2.isEmpty && (k.1 == nameIdx names cs!"id" || k.1 == nameIdx names cs!"__typename")

def dedup (l : List Entry') : List Entry' := l.foldl (fun acc x => if acc.contains x then acc else acc ++ [x]) []

def sameSet (a b : List Entry') : Bool := a.all (b.contains ·) && b.all (a.contains ·)

/-- `c10m` line: the verdict of the tie for one entrypoint -/
def tieVerdict (g : Graph) (entryRel : Str) (t : TieInput) : String :=
  match g.entry? entryRel, t.prog[t.entry]? with
  | some e, some d =>
    let fuel := 64
    let c := identityCtx d.vars
    let keep (l : List Entry') := dedup (l.filter fun x => !isAuto t.names x.2)
    let modelMerge := keep (mergeKeys t.prog fuel c d.body)
    let modelRead := keep (readKeys t.prog fuel c d.body)
    match normKeys t.names 200 e.op.norm, (g.reader? e.reader).bind fun r => readerKeys g t.names 400 r.ast none with
    | some implMerge, some implRead =>
      if !sameSet modelMerge (keep implMerge) then "bad:model-tie:merged-keys-differ"
      else if !sameSet modelRead (keep implRead) then "bad:model-tie:read-keys-differ"
      else "ok"
    | none, _ => "bad:model-tie:normalization-ast-outside-subset"
    | _, none => "bad:model-tie:reader-ast-outside-subset"
  | _, _ => "bad:machinery:tie-entry"

def c10mLine (g : Option Graph) (req impl : List String) : String :=
  match g, req, impl with
  | some g, [_, _, entry], ["in", wire] =>
    (match parseTie wire with
     | some t => "in " ++ wire ++ "\t" ++ tieVerdict g (strOfString entry) t
     | none => "?\tbad:machinery:tie-unparsed")
  | _, _, [out] => out ++ "\t" ++ (if out.startsWith "out:" then "ok" else "bad:machinery:" ++ out)
  | none, _, _ => "?\tbad:machinery:no-graph"
  | _, _, _ => "?\tbad:machinery:tie-fields"

end IsoVerif.Ops.Tie
