/-
M-CORE / panic sites on the artifact-generation path (C08).  Imports the abstract syntax and the
selectable lookup of `Validate.lean`.

`genOutcome p` walks an ACCEPTED project the way `get_artifact_path_and_content_impl` does — from every
entrypoint through the selection sets of the client fields and pointers it reaches — and returns the first
modelled panic as an explicit `Except.error site`:

* `stackOverflow` — `create_merged_selection_map_for_field_and_insert_into_global_map` recurses into a client
  field before it has inserted it into `encountered_client_type_map`; a field that (transitively) selects
  itself recurses for ever (finding F20).  Model: fuel = number of declarations + 1; running out of fuel is the
  overflow (a path longer than the number of declarations repeats a field).
* `expectedRefetchStrategy` — generate_artifacts.rs: for a client field that was selected `@loadable` somewhere
  on the walk, `refetch_strategy_for_client_scalar_selectable_named(..).expect("Expected refetch strategy")`;
  `get_refetch_stategy` answers `None` for a parent type that is neither a root operation type nor has an `id`
  field.  Checked after the walk (the real code reaches it in the loop over `encountered_client_type_map`).
* `listsNotSupported` — `get_serialized_field_argument` / `serialize_non_constant_value_for_graphql`:
  `NonConstantValue::List(_) => panic!("Lists are not supported here")`.  The iso parser has no syntax for list
  values, so no accepted program contains one; the site is modelled so that this is a theorem
  (`noLists` is a hypothesis that every parsed program meets).

NOT modelled (covered by the subprocess oracle only): every other `expect`/`panic!`/index of the pipeline —
among them the confirmed ones `Expected linked field to exist by now`, `Parent context has missing variable`,
`Expected selectable to exist`, `Type T is not fetchable` (FINDINGS.md 4–7) — config and schema parsing, the
file system, the language server.
-/
import IsoVerif.Model.Core.Validate

namespace IsoVerif.Core.ArtsPanic

open IsoVerif.Core IsoVerif.Core.Validate

inductive Site where
  | stackOverflow
  | expectedRefetchStrategy
  | listsNotSupported
  deriving DecidableEq, Repr, Inhabited

/-- the signature the subprocess oracle assigns to the same crash -/
def Site.signature : Site → String
  | .stackOverflow => "cyclic-client-fields-stack-overflow"
  | .expectedRefetchStrategy => "panic:expected-refetch-strategy"
  | .listsNotSupported => "panic:lists-not-supported"

def rootTypes : List String := ["Query", "Mutation", "Subscription"]

/-- `get_refetch_stategy(parent) ≠ None` -/
def refetchable (p : Project) (ty : String) : Bool :=
  rootTypes.contains ty || (match p.schema.get? ty with | some t => t.hasId | none => false)

mutual
def valueHasList : Value → Bool
  | .list _ => true
  | .object fs => fieldsHaveList fs
  | _ => false
def fieldsHaveList : List (String × Value) → Bool
  | [] => false
  | (_, v) :: rest => valueHasList v || fieldsHaveList rest
end

def argsHaveList (args : List (String × Value)) : Bool := args.any fun a => valueHasList a.2

/-- client fields that were selected `@loadable` on the walk: (type the selection sits on, field name) -/
abbrev Loadables := List (String × String)

mutual
/-- the walk over one selection set on type `ty`; `fuel` bounds the nesting of client fields -/
def walkSels (p : Project) (fuel : Nat) (ty : String) (sels : List Selection) (acc : Loadables) :
    Except Site Loadables :=
  match sels with
  | [] => .ok acc
  | s :: rest =>
    match walkSel p fuel ty s acc with
    | .error e => .error e
    | .ok acc' => walkSels p fuel ty rest acc'
termination_by (fuel, Selection.sizeList sels, 1)
decreasing_by
  all_goals simp_wf
  · simp only [Selection.sizeList]; exact Prod.Lex.right _ (by
      by_cases h : Selection.sizeList rest = 0
      · rw [h]; exact Prod.Lex.right _ (by omega)
      · exact Prod.Lex.left _ _ (by omega))
  · simp only [Selection.sizeList]
    have : 0 < Selection.size s := by cases s <;> simp [Selection.size] <;> omega
    exact Prod.Lex.right _ (Prod.Lex.left _ _ (by omega))
def walkSel (p : Project) (fuel : Nat) (ty : String) (s : Selection) (acc : Loadables) :
    Except Site Loadables :=
  match s with
  | .scalar h =>
    if argsHaveList h.args then .error .listsNotSupported else
    match lookup p ty h.name with
    | some ⟨.clientField, _, _⟩ =>
      let acc' := if isLoadable h then (ty, h.name) :: acc else acc
      walkDecl p fuel ty h.name acc'
    | _ => .ok acc
  | .linked h kids =>
    if argsHaveList h.args then .error .listsNotSupported else
    match lookup p ty h.name with
    | some ⟨.serverObject, _, some t⟩ => walkSels p fuel t kids acc
    | some ⟨.asConcrete, _, some t⟩ => walkSels p fuel t kids acc
    | some ⟨.clientPointer, _, some t⟩ =>
      match walkDecl p fuel ty h.name acc with
      | .error e => .error e
      | .ok acc' => walkSels p fuel t kids acc'
    | _ => .ok acc
termination_by (fuel, Selection.size s, 0)
decreasing_by
  all_goals simp_wf
  all_goals simp only [Selection.size]
  all_goals first
    | exact Prod.Lex.right _ (Prod.Lex.left _ _ (by omega))
    | exact Prod.Lex.right _ (Prod.Lex.left _ _ (by simp))
/-- entering the client field / pointer `ty.name` costs one unit of fuel -/
def walkDecl (p : Project) (fuel : Nat) (ty name : String) (acc : Loadables) : Except Site Loadables :=
  match fuel with
  | 0 => .error .stackOverflow
  | fuel' + 1 =>
    match p.decl? ty name with
    | some (.clientField f) => walkSels p fuel' f.parent f.selections acc
    | some (.clientPointer f) => walkSels p fuel' f.parent f.selections acc
    | _ => .ok acc
termination_by (fuel, 0, 0)
decreasing_by
  all_goals simp_wf
  all_goals exact Prod.Lex.left _ _ (by omega)
end

def entrypointsOf (p : Project) : List Entrypoint :=
  p.decls.filterMap fun d => match d.2 with | .entrypoint e => some e | _ => none

def walkEntrypoints (p : Project) (fuel : Nat) : List Entrypoint → Loadables → Except Site Loadables
  | [], acc => .ok acc
  | e :: rest, acc =>
    match walkDecl p fuel e.parent e.name acc with
    | .error s => .error s
    | .ok acc' => walkEntrypoints p fuel rest acc'

def checkLoadables (p : Project) : Loadables → Except Site Unit
  | [] => .ok ()
  | (ty, _) :: rest => if refetchable p ty then checkLoadables p rest else .error .expectedRefetchStrategy

def fuelFor (p : Project) : Nat := p.decls.length + 1

/-- the modelled part of artifact generation for a project that passed validation -/
def genOutcome (p : Project) : Except Site Unit :=
  match walkEntrypoints p (fuelFor p) (entrypointsOf p) [] with
  | .error s => .error s
  | .ok ls => checkLoadables p ls

def outcomeStr (p : Project) : String :=
  match genOutcome p with
  | .ok _ => "nopanic"
  | .error s => s.signature

/-! ## The envelope in which none of the modelled sites is reached -/

/-- index of the declaration `ty.name` (fields and pointers) -/
def declIndex (p : Project) (ty name : String) : Option Nat :=
  let rec go : List (String × Decl) → Nat → Option Nat
    | [], _ => none
    | (_, d) :: rest, i =>
      if !d.isEntrypoint && d.parent == ty && d.name == name then some i else go rest (i + 1)
  go p.decls 0

mutual
/-- every client field / pointer selected inside (on type `ty`) is declared at an index below `bound`, no
argument holds a list, and `@loadable` client-field selections sit on refetchable types -/
def selsBelow (p : Project) (bound : Nat) (ty : String) : List Selection → Bool
  | [] => true
  | s :: rest => selBelow p bound ty s && selsBelow p bound ty rest
def selBelow (p : Project) (bound : Nat) (ty : String) : Selection → Bool
  | .scalar h =>
    !argsHaveList h.args &&
    (match lookup p ty h.name with
     | some ⟨.clientField, _, _⟩ =>
       (match declIndex p ty h.name with | some i => decide (i < bound) | none => true) &&
       (!isLoadable h || refetchable p ty)
     | _ => true)
  | .linked h kids =>
    !argsHaveList h.args &&
    (match lookup p ty h.name with
     | some ⟨.serverObject, _, some t⟩ => selsBelow p bound t kids
     | some ⟨.asConcrete, _, some t⟩ => selsBelow p bound t kids
     | some ⟨.clientPointer, _, some t⟩ =>
       (match declIndex p ty h.name with | some i => decide (i < bound) | none => true) && selsBelow p bound t kids
     | _ => true)
end

/-- The envelope: declaration `i` only selects client fields / pointers declared before it (so there is no
cycle), lists do not occur, `@loadable` only where a refetch strategy exists.  `hx_projgen` generates inside
it unless a defect switch is on. -/
def inEnvelope (p : Project) : Bool :=
  let rec go : List (String × Decl) → Nat → Bool
    | [], _ => true
    | (_, d) :: rest, i =>
      (match d.selections? with
       | some sels => selsBelow p i d.parent sels
       | none => true) && go rest (i + 1)
  go p.decls 0

end IsoVerif.Core.ArtsPanic
