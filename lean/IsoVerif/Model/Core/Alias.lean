/-
M-CORE / response keys.

Compiler side (Rust): `NonConstantValue::to_alias_str_chunk`, `ArgumentKeyAndValue::to_alias_str_chunk`
(crates/isograph_lang_types/src/declarations/selection_argument.rs) and
`get_aliased_mutation_field_name`, `normalization_alias` (create_merged_selection_set.rs).
Strings are mapped per `char` (Unicode scalar value).

Runtime side (TypeScript): `getNetworkResponseKey` / `getArgumentValueChunk`
(libs/isograph-react/src/core/cache.ts), applied to the JavaScript value of the argument literals
that the compiler writes into the normalization AST (`get_serialized_field_argument`).  JavaScript
strings are sequences of UTF-16 code units; `/\W/g` without the `u` flag works per code unit.
-/
import IsoVerif.Model.Core.Merged

namespace IsoVerif.Core

/-! ### compiler side -/

/-- `'A'..='Z' | 'a'..='z' | '0'..='9' | '_'` -/
def isWordChar (c : Nat) : Bool :=
  (65 ≤ c && c ≤ 90) || (97 ≤ c && c ≤ 122) || (48 ≤ c && c ≤ 57) || c == 95

/-- the `.chars().map(..)` of the `String` arm: every non-word char becomes `_` -/
def collapseStr (s : Str) : Str := s.map fun c => if isWordChar c then c else 95

mutual
/-- `NonConstantValue::to_alias_str_chunk`; `none` = `panic!("Lists are not supported here")` -/
def aliasChunk : Value → Option Str
  | .var name => some (cs!"v_" ++ name)
  | .int i => some (cs!"l_" ++ showInt i)
  | .bool b => some (cs!"l_" ++ showBool b)
  | .str s => some (cs!"s_" ++ collapseStr s)
  | .float text => some (cs!"l_" ++ text)
  | .null => some cs!"l_null"
  | .enum e => some (cs!"e_" ++ e)
  | .list _ => none
  | .obj fields => (aliasFields fields).map fun parts => cs!"o_" ++ joinStr cs!"_" parts ++ cs!"_c"
/-- the `object.iter().map(|pair| format!("{}__{}", ..))` -/
def aliasFields : List (Str × Value) → Option (List Str)
  | [] => some []
  | (k, v) :: rest =>
    match aliasChunk v, aliasFields rest with
    | some c, some cs => some ((k ++ cs!"__" ++ c) :: cs)
    | _, _ => none
end

/-- `ArgumentKeyAndValue::to_alias_str_chunk` -/
def aliasArg (a : Str × Value) : Option Str := (aliasChunk a.2).map fun c => a.1 ++ cs!"___" ++ c

/-- the loop of `get_aliased_mutation_field_name` -/
def aliasArgs : Args → Option Str
  | [] => some []
  | a :: rest =>
    match aliasArg a, aliasArgs rest with
    | some c, some r => some (cs!"____" ++ c ++ r)
    | _, _ => none

/-- `get_aliased_mutation_field_name(name, arguments)`; `none` = panic on a list value -/
def aliasOf (name : Str) (args : Args) : Option Str := (aliasArgs args).map fun r => name ++ r

/-- `normalization_alias()`: `None` when there are no arguments.  Outer option = panic. -/
def normalizationAlias (name : Str) (args : Args) : Option (Option Str) :=
  if args.isEmpty then some none else (aliasOf name args).map some

/-- the response key of a field selection: alias if any, else the field name -/
def responseKey (name : Str) (args : Args) : Option Str :=
  if args.isEmpty then some name else aliasOf name args

mutual
def Value.hasList : Value → Bool
  | .list _ => true
  | .obj fields => Value.fieldsHaveList fields
  | _ => false
def Value.fieldsHaveList : List (Str × Value) → Bool
  | [] => false
  | (_, v) :: rest => v.hasList || Value.fieldsHaveList rest
end

def argsHaveList (args : Args) : Bool := args.any fun a => a.2.hasList

/-! ### total variants (a list value is printed as nothing); equal to the partial ones on
list-free input, see `Lemmas/PrintersAlias.lean` -/

mutual
def aliasChunkT : Value → Str
  | .var name => cs!"v_" ++ name
  | .int i => cs!"l_" ++ showInt i
  | .bool b => cs!"l_" ++ showBool b
  | .str s => cs!"s_" ++ collapseStr s
  | .float text => cs!"l_" ++ text
  | .null => cs!"l_null"
  | .enum e => cs!"e_" ++ e
  | .list _ => []
  | .obj fields => cs!"o_" ++ joinStr cs!"_" (aliasFieldsT fields) ++ cs!"_c"
def aliasFieldsT : List (Str × Value) → List Str
  | [] => []
  | (k, v) :: rest => (k ++ cs!"__" ++ aliasChunkT v) :: aliasFieldsT rest
end

def aliasArgsT : Args → Str
  | [] => []
  | a :: rest => cs!"____" ++ a.1 ++ cs!"___" ++ aliasChunkT a.2 ++ aliasArgsT rest

/-- total alias: `name ____k1___chunk1 ____k2___chunk2 …` -/
def aliasT (name : Str) (args : Args) : Str := name ++ aliasArgsT args

/-- total response key -/
def responseKeyT (name : Str) (args : Args) : Str := if args.isEmpty then name else aliasT name args

/-! ### names, collapse, and the argument classes of the C12 theorems -/

def isNameStart (c : Nat) : Bool := c == 95 || (65 ≤ c && c ≤ 90) || (97 ≤ c && c ≤ 122)

/-- GraphQL `Name`: `[_A-Za-z][_0-9A-Za-z]*` -/
def isGqlName : Str → Bool
  | [] => false
  | c :: rest => isNameStart c && rest.all isWordChar

def isAlnum (c : Nat) : Bool := (48 ≤ c && c ≤ 57) || (65 ≤ c && c ≤ 90) || (97 ≤ c && c ≤ 122)

/-- a non-empty string over `[A-Za-z0-9]` (no underscore) -/
def isAtom (s : Str) : Bool := !s.isEmpty && s.all isAlnum

/-- a string over `[A-Za-z0-9_]` -/
def isWordStr (s : Str) : Bool := s.all isWordChar

mutual
/-- strings replaced by their collapse (what the alias function sees of them) -/
def Value.collapse : Value → Value
  | .str s => .str (collapseStr s)
  | .obj fields => .obj (Value.collapseFields fields)
  | v => v
def Value.collapseFields : List (Str × Value) → List (Str × Value)
  | [] => []
  | (k, v) :: rest => (k, v.collapse) :: Value.collapseFields rest
end

def collapseArgs (args : Args) : Args := Value.collapseFields args

mutual
/-- `SafeArgs`: variables, integers in `[0, 2^53)`, booleans, enum values, null, objects thereof,
strings over `[A-Za-z0-9_]`; every name a GraphQL name -/
def Value.safe : Value → Bool
  | .var n => isGqlName n
  | .int i => decide (0 ≤ i) && decide (i < 9007199254740992)
  | .bool _ => true
  | .null => true
  | .enum e => isGqlName e
  | .str s => isWordStr s
  | .float _ => false
  | .list _ => false
  | .obj fields => Value.safeFields fields
def Value.safeFields : List (Str × Value) → Bool
  | [] => true
  | (k, v) :: rest => isGqlName k && v.safe && Value.safeFields rest
end

def safeArgs (args : Args) : Bool := Value.safeFields args

mutual
/-- values inside an object for the injectivity theorem: every atom non-empty alphanumeric,
integers non-negative, no empty object -/
def Value.tightInner : Value → Bool
  | .var n => isAtom n
  | .int i => decide (0 ≤ i)
  | .bool _ => true
  | .null => true
  | .enum e => isAtom e
  | .str s => isAtom s
  | .float _ => false
  | .list _ => false
  | .obj fields => !fields.isEmpty && Value.tightFields fields
def Value.tightFields : List (Str × Value) → Bool
  | [] => true
  | (k, v) :: rest => isAtom k && v.tightInner && Value.tightFields rest
end

/-- a top-level string argument: non-empty, over `[A-Za-z0-9_]`, no `_` at either end, no `__` -/
def isTopStr : Str → Bool
  | [] => false
  | c :: rest =>
    isAlnum c &&
      (let rec go : Nat → Str → Bool
        | _, [] => true
        | prev, d :: more => (isAlnum d || (d == 95 && prev != 95 && !more.isEmpty)) && go d more
      go c rest)

/-- a top-level argument value for the injectivity theorem -/
def Value.tightTop : Value → Bool
  | .str s => isTopStr s
  | v => v.tightInner

def tightArgs : Args → Bool
  | [] => true
  | (k, v) :: rest => isAtom k && v.tightTop && tightArgs rest

/-! ### JavaScript side -/

/-- UTF-16 code units of a scalar value -/
def utf16Char (c : Nat) : List Nat :=
  if c < 0x10000 then [c] else [0xD800 + (c - 0x10000) / 1024, 0xDC00 + (c - 0x10000) % 1024]

/-- a Rust string as the JavaScript string with the same characters -/
def utf16 (s : Str) : List Nat := s.flatMap utf16Char

/-- code units back to scalar values (lone surrogates are kept as they are) -/
def utf16Decode : List Nat → Str
  | [] => []
  | [u] => [u]
  | u :: v :: rest =>
    if 0xD800 ≤ u ∧ u < 0xDC00 ∧ 0xDC00 ≤ v ∧ v < 0xE000 then
      (0x10000 + (u - 0xD800) * 1024 + (v - 0xDC00)) :: utf16Decode rest
    else u :: utf16Decode (v :: rest)

def hexDigitVal (c : Nat) : Option Nat :=
  if 48 ≤ c ∧ c ≤ 57 then some (c - 48)
  else if 97 ≤ c ∧ c ≤ 102 then some (c - 87)
  else if 65 ≤ c ∧ c ≤ 70 then some (c - 55)
  else none

def hexDigitsVal : List Nat → Option Nat
  | [] => some 0
  | ds => ds.foldl (fun acc d => match acc, hexDigitVal d with
      | some a, some v => some (a * 16 + v)
      | _, _ => none) (some 0)

/-- `\u{…}`: hex digits up to `}`; returns (value, rest after `}`) -/
def takeBraced : Nat → List Nat → List Nat → Option (Nat × List Nat)
  | 0, _, _ => none
  | _, [], _ => none
  | fuel + 1, c :: rest, acc =>
    if c == 125 then
      if acc.isEmpty then none else
      match hexDigitsVal acc.reverse with
      | some v => if v ≤ 0x10FFFF then some (v, rest) else none
      | none => none
    else takeBraced fuel rest (c :: acc)

/-- The value (UTF-16 code units) of the JavaScript string literal `"<body>"` in strict mode (the
artifacts are ES modules); `none` = the literal is a syntax error / ends early, so the artifact is
not what the compiler meant it to be.  `body` is given in code points, as the compiler writes it. -/
def jsStringBody : Nat → List Nat → Option (List Nat)
  | 0, _ => none
  | _, [] => some []
  | fuel + 1, c :: rest =>
    if c == 34 then none                      -- an unescaped `"` ends the literal early
    else if c == 10 || c == 13 then none      -- raw line terminator
    else if c != 92 then (jsStringBody fuel rest).map (utf16Char c ++ ·)
    else
      match rest with
      | [] => none                            -- `\` would escape the closing quote
      | e :: rest2 =>
        let simple (u : Nat) := (jsStringBody fuel rest2).map (u :: ·)
        if e == 110 then simple 10            -- \n
        else if e == 116 then simple 9        -- \t
        else if e == 114 then simple 13       -- \r
        else if e == 98 then simple 8         -- \b
        else if e == 102 then simple 12       -- \f
        else if e == 118 then simple 11       -- \v
        else if e == 48 then                  -- \0 not followed by a digit
          match rest2 with
          | d :: _ => if 48 ≤ d ∧ d ≤ 57 then none else simple 0
          | [] => simple 0
        else if 49 ≤ e ∧ e ≤ 57 then none     -- \1..\9: error in strict mode
        else if e == 120 then                 -- \xHH
          match rest2 with
          | a :: b :: rest3 =>
            match hexDigitsVal [a, b] with
            | some v => (jsStringBody fuel rest3).map (v :: ·)
            | none => none
          | _ => none
        else if e == 117 then                 -- \uHHHH or \u{H+}
          match rest2 with
          | 123 :: rest3 =>
            match takeBraced (rest3.length + 1) rest3 [] with
            | some (v, rest4) => (jsStringBody fuel rest4).map (utf16Char v ++ ·)
            | none => none
          | a :: b :: c2 :: d :: rest3 =>
            match hexDigitsVal [a, b, c2, d] with
            | some v => (jsStringBody fuel rest3).map (v :: ·)
            | none => none
          | _ => none
        else if e == 10 || e == 0x2028 || e == 0x2029 then jsStringBody fuel rest2   -- line continuation
        else if e == 13 then                  -- \CR or \CRLF
          match rest2 with
          | 10 :: rest3 => jsStringBody fuel rest3
          | _ => jsStringBody fuel rest2
        else (jsStringBody fuel rest2).map (utf16Char e ++ ·)   -- \' \" \\ and non-escape chars

/-- value of the literal `"<s>"` -/
def jsStringValue (s : Str) : Option (List Nat) := jsStringBody (s.length + 1) s

/-- `\w` of a JavaScript regular expression without flags, per code unit -/
def isJsWordUnit (u : Nat) : Bool := isWordChar u

/-- `value.replaceAll(/\W/g, '_')` -/
def jsCollapse (units : List Nat) : List Nat := units.map fun u => if isJsWordUnit u then u else 95

/-! #### numbers: `'l_' + value` where `value` is the Number the literal evaluates to -/

/-- significant decimal digits (no leading/trailing zeros) and the decimal exponent `n` such that
the value is `0.d1d2… × 10^n`, from a plain decimal text `[-]ddd[.ddd]` (what Rust's `Display`
for `i64`/`f64` prints).  `none` for zero. -/
def decimalParts (text : Str) : Option (Bool × List Nat × Int) :=
  let neg := text.head? == some 45
  let body := if neg then text.drop 1 else text
  let intPart := body.takeWhile (· != 46)
  let fracPart := (body.dropWhile (· != 46)).drop 1
  let all := intPart ++ fracPart
  let lead := (all.takeWhile (· == 48)).length
  let sig := (all.drop lead).reverse.dropWhile (· == 48) |>.reverse
  if sig.isEmpty then none else some (neg, sig, (intPart.length : Int) - lead)

def zeros (n : Nat) : Str := List.replicate n 48

/-- `Number::toString` (ECMA-262 6.1.6.1.20) from the shortest round-trip digits `sig` (`k` digits)
and exponent `n` (value = 0.sig × 10^n) -/
def jsNumberFromParts (neg : Bool) (sig : List Nat) (n : Int) : Str :=
  let k : Int := sig.length
  let sign : Str := if neg then [45] else []
  let body : Str :=
    if k ≤ n ∧ n ≤ 21 then sig ++ zeros (n - k).toNat
    else if 0 < n ∧ n ≤ 21 then sig.take n.toNat ++ [46] ++ sig.drop n.toNat
    else if -6 < n ∧ n ≤ 0 then cs!"0." ++ zeros (-n).toNat ++ sig
    else
      let e := n - 1
      let es : Str := (if e < 0 then [45] else [43]) ++ showNat e.natAbs
      match sig with
      | [d] => [d] ++ [101] ++ es
      | d :: ds => [d] ++ [46] ++ ds ++ [101] ++ es
      | [] => []
  sign ++ body

/-- bit length -/
def bitLen : Nat → Nat → Nat
  | 0, _ => 0
  | fuel + 1, n => if n == 0 then 0 else 1 + bitLen fuel (n / 2)

/-- nearest double (ties to even) of a natural number, as an exact natural number
(all values here are far below overflow) -/
def roundToDouble (n : Nat) : Nat :=
  let len := bitLen (n + 1) n
  if len ≤ 53 then n else
  let k := len - 53
  let q := n / 2 ^ k
  let r := n % 2 ^ k
  let half := 2 ^ (k - 1)
  let q' := if r > half || (r == half && q % 2 == 1) then q + 1 else q
  q' * 2 ^ k

/-- shortest decimal digits that round-trip to the double `v` (an integer `≥ 2^53`): smallest
digit count `d` for which some `d`-digit × 10^e number lies in the rounding interval of `v`,
closest to `v`.  Returns the integer the digits denote (padded with zeros). -/
def shortestIntAux (v lo hi : Nat) (loIncl : Bool) : Nat → Nat → Nat
  | 0, _ => v
  | fuel + 1, scale =>
    -- try the coarser scale first: recursion goes from coarse to fine
    let down := (v / scale) * scale
    let up := down + scale
    let okLo (c : Nat) := if loIncl then lo ≤ 2 * c else lo < 2 * c
    let okHi (c : Nat) := if loIncl then 2 * c ≤ hi else 2 * c < hi
    let dOk := okLo down && okHi down
    let uOk := okLo up && okHi up
    if dOk && uOk then (if v - down ≤ up - v then down else up)
    else if dOk then down
    else if uOk then up
    else shortestIntAux v lo hi loIncl fuel (scale / 10)

/-- `String(Number(<decimal digits of n>))` for a natural number `n < 10^21` -/
def jsNatString (n : Nat) : Str :=
  let v := roundToDouble n
  let len := bitLen (v + 1) v
  if len ≤ 53 then showNat v else
  let k := len - 53                       -- v = q * 2^k, 2^52 ≤ q < 2^53 (or q = 2^53 after carry)
  let q := v / 2 ^ k
  -- doubled bounds of the rounding interval (to stay in ℕ): (2v - 2^k·[1 or ½], 2v + 2^k)
  let lower := if q == 2 ^ 52 then 2 * v - 2 ^ (k - 1) else 2 * v - 2 ^ k
  let upper := 2 * v + 2 ^ k
  let even := q % 2 == 0
  let digits := (showNat v).length
  showNat (shortestIntAux v lower upper even digits (10 ^ (digits - 1)))

/-- `String(Number(text))` for the decimal text Rust prints for an `i64` -/
def jsIntString (i : Int) : Str :=
  match i with
  | .ofNat n => jsNatString n
  | .negSucc n => 45 :: jsNatString (n + 1)

/-- `String(Number(text))` for the text Rust prints for an `f64`: Rust prints the shortest
round-trip digits in plain notation, JavaScript prints the same digits in its own notation. -/
def jsFloatString (text : Str) : Str :=
  match decimalParts text with
  | none => cs!"0"                          -- `0`, `-0`, `0.0`: String(-0) is "0"
  | some (neg, sig, n) => jsNumberFromParts neg sig n

mutual
/-- `getArgumentValueChunk` on the evaluated normalization-AST argument value; `none` = the
literal the compiler wrote is not a well-formed JavaScript string (or the value is a list, which
the compiler never writes). -/
def jsChunk : Value → Option (List Nat)
  | .var name => (jsStringValue name).map fun v => utf16 cs!"v_" ++ v
  | .int i => some (utf16 (cs!"l_" ++ jsIntString i))
  | .bool b => some (utf16 (cs!"l_" ++ showBool b))
  | .str s => (jsStringValue s).map fun v => utf16 cs!"s_" ++ jsCollapse v
  | .float text => some (utf16 (cs!"l_" ++ jsFloatString text))
  | .null => some (utf16 cs!"l_null")
  | .enum e => (jsStringValue e).map fun v => utf16 cs!"e_" ++ v
  | .list _ => none
  | .obj fields => (jsFields fields).map fun parts =>
      utf16 cs!"o_" ++ joinStr [95] parts ++ utf16 cs!"_c"
def jsFields : List (Str × Value) → Option (List (List Nat))
  | [] => some []
  | (k, v) :: rest =>
    match jsStringValue k, jsChunk v, jsFields rest with
    | some kk, some c, some cs => some ((kk ++ utf16 cs!"__" ++ c) :: cs)
    | _, _, _ => none
end

/-- the loop of `getNetworkResponseKey` over `astNode.arguments` -/
def jsArgs : Args → Option (List Nat)
  | [] => some []
  | (k, v) :: rest =>
    match jsStringValue k, jsChunk v, jsArgs rest with
    | some kk, some c, some r => some (utf16 cs!"____" ++ kk ++ utf16 cs!"___" ++ c ++ r)
    | _, _, _ => none

/-- `getNetworkResponseKey(node)` for the normalization-AST node the compiler writes for
`(name, args)` (`arguments: null` when there are none), as UTF-16 code units -/
def networkResponseKey (name : Str) (args : Args) : Option (List Nat) :=
  match jsStringValue name, jsArgs args with
  | some n, some r => some (n ++ r)
  | _, _ => none

end IsoVerif.Core
