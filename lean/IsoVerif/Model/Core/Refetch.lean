/-
C25 — refetch references.

Part 1 (runtime side, on the artifact graph): `walk` follows the reader ASTs from an entrypoint
through every chain of eagerly read client fields, composing the index lists exactly as read.ts does
(`readResolverFieldData`: `nested' = usedRefetchQueries.map(i => nested[i])`;
`readImperativelyLoadedField` / `readClientPointerData`: `nested[refetchQueryIndex]`;
a loadably selected field carries its own entrypoint), and records for every refetchable selection
its position (the path of linked fields from the root of the entrypoint's query, arguments
substituted along the chain the way `generateChildVariableMap` does) and the refetch artifact the
runtime selects.

Part 2 (the oracle): the selected artifact is the one generated for that field at that position:
its operation is named `<entrypoint type>__<field>`, and what it re-fetches is exactly the selection
the entrypoint's own query makes at that position (for a client pointer: it covers what the
pointer's reader reads).

Part 3 (compiler side, abstract): the bookkeeping of `reader_ast.rs` / `create_merged_selection_set.rs`
as sorted key lists (`Book`), with the theorem that composing the indices is right when the
variable transformation is order preserving, and the witness that it is wrong otherwise (F18).
-/
import IsoVerif.Model.Core.OpsGraph
import IsoVerif.Model.Core.Parse

namespace IsoVerif.Ops
open IsoVerif.Core

/-! ### symbolic variables -/

/-- variable name ↦ its value in terms of the ENTRYPOINT's variables -/
abbrev Env := List (Str × AVal)

/-- a variable the scope does not bind (it reads as `undefined`); `?` cannot start a real name -/
def unboundMark : Str := cs!"?unbound:"

def isUnbound : AVal → Bool
  | .var n => unboundMark.isPrefixOf n
  | _ => false

mutual
/-- `generateChildVariableMap` / `getStoreKeyChunkForArgumentValue` on symbolic values.
`none` = the entrypoint's own scope (variables stand for themselves).  A variable that the scope
does not bind reads as `undefined`, which every consumer treats like `null` (it is kept as a marked
variable so that the classifier can tell it from a literal `null`).  An enum literal
becomes a plain string once it is a variable value. -/
def substVal (env : Option Env) : AVal → AVal
  | .var n =>
    match env with
    | none => .var n
    | some e =>
      match e.find? (·.1 == n) with
      | some (_, v) => v
      | none => .var (unboundMark ++ n)
  | .obj fs => .obj (substFields env fs)
  | v => v
def substFields (env : Option Env) : List (Str × AVal) → List (Str × AVal)
  | [] => []
  | (k, v) :: rest => (k, substVal env v) :: substFields env rest
end

def substArgs (env : Option Env) (args : AArgs) : AArgs := substFields env args

/-- the scope of a client field selected with `args` from scope `env` -/
def childEnv (env : Option Env) (args : AArgs) : Option Env := some (substArgs env args)

mutual
/-- equality of argument values as store-key material: an enum and a string with the same text are
the same chunk; object keys are sorted by `stableCopy`, so their order does not matter -/
def avalEq : AVal → AVal → Bool
  | .var a, .var b => a == b || (unboundMark.isPrefixOf a && unboundMark.isPrefixOf b)
  | .var a, .null => unboundMark.isPrefixOf a
  | .null, .var b => unboundMark.isPrefixOf b
  | .num a, .num b => a == b
  | .bool a, .bool b => a == b
  | .null, .null => true
  | .str a, .str b => a == b
  | .enum a, .enum b => a == b
  | .str a, .enum b => a == b
  | .enum a, .str b => a == b
  | .obj a, .obj b => a.length == b.length && objSub a b
  | _, _ => false
/-- every field of `a` has an equal field in `b` -/
def objSub : List (Str × AVal) → List (Str × AVal) → Bool
  | [], _ => true
  | (k, v) :: rest, b => objFind k v b && objSub rest b
def objFind (k : Str) (v : AVal) : List (Str × AVal) → Bool
  | [] => false
  | (k', v') :: rest => (k == k' && avalEq v v') || objFind k v rest
end

/-- `getParentRecordKey` concatenates the chunks in order: argument order matters -/
def argsEq : AArgs → AArgs → Bool
  | [], [] => true
  | (k, v) :: r, (k', v') :: r' => k == k' && avalEq v v' && argsEq r r'
  | _, _ => false

/-! ### positions -/

inductive PathEl where
  | field (name : Str) (args : AArgs)
  | frag (ty : Str)
deriving Repr, Inhabited

/-- the sub-selection of a normalization AST below one path element.  Several nodes can carry the
same field and arguments (the compiler's map keys also compare source locations inside object
values, so `{ kind: $a }` and `{ kind: $b }` that become equal after substitution stay two entries);
they are normalized into the same record, so their selections add up. -/
def descend1 (nodes : List NNode) : PathEl → Option (List NNode)
  | .field n a =>
    let hits := nodes.filterMap fun node =>
      match node with
      | .linked _ n' a' _ sel => if n == n' && argsEq a a' then some sel else none
      | _ => none
    if hits.isEmpty then none else some hits.flatten
  | .frag ty =>
    let hits := nodes.filterMap fun node =>
      match node with
      | .frag ty' sel => if ty == ty' then some sel else none
      | _ => none
    if hits.isEmpty then none else some hits.flatten

def descend (nodes : List NNode) : List PathEl → Option (List NNode)
  | [] => some nodes
  | el :: rest =>
    match descend1 nodes el with
    | some sel => descend sel rest
    | none => none

/-- every way to follow a path when several nodes carry the same field and arguments: one
sub-selection per choice of node at each step (the compiler's refetch query is built from ONE entry
of its map, `current_target_merged_selections`) -/
def descendAlternatives : List NNode → List PathEl → List (List NNode)
  | nodes, [] => [nodes]
  | nodes, el :: rest =>
    let hits : List (List NNode) := nodes.filterMap fun node =>
      match el, node with
      | .field n a, .linked _ n' a' _ sel => if n == n' && argsEq a a' then some sel else none
      | .frag ty, .frag ty' sel => if ty == ty' then some sel else none
      | _, _ => none
    hits.flatMap fun sel => descendAlternatives sel rest

def isTypenameNode : NNode → Bool
  | .scalar _ n a => n == cs!"__typename" && a.isEmpty
  | _ => false

/-- equality of two selections up to order and up to `__typename` -/
def selEq : Nat → List NNode → List NNode → Bool
  | 0, _, _ => false
  | fuel + 1, a, b =>
    let a' := a.filter (!isTypenameNode ·)
    let b' := b.filter (!isTypenameNode ·)
    a'.length == b'.length &&
    a'.all fun x =>
      b'.any fun y =>
        match x, y with
        | .scalar _ n a1, .scalar _ m a2 => n == m && argsEq a1 a2
        | .linked _ n a1 c1 s1, .linked _ m a2 c2 s2 => n == m && argsEq a1 a2 && c1 == c2 && selEq fuel s1 s2
        | .frag t1 s1, .frag t2 s2 => t1 == t2 && selEq fuel s1 s2
        | _, _ => false

/-- the selections of a refetch query below its wrapping fields: level 0 is the whole query; each
further level enters the only linked field / inline fragment of the previous one -/
def unwrapLevels : Nat → List NNode → List (List NNode)
  | 0, nodes => [nodes]
  | fuel + 1, nodes =>
    match nodes.filter (!isTypenameNode ·) with
    | [.linked _ _ _ _ sel] => nodes :: unwrapLevels fuel sel
    | [.frag _ sel] => nodes :: unwrapLevels fuel sel
    | _ => [nodes]

/-! ### the walk -/

/-- what the runtime selects for one refetchable selection -/
inductive Selected where
  | artifact (rel : Str)
  | missing                     -- index outside the list: the runtime throws
  | entrypoint (rel : Str)      -- a loadably selected field
deriving Repr, Inhabited, BEq

inductive RefKind where
  | imperative | pointer | loadable
deriving Repr, Inhabited, BEq

structure Hit where
  /-- response names from the entrypoint's reader down to the selection -/
  trail : Str
  kind : RefKind
  /-- the selectable's name (`__refetch`, an exposed field, the pointer, the loadable field) -/
  name : Str
  /-- where the selection stands: path from the root of `ctx` -/
  path : List PathEl
  /-- the normalization AST the position is relative to: the entrypoint's, or (inside a client
  pointer) the pointer's own refetch query, unwrapped; `none` when that could not be determined -/
  ctx : Option (List NNode)
  selected : Selected
  /-- the list the index was applied to (for the classifier) -/
  available : List Selected
  /-- for a pointer: its reader selections and the scope they are read in -/
  pointerSel : List RNode
  env : Option Env
  /-- the trail of the innermost client field (Resolver node) the selection is read in, and the path
  since then with the arguments AS WRITTEN in that field's reader (no substitution): the key under
  which that field's own reader numbers the selection -/
  scope : Str := []
  rawPath : List PathEl := []
deriving Inhabited

def atIdx (l : List Selected) (i : Nat) : Selected :=
  match l[i]? with
  | some s => s
  | none => .missing

def lastLevel (levels : List (List NNode)) : List NNode := levels.getLastD []

mutual
/-- `readData` over a reader AST, collecting refetchable selections -/
def walkNodes (g : Graph) : Nat → List RNode → List Selected → Option Env → Str → List PathEl →
    Option (List NNode) → Str → List PathEl → List Hit
  | 0, _, _, _, _, _, _, _, _ => []
  | _, [], _, _, _, _, _, _, _ => []
  | fuel + 1, node :: rest, nested, env, trail, path, ctx, scope, raw =>
    walkNode g fuel node nested env trail path ctx scope raw ++
      walkNodes g fuel rest nested env trail path ctx scope raw
def walkNode (g : Graph) : Nat → RNode → List Selected → Option Env → Str → List PathEl →
    Option (List NNode) → Str → List PathEl → List Hit
  | 0, _, _, _, _, _, _, _, _ => []
  | fuel + 1, node, nested, env, trail, path, ctx, scope, raw =>
    match node with
    | .scalar .. | .link _ => []
    | .linked name alias args cond idx sel =>
      let t := trail ++ [47] ++ alias.getD name
      match idx with
      | some i =>
        -- a client pointer: its selections are read relative to the pointer's own refetch query
        let chosen := atIdx nested i
        let ctx' : Option (List NNode) :=
          match chosen with
          | .artifact rel => (g.refetch? rel).map fun r => lastLevel (unwrapLevels 8 r.op.norm)
          | _ => none
        ⟨t, .pointer, name, path, ctx, chosen, nested, sel, env, scope, raw⟩ ::
          walkNodes g fuel sel nested env t [] ctx' scope (raw ++ [.field name args])
      | none =>
        match cond with
        | some condRel =>
          -- `asT`: same record, refined to the condition artifact's type
          let ty := ((g.reader? condRel).bind (·.conditionType)).getD (name.drop 2)
          walkNodes g fuel sel nested env t (path ++ [.frag ty]) ctx scope (raw ++ [.frag ty])
        | none =>
          walkNodes g fuel sel nested env t (path ++ [.field name (substArgs env args)]) ctx scope
            (raw ++ [.field name args])
    | .resolver alias args reader used =>
      match g.reader? reader with
      | none => []
      | some r =>
        walkNodes g fuel r.ast (used.map (atIdx nested)) (childEnv env args) (trail ++ [47] ++ alias) path ctx
          (trail ++ [47] ++ alias) []
    | .imperative alias name _ idx =>
      [⟨trail ++ [47] ++ alias, .imperative, name, path, ctx, atIdx nested idx, nested, [], env, scope, raw⟩]
    | .loadable alias name _ _ _ entry =>
      [⟨trail ++ [47] ++ alias, .loadable, name, path, ctx, .entrypoint entry, nested, [], env, scope, raw⟩]
end

def walkFuel : Nat := 400

/-- first segment of an artifact path: the type the entrypoint belongs to -/
def firstSegment (rel : Str) : Str := rel.takeWhile (· != 47)

/-- is the entrypoint's reader read at the root record?  (`concreteType` is the root type of the
operation; the artifact lives under the type the field is declared on) -/
def Entry.atRoot (e : Entry) : Bool := firstSegment e.rel == e.concreteType

def walkEntry (g : Graph) (e : Entry) : List Hit :=
  match g.reader? e.reader with
  | none => []
  | some r =>
    -- an entrypoint of a non-root type (generated for a loadable field) is read at the object
    -- fetched through the wrapping `node(id: $id) { ... on T {`
    let ctx := if e.atRoot then e.op.norm else lastLevel (unwrapLevels 8 e.op.norm)
    walkNodes g walkFuel r.ast (e.nested.map fun q => Selected.artifact q.1) none [] [] (some ctx) [] []

/-! ### the oracle -/

def segments (rel : Str) : List Str :=
  let rec go : Nat → Str → Str → List Str
    | 0, _, acc => [acc.reverse]
    | _, [], acc => [acc.reverse]
    | n + 1, c :: rest, acc => if c == 47 then acc.reverse :: go n rest [] else go n rest (c :: acc)
  go (rel.length + 1) rel []

/-- the name of the operation in a query text (`query Name(...) {`) -/
def operationName (text : Str) : Option Str := (parseOperation text).map (·.name)

/-- arguments equal except where the reader's side is an unbound variable (a variable of a client
field that the selection does not pass: the compiler put the variable's DEFAULT into the query) -/
def argsEqModuloUnbound : AArgs → AArgs → Bool
  | [], [] => true
  | (k, v) :: r, (k', v') :: r' => k == k' && (avalEq v v' || isUnbound v) && argsEqModuloUnbound r r'
  | _, _ => false

def hasObjArg (args : AArgs) : Bool := args.any fun a => match a.2 with | .obj _ => true | _ => false

/-- why a read of field `name(args)` finds nothing in `norm` -/
def classifyUncovered (norm : List NNode) (name : Str) (rawArgs args : AArgs) : String :=
  let candidates : List AArgs := norm.filterMap fun n =>
    match n with
    | .scalar _ n' a' => if n' == name then some a' else none
    | .linked _ n' a' _ _ => if n' == name then some a' else none
    | _ => none
  if candidates.any (argsEqModuloUnbound args ·) then "variable-default-not-applied"
  else if hasObjArg rawArgs || hasObjArg args then "object-argument"
  else if candidates.isEmpty then "field-not-selected:" ++ stringOfStr name
  else "other-arguments:" ++ stringOfStr name

/-- what a reader AST reads that a normalization AST does not provide (statically, by store key);
empty = covered.  Reads stop at loadable and imperative fields (only their refetch reader, i.e.
`id`, is read) and client pointers (only `id` of the target is read, and that lives in the target's
record); client fields' own readers are followed. -/
def coverProblems (g : Graph) : Nat → List NNode → List RNode → Option Env → List String
  | 0, _, _, _ => ["fuel"]
  | _, _, [], _ => []
  | fuel + 1, norm, node :: rest, env =>
    (match node with
     | .scalar name _ args =>
       let a := substArgs env args
       if norm.any (fun n =>
         match n with
         | .scalar _ n' a' => name == n' && argsEq a a'
         | _ => false) then [] else [classifyUncovered norm name args a]
     | .link _ => []
     | .linked name _ args cond idx sel =>
       match idx with
       | some _ => []
       | none =>
         match cond with
         | some condRel =>
           let ty := ((g.reader? condRel).bind (·.conditionType)).getD (name.drop 2)
           -- the condition reads `__typename`; the selections are read only when the type matches
           (match descend1 norm (.frag ty) with
            | some inner => coverProblems g fuel inner sel env
            | none => ["fragment-not-selected"])
         | none =>
           let a := substArgs env args
           (match descend1 norm (.field name a) with
            | some inner => coverProblems g fuel inner sel env
            | none => [classifyUncovered norm name args a])
     | .resolver _ args reader _ =>
       (match g.reader? reader with
        | some r => coverProblems g fuel norm r.ast (childEnv env args)
        | none => ["reader-missing"])
     | .imperative .. => []
     | .loadable _ _ _ refetchAst _ _ => coverProblems g fuel norm refetchAst env) ++
    coverProblems g fuel norm rest env

/-- debugging aid: `coverProblems` with the response-name trail of every problem -/
def coverTrace (g : Graph) : Nat → List NNode → List RNode → Option Env → Str → List String
  | 0, _, _, _, _ => ["fuel"]
  | _, _, [], _, _ => []
  | fuel + 1, norm, node :: rest, env, trail =>
    (match node with
     | .scalar name alias args =>
       let a := substArgs env args
       if norm.any (fun n =>
         match n with
         | .scalar _ n' a' => name == n' && argsEq a a'
         | _ => false) then [] else [stringOfStr (trail ++ [47] ++ alias.getD name) ++ " : " ++ classifyUncovered norm name args a]
     | .link _ => []
     | .linked name alias args cond idx sel =>
       let t := trail ++ [47] ++ alias.getD name
       match idx with
       | some _ => []
       | none =>
         match cond with
         | some condRel =>
           let ty := ((g.reader? condRel).bind (·.conditionType)).getD (name.drop 2)
           (match descend1 norm (.frag ty) with
            | some inner => coverTrace g fuel inner sel env t
            | none => [stringOfStr t ++ " : fragment-not-selected"])
         | none =>
           let a := substArgs env args
           (match descend1 norm (.field name a) with
            | some inner => coverTrace g fuel inner sel env t
            | none => [stringOfStr t ++ " : " ++ classifyUncovered norm name args a])
     | .resolver alias args reader _ =>
       (match g.reader? reader with
        | some r => coverTrace g fuel norm r.ast (childEnv env args) (trail ++ [47] ++ alias)
        | none => ["reader-missing"])
     | .imperative .. => []
     | .loadable alias _ _ refetchAst _ _ => coverTrace g fuel norm refetchAst env (trail ++ [47] ++ alias)) ++
    coverTrace g fuel norm rest env trail

def coversNodes (g : Graph) (fuel : Nat) (norm : List NNode) (ast : List RNode) (env : Option Env) : Bool :=
  (coverProblems g fuel norm ast env).isEmpty

/-- why a position cannot be found in a normalization AST: the class of the first step that fails -/
def classifyPosition (nodes : List NNode) : List PathEl → String
  | [] => "found"
  | el :: rest =>
    match descend1 nodes el with
    | some sel => classifyPosition sel rest
    | none =>
      match el with
      | .field n a => classifyUncovered nodes n a a
      | .frag _ => "fragment-not-selected"

def selectedText : Selected → Str
  | .artifact rel => rel
  | .missing => cs!"!missing"
  | .entrypoint rel => cs!"entry:" ++ rel

/-- the query-text artifact that belongs to a refetch artifact (`__refetch__3.ts` ↦
`__refetch__query_text__3.ts`); the driver supplies the evaluated texts -/
def refetchOpName (g : Graph) (rel : Str) : Option Str :=
  match g.refetch? rel with
  | some r => r.op.text.bind operationName
  | none => none

/-- verdict for one refetchable selection of entrypoint `e` -/
def hitVerdict (g : Graph) (e : Entry) (h : Hit) : Option String :=
  match h.selected with
  | .missing => some "refetch-index-out-of-range"
  | .entrypoint rel =>
    -- `<Type>/<field>/entrypoint.ts` of that very field
    match segments rel with
    | [_, f, file] =>
      if f == h.name && file == cs!"entrypoint.ts" && (g.entry? rel).isSome then none
      else some "loadable-wrong-entrypoint"
    | _ => some "loadable-wrong-entrypoint"
  | .artifact rel =>
    match g.refetch? rel with
    | none => some "refetch-artifact-unknown"
    | some q =>
      let expectedName := firstSegment e.rel ++ cs!"__" ++ h.name
      let nameOk : Bool :=
        match q.op.text with
        | some t => (operationName t) == some expectedName
        | none => true
      let levels := unwrapLevels 8 q.op.norm
      let same (cand : Refetch) (target : List NNode) : Bool :=
        (unwrapLevels 8 cand.op.norm).any fun lvl => selEq 64 lvl target
      let others : List Refetch :=
        h.available.filterMap fun s =>
          match s with
          | .artifact r => if r == rel then none else g.refetch? r
          | _ => none
      match h.kind with
      | .pointer =>
        if !nameOk then some "refetch-wrong-field"
        else if coversNodes g 200 (lastLevel levels) h.pointerSel h.env then none
        else if others.any (fun o => coversNodes g 200 (lastLevel (unwrapLevels 8 o.op.norm)) h.pointerSel h.env
                  && (o.op.text.bind operationName) == some expectedName)
        then some "refetch-order-after-substitution"
        else some "pointer-query-does-not-cover-reads"
      | _ =>
        match h.ctx.bind (descend · h.path) with
        | none => some ("position-not-fetched:" ++ (match h.ctx with
            | some c => classifyPosition c h.path
            | none => "no-context"))
        | some target =>
          -- the selection at the position: all entries for that store key together, or (when the
          -- compiler's map holds several entries for it) the one entry the query was built from
          let targets := target :: (match h.ctx with | some c => descendAlternatives c h.path | none => [])
          if nameOk && levels.any (fun lvl => targets.any fun t => selEq 64 lvl t) then none
          else if others.any (fun o => same o target && (o.op.text.bind operationName) == some expectedName)
          then some "refetch-order-after-substitution"
          else if !nameOk then some "refetch-wrong-field"
          else some "refetch-wrong-selection"

def pathElEq : PathEl → PathEl → Bool
  | .field n a, .field m b => n == m && argsEq a b
  | .frag s, .frag t => s == t
  | _, _ => false

def pathEq : List PathEl → List PathEl → Bool
  | [], [] => true
  | x :: xs, y :: ys => pathElEq x y && pathEq xs ys
  | _, _ => false

/-- do two refetchable selections of ONE client field stand at different keys in the field's own
reader but at the same key once the arguments passed to the field are substituted?  (then the
parent's map has one entry where the field's reader counts two) -/
def keysMerge (hits : List Hit) (h : Hit) : Bool :=
  hits.any fun o =>
    o.scope == h.scope && !o.scope.isEmpty && o.name == h.name && o.kind == h.kind &&
    pathEq o.path h.path && !pathEq o.rawPath h.rawPath

/-- narrow the verdict of a hit: an index that is wrong or out of range because keys merged -/
def refineVerdict (hits : List Hit) (h : Hit) (v : String) : String :=
  if (v == "refetch-wrong-selection" || v == "refetch-index-out-of-range" || v == "refetch-order-after-substitution")
      && hits.any (keysMerge hits ·) && !h.scope.isEmpty
  then "refetch-keys-merge-after-substitution" else v

def entryVerdict (g : Graph) (e : Entry) : String :=
  let hits := walkEntry g e
  match hits.findSome? (fun h => (hitVerdict g e h).map (refineVerdict hits h)) with
  | some why => "bad:" ++ why
  | none => "ok"

/-- `c25` line: the model's walk in the format of the implementation's answer, and the verdict -/
def c25Line (g : Option Graph) (entryRel : String) : String :=
  match g with
  | none => "nograph\tok"
  | some g =>
    match g.entry? (strOfString entryRel) with
    | none => "noentry\tbad:machinery:no-such-entrypoint"
    | some e =>
      let hits := walkEntry g e
      let items := hits.map fun h => strHex h.trail ++ "=" ++ strHex (selectedText h.selected)
      " ".intercalate (toString hits.length :: items) ++ "\t" ++ entryVerdict g e


/-! ### Part 3: the compiler's bookkeeping, abstractly

`RefetchedPathsMap` is a `BTreeMap`: a client field's refetch paths are numbered by their position
in key order.  Keys are abstracted to natural numbers (their rank in the `Ord` order of all keys).

* the child's reader numbers its refetchable selections by the position of their (untransformed)
  path in the child's own map: `childIndex`  (`find_imperatively_fetchable_query_index` on the
  child's `refetch_paths`);
* the parent's `Resolver` node lists, for the child's paths in the child's own order, each
  TRANSFORMED by the argument substitution `f`, their positions in the parent's map:
  `usedRefetchQueries`  (`get_nested_refetch_query_text`); before the repair of F18 the paths were
  transformed first and sorted afterwards (`usedRefetchQueriesOld`);
* the runtime composes: `nested'[i] = nested[used[i]]` (`readResolverFieldData`). -/
namespace Book

def insertKey (x : Nat) : List Nat → List Nat
  | [] => [x]
  | y :: rest => if x ≤ y then x :: y :: rest else y :: insertKey x rest

/-- iteration order of a `BTreeMap` / `Vec::sort` -/
def sortKeys : List Nat → List Nat
  | [] => []
  | x :: rest => insertKey x (sortKeys rest)

def indexOf? (x : Nat) : List Nat → Option Nat
  | [] => none
  | y :: rest => if x == y then some 0 else (indexOf? x rest).map (· + 1)

/-- `refetchQueryIndex` the child's reader AST holds for its selection with path `σ` -/
def childIndex (childPaths : List Nat) (σ : Nat) : Option Nat := indexOf? σ (sortKeys childPaths)

/-- `usedRefetchQueries` of the parent's Resolver node (`user_written_variant_ast_node`, since the
repair of F18): the child's paths IN THE CHILD'S OWN ORDER, each transformed (prefixed and its
variables substituted) and looked up in the parent's map -/
def usedRefetchQueries (parentPaths : List Nat) (f : Nat → Nat) (childPaths : List Nat) : List (Option Nat) :=
  (sortKeys childPaths).map fun k => indexOf? (f k) (sortKeys parentPaths)

/-- the key of the parent's refetch query that the runtime ends up with for the child's selection `σ` -/
def selectedKey (parentPaths : List Nat) (f : Nat → Nat) (childPaths : List Nat) (σ : Nat) : Option Nat :=
  match childIndex childPaths σ with
  | none => none
  | some i =>
    match (usedRefetchQueries parentPaths f childPaths)[i]? with
    | some (some j) => (sortKeys parentPaths)[j]?
    | _ => none

/-! before the repair the child's paths were transformed FIRST, collected in a set
(`refetched_paths_with_path` returns a `HashSet`) and then sorted -/

/-- adjacent duplicates removed (a sorted list becomes duplicate free) -/
def dedupAdjacent : List Nat → List Nat
  | [] => []
  | [x] => [x]
  | x :: y :: rest => if x == y then dedupAdjacent (y :: rest) else x :: dedupAdjacent (y :: rest)

def usedRefetchQueriesOld (parentPaths : List Nat) (f : Nat → Nat) (childPaths : List Nat) : List (Option Nat) :=
  (dedupAdjacent (sortKeys (childPaths.map f))).map fun k => indexOf? k (sortKeys parentPaths)

def selectedKeyOld (parentPaths : List Nat) (f : Nat → Nat) (childPaths : List Nat) (σ : Nat) : Option Nat :=
  match childIndex childPaths σ with
  | none => none
  | some i =>
    match (usedRefetchQueriesOld parentPaths f childPaths)[i]? with
    | some (some j) => (sortKeys parentPaths)[j]?
    | _ => none

/-- the transformation keeps the order of the child's keys -/
def OrderPreserving (f : Nat → Nat) (childPaths : List Nat) : Prop :=
  ∀ a ∈ childPaths, ∀ b ∈ childPaths, a < b → f a < f b

end Book

/-- debugging aid: every refetchable selection with its verdict -/
def c25Debug (g : Option Graph) (entryRel : String) : String :=
  match g.bind (fun g => (g.entry? (strOfString entryRel)).map fun e => (g, e)) with
  | none => "noentry\tok"
  | some (g, e) =>
    " | ".intercalate ((walkEntry g e).map fun h =>
      stringOfStr h.trail ++ " -> " ++ stringOfStr (selectedText h.selected) ++ " : " ++ (hitVerdict g e h).getD "ok") ++ "\tok"

end IsoVerif.Ops
