/-
M-CORE / operation text: crates/graphql_network_protocol/src/query_text.rs
(`generate_query_text`, `write_variables_to_string`, `write_selections_for_query_text`,
`get_serialized_arguments_for_query_text`, `serialize_non_constant_value_for_graphql`), plus
`graphql_type_annotation_from_type_annotation` with the `Display` of `GraphQLTypeAnnotation` and
`ConstantValue::print_to_string`.

`printQuery` is the printer; `queryTree` is the abstract selection tree it writes down and
`renderTrees` the renderer with `printQuery = header ++ renderTrees (queryTree m) ++ "}"`
(`Lemmas/PrintersTree.lean`).

Panics of the Rust code: a `List` value anywhere in a printed argument (`panic!("Lists are not
supported here")`), an empty union type of a variable (`.unwrap()`).  `queryPanics` decides them;
the printers below are total and print nothing for a list.  `indentation_level: u8` is a natural
number here (nesting deeper than 254 levels overflows the `u8` in a debug build).
-/
import IsoVerif.Model.Core.Alias

namespace IsoVerif.Core

inductive Format where
  | pretty
  | compact
deriving DecidableEq, Repr, Inhabited

/-- `new_line`: a backslash and a line feed (the text is embedded in a JS string), or a space -/
def newLine : Format → Str
  | .pretty => [92, 10]
  | .compact => [32]

/-- `indent` -/
def indentFor : Format → Nat → Str
  | .pretty, level => indent level
  | .compact, _ => []

mutual
/-- `serialize_non_constant_value_for_graphql` (a list prints nothing here: it panics) -/
def gqlValue : Value → Str
  | .var name => 36 :: name
  | .int i => showInt i
  | .bool b => showBool b
  | .str s => [34] ++ s ++ [34]
  | .float text => text
  | .null => cs!"null"
  | .enum e => e
  | .list _ => []
  | .obj fields => cs!"{ " ++ joinStr cs!", " (gqlFields fields) ++ cs!" }"
def gqlFields : List (Str × Value) → List Str
  | [] => []
  | (k, v) :: rest => (k ++ cs!": " ++ gqlValue v) :: gqlFields rest
end

/-- the entries of `get_serialized_arguments_for_query_text` -/
def gqlArgList : Args → List Str
  | [] => []
  | (k, v) :: rest => (k ++ cs!": " ++ gqlValue v) :: gqlArgList rest

/-- `get_serialized_arguments_for_query_text` -/
def gqlArgs (args : Args) : Str :=
  if args.isEmpty then [] else [40] ++ joinStr cs!", " (gqlArgList args) ++ [41]

/-- `if let Some(alias) = ..normalization_alias() { "{alias}: " }` -/
def aliasPrefix (name : Str) (args : Args) : Str :=
  if args.isEmpty then [] else aliasT name args ++ cs!": "

/-- the `items.is_empty()` branch of `write_selections_for_query_text` -/
def typenamePlaceholder (fmt : Format) (level : Nat) : Str :=
  indentFor fmt level ++ cs!"__typename," ++ newLine fmt

def orPlaceholder (fmt : Format) (level : Nat) (isEmpty : Bool) (body : Str) : Str :=
  if isEmpty then typenamePlaceholder fmt level else body

mutual
/-- one iteration of the `for item in items.values()` loop -/
def qSel (fmt : Format) (level : Nat) : Sel → Str
  | .scalar _ name args =>
    indentFor fmt level ++ aliasPrefix name args ++ name ++ gqlArgs args ++ [44] ++ newLine fmt
  | .linked _ name args _ map =>
    indentFor fmt level ++ aliasPrefix name args ++ name ++ gqlArgs args ++ cs!" {" ++ newLine fmt
      ++ orPlaceholder fmt (level + 1) map.isEmpty (qItems fmt (level + 1) map)
      ++ indentFor fmt level ++ cs!"}," ++ newLine fmt
  | .clientObj .. => []
  | .frag ty map =>
    indentFor fmt level ++ cs!"... on " ++ ty ++ cs!" {" ++ newLine fmt
      ++ orPlaceholder fmt (level + 1) map.isEmpty (qItems fmt (level + 1) map)
      ++ indentFor fmt level ++ cs!"}," ++ newLine fmt
/-- the loop -/
def qItems (fmt : Format) (level : Nat) : SelMap → Str
  | [] => []
  | (_, s) :: rest => qSel fmt level s ++ qItems fmt level rest
end

/-- `write_selections_for_query_text` -/
def writeSelections (fmt : Format) (level : Nat) (m : SelMap) : Str :=
  orPlaceholder fmt level m.isEmpty (qItems fmt level m)

/-! ### variable definitions -/

mutual
/-- `graphql_type_annotation_from_type_annotation(t).to_string()`; `none` = `.unwrap()` on a
union without variants.  `Plural` is a non-null list and prints as `[T]!` (/repo e06371c). -/
def gqlType : TypeAnn → Option Str
  | .scalar name => some (name ++ [33])
  | .plural inner => (gqlType inner).map fun t => [91] ++ t ++ [93, 33]
  | .union nullable variants =>
    (gqlFirstVariant variants).map fun t => if nullable then t else t ++ [33]
/-- the first variant of the union as a named / list type -/
def gqlFirstVariant : List TypeAnn → Option Str
  | [] => none
  | .scalar name :: _ => some name
  | .plural inner :: _ => (gqlType inner).map fun t => [91] ++ t ++ [93]
  | .union .. :: _ => none
end

mutual
/-- `ConstantValue::print_to_string` -/
def constPrint : Value → Str
  | .var name => 36 :: name            -- not a constant; never built by the compiler
  | .int i => showInt i
  | .bool b => showBool b
  | .str s => [34] ++ s ++ [34]
  | .float text => text
  | .null => cs!"null"
  | .enum e => e
  | .list items => [91] ++ joinStr cs!", " (constPrintList items) ++ [93]
  | .obj fields => [123] ++ joinStr cs!", " (constPrintFields fields) ++ [125]
def constPrintList : List Value → List Str
  | [] => []
  | v :: rest => constPrint v :: constPrintList rest
def constPrintFields : List (Str × Value) → List Str
  | [] => []
  | (k, v) :: rest => (k ++ cs!": " ++ constPrint v) :: constPrintFields rest
end

/-- one `${name}: {type}[ = {default}]` -/
def varDefText (v : VarDef) : Option Str :=
  (gqlType v.type).map fun t =>
    [36] ++ v.name ++ cs!": " ++ t ++
      (match v.default with
       | some d => cs!" = " ++ constPrint d
       | none => [])

def varDefTexts : List VarDef → Option (List Str)
  | [] => some []
  | v :: rest =>
    match varDefText v, varDefTexts rest with
    | some t, some ts => some (t :: ts)
    | _, _ => none

/-- `write_variables_to_string`; `none` = panic -/
def variablesText (vars : List VarDef) : Option Str :=
  if vars.isEmpty then some [] else
  (varDefTexts vars).map fun ts => [40] ++ joinStr cs!", " ts ++ [41]

/-! ### panics -/

mutual
/-- does printing this selection reach a list value?  (`ClientObjectSelectable` is skipped by the
printers, so nothing inside it is reached) -/
def Sel.printPanics : Sel → Bool
  | .scalar _ _ args => argsHaveList args
  | .linked _ _ args _ map => argsHaveList args || SelMap.printPanics map
  | .clientObj .. => false
  | .frag _ map => SelMap.printPanics map
def SelMap.printPanics : SelMap → Bool
  | [] => false
  | (_, s) :: rest => s.printPanics || SelMap.printPanics rest
end

/-- the header `"{operation_kind} {query_name}{variable_text} {"` + first separator -/
def queryHeader (fmt : Format) (kind name varsText : Str) : Str :=
  kind ++ [32] ++ name ++ varsText ++ cs!" {" ++ (match fmt with | .pretty => [92, 10] | .compact => [32])

/-- `generate_query_text` without the panic check -/
def printQueryCore (fmt : Format) (kind name varsText : Str) (m : SelMap) : Str :=
  queryHeader fmt kind name varsText ++ writeSelections fmt 1 m ++ [125]

/-- `generate_query_text`; `none` = the Rust function panics -/
def printQuery (fmt : Format) (kind name : Str) (vars : List VarDef) (m : SelMap) : Option Str :=
  match variablesText vars with
  | none => none
  | some vt => if SelMap.printPanics m then none else some (printQueryCore fmt kind name vt m)

/-! ### the abstract selection tree of the operation text -/

/-- field / inline fragment / nesting; `kids = none` for a field without a selection set -/
inductive Tree where
  | field (name : Str) (args : Args) (kids : Option (List Tree))
  | frag (ty : Str) (kids : List Tree)
deriving Repr, Inhabited

mutual
/-- number of nodes -/
def Tree.size : Tree → Nat
  | .field _ _ none => 1
  | .field _ _ (some kids) => 1 + Tree.sizeList kids
  | .frag _ kids => 1 + Tree.sizeList kids
def Tree.sizeList : List Tree → Nat
  | [] => 0
  | t :: rest => t.size + Tree.sizeList rest
end

/-- what `{ __typename, }` denotes -/
def typenameNode : Tree := .field cs!"__typename" [] none

def kidsOrPlaceholder (isEmpty : Bool) (kids : List Tree) : List Tree :=
  if isEmpty then [typenameNode] else kids

mutual
def qTreeSel : Sel → List Tree
  | .scalar _ name args => [.field name args none]
  | .linked _ name args _ map => [.field name args (some (kidsOrPlaceholder map.isEmpty (qTreeItems map)))]
  | .clientObj .. => []
  | .frag ty map => [.frag ty (kidsOrPlaceholder map.isEmpty (qTreeItems map))]
def qTreeItems : SelMap → List Tree
  | [] => []
  | (_, s) :: rest => qTreeSel s ++ qTreeItems rest
end

/-- the selection tree of the operation `generate_query_text` prints for `m` -/
def queryTree (m : SelMap) : List Tree := kidsOrPlaceholder m.isEmpty (qTreeItems m)

mutual
def renderTree (fmt : Format) (level : Nat) : Tree → Str
  | .field name args none =>
    indentFor fmt level ++ aliasPrefix name args ++ name ++ gqlArgs args ++ [44] ++ newLine fmt
  | .field name args (some kids) =>
    indentFor fmt level ++ aliasPrefix name args ++ name ++ gqlArgs args ++ cs!" {" ++ newLine fmt
      ++ renderTrees fmt (level + 1) kids
      ++ indentFor fmt level ++ cs!"}," ++ newLine fmt
  | .frag ty kids =>
    indentFor fmt level ++ cs!"... on " ++ ty ++ cs!" {" ++ newLine fmt
      ++ renderTrees fmt (level + 1) kids
      ++ indentFor fmt level ++ cs!"}," ++ newLine fmt
def renderTrees (fmt : Format) (level : Nat) : List Tree → Str
  | [] => []
  | t :: rest => renderTree fmt level t ++ renderTrees fmt level rest
end

end IsoVerif.Core
