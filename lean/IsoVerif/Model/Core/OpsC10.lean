/-
C10 oracle and line handler: normalize + read of the model on the implementation's artifacts and the
generated response, compared with the runtime's own functions (answer of js/ops_runtime.mjs), and the
verdict on the implementation's answer: no read reports missing data (nor throws).
-/
import IsoVerif.Model.Core.Runtime

namespace IsoVerif.Ops
open IsoVerif.Core

def containsSub (needle : Str) : Nat → Str → Bool
  | 0, _ => false
  | _, [] => needle.isEmpty
  | n + 1, s@(_ :: rest) => needle.isPrefixOf s || containsSub needle n rest

/-- narrow class of a missing-data reason: the store key it names -/
def classifyReason (reason : Str) : String :=
  if containsSub cs!"___{" (reason.length + 1) reason then "object-argument-key"
  else if containsSub cs!"No record for root" (reason.length + 1) reason then "no-record"
  else if containsSub cs!"No link for" (reason.length + 1) reason then "no-link"
  else if containsSub cs!"No value for" (reason.length + 1) reason then "no-value"
  else "other"

def hexOrDash (s : Str) : String := strHex s

structure C10Model where
  norm : String
  out : String
  cm : String
  store : String
  selected : String
  /-- which read failed (model-side knowledge, used by the classifier only) -/
  tag : String := ""

def c10Model (g : Graph) (pointers : List (Str × List Str)) (e : Entry) (vars resp : J) (readRoot : Option Link) :
    C10Model :=
  let vs : Vars := match vars with | .obj fs => fs | _ => []
  match normalize e.op.norm resp (e.concreteType, rootId) vs with
  | .throw msg => ⟨"norm:throw:" ++ strHex msg, "", "", "", "", ""⟩
  | .ok store =>
    let c : Ctx := ⟨g, store, pointers⟩
    let (res, cm) := readEntry c e vs (readRoot.getD (e.concreteType, rootId))
    let cmText := if cm.isEmpty then "cm:0" else s!"cm:{cm.length}:" ++ ",".intercalate (cm.map strHex)
    let dump := dumpStore store
    let dump := if dump.isEmpty then "-" else dump
    match res with
    | .ok d =>
      let sel := (collectSelected [] d).map fun (t, s) => strHex t ++ "=" ++ strHex (selectedText s)
      ⟨"norm:ok", "out:ok", cmText, dump, if sel.isEmpty then "-" else ",".intercalate sel, ""⟩
    | .missing why tag => ⟨"norm:ok", "out:missing:" ++ strHex why, cmText, dump, "-", stringOfStr tag⟩
    | .throw msg => ⟨"norm:ok", "out:throw:" ++ strHex msg, cmText, dump, "-", ""⟩

def normHasAbstractFrag (isAbstract : Str → Bool) : Nat → List NNode → Bool
  | 0, _ => false
  | fuel + 1, nodes =>
    nodes.any fun n =>
      match n with
      | .frag ty sel => isAbstract ty || normHasAbstractFrag isAbstract fuel sel
      | .linked _ _ _ _ sel => normHasAbstractFrag isAbstract fuel sel
      | _ => false

/-- static coverage of the entrypoint's reader by its normalization AST; `atRoot = false`: the read
starts at the object fetched through the wrapping `node(id: $id) { ... on T {` -/
def staticProblems (g : Graph) (e : Entry) (atRoot : Bool) : List String :=
  match g.reader? e.reader with
  | some r =>
    let ctx := if atRoot then e.op.norm else lastLevel (unwrapLevels 8 e.op.norm)
    coverProblems g 400 ctx r.ast none
  | none => ["reader-missing"]

/-- class of a missing-data outcome: what the static comparison of reader and normalization AST says,
else which read it was, else the shape of the reason -/
def missingClass (g : Graph) (e : Entry) (atRoot : Bool) (isAbstract : Str → Bool) (tag : String) (reason : Str) : String :=
  match staticProblems g e atRoot with
  | p :: _ => p
  | [] =>
    if tag == "pointer-target-id" then "pointer-target-id-not-fetched"
    else if normHasAbstractFrag isAbstract 64 e.op.norm && classifyReason reason == "no-record" then "fragment-on-abstract-type"
    else if classifyReason reason == "object-argument-key" then "null-variable-in-object-argument"
    else classifyReason reason

/-- verdict on the implementation's answer fields -/
def c10Verdict (g : Graph) (e : Entry) (atRoot : Bool) (isAbstract : Str → Bool) (tag : String)
    (norm out cm : String) : String :=
  if norm.startsWith "rt-error" then "bad:machinery:rt-error"
  else if norm.startsWith "norm:throw:" then "bad:normalize-throws"
  else if out.startsWith "out:missing:" then
    match hexStr (out.drop 12).toString with
    | some r => "bad:missing-data:" ++ missingClass g e atRoot isAbstract tag r
    | none => "bad:missing-data:other"
  else if out.startsWith "out:throw:" then "bad:read-throws"
  else if cm != "cm:0" then
    match cm.splitOn ":" with
    | [_, _, reasons] =>
      (match (reasons.splitOn ",").head? with
       | some h => (match hexStr h with
         | some r => "bad:missing-data:" ++ missingClass g e atRoot isAbstract "" r
         | none => "bad:missing-data:other")
       | none => "bad:missing-data:other")
    | _ => "bad:missing-data:other"
  else
    match staticProblems g e atRoot with
    | [] => "ok"
    | p :: _ => "bad:static-not-covered:" ++ p

/-- pointer table (parent, field, target type) → reader artifact path ↦ possible concrete types -/
def pointerReaders (possible : Str → List Str) (ptrs : List (Str × Str × Str)) : List (Str × List Str) :=
  ptrs.map fun (t, f, to) => (t ++ [47] ++ f ++ cs!"/resolver_reader.ts", possible to)

def parseRoot (f : String) : Option (Option Link) :=
  if f == "root:-" then some none
  else match f.splitOn ":" with
    | ["root", t, i] =>
      (match hexStr t, hexStr i with
       | some t, some i => some (some (t, i))
       | _, _ => none)
    | _ => none

def c10Line (g : Option Graph) (pointers : List (Str × List Str)) (isAbstract : Str → Bool) (req impl : List String) : String :=
  match g, req, impl with
  | some g, [_, _, entry, _, _], varsW :: respW :: rootF :: norm :: rest =>
    (match g.entry? (strOfString entry), parseJ varsW, parseJ respW, parseRoot rootF with
     | some e, some vars, some resp, some root =>
       let m := c10Model g pointers e vars resp root
       let model := if m.out.isEmpty then " ".intercalate [varsW, respW, rootF, m.norm]
         else " ".intercalate [varsW, respW, rootF, m.norm, m.out, m.cm, m.store, m.selected]
       let (out, cm) : String × String := match rest with
         | out :: cm :: _ => (out, cm)
         | _ => ("", "cm:0")
       model ++ "\t" ++ c10Verdict g e e.atRoot isAbstract m.tag norm out cm
     | _, _, _, _ => "?\tbad:machinery:c10-parse")
  | _, _, [a, b, short] => a ++ " " ++ b ++ " " ++ short ++ "\t" ++ (if short == "noroot" then "ok" else "bad:machinery:" ++ short)
  | _, _, [short] =>
    -- the query text could not be obtained / read (C09's business): nothing to run
    short ++ "\t" ++ (if short == "noquerytext" || short == "unparsed-query" || short == "noschema" then "ok" else "bad:machinery:" ++ short)
  | none, _, _ => "?\tbad:machinery:no-graph"
  | _, _, _ => "?\tbad:machinery:c10-fields"

end IsoVerif.Ops
