/-
M-CORE / relative imports between artifacts (C13).  Import-free.

* `resolve file spec`: the path arithmetic of a relative module specifier (`./x`, `../../T/f/x`), as a
  module resolver does it before looking at the file system: directory of the importing file, then one
  component at a time (`.`/empty skipped, `..` pops).  Paths are lists of components.
* The import TEMPLATES of crates/artifact_content (import_statements.rs, entrypoint_artifact.rs,
  eager_reader_artifact.rs, refetch_reader_artifact.rs, imperatively_loaded_fields.rs, reader_ast.rs,
  iso_overload_file.rs) as data: which specifier a file of which place prints for which target.
* `diffPaths`: `pathdiff::diff_paths` on relative, normalised paths (the resolver import
  `import { X as resolver } from '../../../components/X'` of reader and output-type artifacts).
* An *artifact plan*: the files one compile generates, each with the templates it instantiates; a plan is
  `closed` when the target of every template is one of its files.  `C13_imports` says: in a closed plan
  every printed specifier resolves to a generated file.  Closedness of the REAL generator's plan is what the
  oracle checks on every compiled project (the imports are read back from the implementation's artifacts).
-/
namespace IsoVerif.Core.Imports

abbrev Path := List String

/-- an ordinary directory / file name: not empty, not `.`, not `..` -/
def plain (c : String) : Bool := c != "" && c != "." && c != ".."

def allPlain (p : Path) : Bool := p.all plain

/-- apply the components of a specifier to a directory -/
def applySpec : Path → List String → Path
  | cur, [] => cur
  | cur, c :: rest =>
    if c == "" || c == "." then applySpec cur rest
    else if c == ".." then
      (if cur.isEmpty || cur.getLast? == some ".." then applySpec (cur ++ [".."]) rest
       else applySpec cur.dropLast rest)
    else applySpec (cur ++ [c]) rest

/-- `resolve file spec`: `file` is the importing file (components, the last one the file name) -/
def resolve (file : Path) (spec : List String) : Path := applySpec file.dropLast spec

def splitPath (s : String) : Path := s.splitOn "/"
def joinPath (p : Path) : String := "/".intercalate p

/-- string-level version used by the driver -/
def resolveStr (file spec : String) : String := joinPath (resolve (splitPath file) (splitPath spec))

/-- is the specifier relative (`./…`, `../…`)? -/
def isRelative (spec : String) : Bool :=
  spec.startsWith "./" || spec.startsWith "../" || spec == "." || spec == ".."

/-- `pathdiff::diff_paths(path, base)` for relative paths without `.`/`..` components -/
def diffPaths : Path → Path → List String
  | p :: ps, b :: bs => if p == b then diffPaths ps bs else ((b :: bs).map fun _ => "..") ++ (p :: ps)
  | ps, bs => (bs.map fun _ => "..") ++ ps

/-! ## Templates -/

/-- where an importing artifact lives, relative to the artifact directory `A` (= `…/__isograph`) -/
inductive Place where
  /-- `A/<Type>/<field>/<file>` -/
  | nested (ty field file : String)
  /-- `A/iso.ts` -/
  | iso
  deriving DecidableEq, Repr, Inhabited

def Place.path (art : Path) : Place → Path
  | .nested ty field file => art ++ [ty, field, file]
  | .iso => art ++ ["iso.ts"]

/-- the file-name stems the generators import -/
inductive Stem where
  | entrypoint | resolverReader | refetchReader | paramType | outputType | parametersType | queryText
  | normalizationAst | rawResponseType
  | refetch (n : Nat)
  | refetchQueryText (n : Nat)
  deriving DecidableEq, Repr, Inhabited

def Stem.str : Stem → String
  | .entrypoint => "entrypoint" | .resolverReader => "resolver_reader" | .refetchReader => "refetch_reader"
  | .paramType => "param_type" | .outputType => "output_type" | .parametersType => "parameters_type"
  | .queryText => "query_text" | .normalizationAst => "normalization_ast" | .rawResponseType => "raw_response_type"
  | .refetch n => "__refetch__" ++ toString n
  | .refetchQueryText n => "__refetch__query_text__" ++ toString n

inductive Template where
  /-- `'./<stem><ext>'` — a file next to the importing one -/
  | sibling (s : Stem)
  /-- `'../../<Type>/<field>/<stem><ext>'` — from `A/T0/f0/x.ts` to another declaration's directory -/
  | cousin (ty field : String) (s : Stem)
  /-- `import("../../<Type>/<field>/entrypoint")` (reader_ast.rs): never carries the extension -/
  | cousinNoExt (ty field : String) (s : Stem)
  /-- iso.ts: `'../__isograph/<Type>/<field>/entrypoint<ext>'` -/
  | isoUp (ty field : String) (s : Stem)
  /-- iso.ts: `'./<Type>/<field>/<stem><ext>'` -/
  | isoDown (ty field : String) (s : Stem)
  deriving DecidableEq, Repr, Inhabited

def extStr (ext : Bool) : String := if ext then ".ts" else ""

/-- the specifier the generator prints (components) -/
def Template.spec (ext : Bool) : Template → List String
  | .sibling s => [".", s.str ++ extStr ext]
  | .cousin ty field s => ["..", "..", ty, field, s.str ++ extStr ext]
  | .cousinNoExt ty field s => ["..", "..", ty, field, s.str]
  | .isoUp ty field s => ["..", "__isograph", ty, field, s.str ++ extStr ext]
  | .isoDown ty field s => [".", ty, field, s.str ++ extStr ext]

/-- is the template meant for this place? -/
def Template.fits : Template → Place → Bool
  | .sibling _, .nested .. => true
  | .cousin .., .nested .. => true
  | .cousinNoExt .., .nested .. => true
  | .isoUp .., .iso => true
  | .isoDown .., .iso => true
  | _, _ => false

/-- the file the template is meant to name -/
def Template.target (art : Path) : Place → Template → Path
  | .nested ty field _, .sibling s => art ++ [ty, field, s.str ++ ".ts"]
  | _, .sibling s => art ++ [s.str ++ ".ts"]
  | _, .cousin ty field s => art ++ [ty, field, s.str ++ ".ts"]
  | _, .cousinNoExt ty field s => art ++ [ty, field, s.str ++ ".ts"]
  | _, .isoUp ty field s => art ++ [ty, field, s.str ++ ".ts"]
  | _, .isoDown ty field s => art ++ [ty, field, s.str ++ ".ts"]

/-- `p` names the file `q`: exactly, or with `.ts` appended to the last component (TypeScript's rule for
extension-less specifiers) -/
def names (p q : Path) : Bool :=
  p == q ||
  (match p.getLast?, q.getLast? with
   | some a, some b => p.dropLast == q.dropLast && a ++ ".ts" == b
   | _, _ => false)

/-! ## Plans -/

structure PlannedFile where
  place : Place
  imports : List Template
  deriving Repr, Inhabited

structure Plan where
  /-- artifact directory, components, the last one `__isograph` -/
  art : Path
  ext : Bool
  files : List PlannedFile
  deriving Repr, Inhabited

def Plan.paths (p : Plan) : List Path := p.files.map fun f => f.place.path p.art

def Plan.wellFormed (p : Plan) : Bool :=
  allPlain p.art && p.art.getLast? == some "__isograph" &&
  p.files.all fun f =>
    (match f.place with
     | .nested ty field file => plain ty && plain field && plain file
     | .iso => true) &&
    f.imports.all fun t =>
      t.fits f.place &&
      (match t with
       | .cousin ty field _ | .cousinNoExt ty field _ | .isoUp ty field _ | .isoDown ty field _ => plain ty && plain field
       | .sibling _ => true)

/-- every template's intended target is generated -/
def Plan.closed (p : Plan) : Bool :=
  p.files.all fun f => f.imports.all fun t => (p.paths).contains (t.target p.art f.place)

/-- (importing file, specifier) pairs the plan prints -/
def Plan.importsOf (p : Plan) : List (Path × List String) :=
  p.files.flatMap fun f => f.imports.map fun t => (f.place.path p.art, t.spec p.ext)

/-- the oracle's decision for one import of the implementation: it names a generated file or a source file
(sources may carry any of the four source extensions) -/
def resolvesIn (paths sources : List String) (target : String) : Bool :=
  paths.contains target || paths.contains (target ++ ".ts") ||
  sources.contains target ||
  [".ts", ".tsx", ".js", ".jsx"].any fun e => sources.contains (target ++ e)

end IsoVerif.Core.Imports
