/-
M-CORE / merged selection maps (C15).  Imports only `Syntax` and `Validate` (for `lookup`).

Mirror of crates/isograph_schema/src/create_merged_selection_set.rs
  (`merge_selection_set_into_selection_map`, `merge_server_scalar_field`, `merge_server_object_field`,
   `merge_client_scalar_field`, `merge_client_object_field`, `merge_non_loadable_client_type`,
   `insert_client_object_selectable_into_refetch_paths` (its map part),
   `transform_and_merge_child_selection_map_into_parent_map`, `select_typename_and_id_fields_in_merged_selection`)
and crates/isograph_schema/src/variable_context.rs
  (`initial_variable_context`, `child_variable_context`, `transform_arguments_with_child_context`).

Representation.  A `MergedSelectionMap` is a `BTreeMap<NormalizationKey, MergedServerSelection>` whose
linked / client-pointer / inline-fragment values hold a `MergedSelectionMap` again.  Here the nested map is
FLATTENED: a `MergedMap` is a sorted association list from PATHS of normalization keys (root → node) to the
node's own data (`Info`: the keys in readable form + the selection's name / arguments / fallibility /
concrete type).  The nested map is recovered by grouping on the first key (`Driver/Merge.lean` does so to
print it).  Every mutation the Rust code performs is `entry(key).or_insert(..)` — "insert unless present,
then descend" — which on the flat representation is `insertIfAbsent` of the node's path; a traversal is
therefore the list of entries it tries to insert, in order (`emit…`), and the map is
`build (emit…) = foldl insertIfAbsent []`.  The sorted-list invariant is a separate theorem
(`Lemmas/MergeMap.lean: build_sorted`).

Order of keys.  Rust orders `NormalizationKey`s by the derived `Ord`: variant, then name and argument
values by string CONTENT (`StringId: Ord` compares `as_str()`, not interning order), and — inside object /
list argument values — by the SOURCE LOCATIONS embedded there.  The map operations and all theorems use a
different, location-free order: keys are ordered by an encoding into `List Nat` (any strict total order
gives the same map up to the order of its entries).  The implementation's order is transcribed separately
at the end of this file (`cmpKey`); the driver prints maps in that order and the correspondence compares
them with the implementation's iteration order.  What the MAP models of the locations is key IDENTITY:
an argument value that embeds source locations (a non-empty object or list literal) carries the identity
of its source occurrence (`LV.object site …`, `LV.list site …`), and two keys are equal only if these agree — as
in the implementation.

Outcomes that are panics in Rust are explicit: `Payload.panic` entries.
Not modelled: refetch-path bookkeeping (`ScalarClientFieldTraversalState`), the separate maps of `@loadable`
/ imperatively loaded fields in `encountered_client_type_map` (expansion stops at these boundaries, which
is all the entrypoint's own map sees), `wrap_merged_selection_map` for entrypoints on non-root types, the
panics that depend on an entry of another kind already sitting at a key.
-/
import IsoVerif.Model.Core.Syntax
import IsoVerif.Model.Core.Validate

namespace IsoVerif.Core.Merge

open IsoVerif.Core
open IsoVerif.Core.Validate (lookup Selectable SelKind annNullable)

/-! ### keyed association lists with "insert unless present" -/

section AMap
variable {κ ι : Type}

/-- `m.entry(k).or_insert(v)` on a list sorted by `lt` -/
def insertIfAbsent (lt : κ → κ → Bool) (k : κ) (v : ι) : List (κ × ι) → List (κ × ι)
  | [] => [(k, v)]
  | (k', v') :: rest =>
    if lt k k' then (k, v) :: (k', v') :: rest
    else if lt k' k then (k', v') :: insertIfAbsent lt k v rest
    else (k', v') :: rest

/-- insert the entries of `l`, left to right -/
def insertAll (lt : κ → κ → Bool) (m : List (κ × ι)) (l : List (κ × ι)) : List (κ × ι) :=
  l.foldl (fun acc e => insertIfAbsent lt e.1 e.2 acc) m

def build (lt : κ → κ → Bool) (l : List (κ × ι)) : List (κ × ι) := insertAll lt [] l

/-- map union: the entries of `b` that `a` does not have are added (`a` wins on common keys) -/
def union (lt : κ → κ → Bool) (a b : List (κ × ι)) : List (κ × ι) := insertAll lt a b

def find (lt : κ → κ → Bool) (k : κ) : List (κ × ι) → Option ι
  | [] => none
  | (k', v') :: rest => if lt k k' || lt k' k then find lt k rest else some v'

/-- strictly increasing keys -/
def Sorted (lt : κ → κ → Bool) : List (κ × ι) → Prop
  | [] => True
  | [_] => True
  | a :: b :: rest => lt a.1 b.1 = true ∧ Sorted lt (b :: rest)

end AMap

/-- lexicographic order on lists (a proper prefix is smaller) -/
def lexLt {α : Type} (lt : α → α → Bool) : List α → List α → Bool
  | [], [] => false
  | [], _ :: _ => true
  | _ :: _, [] => false
  | a :: as, b :: bs => if lt a b then true else if lt b a then false else lexLt lt as bs

def natLt (a b : Nat) : Bool := decide (a < b)

/-- a normalization key, encoded -/
abbrev Key := List Nat

def keyLt : Key → Key → Bool := lexLt natLt

def pathLt : List Key → List Key → Bool := lexLt keyLt

/-! ### located values

`NonConstantValue`: a value in which every item of a list and every field name and field value of an object
carries a source location.  Those locations take part in equality and order of normalization keys.  All the
locations of one list / object node are determined by the source OCCURRENCE the node was written in, so a
node carries the identity of that occurrence (`site`; `[]` for an empty node, which has no locations).
Substitution (`substitute_variables`) replaces variables at any depth and keeps every node's own site, so
one value can mix nodes of several occurrences. -/

inductive LV where
  | int (i : Int)
  | float (lexeme : String)
  | bool (b : Bool)
  | null
  | enum (name : String)
  | str (raw : String)
  | var (name : String)
  | object (site : List Nat) (fields : List (String × LV))
  | list (site : List Nat) (items : List LV)
  deriving Repr, Inhabited

namespace LV

mutual
def beq : LV → LV → Bool
  | .int a, .int b => a == b
  | .float a, .float b => a == b
  | .bool a, .bool b => a == b
  | .null, .null => true
  | .enum a, .enum b => a == b
  | .str a, .str b => a == b
  | .var a, .var b => a == b
  | .object s a, .object s' b => s == s' && beqFields a b
  | .list s a, .list s' b => s == s' && beqList a b
  | _, _ => false
def beqFields : List (String × LV) → List (String × LV) → Bool
  | [], [] => true
  | (k, v) :: r, (k', v') :: r' => k == k' && beq v v' && beqFields r r'
  | _, _ => false
def beqList : List LV → List LV → Bool
  | [], [] => true
  | v :: r, v' :: r' => beq v v' && beqList r r'
  | _, _ => false
end

mutual
theorem eq_of_beq : ∀ (a b : LV), beq a b = true → a = b
  | .int a, .int b, h => by simp [beq] at h; simp [h]
  | .float a, .float b, h => by simp [beq] at h; simp [h]
  | .bool a, .bool b, h => by simp [beq] at h; simp [h]
  | .null, .null, _ => rfl
  | .enum a, .enum b, h => by simp [beq] at h; simp [h]
  | .str a, .str b, h => by simp [beq] at h; simp [h]
  | .var a, .var b, h => by simp [beq] at h; simp [h]
  | .object s a, .object s' b, h => by simp [beq] at h; rw [h.1, eq_of_beqFields a b h.2]
  | .list s a, .list s' b, h => by simp [beq] at h; rw [h.1, eq_of_beqList a b h.2]
  | .int _, .float _, h | .int _, .bool _, h | .int _, .null, h | .int _, .enum _, h | .int _, .str _, h | .int _, .var _, h | .int _, .object _ _, h | .int _, .list _ _, h => by simp [beq] at h
  | .float _, .int _, h | .float _, .bool _, h | .float _, .null, h | .float _, .enum _, h | .float _, .str _, h | .float _, .var _, h | .float _, .object _ _, h | .float _, .list _ _, h => by simp [beq] at h
  | .bool _, .int _, h | .bool _, .float _, h | .bool _, .null, h | .bool _, .enum _, h | .bool _, .str _, h | .bool _, .var _, h | .bool _, .object _ _, h | .bool _, .list _ _, h => by simp [beq] at h
  | .null, .int _, h | .null, .float _, h | .null, .bool _, h | .null, .enum _, h | .null, .str _, h | .null, .var _, h | .null, .object _ _, h | .null, .list _ _, h => by simp [beq] at h
  | .enum _, .int _, h | .enum _, .float _, h | .enum _, .bool _, h | .enum _, .null, h | .enum _, .str _, h | .enum _, .var _, h | .enum _, .object _ _, h | .enum _, .list _ _, h => by simp [beq] at h
  | .str _, .int _, h | .str _, .float _, h | .str _, .bool _, h | .str _, .null, h | .str _, .enum _, h | .str _, .var _, h | .str _, .object _ _, h | .str _, .list _ _, h => by simp [beq] at h
  | .var _, .int _, h | .var _, .float _, h | .var _, .bool _, h | .var _, .null, h | .var _, .enum _, h | .var _, .str _, h | .var _, .object _ _, h | .var _, .list _ _, h => by simp [beq] at h
  | .object _ _, .int _, h | .object _ _, .float _, h | .object _ _, .bool _, h | .object _ _, .null, h | .object _ _, .enum _, h | .object _ _, .str _, h | .object _ _, .var _, h | .object _ _, .list _ _, h => by simp [beq] at h
  | .list _ _, .int _, h | .list _ _, .float _, h | .list _ _, .bool _, h | .list _ _, .null, h | .list _ _, .enum _, h | .list _ _, .str _, h | .list _ _, .var _, h | .list _ _, .object _ _, h => by simp [beq] at h
theorem eq_of_beqFields : ∀ (a b : List (String × LV)), beqFields a b = true → a = b
  | [], [], _ => rfl
  | [], _ :: _, h => by simp [beqFields] at h
  | _ :: _, [], h => by simp [beqFields] at h
  | (k, v) :: r, (k', v') :: r', h => by
    simp [beqFields] at h
    obtain ⟨⟨h1, h2⟩, h3⟩ := h
    rw [h1, eq_of_beq v v' h2, eq_of_beqFields r r' h3]
theorem eq_of_beqList : ∀ (a b : List LV), beqList a b = true → a = b
  | [], [], _ => rfl
  | [], _ :: _, h => by simp [beqList] at h
  | _ :: _, [], h => by simp [beqList] at h
  | v :: r, v' :: r', h => by
    simp [beqList] at h
    rw [eq_of_beq v v' h.1, eq_of_beqList r r' h.2]
end

mutual
theorem beq_self : ∀ (a : LV), beq a a = true
  | .int _ | .float _ | .bool _ | .null | .enum _ | .str _ | .var _ => by simp [beq]
  | .object _ a => by simp [beq, beqFields_self a]
  | .list _ a => by simp [beq, beqList_self a]
theorem beqFields_self : ∀ (a : List (String × LV)), beqFields a a = true
  | [] => by simp [beqFields]
  | (k, v) :: r => by simp [beqFields, beq_self v, beqFields_self r]
theorem beqList_self : ∀ (a : List LV), beqList a a = true
  | [] => by simp [beqList]
  | v :: r => by simp [beqList, beq_self v, beqList_self r]
end

instance : DecidableEq LV := fun a b =>
  if h : beq a b = true then isTrue (eq_of_beq a b h)
  else isFalse (fun e => h (e ▸ beq_self a))

mutual
/-- every variable mentioned, in order of appearance, with duplicates -/
def variables : LV → List String
  | .var n => [n]
  | .object _ fs => variablesFields fs
  | .list _ vs => variablesList vs
  | _ => []
def variablesFields : List (String × LV) → List String
  | [] => []
  | (_, v) :: rest => variables v ++ variablesFields rest
def variablesList : List LV → List String
  | [] => []
  | v :: rest => variables v ++ variablesList rest
end

mutual
/-- `substitute_variables`: every variable, at any depth, replaced by `f variable`; nodes keep their sites -/
def subst (f : String → LV) : LV → LV
  | .var n => f n
  | .object s fs => .object s (substFields f fs)
  | .list s vs => .list s (substList f vs)
  | v => v
def substFields (f : String → LV) : List (String × LV) → List (String × LV)
  | [] => []
  | (k, v) :: rest => (k, subst f v) :: substFields f rest
def substList (f : String → LV) : List LV → List LV
  | [] => []
  | v :: rest => subst f v :: substList f rest
end

end LV

mutual
/-- a value written at source occurrence `site` -/
def ofValue (site : List Nat) : Value → LV
  | .int i => .int i
  | .float s => .float s
  | .bool b => .bool b
  | .null => .null
  | .enum s => .enum s
  | .str s => .str s
  | .var s => .var s
  | .object [] => .object [] []
  | .object (f :: fs) => .object site (ofFields site (f :: fs))
  | .list [] => .list [] []
  | .list (v :: vs) => .list site (ofValues site (v :: vs))
def ofFields (site : List Nat) : List (String × Value) → List (String × LV)
  | [] => []
  | (k, v) :: rest => (k, ofValue site v) :: ofFields site rest
def ofValues (site : List Nat) : List Value → List LV
  | [] => []
  | v :: rest => ofValue site v :: ofValues site rest
end

/-! ### keys, node data -/

/-- a selection argument after `into_key_and_value` -/
structure LArg where
  name : String
  value : LV
  deriving DecidableEq, Repr, Inhabited

/-- `NormalizationKey`, readable form -/
inductive KeyK where
  | discriminator
  | id
  | serverField (name : String) (args : List LArg)
  | clientPointer (name : String) (args : List LArg)
  | inlineFragment (ty : String)
  | panic
  deriving DecidableEq, Repr, Inhabited

/-- `MergedServerSelection` without its nested map -/
inductive Payload where
  | scalar (fallible : Bool) (name : String) (args : List LArg)
  | linked (fallible : Bool) (name : String) (args : List LArg) (conc : Option String)
  | clientObj (fallible : Bool) (name : String) (args : List LArg) (conc : Option String)
  | frag (ty : String)
  /-- a Rust panic at this point of the traversal -/
  | panic (msg : String)
  deriving DecidableEq, Repr, Inhabited

structure Info where
  /-- the path again, readable (printing and substitution work on this) -/
  keys : List KeyK
  payload : Payload
  deriving DecidableEq, Repr, Inhabited

abbrev Entry := List Key × Info
abbrev MergedMap := List Entry

/-! ### encoding of keys into `List Nat` (self-delimiting; used only to order keys) -/

def encNat (n : Nat) : List Nat := [n]
def encStr (s : String) : List Nat := s.length :: s.toList.map Char.toNat
def encInt : Int → List Nat
  | .ofNat n => [0, n]
  | .negSucc n => [1, n]

def encSite (s : List Nat) : List Nat := s.length :: s

mutual
def encValue : LV → List Nat
  | .int i => 0 :: encInt i
  | .float s => 1 :: encStr s
  | .bool b => [2, if b then 1 else 0]
  | .null => [3]
  | .enum s => 4 :: encStr s
  | .str s => 5 :: encStr s
  | .var s => 6 :: encStr s
  | .object site fs => 7 :: (encSite site ++ encFields fs)
  | .list site vs => 8 :: (encSite site ++ encValues vs)
def encFields : List (String × LV) → List Nat
  | [] => [0]
  | (k, v) :: rest => 1 :: (encStr k ++ encValue v ++ encFields rest)
def encValues : List LV → List Nat
  | [] => [0]
  | v :: rest => 1 :: (encValue v ++ encValues rest)
end

def encArgs : List LArg → List Nat
  | [] => [0]
  | a :: rest => 1 :: (encStr a.name ++ encValue a.value ++ encArgs rest)

def KeyK.enc : KeyK → Key
  | .discriminator => [0]
  | .id => [1]
  | .serverField n a => 2 :: (encStr n ++ encArgs a)
  | .clientPointer n a => 3 :: (encStr n ++ encArgs a)
  | .inlineFragment t => 4 :: encStr t
  | .panic => [5]

def mkEntry (keys : List KeyK) (pl : Payload) : Entry := (keys.map KeyK.enc, ⟨keys, pl⟩)

def buildMap (l : List Entry) : MergedMap := build pathLt l

/-! ### variable contexts (variable_context.rs) -/

/-- `VariableContext`: variable ↦ value -/
abbrev VarCtx := List (String × LV)

def ctxGet (c : VarCtx) (v : String) : Option LV :=
  match c.find? (·.1 == v) with
  | some e => some e.2
  | none => none

/-- `initial_variable_context` -/
def initialCtx (vars : List VarDef) : VarCtx := vars.map fun d => (d.name, .var d.name)

/-- what a variable stands for when arguments are transformed: its value in the context, `null` when the
context does not have it -/
def ctxVal (c : VarCtx) (v : String) : LV := (ctxGet c v).getD .null

/-- `transform_selection_field_argument_into_merged_arg_with_child_context` (since af3b32d: every
variable of the value, at any depth, is replaced) -/
def substArg (c : VarCtx) (a : LArg) : LArg := ⟨a.name, a.value.subst (ctxVal c)⟩

def substArgs (c : VarCtx) (as : List LArg) : List LArg := as.map (substArg c)

/-- `NormalizationKey::transform_with_parent_variable_context` -/
def substKey (c : VarCtx) : KeyK → KeyK
  | .serverField n a => .serverField n (substArgs c a)
  | .clientPointer n a => .clientPointer n (substArgs c a)
  | k => k

def substPayload (c : VarCtx) : Payload → Payload
  | .scalar f n a => .scalar f n (substArgs c a)
  | .linked f n a conc => .linked f n (substArgs c a) conc
  | .clientObj f n a conc => .clientObj f n (substArgs c a) conc
  | p => p

/-- one entry of a child map, transformed and put below `pre` -/
def substEntry (c : VarCtx) (pre : List KeyK) (e : Entry) : Entry :=
  mkEntry (pre ++ e.2.keys.map (substKey c)) (substPayload c e.2.payload)

/-- `transform_and_merge_child_selection_map_into_parent_map`: the entries it inserts, in the child
map's iteration order (a node comes before the nodes below it) -/
def substMap (c : VarCtx) (pre : List KeyK) (m : MergedMap) : List Entry := m.map (substEntry c pre)

/-- `VariableContext::child_variable_context` for a selection that is not `@loadable` (since af3b32d: the
variables of a passed argument are replaced, at any depth, by the parent context's values).
`declIdx`: the child's declaration (its default values live there).  `none` = Rust panics
("Parent context has missing variable"). -/
def childCtx (c : VarCtx) (args : List LArg) (declIdx : Nat) : Nat → List VarDef → Option VarCtx
  | _, [] => some []
  | i, d :: rest =>
    let here : Option LV :=
      match args.find? (·.name == d.name) with
      | some a =>
        if a.value.variables.all (fun v => (ctxGet c v).isSome) then some (a.value.subst (ctxVal c)) else none
      | none =>
        match d.default with
        | some dv => some (ofValue [1, declIdx, i] dv)
        | none => some .null
    match here, childCtx c args declIdx (i + 1) rest with
    | some x, some tail => some ((d.name, x) :: tail)
    | _, _ => none

/-! ### selections with located arguments -/

structure LHead where
  name : String
  args : List LArg
  directives : List Directive
  deriving DecidableEq, Repr, Inhabited

inductive LSel where
  | scalar (h : LHead)
  | linked (h : LHead) (kids : List LSel)
  deriving Repr, Inhabited

def locArgs (loc : List Nat) : Nat → List (String × Value) → List LArg
  | _, [] => []
  | i, (n, v) :: rest => ⟨n, ofValue (loc ++ [i]) v⟩ :: locArgs loc (i + 1) rest

def locHead (loc : List Nat) (h : SelHead) : LHead := ⟨h.name, locArgs loc 0 h.args, h.directives⟩

mutual
/-- give the list / object nodes of every argument the identity `loc ++ [argument index]`, where
`loc` is the position of the selection: `[0, declaration index, index, index in kids, …]` -/
def locSel (loc : List Nat) : Selection → LSel
  | .scalar h => .scalar (locHead loc h)
  | .linked h kids => .linked (locHead loc h) (locSels loc 0 kids)
def locSels (loc : List Nat) : Nat → List Selection → List LSel
  | _, [] => []
  | i, s :: rest => locSel (loc ++ [i]) s :: locSels loc (i + 1) rest
end

/-- the located selection set of declaration number `i` -/
def declSels (i : Nat) (sels : List Selection) : List LSel := locSels [0, i] 0 sels

/-! ### the traversal -/

def hasDir (h : LHead) (d : String) : Bool := h.directives.any (·.name == d)

/-- `select_typename_and_id_fields_in_merged_selection` for a selection set on `ty` at `pre` -/
def tailEntries (p : Project) (ty : String) (pre : List KeyK) : List Entry :=
  match p.schema.get? ty with
  | none => [mkEntry (pre ++ [.panic]) (.panic "Expected parent object entity to be an object")]
  | some t =>
    (if t.isConcrete then [] else [mkEntry (pre ++ [.discriminator]) (.scalar false "__typename" [])])
      ++ (if t.hasId then [mkEntry (pre ++ [.id]) (.scalar false "id" [])] else [])

/-- index and contents of the declaration of the client field / pointer `ty.name` -/
def findDecl (p : Project) (ty name : String) : Option (Nat × Decl) :=
  let rec go : Nat → List (String × Decl) → Option (Nat × Decl)
    | _, [] => none
    | i, (_, d) :: rest =>
      if !d.isEntrypoint && d.parent == ty && d.name == name then some (i, d) else go (i + 1) rest
  go 0 p.decls

/-- The merged map of a client field / pointer under its own initial context (what
`create_merged_selection_map_for_field_and_insert_into_global_map` returns), given by the caller:
`expand ty name` (`none` = not expandable here: recursion too deep). -/
abbrev Expand := String → String → Option MergedMap

/-- `merge_non_loadable_client_type`: the child's map, transformed with the child context and merged
in at `pre` -/
def clientEntries (p : Project) (expand : Expand) (ty : String) (c : VarCtx) (pre : List KeyK)
    (h : LHead) : List Entry :=
  match findDecl p ty h.name with
  | none => [mkEntry (pre ++ [.panic]) (.panic "Expected selectable to exist")]
  | some (i, d) =>
    match expand ty h.name with
    | none => [mkEntry (pre ++ [.panic]) (.panic "stack overflow")]
    | some childMap =>
      match childCtx c h.args i 0 d.vars with
      | none => [mkEntry (pre ++ [.panic]) (.panic "Parent context has missing variable")]
      | some cc => substMap cc pre childMap

mutual
/-- one iteration of the loop of `merge_selection_set_into_selection_map` -/
def emitSel (p : Project) (expand : Expand) (ty : String) (c : VarCtx) (pre : List KeyK) : LSel → List Entry
  | .scalar h =>
    match lookup p ty h.name with
    | none => [mkEntry (pre ++ [.panic]) (.panic "Expected selectable to exist")]
    | some sel =>
      match sel.kind with
      | .typename => [mkEntry (pre ++ [.discriminator]) (.scalar false "__typename" (substArgs c h.args))]
      | .serverScalar =>
        let fallible := match (p.schema.get? ty).bind (·.field? h.name) with
          | some f => annNullable f.ty
          | none => false
        if h.name == "id" then [mkEntry (pre ++ [.id]) (.scalar fallible "id" (substArgs c h.args))]
        else
          let a := substArgs c h.args
          [mkEntry (pre ++ [.serverField h.name a]) (.scalar fallible h.name a)]
      | .link | .refetch | .exposed => []
      | .clientField => if hasDir h "loadable" then [] else clientEntries p expand ty c pre h
      -- an object selected without selection set: rejected by validation; the Rust traversal would
      -- treat a server object field as a scalar field, a pointer panics ("Expected client scalar selectable")
      | .serverObject | .asConcrete =>
        let a := substArgs c h.args
        [mkEntry (pre ++ [.serverField h.name a]) (.scalar false h.name a)]
      | .clientPointer => [mkEntry (pre ++ [.panic]) (.panic "Expected client scalar selectable")]
  | .linked h kids =>
    match lookup p ty h.name with
    | none => [mkEntry (pre ++ [.panic]) (.panic "Expected selectable to exist")]
    | some sel =>
      let target := sel.target.getD ""
      match sel.kind with
      | .asConcrete =>
        let pre' := pre ++ [.inlineFragment target]
        -- `inline_fragment_reader_selection_set` = `__typename`, `__link`, then the selection set, each
        -- followed by the typename / id additions for the concrete type
        mkEntry pre' (.frag target)
          :: (mkEntry (pre' ++ [.discriminator]) (.scalar false "__typename" []) :: tailEntries p target pre')
          ++ emitSels p expand target c pre' kids ++ tailEntries p target pre'
      | .serverObject =>
        let a := substArgs c h.args
        let pre' := pre ++ [.serverField h.name a]
        let fallible := match (p.schema.get? ty).bind (·.field? h.name) with
          | some f => annNullable f.ty
          | none => false
        let conc := match p.schema.get? target with
          | some t => if t.isConcrete then some target else none
          | none => none
        mkEntry pre' (.linked fallible h.name a conc)
          :: emitSels p expand target c pre' kids ++ tailEntries p target pre'
      | .clientPointer =>
        let a := substArgs c h.args
        let pre' := pre ++ [.clientPointer h.name a]
        let conc := match p.schema.get? target with
          | some t => if t.isConcrete then some target else none
          | none => none
        clientEntries p expand ty c pre h
          ++ mkEntry pre' (.clientObj false h.name a conc)
          :: emitSels p expand target c pre' kids ++ tailEntries p target pre'
      | _ => [mkEntry (pre ++ [.panic]) (.panic "Expected target entity to be an object")]
def emitSels (p : Project) (expand : Expand) (ty : String) (c : VarCtx) (pre : List KeyK) : List LSel → List Entry
  | [] => []
  | s :: rest => emitSel p expand ty c pre s ++ emitSels p expand ty c pre rest
end

/-- `merge_selection_set_into_selection_map`: the loop, then the typename / id additions -/
def emitSet (p : Project) (expand : Expand) (ty : String) (c : VarCtx) (pre : List KeyK) (sels : List LSel) : List Entry :=
  emitSels p expand ty c pre sels ++ tailEntries p ty pre

/-- `mergeSel`: the selection set merged into `m` -/
def mergeSel (p : Project) (expand : Expand) (ty : String) (sels : List LSel) (c : VarCtx) (m : MergedMap) : MergedMap :=
  insertAll pathLt m (emitSet p expand ty c [] sels)

/-- the map of the client field / pointer `ty.name` under its initial context; `fuel` bounds the
nesting of client fields (a cycle is a stack overflow in Rust) -/
def fieldMap (p : Project) : Nat → Expand
  | 0, _, _ => none
  | fuel + 1, ty, name =>
    match findDecl p ty name with
    | none => none
    | some (i, d) =>
      match d.selections? with
      | none => none
      | some sels => some (mergeSel p (fieldMap p fuel) ty (declSels i sels) (initialCtx d.vars) [])

def defaultFuel (p : Project) : Nat := p.decls.length + 2

/-- the merged map of the entrypoint `ty.name` (root types only: no wrapping) -/
def entrypointMap (p : Project) (ty name : String) : Option MergedMap := fieldMap p (defaultFuel p) ty name

/-- does the map record a Rust panic? -/
def panicOf (m : MergedMap) : Option String :=
  m.findSome? fun e => match e.2.payload with | .panic msg => some msg | _ => none

/-- node data is a function of the path (all the theorems about rearrangements assume it of the
traversal they talk about; the driver checks it on every case) -/
def coherentB (l : List Entry) : Bool :=
  l.all fun e => l.all fun e' => e.1 != e'.1 || e.2 == e'.2

/-- the insertions the traversal of the client field / pointer `ty.name` performs under its initial
context (its map is `buildMap` of them) -/
def fieldEmit (p : Project) (fuel : Nat) (ty name : String) : Option (List Entry) :=
  match findDecl p ty name with
  | none => none
  | some (i, d) =>
    match d.selections? with
    | none => none
    | some sels => some (emitSet p (fieldMap p fuel) ty (initialCtx d.vars) [] (declSels i sels))

/-- `coherentB` for the traversal of every client field and pointer of the project -/
def projectCoherent (p : Project) : Bool :=
  p.decls.all fun fd =>
    match fd.2 with
    | .entrypoint _ => true
    | d =>
      match fieldEmit p (defaultFuel p) d.parent d.name with
      | some l => coherentB l
      | none => true

/-! ### the implementation's ORDER of keys

`NormalizationKey` derives `Ord`: the variant, then `NameAndArguments { name, arguments }` field by field;
names and string values compare by CONTENT (`StringId: Ord` compares `as_str()`); an
`ArgumentKeyAndValue` compares its key, then its value by `NonConstantValue`'s derived `Ord` (variant
rank `Variable < Integer < Boolean < String < Float < Null < Enum < List < Object`); inside a list every item,
inside an object every field NAME and every field value is a `WithEmbeddedLocation`, compared item first,
then location — so two object literals with the same first field name are ordered by WHERE they were
written before their values are even looked at.  Locations (`file, span of the literal, span inside it`) are
ordered like the source positions the `site` of a list / object node stands for.  None of the theorems depends on this order; the
driver uses it to print a map the way the implementation iterates it. -/

def cmpLex {α : Type} (cmp : α → α → Ordering) : List α → List α → Ordering
  | [], [] => .eq
  | [], _ :: _ => .lt
  | _ :: _, [] => .gt
  | a :: as, b :: bs =>
    match cmp a b with
    | .eq => cmpLex cmp as bs
    | o => o

def cmpNat (a b : Nat) : Ordering := compare a b
def cmpStr (a b : String) : Ordering := compare a b

/-- source file of declaration number `d` -/
def fileOf (p : Project) (d : Nat) : String :=
  match p.decls[d]? with
  | some fd => fd.1
  | none => ""

/-- `(declaration, position inside the literal)`: variable defaults come before the selection set; a
selection's arguments come before the arguments of its sub-selections -/
def siteKey : List Nat → List Nat × Nat
  | 0 :: d :: rest => (d :: 1 :: rest.dropLast, rest.getLast?.getD 0)
  | 1 :: d :: v :: _ => ([d, 0], v)
  | _ => ([], 0)

def siteDecl : List Nat → Nat
  | _ :: d :: _ => d
  | _ => 0

/-- order of two source occurrences (`eq` iff the same occurrence) -/
def cmpSite (p : Project) (a b : List Nat) : Ordering :=
  if a == b then .eq else
  match cmpStr (fileOf p (siteDecl a)) (fileOf p (siteDecl b)) with
  | .eq =>
    (match cmpLex cmpNat (siteKey a).1 (siteKey b).1 with
     | .eq => cmpNat (siteKey a).2 (siteKey b).2
     | o => o)
  | o => o

def valueRankL : LV → Nat
  | .var _ => 0
  | .int _ => 1
  | .bool _ => 2
  | .str _ => 3
  | .float _ => 4
  | .null => 5
  | .enum _ => 6
  | .list .. => 7
  | .object .. => 8

mutual
def cmpValue (p : Project) : LV → LV → Ordering
  | .var a, .var b => cmpStr a b
  | .int a, .int b => compare a b
  | .bool a, .bool b => cmpNat a.toNat b.toNat
  | .str a, .str b => cmpStr a b
  | .float a, .float b => cmpStr a b
  | .null, .null => .eq
  | .enum a, .enum b => cmpStr a b
  | .list s a, .list s' b => cmpItems p (cmpSite p s s') a b
  | .object s a, .object s' b => cmpFields p (cmpSite p s s') a b
  | a, b => cmpNat (valueRankL a) (valueRankL b)
/-- `sc`: how the occurrences of the two list nodes compare (the location of an item slot) -/
def cmpItems (p : Project) (sc : Ordering) : List LV → List LV → Ordering
  | [], [] => .eq
  | [], _ :: _ => .lt
  | _ :: _, [] => .gt
  | x :: xs, y :: ys =>
    match cmpValue p x y with
    | .eq => (match sc with | .eq => cmpItems p sc xs ys | o => o)
    | o => o
/-- `sc`: how the occurrences of the two object nodes compare (the location of a field name / value slot) -/
def cmpFields (p : Project) (sc : Ordering) : List (String × LV) → List (String × LV) → Ordering
  | [], [] => .eq
  | [], _ :: _ => .lt
  | _ :: _, [] => .gt
  | (k1, v1) :: xs, (k2, v2) :: ys =>
    match cmpStr k1 k2 with
    | .eq =>
      (match sc with
       | .eq => (match cmpValue p v1 v2 with | .eq => cmpFields p sc xs ys | o => o)
       | o => o)
    | o => o
end

def cmpArg (p : Project) (a b : LArg) : Ordering :=
  match cmpStr a.name b.name with
  | .eq => cmpValue p a.value b.value
  | o => o

def keyRank : KeyK → Nat
  | .discriminator => 0
  | .id => 1
  | .serverField .. => 2
  | .clientPointer .. => 3
  | .inlineFragment _ => 4
  | .panic => 5

/-- `NormalizationKey: Ord` -/
def cmpKey (p : Project) : KeyK → KeyK → Ordering
  | .serverField n a, .serverField n' a' =>
    (match cmpStr n n' with | .eq => cmpLex (cmpArg p) a a' | o => o)
  | .clientPointer n a, .clientPointer n' a' =>
    (match cmpStr n n' with | .eq => cmpLex (cmpArg p) a a' | o => o)
  | .inlineFragment t, .inlineFragment t' => cmpStr t t'
  | a, b => cmpNat (keyRank a) (keyRank b)

end IsoVerif.Core.Merge
