/-
C09, variables: which variables an operation DECLARES versus which it USES, on merged selection maps
(`IsoVerif.Core.SelMap`, the printers' input).

* `reachable`: `get_reachable_variables` / `MergedServerSelection::reachable_variables`
  (create_merged_selection_set.rs): `get_variables` = `NonConstantValue::variables` of every argument
  (nested ones included since the repair of F12; `reachableOld` is the function before it, which only
  counted TOP-LEVEL variables), of scalar fields, linked fields and inline fragments; a client pointer
  entry contributes nothing (31b992f).  The operation declares exactly the definitions of these.
* `printed`: the variables that occur in the text `generate_query_text` prints for the map: every
  `$x` inside the printed arguments, nested ones included; client pointer entries are not printed.

They agree (`printed_eq_reachable`); before the repair they only agreed when no argument held a
variable inside an object or list (`flat`), F12 being the other case.
-/
import IsoVerif.Model.Core.QueryText

namespace IsoVerif.Ops.Vars
open IsoVerif.Core

mutual
/-- every variable inside a value (`NonConstantValue::variables`) -/
def valueVars : Value → List Str
  | .var n => [n]
  | .list items => listVars items
  | .obj fields => fieldVars fields
  | _ => []
def listVars : List Value → List Str
  | [] => []
  | v :: rest => valueVars v ++ listVars rest
def fieldVars : List (Str × Value) → List Str
  | [] => []
  | (_, v) :: rest => valueVars v ++ fieldVars rest
end

/-- `get_variables`: only an argument that IS a variable counts -/
def topVars : Args → List Str
  | [] => []
  | (_, .var n) :: rest => n :: topVars rest
  | _ :: rest => topVars rest

/-- the variables the printed argument list mentions -/
def argVars : Args → List Str
  | [] => []
  | (_, v) :: rest => valueVars v ++ argVars rest

/-- no variable below the top level of an argument value -/
def flatArgs : Args → Bool
  | [] => true
  | (_, .obj fields) :: rest => (fieldVars fields).isEmpty && flatArgs rest
  | (_, .list items) :: rest => (listVars items).isEmpty && flatArgs rest
  | _ :: rest => flatArgs rest

mutual
def reachableSel : Sel → List Str
  | .scalar _ _ args => argVars args
  | .linked _ _ args _ map => argVars args ++ reachableMap map
  | .clientObj .. => []
  | .frag _ map => reachableMap map
def reachableMap : SelMap → List Str
  | [] => []
  | (_, s) :: rest => reachableSel s ++ reachableMap rest
end

mutual
/-- before the repair of F12: only top-level variables -/
def reachableOldSel : Sel → List Str
  | .scalar _ _ args => topVars args
  | .linked _ _ args _ map => topVars args ++ reachableOldMap map
  | .clientObj .. => []
  | .frag _ map => reachableOldMap map
def reachableOldMap : SelMap → List Str
  | [] => []
  | (_, s) :: rest => reachableOldSel s ++ reachableOldMap rest
end

mutual
def printedSel : Sel → List Str
  | .scalar _ _ args => argVars args
  | .linked _ _ args _ map => argVars args ++ printedMap map
  | .clientObj .. => []
  | .frag _ map => printedMap map
def printedMap : SelMap → List Str
  | [] => []
  | (_, s) :: rest => printedSel s ++ printedMap rest
end

mutual
def flatSel : Sel → Bool
  | .scalar _ _ args => flatArgs args
  | .linked _ _ args _ map => flatArgs args && flatMap map
  | .clientObj .. => true
  | .frag _ map => flatMap map
def flatMap : SelMap → Bool
  | [] => true
  | (_, s) :: rest => flatSel s && flatMap rest
end

end IsoVerif.Ops.Vars
