/-
M-CORE, wire format.  Imports only `Syntax` (core Lean otherwise).

`parseProject : String → Option Project` and `printProject : Project → String` for the
single-line encoding produced by `hx_projgen::wire::to_wire` (grammar: see `wire.rs` or
`harness/projgen/README.md`).  Tokens are separated by single spaces, every construct starts
with a tag token, strings are lower-case hex of their UTF-8 bytes (`-` = empty).

Both directions are total: the parser is structurally recursive on a fuel argument (the
number of tokens is always enough, every construct consumes at least one token), the printer is
structurally recursive on the syntax.  `printProject (parseProject s) = s` for every line the
Rust side emits is checked by `projgen_smoke` on 1 000 generated projects per run.
-/
import IsoVerif.Model.Core.Syntax

namespace IsoVerif.Core.Wire

open IsoVerif.Core

/-! ### hex -/

def hexDigit (n : Nat) : Char :=
  if n < 10 then Char.ofNat (48 + n) else Char.ofNat (87 + n)

def hexVal (c : Char) : Option Nat :=
  if '0' ≤ c ∧ c ≤ '9' then some (c.toNat - 48)
  else if 'a' ≤ c ∧ c ≤ 'f' then some (c.toNat - 87)
  else none

def hexOfBytes (b : List UInt8) : String :=
  if b.isEmpty then "-"
  else String.ofList (b.flatMap fun x => [hexDigit (x.toNat / 16), hexDigit (x.toNat % 16)])

def bytesOfHexAux : List Char → List UInt8 → Option (List UInt8)
  | [], acc => some acc.reverse
  | [_], _ => none
  | a :: b :: rest, acc =>
    match hexVal a, hexVal b with
    | some x, some y => bytesOfHexAux rest (UInt8.ofNat (x * 16 + y) :: acc)
    | _, _ => none

def bytesOfHex (s : String) : Option (List UInt8) :=
  if s = "-" then some [] else if s.isEmpty then none else bytesOfHexAux s.toList []

def encStr (s : String) : String := hexOfBytes s.toUTF8.toList

def decStr (t : String) : Option String :=
  match bytesOfHex t with
  | some b => String.fromUTF8? (ByteArray.mk b.toArray)
  | none => none

/-! ### printer: everything yields a token list -/

abbrev Toks := List String

def pOpt {α} (f : α → Toks) : Option α → Toks
  | none => ["N"]
  | some x => "S" :: f x

def pList {α} (f : α → Toks) (xs : List α) : Toks :=
  "[" :: (xs.flatMap f ++ ["]"])

def pStr (s : String) : Toks := [encStr s]
def pBool (b : Bool) : Toks := [if b then "T" else "F"]
def pOptStr : Option String → Toks := pOpt pStr
def pStrs : List String → Toks := pList pStr

def pTypeRef : TypeRef → Toks
  | .named n => ["n", encStr n]
  | .list t => "l" :: pTypeRef t
  | .nonNull t => "b" :: pTypeRef t

mutual
def pValue : Value → Toks
  | .int i => ["vi", toString i]
  | .float s => ["vf", encStr s]
  | .bool b => "vb" :: pBool b
  | .null => ["vn"]
  | .enum s => ["ve", encStr s]
  | .str s => ["vs", encStr s]
  | .var s => ["vv", encStr s]
  | .object fs => "vo" :: "[" :: pFields fs
  | .list vs => "vl" :: "[" :: pValues vs
/-- items followed by the closing bracket -/
def pFields : List (String × Value) → Toks
  | [] => ["]"]
  | (k, v) :: rest => "of" :: encStr k :: (pValue v ++ pFields rest)
def pValues : List Value → Toks
  | [] => ["]"]
  | v :: rest => pValue v ++ pValues rest
end

def pArgDef (a : ArgDef) : Toks :=
  "ad" :: encStr a.name :: (pOptStr a.description ++ pTypeRef a.ty ++ pOpt pValue a.default)

def pFieldDef (f : FieldDef) : Toks :=
  "fd" :: encStr f.name :: (pOptStr f.description ++ pList pArgDef f.args ++ pTypeRef f.ty)

def pTypeDef (t : TypeDef) : Toks :=
  "ty" :: encStr t.name :: (pOptStr t.description ++
    match t.kind with
    | .object impls fs => "obj" :: (pStrs impls ++ pList pFieldDef fs)
    | .interface impls fs => "ifc" :: (pStrs impls ++ pList pFieldDef fs)
    | .union ms => "uni" :: pStrs ms
    | .scalar => ["sca"]
    | .enum vs => "enu" :: pStrs vs
    | .input fs => "inp" :: pList pArgDef fs)

def pArgs (a : List (String × Value)) : Toks :=
  pList (fun (kv : String × Value) => "ar" :: encStr kv.1 :: pValue kv.2) a

def pDirs (ds : List Directive) : Toks :=
  pList (fun (d : Directive) => "di" :: encStr d.name :: pArgs d.args) ds

def pVarDefs (vs : List VarDef) : Toks :=
  pList (fun (v : VarDef) => "vd" :: encStr v.name :: (pTypeRef v.ty ++ pOpt pValue v.default)) vs

def pHead (h : SelHead) : Toks :=
  pOptStr h.alias ++ pStr h.name ++ pArgs h.args ++ pDirs h.directives

mutual
def pSel : Selection → Toks
  | .scalar h => "ss" :: pHead h
  | .linked h k => "sl" :: (pHead h ++ ("[" :: pSelsTail k))
/-- items followed by the closing bracket -/
def pSelsTail : List Selection → Toks
  | [] => ["]"]
  | s :: rest => pSel s ++ pSelsTail rest
end

def pSels (ss : List Selection) : Toks := "[" :: pSelsTail ss

def pDecl : Decl → Toks
  | .clientField f =>
    "cf" :: encStr f.parent :: encStr f.name ::
      (pVarDefs f.vars ++ pDirs f.directives ++ pOptStr f.description ++ pSels f.selections)
  | .clientPointer f =>
    "cp" :: encStr f.parent :: encStr f.name ::
      (pTypeRef f.to ++ pVarDefs f.vars ++ pDirs f.directives ++ pOptStr f.description ++
        pSels f.selections)
  | .entrypoint e => "ep" :: encStr e.parent :: encStr e.name :: pDirs e.directives

def pPersisted (p : PersistedDocuments) : Toks :=
  "pd" :: (pOptStr p.file ++
    [match p.algorithm with | .md5 => "md5" | .sha256 => "sha256"] ++ pBool p.includeExtraInfo)

def pOptions (o : Options) : Toks :=
  "O" :: encStr o.projectRoot :: (pOptStr o.artifactDirectory ++
    [match o.module with | .esModule => "esm" | .commonJs => "cjs"] ++
    pBool o.includeFileExtensionsInImportStatements ++ pOptStr o.generatedFileHeader ++
    pOpt pPersisted o.persistedDocuments ++ pBool o.noBabelTransform ++
    [match o.onInvalidIdType with | .ignore => "ignore" | .warn => "warn" | .error => "error"])

def pExpose (x : ExposeField) : Toks :=
  "xf" :: (pStrs x.path ++ pOptStr x.asName ++
    pList (fun (m : String × String) => ["mp", encStr m.1, encStr m.2]) x.fieldMap)

def pExtension (e : Extension) : Toks := "ex" :: encStr e.onType :: pList pExpose e.expose

def projectTokens (p : Project) : Toks :=
  "P" :: (pOptions p.options ++ pList pTypeDef p.schema.types ++ pList pExtension p.extensions ++
    pList (fun (d : String × Decl) => "d" :: encStr d.1 :: pDecl d.2) p.decls ++
    pList (fun (f : String × List UInt8) => ["xx", encStr f.1, hexOfBytes f.2]) p.extraFiles)

def printProject (p : Project) : String := " ".intercalate (projectTokens p)
def printValue (v : Value) : String := " ".intercalate (pValue v)
def printTypeRef (t : TypeRef) : String := " ".intercalate (pTypeRef t)
def printDecl (d : Decl) : String := " ".intercalate (pDecl d)
def printSchema (s : Schema) : String := " ".intercalate (pList pTypeDef s.types)

/-! ### parser -/

/-- a parser consumes a prefix of the token list -/
abbrev P (α : Type) := Toks → Option (α × Toks)

def rStr : P String
  | t :: rest => (decStr t).map (·, rest)
  | [] => none

def rBool : P Bool
  | "T" :: rest => some (true, rest)
  | "F" :: rest => some (false, rest)
  | _ => none

def rTag (tag : String) : P Unit
  | t :: rest => if t = tag then some ((), rest) else none
  | [] => none

def rOpt {α} (p : P α) : P (Option α)
  | "N" :: rest => some (none, rest)
  | "S" :: rest => (p rest).map fun (x, r) => (some x, r)
  | _ => none

/-- items up to and including the closing bracket; `fuel` bounds the number of items -/
def rMany {α} (p : P α) : Nat → P (List α)
  | 0 => fun _ => none
  | fuel + 1 => fun ts =>
    match ts with
    | "]" :: rest => some ([], rest)
    | _ =>
      match p ts with
      | some (x, rest) => (rMany p fuel rest).map fun (xs, r) => (x :: xs, r)
      | none => none

def rList {α} (p : P α) : P (List α)
  | "[" :: rest => rMany p (rest.length + 1) rest
  | _ => none

def rOptStr : P (Option String) := rOpt rStr
def rStrs : P (List String) := rList rStr

def isDigits (cs : List Char) : Bool := !cs.isEmpty && cs.all Char.isDigit

def natOfDigits (cs : List Char) : Nat := cs.foldl (fun n c => n * 10 + (c.toNat - 48)) 0

def rInt : P Int
  | t :: rest =>
    match t.toList with
    | '-' :: ds => if isDigits ds then some (-(Int.ofNat (natOfDigits ds)), rest) else none
    | ds => if isDigits ds then some (Int.ofNat (natOfDigits ds), rest) else none
  | [] => none

def rTypeRef : Nat → P TypeRef
  | 0 => fun _ => none
  | fuel + 1 => fun ts =>
    match ts with
    | "n" :: rest => (rStr rest).map fun (s, r) => (.named s, r)
    | "l" :: rest => (rTypeRef fuel rest).map fun (t, r) => (.list t, r)
    | "b" :: rest => (rTypeRef fuel rest).map fun (t, r) => (.nonNull t, r)
    | _ => none

def rType : P TypeRef := fun ts => rTypeRef (ts.length + 1) ts

mutual
def rValueF : Nat → P Value
  | 0 => fun _ => none
  | fuel + 1 => fun ts =>
    match ts with
    | "vi" :: rest => (rInt rest).map fun (i, r) => (.int i, r)
    | "vf" :: rest => (rStr rest).map fun (s, r) => (.float s, r)
    | "vb" :: rest => (rBool rest).map fun (b, r) => (.bool b, r)
    | "vn" :: rest => some (.null, rest)
    | "ve" :: rest => (rStr rest).map fun (s, r) => (.enum s, r)
    | "vs" :: rest => (rStr rest).map fun (s, r) => (.str s, r)
    | "vv" :: rest => (rStr rest).map fun (s, r) => (.var s, r)
    | "vo" :: "[" :: rest => (rFieldsF fuel rest).map fun (fs, r) => (.object fs, r)
    | "vl" :: "[" :: rest => (rValuesF fuel rest).map fun (vs, r) => (.list vs, r)
    | _ => none
def rFieldsF : Nat → P (List (String × Value))
  | 0 => fun _ => none
  | fuel + 1 => fun ts =>
    match ts with
    | "]" :: rest => some ([], rest)
    | "of" :: rest =>
      match rStr rest with
      | some (k, r1) =>
        match rValueF fuel r1 with
        | some (v, r2) => (rFieldsF fuel r2).map fun (fs, r) => ((k, v) :: fs, r)
        | none => none
      | none => none
    | _ => none
def rValuesF : Nat → P (List Value)
  | 0 => fun _ => none
  | fuel + 1 => fun ts =>
    match ts with
    | "]" :: rest => some ([], rest)
    | _ =>
      match rValueF fuel ts with
      | some (v, r1) => (rValuesF fuel r1).map fun (vs, r) => (v :: vs, r)
      | none => none
end

def rValue : P Value := fun ts => rValueF (ts.length + 1) ts

def rArgDef : P ArgDef := fun ts => do
  let (_, r) ← rTag "ad" ts
  let (name, r) ← rStr r
  let (description, r) ← rOptStr r
  let (ty, r) ← rType r
  let (default, r) ← rOpt rValue r
  pure ({ name, description, ty, default }, r)

def rFieldDef : P FieldDef := fun ts => do
  let (_, r) ← rTag "fd" ts
  let (name, r) ← rStr r
  let (description, r) ← rOptStr r
  let (args, r) ← rList rArgDef r
  let (ty, r) ← rType r
  pure ({ name, description, args, ty }, r)

def rTypeKind : P TypeKind
  | "obj" :: rest => do
    let (impls, r) ← rStrs rest
    let (fs, r) ← rList rFieldDef r
    pure (.object impls fs, r)
  | "ifc" :: rest => do
    let (impls, r) ← rStrs rest
    let (fs, r) ← rList rFieldDef r
    pure (.interface impls fs, r)
  | "uni" :: rest => (rStrs rest).map fun (ms, r) => (.union ms, r)
  | "sca" :: rest => some (.scalar, rest)
  | "enu" :: rest => (rStrs rest).map fun (vs, r) => (.enum vs, r)
  | "inp" :: rest => (rList rArgDef rest).map fun (fs, r) => (.input fs, r)
  | _ => none

def rTypeDef : P TypeDef := fun ts => do
  let (_, r) ← rTag "ty" ts
  let (name, r) ← rStr r
  let (description, r) ← rOptStr r
  let (kind, r) ← rTypeKind r
  pure ({ name, description, kind }, r)

def rArg : P (String × Value) := fun ts => do
  let (_, r) ← rTag "ar" ts
  let (k, r) ← rStr r
  let (v, r) ← rValue r
  pure ((k, v), r)

def rArgs : P (List (String × Value)) := rList rArg

def rDir : P Directive := fun ts => do
  let (_, r) ← rTag "di" ts
  let (name, r) ← rStr r
  let (args, r) ← rArgs r
  pure ({ name, args }, r)

def rDirs : P (List Directive) := rList rDir

def rVarDef : P VarDef := fun ts => do
  let (_, r) ← rTag "vd" ts
  let (name, r) ← rStr r
  let (ty, r) ← rType r
  let (default, r) ← rOpt rValue r
  pure ({ name, ty, default }, r)

def rVarDefs : P (List VarDef) := rList rVarDef

def rHead : P SelHead := fun ts => do
  let (alias, r) ← rOptStr ts
  let (name, r) ← rStr r
  let (args, r) ← rArgs r
  let (directives, r) ← rDirs r
  pure ({ alias, name, args, directives }, r)

mutual
def rSelF : Nat → P Selection
  | 0 => fun _ => none
  | fuel + 1 => fun ts =>
    match ts with
    | "ss" :: rest => (rHead rest).map fun (h, r) => (.scalar h, r)
    | "sl" :: rest =>
      match rHead rest with
      | some (h, "[" :: r1) => (rSelsTailF fuel r1).map fun (k, r) => (.linked h k, r)
      | _ => none
    | _ => none
/-- selections up to and including the closing bracket -/
def rSelsTailF : Nat → P (List Selection)
  | 0 => fun _ => none
  | fuel + 1 => fun ts =>
    match ts with
    | "]" :: rest => some ([], rest)
    | _ =>
      match rSelF fuel ts with
      | some (s, r1) => (rSelsTailF fuel r1).map fun (ss, r) => (s :: ss, r)
      | none => none
end

def rSels : P (List Selection)
  | "[" :: rest => rSelsTailF (rest.length + 1) rest
  | _ => none

def rDecl : P Decl
  | "cf" :: rest => do
    let (parent, r) ← rStr rest
    let (name, r) ← rStr r
    let (vars, r) ← rVarDefs r
    let (directives, r) ← rDirs r
    let (description, r) ← rOptStr r
    let (selections, r) ← rSels r
    pure (.clientField { parent, name, vars, directives, description, selections }, r)
  | "cp" :: rest => do
    let (parent, r) ← rStr rest
    let (name, r) ← rStr r
    let (to, r) ← rType r
    let (vars, r) ← rVarDefs r
    let (directives, r) ← rDirs r
    let (description, r) ← rOptStr r
    let (selections, r) ← rSels r
    pure (.clientPointer { parent, name, to, vars, directives, description, selections }, r)
  | "ep" :: rest => do
    let (parent, r) ← rStr rest
    let (name, r) ← rStr r
    let (directives, r) ← rDirs r
    pure (.entrypoint { parent, name, directives }, r)
  | _ => none

def rPersisted : P PersistedDocuments := fun ts => do
  let (_, r) ← rTag "pd" ts
  let (file, r) ← rOptStr r
  let (algorithm, r) ← (match r with
    | "md5" :: r => some (HashAlgorithm.md5, r)
    | "sha256" :: r => some (HashAlgorithm.sha256, r)
    | _ => none)
  let (includeExtraInfo, r) ← rBool r
  pure ({ file, algorithm, includeExtraInfo }, r)

def rOptions : P Options := fun ts => do
  let (_, r) ← rTag "O" ts
  let (projectRoot, r) ← rStr r
  let (artifactDirectory, r) ← rOptStr r
  let (module, r) ← (match r with
    | "esm" :: r => some (ModuleKind.esModule, r)
    | "cjs" :: r => some (ModuleKind.commonJs, r)
    | _ => none)
  let (includeFileExtensionsInImportStatements, r) ← rBool r
  let (generatedFileHeader, r) ← rOptStr r
  let (persistedDocuments, r) ← rOpt rPersisted r
  let (noBabelTransform, r) ← rBool r
  let (onInvalidIdType, r) ← (match r with
    | "ignore" :: r => some (ValidationLevel.ignore, r)
    | "warn" :: r => some (ValidationLevel.warn, r)
    | "error" :: r => some (ValidationLevel.error, r)
    | _ => none)
  pure ({ projectRoot, artifactDirectory, module, includeFileExtensionsInImportStatements,
          generatedFileHeader, persistedDocuments, noBabelTransform, onInvalidIdType }, r)

def rMap : P (String × String) := fun ts => do
  let (_, r) ← rTag "mp" ts
  let (a, r) ← rStr r
  let (b, r) ← rStr r
  pure ((a, b), r)

def rExpose : P ExposeField := fun ts => do
  let (_, r) ← rTag "xf" ts
  let (path, r) ← rStrs r
  let (asName, r) ← rOptStr r
  let (fieldMap, r) ← rList rMap r
  pure ({ path, asName, fieldMap }, r)

def rExtension : P Extension := fun ts => do
  let (_, r) ← rTag "ex" ts
  let (onType, r) ← rStr r
  let (expose, r) ← rList rExpose r
  pure ({ onType, expose }, r)

def rFileDecl : P (String × Decl) := fun ts => do
  let (_, r) ← rTag "d" ts
  let (path, r) ← rStr r
  let (d, r) ← rDecl r
  pure ((path, d), r)

def rExtra : P (String × List UInt8) := fun ts => do
  let (_, r) ← rTag "xx" ts
  let (path, r) ← rStr r
  match r with
  | t :: r => (bytesOfHex t).map fun b => ((path, b), r)
  | [] => none

def rProject : P Project := fun ts => do
  let (_, r) ← rTag "P" ts
  let (options, r) ← rOptions r
  let (types, r) ← rList rTypeDef r
  let (extensions, r) ← rList rExtension r
  let (decls, r) ← rList rFileDecl r
  let (extraFiles, r) ← rList rExtra r
  pure ({ schema := { types }, extensions, decls, options, extraFiles }, r)

/-- run a parser on a whole line; every token must be consumed -/
def runAll {α} (p : P α) (s : String) : Option α :=
  match p (s.splitOn " ") with
  | some (x, []) => some x
  | _ => none

def parseProject (s : String) : Option Project := runAll rProject s
def parseValue (s : String) : Option Value := runAll rValue s
def parseTypeRef (s : String) : Option TypeRef := runAll rType s
def parseDecl (s : String) : Option Decl := runAll rDecl s
def parseSchema (s : String) : Option Schema := (runAll (rList rTypeDef) s).map fun types => { types }

end IsoVerif.Core.Wire
