/-
M-CORE / order-insensitive sinks (C14).  Imports only the generated site list.

Every iteration over a `HashMap` / `HashSet` in the anchored files (listed by translator T8 in
`Gen/HashIterSites.lean`) hands its elements, in an order `π` that differs between processes, to a SINK.
The output of the compiler is independent of `π` when every sink is order-insensitive.  This file models
the sink shapes that occur as folds over the list of iterated elements, and classifies every generated
site as one of them (`classified`); `Lemmas/ArtsDeterminism.lean` proves each shape invariant under
permutation of the list, and `sitesCovered` (decided by the kernel in `Props/C14.lean`) says that the
classification covers exactly the sites the translator found in the source — a new hash iteration in an
anchored file makes it false until the site is modelled.

Containers: a `BTreeSet` is a strictly sorted list, a `BTreeMap` a list of pairs strictly sorted by key,
a `Vec` a list, a `HashSet` a duplicate-free list in unspecified order (only membership is observed, its
own iteration being another site).
-/
import IsoVerif.Gen.HashIterSites

namespace IsoVerif.Core.Determinism

open Lean in
/-- `b!"abc"` = the UTF-8 bytes of the literal as a `List Nat` literal (kernel-reducible, unlike `String`) -/
macro "b!" s:str : term => do
  let cs : Array Term :=
    (s.getString.toUTF8.toList.map (fun b => (Syntax.mkNumLit (toString b.toNat) : Term))).toArray
  `(([$cs,*] : List Nat))

/-! ## Sinks -/

section
variable {α β : Type} [DecidableEq α]

/-- `BTreeSet::insert` -/
def insertSet (le : α → α → Bool) (a : α) : List α → List α
  | [] => [a]
  | b :: bs => if a = b then b :: bs else if le a b then a :: b :: bs else b :: insertSet le a bs

/-- `BTreeSet::extend(iter)` / a loop of inserts -/
def extendSet (le : α → α → Bool) (s : List α) (xs : List α) : List α :=
  xs.foldl (fun acc x => insertSet le x acc) s

/-- `BTreeMap::insert` (the later value replaces the earlier one) -/
def insertMap (le : α → α → Bool) (k : α) (v : β) : List (α × β) → List (α × β)
  | [] => [(k, v)]
  | (k', v') :: rest =>
    if k = k' then (k, v) :: rest else if le k k' then (k, v) :: (k', v') :: rest else (k', v') :: insertMap le k v rest

/-- a loop `for k in hash { map.insert(k, f(k)) }` whose value is a function of the key -/
def keyedInsert (le : α → α → Bool) (f : α → β) (m : List (α × β)) (xs : List α) : List (α × β) :=
  xs.foldl (fun acc k => insertMap le k (f k) acc) m

/-- the artifact list `Vec<(path, content)>` read into the map path ↦ content (`FileSystemState::from`) -/
def toMap (le : α → α → Bool) (xs : List (α × β)) : List (α × β) :=
  xs.foldl (fun acc kv => insertMap le kv.1 kv.2 acc) []

/-- insertion into a sorted list: the result of `sort_by` when the comparator is a total order -/
def insertSorted (le : α → α → Bool) (a : α) : List α → List α
  | [] => [a]
  | b :: bs => if le a b then a :: b :: bs else b :: insertSorted le a bs

def sortBy (le : α → α → Bool) : List α → List α
  | [] => []
  | a :: rest => insertSorted le a (sortBy le rest)

/-- `collect::<Vec<_>>()` followed by `sort_by` -/
def collectThenSort (le : α → α → Bool) (xs : List α) : List α := sortBy le xs

/-- `collect::<Vec<_>>()` (any order) later `extend`ed into a `BTreeSet` -/
def collectThenSet (le : α → α → Bool) (s : List α) (xs : List α) : List α := extendSet le s xs

/-- counters incremented per element -/
def countBy (w : α → Nat) (n : Nat) (xs : List α) : Nat := xs.foldl (fun acc x => acc + w x) n

/-- `HashSet::insert` / `extend` into another hash set: a duplicate-free list, order unspecified -/
def hashInsertAll (acc : List α) (xs : List α) : List α :=
  xs.foldl (fun acc x => if x ∈ acc then acc else x :: acc) acc

/-- `insert_selectable_or_multiple_definition_diagnostic`: the FIRST definition of a key is kept, every later
one is reported (with its own location — here the whole element).  Order-SENSITIVE on lists with repeated
keys; client_declaration_access.rs / entrypoint_access.rs therefore visit the source files in path order
since fixes ae7fd9c / 9ce2dae (`firstWins key (sortBy le xs)`). -/
def firstWins (key : β → α) (xs : List β) : List β × List β :=
  xs.foldl (fun acc x => if acc.1.any (fun y => key y = key x) then (acc.1, acc.2 ++ [x]) else (acc.1 ++ [x], acc.2)) ([], [])

end

/-! ## Sites -/

inductive Shape where
  /-- elements go straight into a `BTreeSet` -/
  | intoSortedSet
  /-- elements are collected into a `Vec` that is later put into a `BTreeSet` (diagnostics) -/
  | collectThenSortedSet
  /-- elements are collected into a `Vec` that is sorted by a total order on unique keys (iso.ts overloads) -/
  | collectThenSort
  /-- per element, a value that depends on the element only is inserted under a key of the element into a
  sorted map (`encountered_client_type_map`, persisted documents, per-file literal lists) -/
  | keyedInsert
  /-- per element, artifacts with paths unique to the element are pushed onto the artifact list, which is read
  as a path ↦ content map -/
  | pathKeyedVec
  /-- counters -/
  | commutativeCount
  /-- elements are inserted into another hash set -/
  | setToSet
  deriving DecidableEq, Repr, Inhabited

def Shape.name : Shape → String
  | .intoSortedSet => "intoSortedSet" | .collectThenSortedSet => "collectThenSortedSet"
  | .collectThenSort => "collectThenSort" | .keyedInsert => "keyedInsert" | .pathKeyedVec => "pathKeyedVec"
  | .commutativeCount => "commutativeCount" | .setToSet => "setToSet"

abbrev Str := List Nat

/-- (file, function, iterated expression, sink hint) ↦ the sink shapes the loop body / the enclosing statement
feeds.  Hand-written from reading the code; the KEYS are re-generated from the source on every run (the sink
hint names the collections that are pushed to / inserted into, with their declared container types, so that
`errors` turning from a `BTreeSet` into a `Vec` changes the key). -/
def classified : List ((Str × Str × Str × Str) × List Shape) := [
  -- per source file: contains_iso.entry(path).or_default().push(literal) (keyed by the file), parse errors into a
  -- Vec that validate_entire_schema extends into its BTreeSet
  ((b!"crates/isograph_schema/src/validated_isograph_schema/process_iso_literals.rs", b!"parse_iso_literals",
    b!"db.get_iso_literal_map().tracked().0.iter()", b!"contains_iso,iso_literal_parse_errors:Vec"),
   [.keyedInsert, .collectThenSortedSet]),
  -- ParsedIsoLiteralsMap::stats: three counters
  ((b!"crates/isograph_schema/src/validated_isograph_schema/process_iso_literals.rs", b!"stats", b!"self.values()",
    b!"client_field_count,client_pointer_count,entrypoint_count"),
   [.commutativeCount]),
  -- per entrypoint: artifacts under <Type>/<field>/ (paths unique to the entrypoint), cache entries keyed by client
  -- field whose value depends on the key only, output types into a hash set, persisted documents keyed by digest
  ((b!"crates/artifact_content/src/generate_artifacts.rs", b!"get_artifact_path_and_content_impl", b!"validated_entrypoints(db)",
    b!"encountered_output_types:HashSet,path_and_contents:Vec"),
   [.pathKeyedVec, .keyedInsert, .setToSet]),
  -- per user-written client type: its param_type artifact, output types into the hash set
  ((b!"crates/artifact_content/src/generate_artifacts.rs", b!"get_artifact_path_and_content_impl",
    b!"deprecated_client_selectable_map(db).as_ref().expect(\"Expectedclientselectablemaptobevalid.\").iter()",
    b!"encountered_output_types:HashSet,path_and_contents:Vec"),
   [.pathKeyedVec, .setToSet]),
  ((b!"crates/artifact_content/src/generate_artifacts.rs", b!"get_artifact_path_and_content_impl",
    b!"traversal_state.accessible_client_scalar_selectables.iter()", b!"encountered_output_types:HashSet"),
   [.setToSet]),
  -- one output_type artifact per element of the hash set
  ((b!"crates/artifact_content/src/generate_artifacts.rs", b!"get_artifact_path_and_content_impl", b!"encountered_output_types",
    b!"path_and_contents:Vec"),
   [.pathKeyedVec]),
  -- errors.extend(validated_entrypoints(db).values().flat_map(err)) with errors: BTreeSet
  ((b!"crates/isograph_schema/src/validate.rs", b!"validate_entire_schema", b!"validated_entrypoints(db).values()", b!"errors:BTreeSet"),
   [.intoSortedSet]),
  -- selectables.values().flat_map(..).collect() : Vec<Diagnostic>, which validate_entire_schema extends into `errors`
  ((b!"crates/isograph_schema/src/validate.rs", b!"validate_scalar_selectable_directive_sets", b!"selectables.values()",
    b!"<return>=collect"),
   [.collectThenSortedSet]),
  -- process_iso_literals: three Vecs; validate_all_iso_literals keeps only the errors, which go into the BTreeSet
  ((b!"crates/isograph_schema/src/validated_isograph_schema/isograph_literals.rs", b!"process_iso_literals",
    b!"contains_iso.files.into_values()", b!"errors:Vec,unprocess_client_field_items:Vec,unprocessed_entrypoints:Vec"),
   [.collectThenSortedSet]),
  -- iso.ts: collect, then sort_by (parent type, sort_field_name) — a total order on the unique (type, field) keys
  ((b!"crates/artifact_content/src/iso_overload_file.rs", b!"sorted_user_written_types",
    b!"deprecated_client_selectable_map(db).as_ref().expect(\"Expectedclientselectablemaptobevalid.\").iter()",
    b!"client_types=collect:Vec"),
   [.collectThenSort]),
  ((b!"crates/artifact_content/src/iso_overload_file.rs", b!"sorted_entrypoints", b!"validated_entrypoints(db).iter()",
    b!"entrypoints=collect:Vec"),
   [.collectThenSort])
]

def siteKey (s : Gen.HashIterSites.Site) : Str × Str × Str × Str := (s.file, s.fn, s.expr, s.sink)

/-- every site the translator found is classified, and nothing classified has disappeared -/
def sitesCovered : Bool :=
  Gen.HashIterSites.sites.all (fun s => classified.any fun c => c.1 == siteKey s) &&
  classified.all (fun c => Gen.HashIterSites.sites.any fun s => c.1 == siteKey s)

/-- every classified site names at least one shape -/
def sitesShaped : Bool := classified.all fun c => !c.2.isEmpty

def shapesOf (s : Gen.HashIterSites.Site) : List Shape :=
  match classified.find? (fun c => c.1 == siteKey s) with
  | some c => c.2
  | none => []

end IsoVerif.Core.Determinism
