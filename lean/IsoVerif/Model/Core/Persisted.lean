/-
M-CORE / operation text, persisted documents and the files the operation texts are written to:
crates/artifact_content/src/operation_text.rs (`generate_operation_text`),
crates/artifact_content/src/persisted_documents.rs (`PersistedDocuments`, its `Serialize`),
`generate_query_extra_info` (graphql_network_protocol.rs),
crates/artifact_content/src/entrypoint_artifact.rs (`entrypoint_file_content`,
`generate_refetch_query_artifact_import`, the `format!`s of query_text.ts / normalization_ast.ts /
raw_response_type.ts) and crates/artifact_content/src/imperatively_loaded_fields.rs (the refetch
query file).

The hash is a parameter `H : Str → Str` (MD5 / SHA-256 hex digest of the UTF-8 text).
-/
import IsoVerif.Model.Core.NormAst

namespace IsoVerif.Core

structure PersistOpts where
  /-- `md5` or `sha256` (only a label here: the hash function itself is the parameter `H`) -/
  algorithm : Str
  includeExtraInfo : Bool
deriving Repr, Inhabited

/-- `generate_query_extra_info(query_name, operation_name, indentation_level)` -/
def queryExtraInfo (queryName operationName : Str) (level : Nat) : Str :=
  let ind := indent (level + 1)
  cs!"{\n"
    ++ ind ++ cs!"  kind: \"PersistedOperationExtraInfo\",\n"
    ++ ind ++ cs!"  operationName: \"" ++ queryName ++ cs!"\",\n"
    ++ ind ++ cs!"  operationKind: \"" ++ operationName ++ cs!"\",\n"
    ++ ind ++ cs!"}"

/-- the `None` arm of `generate_operation_text` -/
def plainOperationText (level : Nat) : Str :=
  let ind := indent (level + 1)
  cs!"{\n" ++ ind ++ cs!"  kind: \"Operation\",\n" ++ ind ++ cs!"  text: queryText,\n" ++ ind ++ cs!"}"

/-- the `Some(pd)` arm, given the operation id -/
def persistedOperationText (opts : PersistOpts) (operationId queryName rootEntity : Str)
    (level : Nat) : Str :=
  let ind := indent (level + 1)
  let extra := if opts.includeExtraInfo then queryExtraInfo queryName rootEntity (level + 1) else cs!"null"
  cs!"{\n"
    ++ ind ++ cs!"  kind: \"PersistedOperation\",\n"
    ++ ind ++ cs!"  operationId: \"" ++ operationId ++ cs!"\",\n"
    ++ ind ++ cs!"  extraInfo: " ++ extra ++ cs!",\n"
    ++ ind ++ cs!"}"

/-- `BTreeMap<OperationId, QueryText>` as an association list -/
abbrev Docs := List (Str × Str)

/-- `pd.documents.insert(operation_id, query_text)` -/
def Docs.insert (docs : Docs) (id text : Str) : Docs :=
  if docs.any (fun e => e.1 == id) then docs.map (fun e => if e.1 == id then (id, text) else e)
  else docs ++ [(id, text)]

def Docs.lookup (docs : Docs) (id : Str) : Option Str := (docs.find? (fun e => e.1 == id)).map (·.2)

/-- One call of `generate_operation_text`: the text that goes into the artifact, the operation id
(if persisted) and the new state of `persisted_documents`.  `compact` is the compact query text. -/
def generateOperationText (H : Str → Str) (opts : Option PersistOpts) (docs : Docs)
    (compact queryName rootEntity : Str) (level : Nat) : Str × Option Str × Docs :=
  match opts with
  | none => (plainOperationText level, none, docs)
  | some o =>
    let id := H compact
    (persistedOperationText o id queryName rootEntity level, some id, docs.insert id compact)

/-! ### the persisted documents file -/

def lexLt : Str → Str → Bool
  | [], [] => false
  | [], _ :: _ => true
  | _ :: _, [] => false
  | a :: as, b :: bs => if a < b then true else if b < a then false else lexLt as bs

/-- stable insertion of an entry into a list sorted by text -/
def insertByText (e : Str × Str) : List (Str × Str) → List (Str × Str)
  | [] => [e]
  | x :: rest => if lexLt e.2 x.2 then e :: x :: rest else x :: insertByText e rest

/-- `entries.sort_by(|a, b| a.1.cmp(b.1)..)` (stable; equal texts have equal ids) -/
def sortByText (docs : Docs) : Docs := docs.foldl (fun acc e => insertByText e acc) []

def hex4 (n : Nat) : Str :=
  let d (k : Nat) : Nat := if k < 10 then 48 + k else 87 + k
  [d (n / 4096 % 16), d (n / 256 % 16), d (n / 16 % 16), d (n % 16)]

/-- serde_json's string escaping -/
def jsonEscapeChar (c : Nat) : Str :=
  if c == 34 then cs!"\\\""
  else if c == 92 then cs!"\\\\"
  else if c == 8 then cs!"\\b"
  else if c == 12 then cs!"\\f"
  else if c == 10 then cs!"\\n"
  else if c == 13 then cs!"\\r"
  else if c == 9 then cs!"\\t"
  else if c < 32 then cs!"\\u" ++ hex4 c
  else [c]

def jsonString (s : Str) : Str := [34] ++ s.flatMap jsonEscapeChar ++ [34]

def jsonEntries : List (Str × Str) → List Str
  | [] => []
  | (k, v) :: rest => (cs!"  " ++ jsonString k ++ cs!": " ++ jsonString v) :: jsonEntries rest

/-- `serde_json::to_string_pretty(&persisted_documents)` -/
def persistedDocumentsJson (docs : Docs) : Str :=
  if docs.isEmpty then cs!"{}" else
  cs!"{\n" ++ joinStr cs!",\n" (jsonEntries (sortByText docs)) ++ cs!"\n}"

/-! ### insignificant characters of a GraphQL document -/

/-- whitespace, line terminators and commas -/
def isInsignificant (c : Nat) : Bool := c == 32 || c == 9 || c == 10 || c == 13 || c == 44 || c == 0xFEFF

/-- Drop the insignificant characters outside string literals (`inStr`: inside `"…"`;
`esc`: the previous character was a backslash inside a string). -/
def stripInsignificantAux : Bool → Bool → Str → Str
  | _, _, [] => []
  | false, _, c :: rest =>
    if isInsignificant c then stripInsignificantAux false false rest
    else c :: stripInsignificantAux (c == 34) false rest
  | true, true, c :: rest => c :: stripInsignificantAux true false rest
  | true, false, c :: rest =>
    c :: stripInsignificantAux (c != 34) (c == 92) rest

def stripInsignificant (s : Str) : Str := stripInsignificantAux false false s

/-- the characters of the document that are significant wherever they occur -/
def dropInsignificantChars (s : Str) : Str := s.filter fun c => !(isInsignificant c)

/-- Value of the single-quoted JavaScript string literal `'<body>'` as code points, for bodies in
which a backslash only occurs as a line continuation (`\` + LF) — the way the pretty operation
text is embedded; `none` otherwise (other escapes change the text, a `'` ends the literal). -/
def jsSingleQuotedSimple : Str → Option Str
  | [] => some []
  | 92 :: 10 :: rest => jsSingleQuotedSimple rest
  | c :: rest =>
    if c == 92 || c == 39 || c == 10 || c == 13 then none
    else (jsSingleQuotedSimple rest).map (c :: ·)

/-- The value (UTF-16 code units) of the single-quoted JavaScript string literal `'<body>'` in
strict mode — how the non-persisted operation text reaches the network layer (query_text.ts is
`export default '<text>';`).  Same escape rules as `jsStringBody`, with `'` as the delimiter. -/
def jsSingleQuotedBody : Nat → List Nat → Option (List Nat)
  | 0, _ => none
  | _, [] => some []
  | fuel + 1, c :: rest =>
    if c == 39 then none
    else if c == 10 || c == 13 then none
    else if c != 92 then (jsSingleQuotedBody fuel rest).map (utf16Char c ++ ·)
    else
      match rest with
      | [] => none
      | e :: rest2 =>
        let simple (u : Nat) := (jsSingleQuotedBody fuel rest2).map (u :: ·)
        if e == 110 then simple 10
        else if e == 116 then simple 9
        else if e == 114 then simple 13
        else if e == 98 then simple 8
        else if e == 102 then simple 12
        else if e == 118 then simple 11
        else if e == 48 then
          match rest2 with
          | d :: _ => if 48 ≤ d ∧ d ≤ 57 then none else simple 0
          | [] => simple 0
        else if 49 ≤ e ∧ e ≤ 57 then none
        else if e == 120 then
          match rest2 with
          | a :: b :: rest3 =>
            match hexDigitsVal [a, b] with
            | some v => (jsSingleQuotedBody fuel rest3).map (v :: ·)
            | none => none
          | _ => none
        else if e == 117 then
          match rest2 with
          | 123 :: rest3 =>
            match takeBraced (rest3.length + 1) rest3 [] with
            | some (v, rest4) => (jsSingleQuotedBody fuel rest4).map (utf16Char v ++ ·)
            | none => none
          | a :: b :: c2 :: d :: rest3 =>
            match hexDigitsVal [a, b, c2, d] with
            | some v => (jsSingleQuotedBody fuel rest3).map (v :: ·)
            | none => none
          | _ => none
        else if e == 10 || e == 0x2028 || e == 0x2029 then jsSingleQuotedBody fuel rest2
        else if e == 13 then
          match rest2 with
          | 10 :: rest3 => jsSingleQuotedBody fuel rest3
          | _ => jsSingleQuotedBody fuel rest2
        else (jsSingleQuotedBody fuel rest2).map (utf16Char e ++ ·)

/-- the operation the non-persisted build sends: the JavaScript value of the embedded text -/
def jsSingleQuotedValue (body : Str) : Option Str :=
  (jsSingleQuotedBody (body.length + 1) body).map utf16Decode

/-! ### the run of the artifact generator over all operations of a project -/

/-- what `generate_operation_text` is called with for one entrypoint / refetch query -/
structure OpIn where
  compact : Str
  queryName : Str
  rootEntity : Str
deriving Repr, Inhabited

/-- All calls of `generate_operation_text` of one compilation, in order, threading
`persisted_documents`: the operation ids written into the artifacts and the final documents. -/
def runOps (H : Str → Str) (opts : PersistOpts) : List OpIn → Docs → List Str × Docs
  | [], docs => ([], docs)
  | op :: rest, docs =>
    let r := generateOperationText H (some opts) docs op.compact op.queryName op.rootEntity 1
    let (ids, final) := runOps H opts rest r.2.2
    (r.2.1.getD [] :: ids, final)

/-! ### texts without quotes, backslashes and line terminators (for the C26 theorem) -/

def isPlainChar (c : Nat) : Bool := c != 34 && c != 92 && c != 39 && c != 10 && c != 13

def isPlain (s : Str) : Bool := s.all isPlainChar

mutual
def Value.plain : Value → Bool
  | .var n => isPlain n
  | .int _ => true
  | .bool _ => true
  | .str s => isPlain s
  | .float t => isPlain t
  | .null => true
  | .enum e => isPlain e
  | .list _ => true
  | .obj fields => Value.plainFields fields
def Value.plainFields : List (Str × Value) → Bool
  | [] => true
  | (k, v) :: rest => isPlain k && v.plain && Value.plainFields rest
end

mutual
def Tree.plain : Tree → Bool
  | .field name args none => isPlain name && Value.plainFields args
  | .field name args (some kids) => isPlain name && Value.plainFields args && Tree.plainList kids
  | .frag ty kids => isPlain ty && Tree.plainList kids
def Tree.plainList : List Tree → Bool
  | [] => true
  | t :: rest => t.plain && Tree.plainList rest
end

/-! ### files -/

/-- `// {header}\n` in front of every file when `generated_file_header` is set -/
def withHeader (header : Option Str) (content : Str) : Str :=
  match header with
  | some h => cs!"// " ++ h ++ [10] ++ content
  | none => content

/-- `query_text_as_single_quoted_js_string_body` (operation_text.rs, repair dc59a0f of F13): the
printer's own `\`+LF line continuations are kept, every other backslash and every apostrophe is
escaped -/
def escapeJsBody : Str → Str
  | [] => []
  | 92 :: 10 :: rest => 92 :: 10 :: escapeJsBody rest
  | 92 :: rest => 92 :: 92 :: escapeJsBody rest
  | 39 :: rest => 92 :: 39 :: escapeJsBody rest
  | c :: rest => c :: escapeJsBody rest

/-- query_text.ts / __refetch__query_text__N.ts -/
def queryTextFile (queryText : Str) : Str := cs!"export default '" ++ escapeJsBody queryText ++ cs!"';"

/-- normalization_ast.ts -/
def normalizationAstFile (normAstText : Str) : Str :=
  cs!"import type {NormalizationAst} from '@isograph/react';\nconst normalizationAst: NormalizationAst = {\n  kind: \"NormalizationAst\",\n  selections: "
    ++ normAstText ++ cs!",\n};\nexport default normalizationAst;\n"

/-- raw_response_type.ts -/
def rawResponseTypeFile (typeName fieldName rawType : Str) : Str :=
  cs!"export type " ++ typeName ++ cs!"__" ++ fieldName ++ cs!"__raw_response_type = " ++ rawType ++ [10]

/-- `variable_names_to_string` -/
def variableNamesToString (names fieldVars : List Str) : Str :=
  [91] ++ (names ++ fieldVars).flatMap (fun v => [34] ++ v ++ cs!"\", ") ++ [93]

def refetchImportLines (ext : Str) : Nat → List (List Str × List Str) → Str
  | _, [] => []
  | i, _ :: rest =>
    cs!"import refetchQuery" ++ showNat i ++ cs!" from './__refetch__" ++ showNat i ++ ext ++ cs!"';\n"
      ++ refetchImportLines ext (i + 1) rest

def refetchArrayLines : Nat → List (List Str × List Str) → Str
  | _, [] => []
  | i, (names, fieldVars) :: rest =>
    cs!"  { artifact: refetchQuery" ++ showNat i ++ cs!", allowedVariables: "
      ++ variableNamesToString names fieldVars ++ cs!" },\n" ++ refetchArrayLines (i + 1) rest

/-- `generate_refetch_query_artifact_import` -/
def refetchQueryArtifactImport (ext : Str) (refs : List (List Str × List Str)) : Str :=
  refetchImportLines ext 0 refs
    ++ cs!"const nestedRefetchQueries: RefetchQueryNormalizationArtifactWrapper[] = ["
    ++ (if refs.isEmpty then [] else [10]) ++ refetchArrayLines 0 refs ++ cs!"];"

structure EntryMeta where
  parentType : Str
  fieldName : Str
  ext : Str
  concreteType : Str
  lazyNormalization : Bool
  lazyReader : Bool
  /-- the client field has `@component` -/
  component : Bool
  refs : List (List Str × List Str)
deriving Repr, Inhabited

/-- `entrypoint_file_content` (`query_name` and `field_name` are the same string) -/
def entrypointFile (m : EntryMeta) (operationText : Str) : Str :=
  let q := m.fieldName
  let paramsT := m.parentType ++ cs!"__" ++ q ++ cs!"__param"
  let outputT := m.parentType ++ cs!"__" ++ q ++ cs!"__output_type"
  let rawT := m.parentType ++ cs!"__" ++ q ++ cs!"__raw_response_type"
  let ind := cs!"  "
  let normPath := cs!"'./normalization_ast" ++ m.ext ++ cs!"'"
  let normTypeName := if m.lazyNormalization then cs!"NormalizationAstLoader" else cs!"NormalizationAst"
  let normImport := if m.lazyNormalization then [] else cs!"import normalizationAst from " ++ normPath ++ cs!";\n"
  let normCode :=
    if m.lazyNormalization then
      ind ++ cs!"  normalizationAst: {\n" ++ ind ++ cs!"    kind: \"NormalizationAstLoader\",\n"
        ++ ind ++ cs!"    loader: () => import(" ++ normPath ++ cs!").then(module => module.default),\n"
        ++ ind ++ cs!"  },"
    else ind ++ cs!"  normalizationAst,"
  let readerPath := cs!"'./resolver_reader" ++ m.ext ++ cs!"'"
  let readerKind := if m.component then cs!"ComponentReaderArtifact" else cs!"EagerReaderArtifact"
  let readerImport := if m.lazyReader then [] else cs!"import readerResolver from " ++ readerPath ++ cs!";\n"
  let readerCode :=
    if m.lazyReader then
      ind ++ cs!"readerWithRefetchQueries: {\n"
        ++ ind ++ cs!"  kind: \"ReaderWithRefetchQueriesLoader\",\n"
        ++ ind ++ cs!"  fieldName: \"" ++ m.fieldName ++ cs!"\",\n"
        ++ ind ++ cs!"  readerArtifactKind: \"" ++ readerKind ++ cs!"\",\n"
        ++ ind ++ cs!"  loader: () => import(" ++ readerPath ++ cs!")\n"
        ++ ind ++ cs!"    .then(module => ({\n"
        ++ ind ++ cs!"      kind: \"ReaderWithRefetchQueries\",\n"
        ++ ind ++ cs!"      nestedRefetchQueries,\n"
        ++ ind ++ cs!"      readerArtifact: module.default,\n"
        ++ ind ++ cs!"    }))\n"
        ++ ind ++ cs!"}"
    else
      ind ++ cs!"readerWithRefetchQueries: {\n"
        ++ ind ++ cs!"  kind: \"ReaderWithRefetchQueries\",\n"
        ++ ind ++ cs!"  nestedRefetchQueries,\n"
        ++ ind ++ cs!"  readerArtifact: readerResolver,\n"
        ++ ind ++ cs!"},"
  cs!"import type {IsographEntrypoint, " ++ normTypeName
    ++ cs!", RefetchQueryNormalizationArtifactWrapper} from '@isograph/react';\n"
    ++ cs!"import {" ++ paramsT ++ cs!"} from './param_type" ++ m.ext ++ cs!"';\n"
    ++ cs!"import {" ++ outputT ++ cs!"} from './output_type" ++ m.ext ++ cs!"';\n"
    ++ cs!"import type {" ++ rawT ++ cs!"} from './raw_response_type" ++ m.ext ++ cs!"';\n"
    ++ readerImport
    ++ cs!"import queryText from './query_text" ++ m.ext ++ cs!"';\n"
    ++ normImport
    ++ refetchQueryArtifactImport m.ext m.refs ++ cs!"\n\n"
    ++ cs!"const artifact: IsographEntrypoint<\n"
    ++ ind ++ paramsT ++ cs!",\n"
    ++ ind ++ outputT ++ cs!",\n"
    ++ ind ++ normTypeName ++ cs!",\n"
    ++ ind ++ rawT ++ cs!"\n"
    ++ cs!"> = {\n"
    ++ ind ++ cs!"kind: \"Entrypoint\",\n"
    ++ ind ++ cs!"networkRequestInfo: {\n"
    ++ ind ++ cs!"  kind: \"NetworkRequestInfo\",\n"
    ++ ind ++ cs!"  operation: " ++ operationText ++ cs!",\n"
    ++ normCode ++ [10]
    ++ ind ++ cs!"},\n"
    ++ ind ++ cs!"concreteType: \"" ++ m.concreteType ++ cs!"\",\n"
    ++ readerCode ++ [10]
    ++ cs!"};\n\n"
    ++ cs!"export default artifact;\n"

/-- `__refetch__N.ts` -/
def refetchFile (index : Nat) (ext rootEntity operationText normAstText : Str) : Str :=
  cs!"import type { IsographEntrypoint, ReaderAst, FragmentReference, NormalizationAst, RefetchQueryNormalizationArtifact } from '@isograph/react';\n"
    ++ cs!"import queryText from './__refetch__query_text__" ++ showNat index ++ ext ++ cs!"';\n\n"
    ++ cs!"const normalizationAst: NormalizationAst = {\n"
    ++ cs!"  kind: \"NormalizationAst\",\n"
    ++ cs!"  selections: " ++ normAstText ++ cs!",\n"
    ++ cs!"};\n"
    ++ cs!"const artifact: RefetchQueryNormalizationArtifact = {\n"
    ++ cs!"  kind: \"RefetchQuery\",\n"
    ++ cs!"  networkRequestInfo: {\n"
    ++ cs!"    kind: \"NetworkRequestInfo\",\n"
    ++ cs!"    operation: " ++ operationText ++ cs!",\n"
    ++ cs!"    normalizationAst,\n"
    ++ cs!"  },\n"
    ++ cs!"  concreteType: \"" ++ rootEntity ++ cs!"\",\n"
    ++ cs!"};\n\n"
    ++ cs!"export default artifact;\n"

end IsoVerif.Core
