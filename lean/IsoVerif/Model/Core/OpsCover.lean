/-
C10, compiler side: the selection keys the MERGED selection map of an entrypoint contains versus the
store keys its READER (with the readers of the client fields it reaches) reads — both symbolically, in
terms of the entrypoint's variables.

Mirrors, for server scalar / server linked fields and eagerly read client fields:

* `create_merged_selection_set.rs`: `merge_selection_set_into_selection_map` (keys built with
  `create_transformed_name_and_arguments` = `cSubst`), `merge_non_loadable_client_type` (the child's
  map is built under the child's INITIAL context and then pushed through
  `transform_and_merge_child_selection_map_into_parent_map` with the context
  `child_variable_context` = `cChildCtx`, key by key = `keyT`);
* `variable_context.rs`: `transform_selection_field_argument_into_merged_arg_with_child_context`
  (`cSubst`: every variable of the argument, at any depth, is looked up — `substitute_variables`,
  since the repair of F12/F12b; before it only a top-level variable was replaced and an object
  argument holding a variable was replaced wholesale by that variable's value),
  `child_variable_context` (`cChildCtx`: the argument with its variables substituted; a missing
  argument takes the variable's default — applied at compile time only);
* `reader_ast.rs` + read.ts: the reader's Resolver node keeps the selection's arguments as written,
  followed by the DEFAULT of every variable of the client field that the selection does not pass
  (`resolverArgs`; added by the repair of the variable-default defect — before it the defaults were
  only applied at compile time, `resolverArgsOld`); at run time `generateChildVariableMap`
  (`rChildEnv`) builds the child's variables from them and `getStoreKeyChunkForArgumentValue`
  (`rSubst`) substitutes them — inside objects too.

Names are natural numbers; a missing / null value is `V.null` on both sides (the compiler writes
`Null`, the runtime's key says `null`).  `mergeKeys` / `readKeys` list (path, key) pairs: the path
of linked-field keys from the root, then the key itself.
-/
namespace IsoVerif.Ops.Cover

mutual
inductive V where
  | var (n : Nat)
  | lit (k : Nat)
  | null
  | obj (fs : VL)
inductive VL where
  | nil
  | cons (k : Nat) (v : V) (rest : VL)
end

mutual
def V.beq : V → V → Bool
  | .var a, .var b => a == b
  | .lit a, .lit b => a == b
  | .null, .null => true
  | .obj a, .obj b => VL.beq a b
  | _, _ => false
def VL.beq : VL → VL → Bool
  | .nil, .nil => true
  | .cons k v r, .cons k' v' r' => k == k' && V.beq v v' && VL.beq r r'
  | _, _ => false
end

mutual
theorem V.eq_of_beq : ∀ (a b : V), V.beq a b = true → a = b
  | .var a, .var b, h => by simp [V.beq] at h; simp [h]
  | .lit a, .lit b, h => by simp [V.beq] at h; simp [h]
  | .null, .null, _ => rfl
  | .obj a, .obj b, h => by simp [V.beq] at h; rw [VL.eq_of_beq a b h]
  | .var _, .lit _, h | .var _, .null, h | .var _, .obj _, h
  | .lit _, .var _, h | .lit _, .null, h | .lit _, .obj _, h
  | .null, .var _, h | .null, .lit _, h | .null, .obj _, h
  | .obj _, .var _, h | .obj _, .lit _, h | .obj _, .null, h => by simp [V.beq] at h
theorem VL.eq_of_beq : ∀ (a b : VL), VL.beq a b = true → a = b
  | .nil, .nil, _ => rfl
  | .cons k v r, .cons k' v' r', h => by
    simp [VL.beq] at h
    obtain ⟨⟨h1, h2⟩, h3⟩ := h
    rw [h1, V.eq_of_beq v v' h2, VL.eq_of_beq r r' h3]
  | .nil, .cons .., h | .cons .., .nil, h => by simp [VL.beq] at h
end

mutual
theorem V.beq_self : ∀ (a : V), V.beq a a = true
  | .var _ | .lit _ | .null => by simp [V.beq]
  | .obj a => by simp [V.beq, VL.beq_self a]
theorem VL.beq_self : ∀ (a : VL), VL.beq a a = true
  | .nil => by simp [VL.beq]
  | .cons k v r => by simp [VL.beq, V.beq_self v, VL.beq_self r]
end

instance : DecidableEq V := fun a b =>
  if h : V.beq a b = true then isTrue (V.eq_of_beq a b h)
  else isFalse (fun e => h (e ▸ V.beq_self a))

abbrev Args := List (Nat × V)
/-- variable context / variable environment -/
abbrev Ctx := List (Nat × V)

def look (c : Ctx) (n : Nat) : V :=
  match c.find? (·.1 == n) with
  | some (_, v) => v
  | none => .null

mutual
/-- the first variable inside a value (`ConstantValue::try_from` fails with it) -/
def V.firstVar : V → Option Nat
  | .var n => some n
  | .obj fs => VL.firstVar fs
  | _ => none
def VL.firstVar : VL → Option Nat
  | .nil => none
  | .cons _ v r => (V.firstVar v).orElse fun _ => VL.firstVar r
end

mutual
/-- compiler (`NonConstantValue::substitute_variables`): every variable is looked up, also inside
objects -/
def cSubst (c : Ctx) : V → V
  | .var n => look c n
  | .obj fs => .obj (cSubstL c fs)
  | v => v
def cSubstL (c : Ctx) : VL → VL
  | .nil => .nil
  | .cons k v r => .cons k (cSubst c v) (cSubstL c r)
end

mutual
/-- runtime: variables are substituted everywhere, also inside objects -/
def rSubst (e : Ctx) : V → V
  | .var n => look e n
  | .obj fs => .obj (rSubstL e fs)
  | v => v
def rSubstL (e : Ctx) : VL → VL
  | .nil => .nil
  | .cons k v r => .cons k (rSubst e v) (rSubstL e r)
end

/-- a client field / pointer declaration: variables with their defaults, and the selections -/
inductive S where
  | scalar (name : Nat) (args : Args)
  | linked (name : Nat) (args : Args) (kids : List S)
  | client (field : Nat) (args : Args)

structure ClientDef where
  vars : List (Nat × Option V)
  body : List S

abbrev Prog := List ClientDef

/-- `initial_variable_context`: every declared variable stands for itself -/
def identityCtx (vars : List (Nat × Option V)) : Ctx := vars.map fun (x, _) => (x, .var x)

/-- compiler: `child_variable_context` -/
def cChildCtx (c : Ctx) (args : Args) (defs : List (Nat × Option V)) : Ctx :=
  defs.map fun (x, dflt) =>
    match args.find? (·.1 == x) with
    | some (_, a) => (x, cSubst c a)
    | none => (x, dflt.getD .null)

/-- runtime: `generateChildVariableMap` -/
def rChildEnv (e : Ctx) (args : Args) : Ctx := args.map fun (x, a) => (x, rSubst e a)

/-- `arguments` of the reader's Resolver node (`user_written_variant_ast_node`): the selection's
arguments, then `(variable, default)` for every variable of the field that has a default and is not
passed -/
def resolverArgs (args : Args) (defs : List (Nat × Option V)) : Args :=
  args ++ defs.filterMap fun (x, dflt) =>
    match dflt with
    | some d => if (args.find? (·.1 == x)).isSome then none else some (x, d)
    | none => none

abbrev Key := Nat × Args

def keyC (c : Ctx) (name : Nat) (args : Args) : Key := (name, args.map fun (x, a) => (x, cSubst c a))
def keyR (e : Ctx) (name : Nat) (args : Args) : Key := (name, args.map fun (x, a) => (x, rSubst e a))
/-- `NormalizationKey::transform_with_parent_variable_context` -/
def keyT (c : Ctx) (k : Key) : Key := (k.1, k.2.map fun (x, a) => (x, cSubst c a))

/-- the (path, key) entries of the merged selection map of `sels` built under context `c` -/
def mergeKeys (prog : Prog) : Nat → Ctx → List S → List (List Key × Key)
  | 0, _, _ => []
  | _ + 1, _, [] => []
  | fuel + 1, c, s :: rest =>
    (match s with
     | .scalar n a => [([], keyC c n a)]
     | .linked n a kids =>
       let k := keyC c n a
       ([], k) :: (mergeKeys prog fuel c kids).map fun (p, x) => (k :: p, x)
     | .client i a =>
       match prog[i]? with
       | none => []
       | some d =>
         let cc := cChildCtx c a d.vars
         (mergeKeys prog fuel (identityCtx d.vars) d.body).map fun (p, x) => (p.map (keyT cc), keyT cc x)) ++
    mergeKeys prog fuel c rest

/-- the (path, key) pairs that reading `sels` with variables `e` looks up in the store -/
def readKeys (prog : Prog) : Nat → Ctx → List S → List (List Key × Key)
  | 0, _, _ => []
  | _ + 1, _, [] => []
  | fuel + 1, e, s :: rest =>
    (match s with
     | .scalar n a => [([], keyR e n a)]
     | .linked n a kids =>
       let k := keyR e n a
       ([], k) :: (readKeys prog fuel e kids).map fun (p, x) => (k :: p, x)
     | .client i a =>
       match prog[i]? with
       | none => []
       | some d => readKeys prog fuel (rChildEnv e (resolverArgs a d.vars)) d.body) ++
    readKeys prog fuel e rest

/-! ### the envelope in which the two agree -/

mutual
/-- every variable inside the value is declared -/
def V.varsIn (declared : List Nat) : V → Bool
  | .var n => declared.contains n
  | .obj fs => VL.varsIn declared fs
  | _ => true
def VL.varsIn (declared : List Nat) : VL → Bool
  | .nil => true
  | .cons _ v r => V.varsIn declared v && VL.varsIn declared r
end

/-- what validation guarantees: every variable an argument uses (at any depth) is declared -/
def argsSafe (declared : List Nat) (args : Args) : Bool :=
  args.all fun (_, a) => V.varsIn declared a

/-- default values are constants (`ConstantValue`): no variable inside -/
def defaultsConstant (defs : List (Nat × Option V)) : Bool :=
  defs.all fun (_, dflt) =>
    match dflt with
    | some d => (V.firstVar d).isNone
    | none => true

/-- what validation guarantees for the selections of a field whose declared variables are `declared`:
every variable an argument uses is declared; defaults are constants -/
def selsSafe (prog : Prog) : Nat → List Nat → List S → Bool
  | 0, _, _ => true
  | _ + 1, _, [] => true
  | fuel + 1, declared, s :: rest =>
    (match s with
     | .scalar _ a => argsSafe declared a
     | .linked _ a kids => argsSafe declared a && selsSafe prog fuel declared kids
     | .client i a =>
       argsSafe declared a &&
       (match prog[i]? with
        | none => true
        | some d => defaultsConstant d.vars && selsSafe prog fuel (d.vars.map (·.1)) d.body)) &&
    selsSafe prog fuel declared rest

end IsoVerif.Ops.Cover
