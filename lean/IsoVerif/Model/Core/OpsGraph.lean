/-
The artifact graph: the generated `entrypoint.ts`, `__refetch__N.ts`, `resolver_reader.ts`,
`refetch_reader.ts` modules of one project, evaluated as JavaScript data under node
(`js/ops_eval.mjs`) and transported as wire tokens (`harness/ops/src/graphwire.rs`).  This is what the
runtime sees: normalization ASTs, reader ASTs, the nested refetch query arrays and the references
between artifacts (by artifact path).
-/
import IsoVerif.Model.Core.Merged

namespace IsoVerif.Ops
open IsoVerif.Core

/-- an argument value as the artifacts spell it (`{ kind: "Variable" | "Literal" | "String" | "Enum" |
"Object", … }`); a number literal keeps JavaScript's `String(value)` -/
inductive AVal where
  | var (name : Str)
  | num (text : Str)
  | bool (b : Bool)
  | null
  | str (s : Str)
  | enum (s : Str)
  | obj (fields : List (Str × AVal))
deriving Repr, Inhabited

/-- `arguments: null` and `arguments: []` are the same thing to every runtime function -/
abbrev AArgs := List (Str × AVal)

/-- normalization AST node -/
inductive NNode where
  | scalar (fallible : Bool) (name : Str) (args : AArgs)
  | linked (fallible : Bool) (name : Str) (args : AArgs) (concrete : Option Str) (sel : List NNode)
  | frag (ty : Str) (sel : List NNode)
deriving Repr, Inhabited

/-- reader AST node; references to other artifacts are artifact paths -/
inductive RNode where
  | scalar (name : Str) (alias : Option Str) (args : AArgs)
  | link (alias : Str)
  | linked (name : Str) (alias : Option Str) (args : AArgs) (condition : Option Str)
      (refetchIdx : Option Nat) (sel : List RNode)
  | resolver (alias : Str) (args : AArgs) (reader : Str) (used : List Nat)
  | imperative (alias name : Str) (refetchReader : Str) (idx : Nat)
  | loadable (alias name : Str) (queryArgs : AArgs) (refetchAst : List RNode) (lazy : Bool) (entry : Str)
deriving Repr, Inhabited

structure Op where
  /-- `operation.text` (absent for a persisted operation) -/
  text : Option Str
  operationId : Option Str
  norm : List NNode
deriving Repr, Inhabited

structure Entry where
  rel : Str
  concreteType : Str
  lazyReader : Bool
  reader : Str
  /-- `nestedRefetchQueries`: (artifact path, allowedVariables) -/
  nested : List (Str × List Str)
  op : Op
deriving Repr, Inhabited

structure Refetch where
  rel : Str
  concreteType : Str
  op : Op
deriving Repr, Inhabited

structure Reader where
  rel : Str
  kind : Str
  fieldName : Option Str
  hasUpdatable : Bool
  /-- the imported user function (a stub under node), when the artifact has one -/
  userResolver : Option Str
  /-- `T` of the generated resolver `data.__typename === "T" ? data.__link : null` of an
  `asT` condition artifact -/
  conditionType : Option Str
  ast : List RNode
deriving Repr, Inhabited

structure Graph where
  entries : List Entry
  refetches : List Refetch
  readers : List Reader
deriving Repr, Inhabited

def Graph.entry? (g : Graph) (rel : Str) : Option Entry := g.entries.find? (·.rel == rel)
def Graph.refetch? (g : Graph) (rel : Str) : Option Refetch := g.refetches.find? (·.rel == rel)
def Graph.reader? (g : Graph) (rel : Str) : Option Reader := g.readers.find? (·.rel == rel)

/-! ### wire parser -/

def pOptStr : P (Option Str)
  | "N" :: rest => some (none, rest)
  | "S" :: rest => (pStr rest).map fun (s, r) => (some s, r)
  | _ => none

def pOptNat : P (Option Nat)
  | "N" :: rest => some (none, rest)
  | "S" :: rest => (pNat rest).map fun (n, r) => (some n, r)
  | _ => none

def pAVal : Nat → P AVal
  | 0, _ => none
  | fuel + 1, ts =>
    match ts with
    | "V" :: rest => (pStr rest).map fun (s, r) => (.var s, r)
    | "I" :: rest => (pStr rest).map fun (s, r) => (.num s, r)
    | "B" :: rest => (pBool rest).map fun (b, r) => (.bool b, r)
    | "U" :: rest => some (.null, rest)
    | "S" :: rest => (pStr rest).map fun (s, r) => (.str s, r)
    | "E" :: rest => (pStr rest).map fun (s, r) => (.enum s, r)
    | "O" :: rest =>
      (pSeq (fun ts =>
        match pStr ts with
        | none => none
        | some (k, ts1) => (pAVal fuel ts1).map fun (v, r) => ((k, v), r)) rest).map
        fun (xs, r) => (.obj xs, r)
    | _ => none

def pAArgs (fuel : Nat) : P AArgs
  | "N" :: rest => some ([], rest)
  | "S" :: rest =>
    pSeq (fun ts =>
      match pStr ts with
      | none => none
      | some (k, ts1) => (pAVal fuel ts1).map fun (v, r) => ((k, v), r)) rest
  | _ => none

def pNNodes : Nat → P (List NNode)
  | 0, _ => none
  | fuel + 1, ts =>
    pSeq (fun ts =>
      match ts with
      | "s" :: rest =>
        match pBool rest with
        | none => none
        | some (f, r1) =>
          match pStr r1 with
          | none => none
          | some (n, r2) => (pAArgs 64 r2).map fun (a, r) => (NNode.scalar f n a, r)
      | "l" :: rest =>
        match pBool rest with
        | none => none
        | some (f, r1) =>
          match pStr r1 with
          | none => none
          | some (n, r2) =>
            match pAArgs 64 r2 with
            | none => none
            | some (a, r3) =>
              let conc : Option (Option Str × List String) :=
                match r3 with
                | "C" :: r => (pStr r).map fun (s, r') => (some s, r')
                | "A" :: r => some (none, r)
                | _ => none
              match conc with
              | none => none
              | some (c, r4) => (pNNodes fuel r4).map fun (k, r) => (NNode.linked f n a c k, r)
      | "f" :: rest =>
        match pStr rest with
        | none => none
        | some (t, r1) => (pNNodes fuel r1).map fun (k, r) => (NNode.frag t k, r)
      | _ => none) ts

def pRNodes : Nat → P (List RNode)
  | 0, _ => none
  | fuel + 1, ts =>
    pSeq (fun ts =>
      match ts with
      | "s" :: rest =>
        match pStr rest with
        | none => none
        | some (n, r1) =>
          match pOptStr r1 with
          | none => none
          | some (al, r2) =>
            match pAArgs 64 r2 with
            | none => none
            | some (a, r3) =>
              match pBool r3 with
              | none => none
              | some (_, r4) => (pBool r4).map fun (_, r) => (RNode.scalar n al a, r)
      | "k" :: rest => (pStr rest).map fun (al, r) => (RNode.link al, r)
      | "l" :: rest =>
        match pStr rest with
        | none => none
        | some (n, r1) =>
          match pOptStr r1 with
          | none => none
          | some (al, r2) =>
            match pAArgs 64 r2 with
            | none => none
            | some (a, r3) =>
              match pBool r3 with
              | none => none
              | some (_, r4) =>
                match pBool r4 with
                | none => none
                | some (_, r5) =>
                  match pOptStr r5 with
                  | none => none
                  | some (cond, r6) =>
                    match pOptNat r6 with
                    | none => none
                    | some (idx, r7) => (pRNodes fuel r7).map fun (k, r) => (RNode.linked n al a cond idx k, r)
      | "r" :: rest =>
        match pStr rest with
        | none => none
        | some (al, r1) =>
          match pAArgs 64 r1 with
          | none => none
          | some (a, r2) =>
            match pStr r2 with
            | none => none
            | some (rd, r3) => (pSeq pNat r3).map fun (u, r) => (RNode.resolver al a rd u, r)
      | "i" :: rest =>
        match pStr rest with
        | none => none
        | some (al, r1) =>
          match pStr r1 with
          | none => none
          | some (n, r2) =>
            match pStr r2 with
            | none => none
            | some (rr, r3) => (pNat r3).map fun (i, r) => (RNode.imperative al n rr i, r)
      | "a" :: rest =>
        match pStr rest with
        | none => none
        | some (al, r1) =>
          match pStr r1 with
          | none => none
          | some (n, r2) =>
            match pAArgs 64 r2 with
            | none => none
            | some (qa, r3) =>
              match pRNodes fuel r3 with
              | none => none
              | some (ast, r4) =>
                match pBool r4 with
                | none => none
                | some (lz, r5) => (pStr r5).map fun (e, r) => (RNode.loadable al n qa ast lz e, r)
      | _ => none) ts

def pOp (fuel : Nat) : P Op
  | "T" :: rest =>
    match pStr rest with
    | none => none
    | some (t, r1) => (pNNodes fuel r1).map fun (n, r) => (⟨some t, none, n⟩, r)
  | "P" :: rest =>
    match pStr rest with
    | none => none
    | some (i, r1) => (pNNodes fuel r1).map fun (n, r) => (⟨none, some i, n⟩, r)
  | _ => none

def pEntry (fuel : Nat) : P Entry
  | "E" :: rest =>
    match pStr rest with
    | none => none
    | some (rel, r1) =>
      match pStr r1 with
      | none => none
      | some (ct, r2) =>
        match pBool r2 with
        | none => none
        | some (lz, r3) =>
          match pStr r3 with
          | none => none
          | some (rd, r4) =>
            match pSeq (fun ts =>
                match pStr ts with
                | none => none
                | some (a, ts1) => (pSeq pStr ts1).map fun (vs, r) => ((a, vs), r)) r4 with
            | none => none
            | some (nested, r5) => (pOp fuel r5).map fun (op, r) => (⟨rel, ct, lz, rd, nested, op⟩, r)
  | _ => none

def pRefetch (fuel : Nat) : P Refetch
  | "R" :: rest =>
    match pStr rest with
    | none => none
    | some (rel, r1) =>
      match pStr r1 with
      | none => none
      | some (ct, r2) => (pOp fuel r2).map fun (op, r) => (⟨rel, ct, op⟩, r)
  | _ => none

def pReader (fuel : Nat) : P Reader
  | "D" :: rest =>
    match pStr rest with
    | none => none
    | some (rel, r1) =>
      match pStr r1 with
      | none => none
      | some (kind, r2) =>
        match pOptStr r2 with
        | none => none
        | some (fname, r3) =>
          match pBool r3 with
          | none => none
          | some (upd, r4) =>
            match pOptStr r4 with
            | none => none
            | some (ur, r5) =>
              match pOptStr r5 with
              | none => none
              | some (ct, r6) => (pRNodes fuel r6).map fun (ast, r) => (⟨rel, kind, fname, upd, ur, ct, ast⟩, r)
  | _ => none

def pGraph (ts : List String) : Option Graph :=
  match ts with
  | "G" :: rest =>
    let fuel := 200
    match pSeq (pEntry fuel) rest with
    | none => none
    | some (es, r1) =>
      match pSeq (pRefetch fuel) r1 with
      | none => none
      | some (rs, r2) =>
        match pSeq (pReader fuel) r2 with
        | some (ds, []) => some ⟨es, rs, ds⟩
        | _ => none
  | _ => none

def parseGraph (field : String) : Option Graph := pGraph ((field.splitOn " ").filter (· != ""))

end IsoVerif.Ops
