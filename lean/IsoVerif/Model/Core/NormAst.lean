/-
M-CORE / normalization AST text: crates/artifact_content/src/normalization_ast_text.rs
(`generate_normalization_ast_text`, `generate_normalization_ast_node`) and
crates/artifact_content/src/generate_artifacts.rs (`get_serialized_field_arguments`,
`get_serialized_field_argument`).

`printNormAst` is the printer; `normTreeD` is the decorated abstract tree it writes down
(`isFallible`, `concreteType` included), `renderTs` its renderer, and `normTree` the erasure to
the plain selection tree that is compared with `queryTree` (C11).

The printer emits a `__typename` scalar node for an empty selection map (repair of F14: the
operation text selects `__typename` there).
-/
import IsoVerif.Model.Core.QueryText

namespace IsoVerif.Core

mutual
/-- `get_serialized_field_argument(argument, indentation_level)` (a list prints nothing: it panics) -/
def tsArg (level : Nat) (name : Str) : Value → Str
  | .var v =>
    [10] ++ indent (level + 1) ++ cs!"[\n" ++ indent (level + 2) ++ [34] ++ name ++ cs!"\",\n"
      ++ indent (level + 2) ++ cs!"{ kind: \"Variable\", name: \"" ++ v ++ cs!"\" },\n"
      ++ indent (level + 1) ++ cs!"],\n"
  | .int i =>
    [10] ++ indent (level + 1) ++ cs!"[\n" ++ indent (level + 2) ++ [34] ++ name ++ cs!"\",\n"
      ++ indent (level + 2) ++ cs!"{ kind: \"Literal\", value: " ++ showInt i ++ cs!" },\n"
      ++ indent (level + 1) ++ cs!"],\n"
  | .bool b =>
    [10] ++ indent (level + 1) ++ cs!"[\n" ++ indent (level + 2) ++ [34] ++ name ++ cs!"\",\n"
      ++ indent (level + 2) ++ cs!"{ kind: \"Literal\", value: " ++ showBool b ++ cs!" },\n"
      ++ indent (level + 1) ++ cs!"],\n"
  | .str s =>
    [10] ++ indent (level + 1) ++ cs!"[\n" ++ indent (level + 2) ++ [34] ++ name ++ cs!"\",\n"
      ++ indent (level + 2) ++ cs!"{ kind: \"String\", value: \"" ++ s ++ cs!"\" },\n"
      ++ indent (level + 1) ++ cs!"],\n"
  | .float text =>
    [10] ++ indent (level + 1) ++ cs!"[\n" ++ indent (level + 2) ++ [34] ++ name ++ cs!"\",\n"
      ++ indent (level + 2) ++ cs!"{ kind: \"Literal\", value: " ++ text ++ cs!" },\n"
      ++ indent (level + 1) ++ cs!"],\n"
  | .null =>
    [10] ++ indent (level + 1) ++ cs!"[\n" ++ indent (level + 2) ++ [34] ++ name ++ cs!"\",\n"
      ++ indent (level + 2) ++ cs!"{ kind: \"Literal\", value: null },\n"
      ++ indent (level + 1) ++ cs!"],\n"
  | .enum e =>
    [10] ++ indent (level + 1) ++ cs!"[\n" ++ indent (level + 2) ++ [34] ++ name ++ cs!"\",\n"
      ++ indent (level + 2) ++ cs!"{ kind: \"Enum\", value: \"" ++ e ++ cs!"\" },\n"
      ++ indent (level + 1) ++ cs!"],\n"
  | .list _ => []
  | .obj fields =>
    [10] ++ indent (level + 1) ++ cs!"[\n" ++ indent (level + 2) ++ [34] ++ name ++ cs!"\",\n"
      ++ indent (level + 2) ++ cs!"{\n"
      ++ indent (level + 3) ++ cs!"kind: \"Object\",\n"
      ++ indent (level + 3) ++ cs!"value: [" ++ tsObjFields (level + 3) fields ++ [10]
      ++ indent (level + 3) ++ cs!"]\n"
      ++ indent (level + 2) ++ cs!"},\n"
      ++ indent (level + 1) ++ cs!"],\n"
def tsObjFields (level : Nat) : List (Str × Value) → Str
  | [] => []
  | (k, v) :: rest => tsArg level k v ++ tsObjFields level rest
end

def tsArgList (level : Nat) : Args → Str
  | [] => []
  | (k, v) :: rest => tsArg level k v ++ tsArgList level rest

/-- `get_serialized_field_arguments(arguments, indentation_level)` -/
def tsArgs (level : Nat) (args : Args) : Str :=
  if args.isEmpty then cs!"null" else [91] ++ tsArgList level args ++ indent level ++ [93]

/-- `Display for ConcreteTargetEntityName` -/
def concText : Conc → Str
  | .concrete name => [34] ++ name ++ [34]
  | .abstract => cs!"null"

/-- the node for a scalar field at `level` -/
def nScalar (level : Nat) (fallible : Bool) (name : Str) (args : Args) : Str :=
  indent level ++ cs!"{\n"
    ++ indent (level + 1) ++ cs!"kind: \"Scalar\",\n"
    ++ indent (level + 1) ++ cs!"isFallible: " ++ showBool fallible ++ cs!",\n"
    ++ indent (level + 1) ++ cs!"fieldName: \"" ++ name ++ cs!"\",\n"
    ++ indent (level + 1) ++ cs!"arguments: " ++ tsArgs (level + 1) args ++ cs!",\n"
    ++ indent level ++ cs!"},\n"

/-- the node emitted for an empty selection map (F14 repair) -/
def nTypename (level : Nat) : Str := nScalar level false cs!"__typename" []

/-- `"[\n" + nodes + indent + "]"` -/
def nBracket (level : Nat) (nodes : Str) : Str := cs!"[\n" ++ nodes ++ indent level ++ [93]

/-- `generate_normalization_ast_text` around already printed nodes, with the empty-map node -/
def nWrap (level : Nat) (isEmpty : Bool) (nodes : Str) : Str :=
  nBracket level (if isEmpty then nTypename (level + 1) else nodes)

/-- the `format!` of the `LinkedField` arm, `selections` already printed -/
def nLinked (level : Nat) (fallible : Bool) (name : Str) (args : Args) (conc : Conc) (selections : Str) : Str :=
  indent level ++ cs!"{\n"
    ++ indent (level + 1) ++ cs!"kind: \"Linked\",\n"
    ++ indent (level + 1) ++ cs!"isFallible: " ++ showBool fallible ++ cs!",\n"
    ++ indent (level + 1) ++ cs!"fieldName: \"" ++ name ++ cs!"\",\n"
    ++ indent (level + 1) ++ cs!"arguments: " ++ tsArgs (level + 1) args ++ cs!",\n"
    ++ indent (level + 1) ++ cs!"concreteType: " ++ concText conc ++ cs!",\n"
    ++ indent (level + 1) ++ cs!"selections: " ++ selections ++ cs!",\n"
    ++ indent level ++ cs!"},\n"

/-- the `format!` of the `InlineFragment` arm, `selections` already printed -/
def nFrag (level : Nat) (ty : Str) (selections : Str) : Str :=
  indent level ++ cs!"{\n"
    ++ indent (level + 1) ++ cs!"kind: \"InlineFragment\",\n"
    ++ indent (level + 1) ++ cs!"type: \"" ++ ty ++ cs!"\",\n"
    ++ indent (level + 1) ++ cs!"selections: " ++ selections ++ cs!",\n"
    ++ indent level ++ cs!"},\n"

mutual
/-- `generate_normalization_ast_node(item, indentation_level)` -/
def nSel (level : Nat) : Sel → Str
  | .scalar fallible name args => nScalar level fallible name args
  | .linked fallible name args conc map =>
    nLinked level fallible name args conc (nWrap (level + 1) map.isEmpty (nItems (level + 2) map))
  | .clientObj .. => []
  | .frag ty map => nFrag level ty (nWrap (level + 1) map.isEmpty (nItems (level + 2) map))
/-- the `for item in selection_map` loop at node level `level` -/
def nItems (level : Nat) : SelMap → Str
  | [] => []
  | (_, s) :: rest => nSel level s ++ nItems level rest
end

/-- `generate_normalization_ast_text(map.values(), indentation_level)` without the panic check -/
def printNormAstCore (level : Nat) (m : SelMap) : Str := nWrap level m.isEmpty (nItems (level + 1) m)

/-- `generate_normalization_ast_text`; `none` = panic on a list value -/
def printNormAst (level : Nat) (m : SelMap) : Option Str :=
  if SelMap.printPanics m then none else some (printNormAstCore level m)

/-! ### the abstract tree of the normalization AST -/

inductive NTree where
  | scalar (fallible : Bool) (name : Str) (args : Args)
  | linked (fallible : Bool) (name : Str) (args : Args) (conc : Conc) (kids : List NTree)
  | frag (ty : Str) (kids : List NTree)
deriving Repr, Inhabited

def nTypenameNode : NTree := .scalar false cs!"__typename" []

def nKidsOrPlaceholder (isEmpty : Bool) (kids : List NTree) : List NTree :=
  if isEmpty then [nTypenameNode] else kids

mutual
def nTreeSel : Sel → List NTree
  | .scalar fallible name args => [.scalar fallible name args]
  | .linked fallible name args conc map =>
    [.linked fallible name args conc (nKidsOrPlaceholder map.isEmpty (nTreeItems map))]
  | .clientObj .. => []
  | .frag ty map => [.frag ty (nKidsOrPlaceholder map.isEmpty (nTreeItems map))]
def nTreeItems : SelMap → List NTree
  | [] => []
  | (_, s) :: rest => nTreeSel s ++ nTreeItems rest
end

/-- the decorated tree `generate_normalization_ast_text` writes for `m` -/
def normTreeD (m : SelMap) : List NTree := nKidsOrPlaceholder m.isEmpty (nTreeItems m)

mutual
def renderTsNode (level : Nat) : NTree → Str
  | .scalar fallible name args => nScalar level fallible name args
  | .linked fallible name args conc kids =>
    nLinked level fallible name args conc (nBracket (level + 1) (renderTsNodes (level + 2) kids))
  | .frag ty kids => nFrag level ty (nBracket (level + 1) (renderTsNodes (level + 2) kids))
def renderTsNodes (level : Nat) : List NTree → Str
  | [] => []
  | t :: rest => renderTsNode level t ++ renderTsNodes level rest
end

/-- renderer of a whole tree at `indentation_level = level` -/
def renderTs (level : Nat) (ts : List NTree) : Str := nBracket level (renderTsNodes (level + 1) ts)

mutual
/-- forget `isFallible` and `concreteType` -/
def NTree.erase : NTree → Tree
  | .scalar _ name args => .field name args none
  | .linked _ name args _ kids => .field name args (some (NTree.eraseList kids))
  | .frag ty kids => .frag ty (NTree.eraseList kids)
def NTree.eraseList : List NTree → List Tree
  | [] => []
  | t :: rest => t.erase :: NTree.eraseList rest
end

/-- the selection tree of the normalization AST -/
def normTree (m : SelMap) : List Tree := NTree.eraseList (normTreeD m)

/-! ### the maps of a refetch / imperatively loaded query
(`get_paths_and_contents_for_imperatively_loaded_field`, `selection_map_wrapped`,
`maybe_add_typename_selection`) -/

/-- `WrappedSelectionMapSelection` -/
inductive WrapSel where
  | linked (name : Str) (args : Args) (conc : Conc) (fallible : Bool)
  | frag (ty : Str)
deriving Repr, Inhabited

def isDiscriminator : Key → Bool
  | ⟨_, .discriminator⟩ => true
  | _ => false

/-- `maybe_add_typename_selection`: `BTreeMap::insert(Discriminator, __typename)`; the
discriminator is the least key -/
def maybeAddTypename (m : SelMap) : SelMap :=
  (⟨0, .discriminator⟩, Sel.scalar false cs!"__typename" []) :: m.filter fun e => !(isDiscriminator e.1)

/-- `selection_map_wrapped(inner, subfields_or_inline_fragments)` (innermost wrapper first) -/
def selectionMapWrapped (inner : SelMap) : List WrapSel → SelMap
  | [] => inner
  | .linked name args conc fallible :: rest =>
    selectionMapWrapped [(⟨0, .serverField name args⟩, Sel.linked fallible name args conc inner)] rest
  | .frag ty :: rest =>
    selectionMapWrapped [(⟨0, .inlineFragment ty⟩, Sel.frag ty (maybeAddTypename inner))] rest

/-- the map handed to `generate_normalization_ast_text` for a refetch query -/
def refetchNormMap (nested : SelMap) (subfields : List WrapSel) : SelMap :=
  selectionMapWrapped nested subfields

/-- the map handed to `generate_query_text`: an inline fragment on
`wrap_refetch_field_with_inline_fragment` is inserted innermost -/
def refetchQueryMap (nested : SelMap) (subfields : List WrapSel) (wrap : Option Str) : SelMap :=
  match wrap with
  | some ty => selectionMapWrapped nested (.frag ty :: subfields)
  | none => selectionMapWrapped nested subfields

end IsoVerif.Core
