/-
M-CORE / merged selection maps: the datatype the printers consume
(crates/isograph_schema/src/create_merged_selection_set.rs: `MergedSelectionMap`,
`MergedServerSelection`, `NormalizationKey`, `ConcreteTargetEntityName`;
crates/isograph_lang_types/src/declarations/selection_argument.rs: `NonConstantValue`,
`ArgumentKeyAndValue`), and the parser of the wire format written by the dump hook
(`isograph_schema::verif`, `artifact_content::verif`).

Text is a list of Unicode scalar values (`Str = List Nat`): Rust's alias function works per `char`,
the runtime per UTF-16 unit, and `List Nat` reduces in the kernel.  A `BTreeMap` is the list of its
entries in iteration order (the order is an input: it is the order of interning, not of the text).
-/
namespace IsoVerif.Core

/-- text as Unicode scalar values -/
abbrev Str := List Nat

/-- `cs!"abc"` is the list of code points of the literal (expanded at elaboration time, so that no
`String` operation is left in a model definition). -/
macro:max "cs!" s:str : term => do
  let elems := s.getString.toList.map fun c => Lean.Syntax.mkNumLit (toString c.toNat)
  `(([$(elems.toArray),*] : List Nat))

/-- `NonConstantValue` (locations dropped).  `float` carries the text of Rust's
`f64::to_string()`; f64 formatting is not modelled. -/
inductive Value where
  | var (name : Str)
  | int (i : Int)
  | bool (b : Bool)
  | str (s : Str)
  | float (text : Str)
  | null
  | enum (e : Str)
  | list (items : List Value)
  | obj (fields : List (Str × Value))
deriving Repr, Inhabited

/-- `Vec<ArgumentKeyAndValue>` -/
abbrev Args := List (Str × Value)

/-- `ConcreteTargetEntityName` -/
inductive Conc where
  | concrete (name : Str)
  | abstract
deriving Repr, DecidableEq, Inhabited

/-- `NormalizationKey`.  `rank` is the position of the key in the `Ord` order of all keys of the
operation (supplied by the dump hook: the order is the order of interning). -/
inductive KeyKind where
  | discriminator
  | id
  | serverField (name : Str) (args : Args)
  | clientPointer (name : Str) (args : Args)
  | inlineFragment (ty : Str)
deriving Repr, Inhabited

structure Key where
  rank : Nat
  kind : KeyKind
deriving Repr, Inhabited

/-- `MergedServerSelection`; a map is the list of its `(key, value)` entries in iteration order. -/
inductive Sel where
  | scalar (fallible : Bool) (name : Str) (args : Args)
  | linked (fallible : Bool) (name : Str) (args : Args) (conc : Conc) (map : List (Key × Sel))
  | clientObj (fallible : Bool) (name : Str) (args : Args) (conc : Conc) (map : List (Key × Sel))
  | frag (ty : Str) (map : List (Key × Sel))
deriving Repr, Inhabited

/-- `MergedSelectionMap` -/
abbrev SelMap := List (Key × Sel)

/-- `TypeAnnotationDeclaration` (a `Union`'s variants in `BTreeSet` order). -/
inductive TypeAnn where
  | scalar (name : Str)
  | union (nullable : Bool) (variants : List TypeAnn)   -- variant `scalar n` or `plural t`
  | plural (inner : TypeAnn)
deriving Repr, Inhabited

/-- `VariableDeclaration`: name, type, default value (a constant `Value`). -/
structure VarDef where
  name : Str
  type : TypeAnn
  default : Option Value
deriving Repr, Inhabited

/-! ### small text utilities -/

def replicateStr (n : Nat) (s : Str) : Str :=
  match n with
  | 0 => []
  | k + 1 => s ++ replicateStr k s

/-- `"  ".repeat(level)` -/
def indent (level : Nat) : Str := replicateStr level [32, 32]

def digitsAux : Nat → Nat → Str → Str
  | 0, _, acc => acc
  | fuel + 1, n, acc =>
    if n < 10 then (48 + n) :: acc else digitsAux fuel (n / 10) ((48 + n % 10) :: acc)

/-- decimal digits of a natural number -/
def showNat (n : Nat) : Str := digitsAux (n + 1) n []

/-- `i64::to_string()` -/
def showInt : Int → Str
  | .ofNat n => showNat n
  | .negSucc n => 45 :: showNat (n + 1)

def showBool (b : Bool) : Str := if b then cs!"true" else cs!"false"

/-- `Vec<String>::join(sep)` -/
def joinStr (sep : Str) : List Str → Str
  | [] => []
  | [x] => x
  | x :: y :: rest => x ++ sep ++ joinStr sep (y :: rest)

/-! ### UTF-8 (driver side only) -/

def utf8EncodeChar (c : Nat) : List Nat :=
  if c < 0x80 then [c]
  else if c < 0x800 then [0xC0 + c / 64, 0x80 + c % 64]
  else if c < 0x10000 then [0xE0 + c / 4096, 0x80 + (c / 64) % 64, 0x80 + c % 64]
  else [0xF0 + c / 262144, 0x80 + (c / 4096) % 64, 0x80 + (c / 64) % 64, 0x80 + c % 64]

def utf8Encode (s : Str) : List Nat := s.flatMap utf8EncodeChar

/-- lenient decoder (valid UTF-8 in, scalar values out) -/
def utf8DecodeAux : Nat → List Nat → Str → Str
  | 0, _, acc => acc.reverse
  | _, [], acc => acc.reverse
  | fuel + 1, b :: rest, acc =>
    if b < 0x80 then utf8DecodeAux fuel rest (b :: acc)
    else if b < 0xE0 then
      match rest with
      | b1 :: r => utf8DecodeAux fuel r (((b % 32) * 64 + b1 % 64) :: acc)
      | _ => acc.reverse
    else if b < 0xF0 then
      match rest with
      | b1 :: b2 :: r => utf8DecodeAux fuel r (((b % 16) * 4096 + (b1 % 64) * 64 + b2 % 64) :: acc)
      | _ => acc.reverse
    else
      match rest with
      | b1 :: b2 :: b3 :: r =>
        utf8DecodeAux fuel r (((b % 8) * 262144 + (b1 % 64) * 4096 + (b2 % 64) * 64 + b3 % 64) :: acc)
      | _ => acc.reverse

def utf8Decode (bytes : List Nat) : Str := utf8DecodeAux bytes.length bytes []

def hexVal (c : Char) : Option Nat :=
  if '0' ≤ c ∧ c ≤ '9' then some (c.toNat - 48)
  else if 'a' ≤ c ∧ c ≤ 'f' then some (c.toNat - 87)
  else if 'A' ≤ c ∧ c ≤ 'F' then some (c.toNat - 55)
  else none

def hexBytesAux : List Char → List Nat → Option (List Nat)
  | [], acc => some acc.reverse
  | [_], _ => none
  | a :: b :: rest, acc =>
    match hexVal a, hexVal b with
    | some x, some y => hexBytesAux rest ((x * 16 + y) :: acc)
    | _, _ => none

/-- a hex field of the wire / line protocol (`-` is the empty string) to bytes -/
def hexBytes (s : String) : Option (List Nat) :=
  if s = "-" then some [] else hexBytesAux s.toList []

/-- a hex field to text -/
def hexStr (s : String) : Option Str := (hexBytes s).map utf8Decode

def hexDigitChar (n : Nat) : Char :=
  if n < 10 then Char.ofNat (48 + n) else Char.ofNat (87 + n)

/-- text to the hex of its UTF-8 bytes (`-` if empty) -/
def strHex (s : Str) : String :=
  if s.isEmpty then "-" else
  String.ofList ((utf8Encode s).flatMap fun b => [hexDigitChar (b / 16), hexDigitChar (b % 16)])

def strOfString (s : String) : Str := s.toList.map Char.toNat

def stringOfStr (s : Str) : String := String.ofList (s.map Char.ofNat)

/-! ### wire parser

Tokens are the space-separated words of the dump line.  Every parser consumes a prefix of the
token list and returns the rest.  `fuel` bounds the nesting depth of the recursion (any value
≥ the number of tokens is enough). -/

abbrev P (α : Type) := List String → Option (α × List String)

def pTok : P String
  | [] => none
  | t :: rest => some (t, rest)

def pNat : P Nat
  | [] => none
  | t :: rest => t.toNat?.map (·, rest)

def pStr : P Str
  | [] => none
  | t :: rest => (hexStr t).map (·, rest)

def pBool : P Bool
  | "0" :: rest => some (false, rest)
  | "1" :: rest => some (true, rest)
  | _ => none

/-- `n` repetitions of `p` -/
def pRepeat {α : Type} (p : P α) : Nat → P (List α)
  | 0, ts => some ([], ts)
  | n + 1, ts =>
    match p ts with
    | none => none
    | some (a, ts1) =>
      match pRepeat p n ts1 with
      | none => none
      | some (as, ts2) => some (a :: as, ts2)

/-- length-prefixed sequence -/
def pSeq {α : Type} (p : P α) : P (List α) := fun ts =>
  match pNat ts with
  | none => none
  | some (n, ts1) => pRepeat p n ts1

def pValue : Nat → P Value
  | 0, _ => none
  | fuel + 1, ts =>
    match ts with
    | "V" :: rest => (pStr rest).map fun (s, r) => (.var s, r)
    | "I" :: t :: rest => t.toInt?.map fun i => (.int i, rest)
    | "B" :: rest => (pBool rest).map fun (b, r) => (.bool b, r)
    | "S" :: rest => (pStr rest).map fun (s, r) => (.str s, r)
    | "F" :: rest => (pStr rest).map fun (s, r) => (.float s, r)
    | "N" :: rest => some (.null, rest)
    | "E" :: rest => (pStr rest).map fun (s, r) => (.enum s, r)
    | "L" :: rest => (pSeq (pValue fuel) rest).map fun (xs, r) => (.list xs, r)
    | "O" :: rest =>
      (pSeq (fun ts =>
        match pStr ts with
        | none => none
        | some (k, ts1) => (pValue fuel ts1).map fun (v, r) => ((k, v), r)) rest).map
        fun (xs, r) => (.obj xs, r)
    | _ => none

def pArgs (fuel : Nat) : P Args :=
  pSeq fun ts =>
    match pStr ts with
    | none => none
    | some (k, ts1) => (pValue fuel ts1).map fun (v, r) => ((k, v), r)

def pConc : P Conc
  | "C" :: rest => (pStr rest).map fun (s, r) => (.concrete s, r)
  | "A" :: rest => some (.abstract, rest)
  | _ => none

def pKey (fuel : Nat) : P Key := fun ts =>
  match pNat ts with
  | none => none
  | some (rank, ts1) =>
    match ts1 with
    | "D" :: rest => some (⟨rank, .discriminator⟩, rest)
    | "I" :: rest => some (⟨rank, .id⟩, rest)
    | "F" :: rest =>
      match pStr rest with
      | none => none
      | some (n, r1) => (pArgs fuel r1).map fun (a, r) => (⟨rank, .serverField n a⟩, r)
    | "P" :: rest =>
      match pStr rest with
      | none => none
      | some (n, r1) => (pArgs fuel r1).map fun (a, r) => (⟨rank, .clientPointer n a⟩, r)
    | "T" :: rest => (pStr rest).map fun (t, r) => (⟨rank, .inlineFragment t⟩, r)
    | _ => none

def pMap : Nat → P SelMap
  | 0, _ => none
  | fuel + 1, ts =>
    pSeq (fun ts =>
      match pKey fuel ts with
      | none => none
      | some (key, ts1) =>
        match ts1 with
        | "s" :: rest =>
          match pBool rest with
          | none => none
          | some (f, r1) =>
            match pStr r1 with
            | none => none
            | some (n, r2) => (pArgs fuel r2).map fun (a, r) => ((key, Sel.scalar f n a), r)
        | kind :: rest =>
          if kind == "l" || kind == "c" then
            match pBool rest with
            | none => none
            | some (f, r1) =>
              match pStr r1 with
              | none => none
              | some (n, r2) =>
                match pArgs fuel r2 with
                | none => none
                | some (a, r3) =>
                  match pConc r3 with
                  | none => none
                  | some (c, r4) =>
                    (pMap fuel r4).map fun (m, r) =>
                      ((key, if kind == "l" then Sel.linked f n a c m else Sel.clientObj f n a c m), r)
          else if kind == "f" then
            match pStr rest with
            | none => none
            | some (t, r1) => (pMap fuel r1).map fun (m, r) => ((key, Sel.frag t m), r)
          else none
        | [] => none) ts

def pType : Nat → P TypeAnn
  | 0, _ => none
  | fuel + 1, ts =>
    match ts with
    | "s" :: rest => (pStr rest).map fun (s, r) => (.scalar s, r)
    | "p" :: rest => (pType fuel rest).map fun (t, r) => (.plural t, r)
    | "u" :: rest =>
      match pBool rest with
      | none => none
      | some (nullable, r1) => (pSeq (pType fuel) r1).map fun (vs, r) => (.union nullable vs, r)
    | _ => none

def pVarDef (fuel : Nat) : P VarDef := fun ts =>
  match pStr ts with
  | none => none
  | some (name, r1) =>
    match pType fuel r1 with
    | none => none
    | some (ty, r2) =>
      match r2 with
      | "n" :: rest => some (⟨name, ty, none⟩, rest)
      | "d" :: rest => (pValue fuel rest).map fun (v, r) => (⟨name, ty, some v⟩, r)
      | _ => none

def pVarDefs (fuel : Nat) : P (List VarDef) := pSeq (pVarDef fuel)

/-- a map or `=` (same as the query map) -/
def pMapOrSame (fuel : Nat) (same : SelMap) : P SelMap
  | "=" :: rest => some (same, rest)
  | ts => pMap fuel ts

def expect (tok : String) : P Unit
  | t :: rest => if t == tok then some ((), rest) else none
  | [] => none

end IsoVerif.Core
