/-
M-CORE / validation of selection sets (C16).  Imports only the abstract syntax.

Mirror of
  crates/isograph_schema/src/validate_selection_sets.rs   (`validate_selection_set`)
  crates/isograph_schema/src/validate_use_of_arguments.rs (`validate_use_of_arguments_for_client_type`,
      `validate_use_of_arguments_impl`, `validate_all_variables_are_used`, `visit_selection_set`)
  crates/isograph_schema/src/validate_argument_types.rs   (`value_satisfies_type`,
      `variable_type_satisfies_argument_type`, `object_satisfies_type`)
as aggregated by `validate_entire_schema` (validate.rs), on the structured projects of
`Syntax.lean`.  Diagnostics are reduced to their KIND (the classes of
harness/projgen/src/diag_kinds.rs).

Two things live here:
* `validate : Project → List Kind` — the executable transcription of the Rust validators (control flow
  included: a selection that does not resolve is not looked at any further, a variable only counts as used
  when the selection it occurs in is reached by `visit_selection_set`, …);
* `wellFormed : Rules → Project → Bool` — the declarative judgement, one Boolean rule per item of the
  property's list, parametrised by the three places where the implementation deviates from the
  intended rules (`Rules.intended` vs. `Rules.asImplemented`).

Subset: the other validators aggregated by `validate_entire_schema` (entrypoint declarations, `id` field
types, undefined types in the schema or in variable definitions, directive deserialisation, parse
errors) are NOT modelled; `hx_projgen` never generates a project violating them.
-/
import IsoVerif.Model.Core.Syntax

namespace IsoVerif.Core.Validate

open IsoVerif.Core

/-- diagnostic kinds (names = `diag_kinds::KIND_TABLE`) -/
inductive Kind where
  | undefinedField
  | objectSelectedAsScalar
  | scalarSelectedAsObject
  | clientPointerSelectedAsScalar
  | clientFieldSelectedAsObject
  | duplicateResponseName
  | loadableOnServerScalar
  | loadableOnExposedField
  | loadableOnLink
  | updatableOnClientField
  | updatableOnClientPointer
  | unusedVariable
  | missingArgument
  | undefinedArgument
  | undeclaredVariable
  | variableTypeMismatch
  | valueTypeMismatch
  | nullForNonNull
  | objectMissingFields
  | objectExtraFields
  | notDefined
  /-- `todo!("Support validation of enum literals")` -/
  | panicEnumLiteral
  deriving DecidableEq, Repr, Inhabited

def Kind.name : Kind → String
  | .undefinedField => "undefined-field"
  | .objectSelectedAsScalar => "object-selected-as-scalar"
  | .scalarSelectedAsObject => "scalar-selected-as-object"
  | .clientPointerSelectedAsScalar => "client-pointer-selected-as-scalar"
  | .clientFieldSelectedAsObject => "client-field-selected-as-object"
  | .duplicateResponseName => "duplicate-response-name"
  | .loadableOnServerScalar => "loadable-on-server-scalar"
  | .loadableOnExposedField => "loadable-on-exposed-field"
  | .loadableOnLink => "loadable-on-link"
  | .updatableOnClientField => "updatable-on-client-field"
  | .updatableOnClientPointer => "updatable-on-client-pointer"
  | .unusedVariable => "unused-variable"
  | .missingArgument => "missing-argument"
  | .undefinedArgument => "undefined-argument"
  | .undeclaredVariable => "undeclared-variable"
  | .variableTypeMismatch => "variable-type-mismatch"
  | .valueTypeMismatch => "value-type-mismatch"
  | .nullForNonNull => "null-for-non-null"
  | .objectMissingFields => "object-missing-fields"
  | .objectExtraFields => "object-extra-fields"
  | .notDefined => "not-defined"
  | .panicEnumLiteral => "panic"

/-! ### what can be selected where (mirror of harness/projgen/src/env.rs) -/

inductive SelKind where
  | serverScalar | serverObject | clientField | clientPointer | exposed | link | typename | refetch
  | asConcrete
  deriving DecidableEq, Repr, Inhabited

structure Selectable where
  kind : SelKind
  /-- accepted arguments: schema arguments of a server field, variable definitions of a client
  field / pointer; empty for everything else -/
  args : List VarDef
  /-- composite type a linked selection continues in -/
  target : Option String
  deriving Repr, Inhabited

def SelKind.isLinked : SelKind → Bool
  | .serverObject | .clientPointer | .asConcrete => true
  | _ => false

def argDefsOf (f : FieldDef) : List VarDef := f.args.map fun a => ⟨a.name, a.ty, a.default⟩

/-- follow `path` from the composite type `cur` (server fields and `as<Concrete>` steps) -/
def landing (s : Schema) : String → List String → Option String
  | cur, [] => if s.isComposite cur then some cur else none
  | cur, step :: rest =>
    match s.get? cur with
    | none => none
    | some t =>
      match t.field? step with
      | some f => landing s f.ty.inner rest
      | none =>
        if step.startsWith "as" && t.isAbstract && (s.concreteSubtypes cur).contains (step.drop 2).toString then
          landing s (step.drop 2).toString rest
        else none

/-- the composite type an `@exposeField` client field is attached to -/
def exposeLanding (s : Schema) (onType : String) (x : ExposeField) : Option String :=
  match x.path with
  | [] => none
  | first :: rest =>
    match s.get? onType with
    | none => none
    | some t =>
      match t.field? first with
      | none => none
      | some f => landing s f.ty.inner rest

def ExposeField.exposedName (x : ExposeField) : String :=
  match x.asName with
  | some n => n
  | none => x.path.head?.getD ""

def isExposedOn (p : Project) (ty name : String) : Bool :=
  p.extensions.any fun e => e.expose.any fun x =>
    ExposeField.exposedName x == name && exposeLanding p.schema e.onType x == some ty

def lookup (p : Project) (ty name : String) : Option Selectable :=
  match p.schema.get? ty with
  | none => none
  | some t =>
    if !t.isComposite then none else
    match t.field? name with
    | some f =>
      if p.schema.isComposite f.ty.inner then some ⟨.serverObject, argDefsOf f, some f.ty.inner⟩
      else some ⟨.serverScalar, argDefsOf f, none⟩
    | none =>
      if name == "__typename" then some ⟨.typename, [], none⟩
      else if name == "__link" then some ⟨.link, [], none⟩
      else if name == "__refetch" && (match t.kind with | .object .. => true | _ => false) && t.hasId then
        some ⟨.refetch, [], none⟩
      else if t.isAbstract && name.startsWith "as" && (p.schema.concreteSubtypes ty).contains (name.drop 2).toString then
        some ⟨.asConcrete, [], some (name.drop 2).toString⟩
      else if isExposedOn p ty name then some ⟨.exposed, [], none⟩
      else
        match p.decl? ty name with
        | some (.clientField f) => some ⟨.clientField, f.vars, none⟩
        | some (.clientPointer f) => some ⟨.clientPointer, f.vars, some f.to.inner⟩
        | _ => none

def isLoadable (h : SelHead) : Bool := h.hasDirective "loadable"
def isUpdatable (h : SelHead) : Bool := h.hasDirective "updatable"

/-! ### pass A: `validate_selection_set` -/

mutual
def selDiags (p : Project) (ty : String) : Selection → List Kind
  | .scalar h =>
    match lookup p ty h.name with
    | none => [.undefinedField]
    | some sel =>
      match sel.kind with
      | .serverObject | .asConcrete => [.objectSelectedAsScalar]
      | .clientPointer => [.clientPointerSelectedAsScalar]
      | .serverScalar | .typename => if isLoadable h then [.loadableOnServerScalar] else []
      | .clientField =>
        if isLoadable h then [] else if isUpdatable h then [.updatableOnClientField] else []
      | .exposed | .refetch =>
        if isLoadable h then [.loadableOnExposedField]
        else if isUpdatable h then [.updatableOnClientField] else []
      | .link =>
        if isLoadable h then [.loadableOnLink]
        else if isUpdatable h then [.updatableOnClientField] else []
  | .linked h kids =>
    match lookup p ty h.name with
    | none => [.undefinedField]
    | some sel =>
      match sel.kind with
      | .serverScalar | .typename => [.scalarSelectedAsObject]
      | .clientField | .exposed | .link | .refetch => [.clientFieldSelectedAsObject]
      | .serverObject | .asConcrete => selsDiags p (sel.target.getD "") [] kids
      | .clientPointer =>
        (if isUpdatable h then [.updatableOnClientPointer] else []) ++ selsDiags p (sel.target.getD "") [] kids
/-- `seen`: response names of the selections to the left -/
def selsDiags (p : Project) (ty : String) : List String → List Selection → List Kind
  | _, [] => []
  | seen, s :: rest =>
    (if seen.contains s.responseName then [.duplicateResponseName] else [])
      ++ selDiags p ty s ++ selsDiags p ty (s.responseName :: seen) rest
end

/-! ### argument types: `validate_argument_types.rs` -/

/-- the three places where the implementation deviates from the intended rules -/
structure Rules where
  /-- a required argument may be missing on a selection WITH a selection set
  (`can_have_missing_args = true` for every object selection; repaired by 8835cbc) -/
  linkedMayMissArgs : Bool
  /-- an argument called `id` is never reported as undefined (`validate_no_extraneous_arguments`) -/
  idArgExempt : Bool
  /-- a variable can be passed to an argument whose type contains a nullable list (`false`: before
  1645c28 `union_contains` compared the source location embedded in a `Plural` variant) -/
  nullableListVars : Bool
  deriving DecidableEq, Repr

def Rules.intended : Rules := ⟨false, false, true⟩
/-- the validators of /repo as they are now: after `fix:` 8835cbc (object selections may not miss required
arguments) and `fix:` 1645c28 (list annotations compared as types) one deviation is left -/
def Rules.asImplemented : Rules := ⟨false, true, true⟩
/-- the validators before those two repairs -/
def Rules.beforeFixes : Rules := ⟨true, true, false⟩

/-- `TypeAnnotationDeclaration::is_nullable` -/
def annNullable : TypeRef → Bool
  | .nonNull _ => false
  | _ => true

/-- `variable_type_satisfies_argument_type supplied target`, on GraphQL type references.
`T!` is `Scalar`, `T` is `Union{nullable, {Scalar T}}`, `[X]!` is `Plural`, `[X]` is
`Union{nullable, {Plural X}}`; a `Plural` union VARIANT carries the source location of the list
annotation; before 1645c28 it was compared with it, so that no variable ever satisfied a nullable
list (`nullableListVars = false`).  With `nullableListVars = true` (now) list annotations are compared
structurally. -/
def varSat (r : Rules) : TypeRef → TypeRef → Bool
  | s, .nonNull (.named t) => s == .nonNull (.named t)
  | s, .named t => s == .named t || s == .nonNull (.named t)
  | s, .list x =>
    r.nullableListVars && (s == .list x || s == .nonNull (.list x))
  | .nonNull (.list y), .nonNull (.list x) => varSat r y x
  | _, .nonNull (.list _) => false
  | _, .nonNull (.nonNull _) => false

/-- `scalar_literal_satisfies_type name target` -/
def litSat (name : String) : TypeRef → Bool
  | .nonNull (.named t) => t == name
  | .named t => t == name
  | _ => false

/-- fields of the input object type `n` -/
def inputFields (p : Project) (n : String) : Option (List ArgDef) :=
  match p.schema.get? n with
  | some ⟨_, _, .input fs⟩ => some fs
  | _ => none

/-- a field that `get_non_nullable_missing_and_provided_fields` reports when absent: its annotation is
`Scalar`, i.e. `T!` (defaults are not looked at; `[T]!` is not reported) -/
def requiredInputField (a : ArgDef) : Bool :=
  match a.ty with
  | .nonNull (.named _) => true
  | _ => false

mutual
/-- `value_satisfies_type`: `none` = ok, `some k` = the one diagnostic -/
def valueSat (r : Rules) (p : Project) (vars : List VarDef) : Value → TypeRef → Option Kind
  | .var v, t =>
    match vars.find? (·.name == v) with
    | none => some .undeclaredVariable
    | some d => if varSat r d.ty t then none else some .variableTypeMismatch
  | .int _, t => if litSat "Int" t || litSat "Float" t || litSat "ID" t then none else some .valueTypeMismatch
  | .bool _, t => if litSat "Boolean" t then none else some .valueTypeMismatch
  | .str _, t => if litSat "String" t || litSat "ID" t then none else some .valueTypeMismatch
  | .float _, t => if litSat "Float" t then none else some .valueTypeMismatch
  | .enum _, _ => some .panicEnumLiteral
  | .null, t => if annNullable t then none else some .nullForNonNull
  | .list items, t => listSat r p vars items t
  | .object fs, t =>
    match t with
    | .nonNull (.named n) => objectSat r p vars fs fs n
    | .named n => if (objectSat r p vars fs fs n).isNone then none else some .valueTypeMismatch
    | _ => some .valueTypeMismatch
/-- `list_satisfies_type` (every element against the SAME target type, as in the code) -/
def listSat (r : Rules) (p : Project) (vars : List VarDef) : List Value → TypeRef → Option Kind
  | [], _ => none
  | v :: rest, t =>
    match valueSat r p vars v t with
    | some k => some k
    | none => listSat r p vars rest t
/-- `object_satisfies_type`; `all` = the whole literal, the first argument walks it -/
def objectSat (r : Rules) (p : Project) (vars : List VarDef) :
    List (String × Value) → List (String × Value) → String → Option Kind
  | [], all, n =>
    match inputFields p n with
    | none => some .notDefined
    | some defs =>
      if all.any (fun kv => !defs.any (·.name == kv.1)) then some .objectExtraFields
      else if defs.any (fun d => requiredInputField d && !all.any (·.1 == d.name)) then some .objectMissingFields
      else none
  | (k, v) :: rest, all, n =>
    match inputFields p n with
    | none => some .notDefined
    | some defs =>
      if all.any (fun kv => !defs.any (·.name == kv.1)) then some .objectExtraFields
      else
        match defs.find? (·.name == k) with
        | none => objectSat r p vars rest all n
        | some d =>
          match valueSat r p vars v d.ty with
          | some e => some e
          | none => objectSat r p vars rest all n
end

/-! ### pass B: `validate_use_of_arguments` -/

def isRequiredArg (d : VarDef) : Bool := d.default.isNone && !annNullable d.ty

/-- `validate_use_of_arguments_impl` -/
def argImpl (r : Rules) (p : Project) (defs vars : List VarDef) (canMiss : Bool)
    (args : List (String × Value)) : List Kind :=
  (defs.flatMap fun d =>
      match args.find? (·.1 == d.name) with
      | some (_, v) => (valueSat r p vars v d.ty).toList
      | none => [])
    ++ (if args.any (fun a => !(r.idArgExempt && a.1 == "id") && !defs.any (·.name == a.1)) then [.undefinedArgument] else [])
    ++ (if !canMiss && defs.any (fun d => isRequiredArg d && !args.any (·.1 == d.name)) then [.missingArgument] else [])

/-- does the visitor of `validate_use_of_arguments_for_client_type` look at the arguments of this
selection (selectable found, shape right)? -/
def argsChecked (sel : Selectable) (linked : Bool) : Bool := sel.kind.isLinked == linked

mutual
/-- diagnostics of the visitor for one selection (and, through `visit_selection_set`, its kids) -/
def argSel (r : Rules) (p : Project) (vars : List VarDef) (ty : String) : Selection → List Kind
  | .scalar h =>
    match lookup p ty h.name with
    | none => []
    | some sel =>
      if sel.kind.isLinked then [] else argImpl r p sel.args vars (isLoadable h) h.args
  | .linked h kids =>
    match lookup p ty h.name with
    | none => []
    | some sel =>
      if sel.kind.isLinked then
        argImpl r p sel.args vars r.linkedMayMissArgs h.args ++ argSels r p vars (sel.target.getD "") kids
      else []
def argSels (r : Rules) (p : Project) (vars : List VarDef) (ty : String) : List Selection → List Kind
  | [] => []
  | s :: rest => argSel r p vars ty s ++ argSels r p vars ty rest
end

mutual
/-- variables that `extend_reachable_variables_with_args` collects -/
def usedSel (p : Project) (ty : String) : Selection → List String
  | .scalar h =>
    match lookup p ty h.name with
    | none => []
    | some sel => if sel.kind.isLinked then [] else Selection.argVariables h.args
  | .linked h kids =>
    match lookup p ty h.name with
    | none => []
    | some sel =>
      if sel.kind.isLinked then Selection.argVariables h.args ++ usedSels p (sel.target.getD "") kids else []
def usedSels (p : Project) (ty : String) : List Selection → List String
  | [] => []
  | s :: rest => usedSel p ty s ++ usedSels p ty rest
end

/-- `validate_all_variables_are_used` -/
def unusedDiags (vars : List VarDef) (used : List String) : List Kind :=
  if vars.any (fun v => !used.contains v.name) then [.unusedVariable] else []

/-- both passes for one declaration (`parent`, variable definitions, selection set) -/
def declDiags (r : Rules) (p : Project) (parent : String) (vars : List VarDef) (sels : List Selection) : List Kind :=
  argSels r p vars parent sels ++ unusedDiags vars (usedSels p parent sels) ++ selsDiags p parent [] sels

def validateWith (r : Rules) (p : Project) : List Kind :=
  p.decls.flatMap fun fd =>
    match fd.2 with
    | .clientField f => declDiags r p f.parent f.vars f.selections
    | .clientPointer f => declDiags r p f.parent f.vars f.selections
    | .entrypoint _ => []

/-- the validators as they are -/
def validate (p : Project) : List Kind := validateWith .asImplemented p

/-! ### the declarative judgement: one Boolean rule per item of the property -/

/-- everything a rule may look at: the project, the variable definitions of the declaration, the type
the selection is selected on -/
structure Ctx where
  p : Project
  vars : List VarDef
  ty : String

/-- (1) the field is defined -/
def ruleDefined (c : Ctx) (s : Selection) : Bool := (lookup c.p c.ty s.head.name).isSome

/-- (2) object fields have a selection set, scalar fields have none -/
def ruleShape (c : Ctx) (s : Selection) : Bool :=
  match lookup c.p c.ty s.head.name with
  | none => true
  | some sel => sel.kind.isLinked == s.kids?.isSome

/-- (3) every argument is defined -/
def ruleArgsDefined (r : Rules) (c : Ctx) (s : Selection) : Bool :=
  match lookup c.p c.ty s.head.name with
  | none => true
  | some sel => s.head.args.all fun a => (r.idArgExempt && a.1 == "id") || sel.args.any (·.name == a.1)

/-- (4) every required argument is given (`@loadable` selections excepted) -/
def ruleRequiredArgs (r : Rules) (c : Ctx) (s : Selection) : Bool :=
  match lookup c.p c.ty s.head.name with
  | none => true
  | some sel =>
    (match s with
      | .scalar h => isLoadable h
      | .linked _ _ => r.linkedMayMissArgs)
    || sel.args.all fun d => !isRequiredArg d || s.head.args.any (·.1 == d.name)

/-- (5) + (7): every given argument has a value of a compatible type, every variable in it is declared
(one Boolean: `value_satisfies_type` is one judgement) -/
def ruleArgTypes (r : Rules) (c : Ctx) (s : Selection) : Bool :=
  match lookup c.p c.ty s.head.name with
  | none => true
  | some sel =>
    sel.args.all fun d =>
      match s.head.args.find? (·.1 == d.name) with
      | some (_, v) => (valueSat r c.p c.vars v d.ty).isNone
      | none => true

/-- directive placement (`@loadable` / `@updatable`), checked by the same pass -/
def ruleDirectives (c : Ctx) (s : Selection) : Bool :=
  match lookup c.p c.ty s.head.name with
  | none => true
  | some sel =>
    match s with
    | .scalar h =>
      (match sel.kind with
        | .serverScalar | .typename => !isLoadable h
        | .clientField => isLoadable h || !isUpdatable h
        | .exposed | .refetch | .link => !isLoadable h && !isUpdatable h
        | _ => true)
    | .linked h _ =>
      (match sel.kind with
        | .clientPointer => !isUpdatable h
        | _ => true)

def rulesAt (r : Rules) (c : Ctx) (s : Selection) : Bool :=
  ruleDefined c s && ruleShape c s && ruleArgsDefined r c s && ruleRequiredArgs r c s && ruleArgTypes r c s
    && ruleDirectives c s

/-- (8) response names are unique within a selection set -/
def uniqueNames : List String → Bool
  | [] => true
  | n :: rest => !rest.contains n && uniqueNames rest

def namesOf : List Selection → List String
  | [] => []
  | s :: rest => s.responseName :: namesOf rest

/-- response names of a selection set are pairwise different -/
def uniqueNamesSels : List Selection → Bool
  | [] => true
  | s :: rest => !(namesOf rest).contains s.responseName && uniqueNamesSels rest

mutual
/-- all rules at a selection and below -/
def wfSel (r : Rules) (p : Project) (vars : List VarDef) (ty : String) : Selection → Bool
  | .scalar h => rulesAt r ⟨p, vars, ty⟩ (.scalar h)
  | .linked h kids =>
    rulesAt r ⟨p, vars, ty⟩ (.linked h kids)
      && (match lookup p ty h.name with
          | some sel => uniqueNamesSels kids && wfSels r p vars (sel.target.getD "") kids
          | none => true)
def wfSels (r : Rules) (p : Project) (vars : List VarDef) (ty : String) : List Selection → Bool
  | [] => true
  | s :: rest => wfSel r p vars ty s && wfSels r p vars ty rest
end

/-- (6) every declared variable is used (in the arguments of a selection the rules above accept) -/
def ruleVarsUsed (p : Project) (parent : String) (vars : List VarDef) (sels : List Selection) : Bool :=
  vars.all fun v => (usedSels p parent sels).contains v.name

def wfDecl (r : Rules) (p : Project) (parent : String) (vars : List VarDef) (sels : List Selection) : Bool :=
  uniqueNamesSels sels && wfSels r p vars parent sels && ruleVarsUsed p parent vars sels

/-- `WellFormed`, decidable -/
def wellFormed (r : Rules) (p : Project) : Bool :=
  p.decls.all fun fd =>
    match fd.2 with
    | .clientField f => wfDecl r p f.parent f.vars f.selections
    | .clientPointer f => wfDecl r p f.parent f.vars f.selections
    | .entrypoint _ => true

end IsoVerif.Core.Validate
