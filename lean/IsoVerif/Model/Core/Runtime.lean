/-
C10 — the runtime's `normalizeData` and `readData` (libs/isograph-react/src/core/cache.ts, read.ts)
as total functions over the artifact graph, JSON responses and a store.

* store:  (typename, id) ↦ record;  record: store key ↦ value.  A record exists once one of its
  fields has been written (`getOrInsertRecord` in the `set` trap of the record proxy).
* keys, transcribed from cache.ts: `getNetworkResponseKey` / `getArgumentValueChunk` (the key under
  which the SERVER's response holds a field), `getParentRecordKey` / `getStoreKeyChunkForArgument(Value)`
  (the key under which the STORE holds it; variables are substituted, objects are
  `JSON.stringify(stableCopy(·))`), `getDataIdOfNetworkResponse` (the id of a record).
* `normInto`: `normalizeDataIntoRecord` with `normalizeScalarField`, `normalizeLinkedField`,
  `normalizeInlineFragment`, `normalizeNetworkResponseObject`.
* `readNodes`: `readData` with `readScalarFieldData`, `readLinkedFieldData` (conditions of `asT`
  fields and client pointers included), `readResolverFieldData`, `readClientPointerData`,
  `readImperativelyLoadedField`, `readLoadablySelectedFieldData`; the result is the data tree or
  `missing reason` with read.ts's innermost reason text, or `throw` with the Error message.

Reading stops where the runtime stops: at a loadable field only its refetch reader AST is read, at an
imperatively loaded field only its refetch reader, at a client pointer the pointer's own reader, the
link its resolver returns and `id` of the target.  Functions the runtime hands back (they would start
a refetch) are `D.selected`: the refetch artifact the runtime picked (C25).

User code is outside the model: an eager resolver returns the data it was given, a `@component`
reader is read at once (that is what rendering does; its missing data is collected separately, as it
does not stop the parent's read), a client pointer's resolver returns the first link of the
pointer's target type found in its data, else null.  The harness runs the real functions with the
same stand-ins (js/ops_runtime.mjs).
-/
import IsoVerif.Model.Core.Refetch

namespace IsoVerif.Ops
open IsoVerif.Core

/-! ### JSON -/

inductive J where
  | null
  | bool (b : Bool)
  /-- the number as JavaScript prints it -/
  | num (text : Str)
  | str (s : Str)
  | arr (items : List J)
  | obj (fields : List (Str × J))
deriving Repr, Inhabited

def J.isNullish : J → Bool
  | .null => true
  | _ => false

def J.get? (j : J) (k : Str) : Option J :=
  match j with
  | .obj fs => (fs.find? (·.1 == k)).map (·.2)
  | _ => none

/-- `o n (hexkey val)*` | `a n val*` | `s hex` | `d text` | `t` | `f` | `z` -/
def pJ : Nat → P J
  | 0, _ => none
  | fuel + 1, ts =>
    match ts with
    | "z" :: r => some (.null, r)
    | "t" :: r => some (.bool true, r)
    | "f" :: r => some (.bool false, r)
    | "d" :: t :: r => some (.num (strOfString t), r)
    | "s" :: r => (pStr r).map fun (s, r') => (.str s, r')
    | "a" :: r => (pSeq (pJ fuel) r).map fun (xs, r') => (.arr xs, r')
    | "o" :: r =>
      (pSeq (fun ts =>
        match pStr ts with
        | none => none
        | some (k, ts1) => (pJ fuel ts1).map fun (v, r') => ((k, v), r')) r).map fun (xs, r') => (.obj xs, r')
    | _ => none

def parseJ (field : String) : Option J :=
  match pJ 200 ((field.splitOn " ").filter (· != "")) with
  | some (j, []) => some j
  | _ => none

/-- insertion sort of an association list by key (code-point order = UTF-16 order on the BMP) -/
def strLt : Str → Str → Bool
  | [], [] => false
  | [], _ :: _ => true
  | _ :: _, [] => false
  | a :: as, b :: bs => a < b || (a == b && strLt as bs)

def insertSorted {α : Type} (k : Str) (v : α) : List (Str × α) → List (Str × α)
  | [] => [(k, v)]
  | (k', v') :: rest => if strLt k k' then (k, v) :: (k', v') :: rest else (k', v') :: insertSorted k v rest

def sortByKey {α : Type} (l : List (Str × α)) : List (Str × α) := l.foldl (fun acc kv => insertSorted kv.1 kv.2 acc) []

def hex4 (n : Nat) : Str :=
  let d (k : Nat) : Nat := let x := (n / k) % 16; if x < 10 then 48 + x else 87 + x
  [d 4096, d 256, d 16, d 1]

/-- `JSON.stringify` of a string -/
def jsonQuote (s : Str) : Str :=
  [34] ++ s.flatMap (fun c =>
    if c == 34 then [92, 34]
    else if c == 92 then [92, 92]
    else if c == 8 then [92, 98]
    else if c == 12 then [92, 102]
    else if c == 10 then [92, 110]
    else if c == 13 then [92, 114]
    else if c == 9 then [92, 116]
    else if c < 32 then [92, 117] ++ hex4 c
    else [c]) ++ [34]

mutual
/-- `stableCopy`: object keys sorted, recursively -/
def stableCopy : J → J
  | .arr items => .arr (stableCopyList items)
  | .obj fields => .obj (sortByKey (stableCopyFields fields))
  | j => j
def stableCopyList : List J → List J
  | [] => []
  | v :: rest => stableCopy v :: stableCopyList rest
def stableCopyFields : List (Str × J) → List (Str × J)
  | [] => []
  | (k, v) :: rest => (k, stableCopy v) :: stableCopyFields rest
end

mutual
/-- `JSON.stringify` -/
def jsonText : J → Str
  | .null => cs!"null"
  | .bool b => showBool b
  | .num t => t
  | .str s => jsonQuote s
  | .arr items => [91] ++ joinStr [44] (jsonTextList items) ++ [93]
  | .obj fields => [123] ++ joinStr [44] (jsonTextFields fields) ++ [125]
def jsonTextList : List J → List Str
  | [] => []
  | v :: rest => jsonText v :: jsonTextList rest
def jsonTextFields : List (Str × J) → List Str
  | [] => []
  | (k, v) :: rest => (jsonQuote k ++ [58] ++ jsonText v) :: jsonTextFields rest
end

/-- `JSON.stringify(stableCopy(v))` -/
def stableJson (j : J) : Str := jsonText (stableCopy j)

/-! ### keys (cache.ts) -/

abbrev Vars := List (Str × J)

def isWordUnit (c : Nat) : Bool :=
  (48 ≤ c && c ≤ 57) || (65 ≤ c && c ≤ 90) || (97 ≤ c && c ≤ 122) || c == 95

/-- `value.replaceAll(/\W/g, '_')` over UTF-16 code units -/
def replaceNonWord (s : Str) : Str :=
  s.flatMap fun c => if isWordUnit c then [c] else if c < 0x10000 then [95] else [95, 95]

mutual
/-- `getArgumentValueChunk` -/
def responseChunk : AVal → Str
  | .obj fields => cs!"o_" ++ joinStr [95] (responseChunkFields fields) ++ cs!"_c"
  | .num t => cs!"l_" ++ t
  | .bool b => cs!"l_" ++ showBool b
  | .null => cs!"l_null"
  | .var n => cs!"v_" ++ n
  | .str s => cs!"s_" ++ replaceNonWord s
  | .enum e => cs!"e_" ++ e
def responseChunkFields : List (Str × AVal) → List Str
  | [] => []
  | (k, v) :: rest => (k ++ cs!"__" ++ responseChunk v) :: responseChunkFields rest
end

/-- `getNetworkResponseKey` -/
def networkKey (name : Str) (args : AArgs) : Str :=
  name ++ args.flatMap fun (k, v) => cs!"____" ++ k ++ cs!"___" ++ responseChunk v

mutual
/-- `getStoreKeyChunkForArgumentValue`: the VariableValue of an argument -/
def argVariableValue (vars : Vars) : AVal → J
  | .obj fields => .obj (argVariableFields vars fields)
  | .num t => .num t
  | .bool b => .bool b
  | .null => .null
  | .var n =>
    match vars.find? (·.1 == n) with
    | some (_, v) => if v.isNullish then .str cs!"null" else v
    | none => .str cs!"null"
  | .str s => .str s
  | .enum e => .str e
def argVariableFields (vars : Vars) : List (Str × AVal) → List (Str × J)
  | [] => []
  | (k, v) :: rest => (k, argVariableValue vars v) :: argVariableFields vars rest
end

/-- the `${chunk}` of `getStoreKeyChunkForArgument`: objects (arrays and null included, `typeof` says
`object`) go through `JSON.stringify(stableCopy(·))`, the rest through `String(·)` -/
def chunkText : J → Str
  | .str s => s
  | .num t => t
  | .bool b => showBool b
  | j => stableJson j

/-- `getParentRecordKey` -/
def storeKey (name : Str) (args : AArgs) (vars : Vars) : Str :=
  name ++ args.flatMap fun (k, v) => cs!"____" ++ k ++ cs!"___" ++ chunkText (argVariableValue vars v)

/-! ### store -/

abbrev Link := Str × Str            -- (typename, id)

inductive SV where
  | scalar (j : J)                  -- whatever the response held (null included)
  | link (l : Link)
  | links (ls : List (Option Link))
deriving Repr, Inhabited

abbrev Record := List (Str × SV)
abbrev Store := List (Link × Record)

def Store.get? (s : Store) (l : Link) : Option Record := (s.find? (·.1 == l)).map (·.2)

def Record.set (r : Record) (k : Str) (v : SV) : Record :=
  if r.any (·.1 == k) then r.map fun e => if e.1 == k then (k, v) else e else r ++ [(k, v)]

def Store.set (s : Store) (l : Link) (k : Str) (v : SV) : Store :=
  if s.any (·.1 == l) then s.map fun e => if e.1 == l then (l, Record.set e.2 k v) else e
  else s ++ [(l, [(k, v)])]

def queryTypeName : Str := cs!"Query"
def rootId : Str := cs!"__ROOT"

/-- `String(x)` of a JSON value used as an object key (`id`) -/
def keyText : J → Str
  | .str s => s
  | .num t => t
  | .bool b => showBool b
  | j => stableJson j

/-- `getDataIdOfNetworkResponse` (the typename is already known) -/
def dataIdOf (parent : Link) (typename : Str) (obj : J) (name : Str) (args : AArgs) (vars : Vars)
    (index : Option Nat) : Str :=
  if typename == queryTypeName then rootId
  else
    match obj.get? cs!"id" with
    | some v => if v.isNullish then synthetic else keyText v
    | none => synthetic
where
  synthetic : Str :=
    parent.1 ++ [58] ++ parent.2 ++ [46] ++ name ++
      (match index with | some i => [46] ++ showNat i | none => []) ++
      args.flatMap fun (k, v) => cs!"____" ++ k ++ cs!"___" ++ chunkText (argVariableValue vars v)

inductive NormOut where
  | ok (s : Store)
  | throw (msg : Str)
deriving Inhabited

def missingTypenameLinked : Str :=
  cs!"Unexpected missing __typename in network response when normalizing a linked field. This is indicative of a bug in Isograph."

/-- `astNode.concreteType ?? networkResponseData[TYPENAME_FIELD_NAME]` -/
def typenameOf (concrete : Option Str) (obj : J) : Option Str :=
  match concrete with
  | some c => some c
  | none =>
    match obj.get? cs!"__typename" with
    | some (.str t) => some t
    | _ => none

mutual
/-- `normalizeDataIntoRecord`: the nodes in order, each mutating the store -/
def normInto : Nat → List NNode → J → Link → Vars → Store → NormOut
  | 0, _, _, _, _, _ => .throw cs!"fuel"
  | _, [], _, _, _, s => .ok s
  | fuel + 1, node :: rest, resp, rec, vars, s =>
    match normNode fuel node resp rec vars s with
    | .ok s' => normInto fuel rest resp rec vars s'
    | t => t
def normNode : Nat → NNode → J → Link → Vars → Store → NormOut
  | 0, _, _, _, _, _ => .throw cs!"fuel"
  | fuel + 1, node, resp, rec, vars, s =>
    match node with
    | .scalar _ name args =>
      let data := (resp.get? (networkKey name args)).getD .null
      .ok (s.set rec (storeKey name args vars) (.scalar data))
    | .frag ty sel =>
      (match resp.get? cs!"__typename" with
       | some (.str t) => if t == ty then normInto fuel sel resp rec vars s else .ok s
       | _ => .ok s)
    | .linked _ name args concrete sel =>
      let key := storeKey name args vars
      match (resp.get? (networkKey name args)).getD .null with
      | .null => .ok (s.set rec key (.scalar .null))
      | .arr items =>
        (match normItems fuel items 0 name args concrete sel rec vars s [] with
         | (.ok s', links) => .ok (s'.set rec key (.links links))
         | (t, _) => t)
      | obj =>
        (match typenameOf concrete obj with
         | none => .throw missingTypenameLinked
         | some tn =>
           let id := dataIdOf rec tn obj name args vars none
           match normInto fuel sel obj (tn, id) vars s with
           | .ok s' => .ok (s'.set rec key (.link (tn, id)))
           | t => t)
/-- the items of a plural linked field -/
def normItems : Nat → List J → Nat → Str → AArgs → Option Str → List NNode → Link → Vars → Store →
    List (Option Link) → NormOut × List (Option Link)
  | 0, _, _, _, _, _, _, _, _, _, acc => (.throw cs!"fuel", acc)
  | _, [], _, _, _, _, _, _, _, s, acc => (.ok s, acc.reverse)
  | fuel + 1, item :: rest, i, name, args, concrete, sel, rec, vars, s, acc =>
    match item with
    | .null => normItems fuel rest (i + 1) name args concrete sel rec vars s (none :: acc)
    | obj =>
      match typenameOf concrete obj with
      | none => (.throw missingTypenameLinked, acc)
      | some tn =>
        let id := dataIdOf rec tn obj name args vars (some i)
        match normInto fuel sel obj (tn, id) vars s with
        | .ok s' => normItems fuel rest (i + 1) name args concrete sel rec vars s' (some (tn, id) :: acc)
        | t => (t, acc)
end

def normalizeFuel : Nat := 100000

/-- `normalizeData` of a whole response into an empty store -/
def normalize (norm : List NNode) (resp : J) (root : Link) (vars : Vars) : NormOut :=
  normInto normalizeFuel norm resp root vars []

/-! ### read -/

/-- the data a reader produces -/
inductive D where
  | null
  | scalar (j : J)
  | link (l : Link)
  | obj (fields : List (Str × D))
  | list (items : List D)
  | selected (s : Selected)
  | component (d : D)
deriving Inhabited

inductive Res where
  | ok (d : D)
  /-- read.ts's innermost reason; `tag` (not part of the runtime's answer) says which read it was -/
  | missing (reason : Str) (tag : Str := [])
  | throw (msg : Str)
deriving Inhabited

/-- reads made for `@component` readers that found data missing (innermost reasons) -/
abbrev CM := List Str

/-- `generateChildVariableMap` -/
def argJ (vars : Vars) : AVal → Option J
  | .var n =>
    match vars.find? (·.1 == n) with
    | some (_, v) => if v.isNullish then none else some v
    | none => none
  | .num t => some (.num t)
  | .bool b => some (.bool b)
  | .null => some .null
  | .str s => some (.str s)
  | .enum e => some (.str e)
  | .obj _ => none      -- handled by `childVars`

mutual
def childVars (vars : Vars) : AArgs → Vars
  | [] => []
  | (k, .obj fs) :: rest => setVar (childVars vars rest) k (.obj (childVars vars fs))
  | (k, v) :: rest =>
    match argJ vars v with
    | some j => setVar (childVars vars rest) k j
    | none => childVars vars rest
/-- an object's keys keep their first position; here the order is irrelevant (lookups only, and
`stableCopy` sorts) -/
def setVar (vs : Vars) (k : Str) (j : J) : Vars := (k, j) :: vs.filter (·.1 != k)
end

mutual
/-- the first link of one of `types` in a data tree, in reading order -/
def firstLink (types : List Str) : D → Option Link
  | .link l => if types.contains l.1 then some l else none
  | .obj fields => firstLinkFields types fields
  | .list items => firstLinkList types items
  | _ => none
def firstLinkFields (types : List Str) : List (Str × D) → Option Link
  | [] => none
  | (_, d) :: rest => (firstLink types d).orElse fun _ => firstLinkFields types rest
def firstLinkList (types : List Str) : List D → Option Link
  | [] => none
  | d :: rest => (firstLink types d).orElse fun _ => firstLinkList types rest
end

def setField (fields : List (Str × D)) (k : Str) (d : D) : List (Str × D) :=
  if fields.any (·.1 == k) then fields.map fun e => if e.1 == k then (k, d) else e else fields ++ [(k, d)]

structure Ctx where
  g : Graph
  store : Store
  /-- reader artifact path of a client pointer ↦ the concrete types of its target -/
  pointers : List (Str × List Str)

def idScalarAst : List RNode := [.scalar cs!"id" none []]

def resolverNull : Str := cs!"resolverRefetchQuery is null in Resolver. This is indicative of a bug in Isograph."
def pointerNull : Str := cs!"refetchQuery is null in RefetchField. This is indicative of a bug in Isograph."
def imperativeNull : Str := cs!"Refetch query not found. This is indicative of a bug in Isograph."

mutual
/-- `readData` -/
def readNodes (c : Ctx) : Nat → List RNode → Link → Vars → List Selected → List (Str × D) → CM → Res × CM
  | 0, _, _, _, _, _, cm => (.throw cs!"fuel", cm)
  | fuel + 1, ast, root, vars, nested, _, cm =>
    match c.store.get? root with
    | none => (.missing (cs!"No record for root " ++ root.2), cm)
    | some rec => readFields c fuel ast root rec vars nested [] cm
/-- the loop over the fields of one reader AST -/
def readFields (c : Ctx) : Nat → List RNode → Link → Record → Vars → List Selected → List (Str × D) → CM →
    Res × CM
  | 0, _, _, _, _, _, _, cm => (.throw cs!"fuel", cm)
  | _, [], _, _, _, _, target, cm => (.ok (.obj target), cm)
  | fuel + 1, node :: rest, root, rec, vars, nested, target, cm =>
    match readField c fuel node root rec vars nested cm with
    | (.ok d, cm') =>
      let key : Str := match node with
        | .scalar name alias _ => alias.getD name
        | .link alias => alias
        | .linked name alias .. => alias.getD name
        | .resolver alias .. => alias
        | .imperative alias .. => alias
        | .loadable alias .. => alias
      readFields c fuel rest root rec vars nested (setField target key d) cm'
    | other => other
def readField (c : Ctx) : Nat → RNode → Link → Record → Vars → List Selected → CM → Res × CM
  | 0, _, _, _, _, _, cm => (.throw cs!"fuel", cm)
  | fuel + 1, node, root, rec, vars, nested, cm =>
    match node with
    | .scalar name _ args =>
      let key := storeKey name args vars
      (match rec.find? (·.1 == key) with
       | none => (.missing (cs!"No value for " ++ key ++ cs!" on root " ++ root.2), cm)
       | some (_, .scalar j) => (.ok (.scalar j), cm)
       | some (_, .link l) => (.ok (.link l), cm)
       | some (_, .links ls) => (.ok (.list (ls.map fun o => match o with | some l => D.link l | none => D.null)), cm))
    | .link _ => (.ok (.link root), cm)
    | .linked name _ args cond idx sel =>
      let key := storeKey name args vars
      let stored : Option SV := (rec.find? (·.1 == key)).map (·.2)
      -- a condition replaces the stored value by the link its resolver returns
      let viaCondition : Option (Res × CM) × Option SV :=
        match cond with
        | none => (none, stored)
        | some condRel =>
          match c.g.reader? condRel with
          | none => (some (.throw cs!"condition artifact missing", cm), stored)
          | some r =>
            match readNodes c fuel r.ast root vars nested [] cm with
            | (.ok d, cm') =>
              let link : Option Link :=
                match r.conditionType with
                | some ty =>
                  -- `data.__typename === "T" ? data.__link : null`
                  (match d with
                   | .obj fields =>
                     (match fields.find? (·.1 == cs!"__typename"), fields.find? (·.1 == cs!"__link") with
                      | some (_, .scalar (.str t)), some (_, .link l) => if t == ty then some l else none
                      | _, _ => none)
                   | _ => none)
                | none => firstLink (((c.pointers.find? (·.1 == condRel)).map (·.2)).getD []) d
              (some (.ok .null, cm'), some (match link with | some l => SV.link l | none => SV.scalar .null))
            | (.missing why tag, cm') => (some (.missing why tag, cm'), stored)
            | (t, cm') => (some (t, cm'), stored)
      let cm1 : CM := match viaCondition.1 with | some (_, cm') => cm' | none => cm
      (match viaCondition.1 with
       | some (.missing why tag, cm') => (.missing why tag, cm')
       | some (.throw m, cm') => (.throw m, cm')
       | _ =>
         match viaCondition.2 with
         | some (.links ls) => readLinkItems c fuel ls idx sel root key vars nested [] cm1
         | some (.link l) => readLinked c fuel l idx sel vars nested cm1
         | some (.scalar .null) => (.ok .null, cm1)
         | some (.scalar (.arr _)) => (.throw cs!"Invalid link", cm1)
         | some (.scalar _) => (.throw cs!"Invalid link", cm1)
         | none =>
           (.missing (cs!"No link for " ++ key ++ cs!" on root " ++ root.2 ++ cs!". Link is undefined"), cm1))
    | .resolver _ args reader used =>
      if used.any (fun i => (nested[i]?).isNone || nested[i]? == some Selected.missing) then (.throw resolverNull, cm)
      else
        match c.g.reader? reader with
        | none => (.throw cs!"reader artifact missing", cm)
        | some r =>
          let childNested := used.map (atIdx nested)
          let cv := childVars vars args
          if r.kind == cs!"ComponentReaderArtifact" then
            -- rendered at once; its missing data does not stop the parent
            (match readNodes c fuel r.ast root cv childNested [] cm with
             | (.ok d, cm') => (.ok (.component d), cm')
             | (.missing why _, cm') => (.ok (.component .null), cm' ++ [why])
             | (t, cm') => (t, cm'))
          else
            (match readNodes c fuel r.ast root cv childNested [] cm with
             | (.ok d, cm') => (.ok d, cm')
             | other => other)
    | .imperative _ _ refetchReader idx =>
      (match c.g.reader? refetchReader with
       | none => (.throw cs!"refetch reader artifact missing", cm)
       | some r =>
         match readNodes c fuel r.ast root vars [] [] cm with
         | (.ok _, cm') =>
           (match atIdx nested idx with
            | .missing => (.throw imperativeNull, cm')
            | s => (.ok (.selected s), cm'))
         | other => other)
    | .loadable _ _ _ refetchAst _ entry =>
      (match readNodes c fuel refetchAst root vars [] [] cm with
       | (.ok _, cm') => (.ok (.selected (.entrypoint entry)), cm')
       | other => other)
/-- one link of a linked field: a client pointer reads `id` of the target and picks its refetch
query; an ordinary linked field reads its selections at the target -/
def readLinked (c : Ctx) : Nat → Link → Option Nat → List RNode → Vars → List Selected → CM → Res × CM
  | 0, _, _, _, _, _, cm => (.throw cs!"fuel", cm)
  | fuel + 1, l, idx, sel, vars, nested, cm =>
    match idx with
    | some i =>
      (match readNodes c fuel idScalarAst l vars nested [] cm with
       | (.ok _, cm') =>
         (match atIdx nested i with
          | .missing => (.throw pointerNull, cm')
          | s => (.ok (.selected s), cm'))
       | (.missing why _, cm') => (.missing why cs!"pointer-target-id", cm')
       | other => other)
    | none => readNodes c fuel sel l vars nested [] cm
def readLinkItems (c : Ctx) : Nat → List (Option Link) → Option Nat → List RNode → Link → Str → Vars →
    List Selected → List D → CM → Res × CM
  | 0, _, _, _, _, _, _, _, _, cm => (.throw cs!"fuel", cm)
  | _, [], _, _, _, _, _, _, acc, cm => (.ok (.list acc.reverse), cm)
  | fuel + 1, item :: rest, idx, sel, root, key, vars, nested, acc, cm =>
    match item with
    | none => readLinkItems c fuel rest idx sel root key vars nested (D.null :: acc) cm
    | some l =>
      match readLinked c fuel l idx sel vars nested cm with
      | (.ok d, cm') => readLinkItems c fuel rest idx sel root key vars nested (d :: acc) cm'
      | other => other
end

def readFuel : Nat := 100000

/-- read an entrypoint: its reader artifact at the root record -/
def readEntry (c : Ctx) (e : Entry) (vars : Vars) (root : Link) : Res × CM :=
  match c.g.reader? e.reader with
  | none => (.throw cs!"reader artifact missing", [])
  | some r =>
    let nested := e.nested.map fun q => Selected.artifact q.1
    readNodes c readFuel r.ast root vars nested [] []

/-! ### canonical dumps (the formats of js/ops_runtime.mjs) -/

mutual
def dumpJRaw : J → String
  | .null => "n"
  | .str s => "s" ++ strHex s
  | .num t => "d" ++ stringOfStr t
  | .bool b => if b then "b1" else "b0"
  | .arr items => "[" ++ ",".intercalate (dumpJList items) ++ "]"
  | .obj fields => "{" ++ ";".intercalate (dumpJFields fields) ++ "}"
def dumpJList : List J → List String
  | [] => []
  | v :: rest => dumpJRaw v :: dumpJList rest
def dumpJFields : List (Str × J) → List String
  | [] => []
  | (k, v) :: rest => (strHex k ++ "=" ++ dumpJRaw v) :: dumpJFields rest
end

def dumpJ (j : J) : String := dumpJRaw (stableCopy j)

def dumpLink (l : Link) : String := "l" ++ strHex l.1 ++ ":" ++ strHex l.2

def dumpSV : SV → String
  | .scalar j => dumpJ j
  | .link l => dumpLink l
  | .links ls => "[" ++ ",".intercalate (ls.map fun o => match o with | some l => dumpLink l | none => "n") ++ "]"

def linkLt (a b : Link) : Bool := strLt a.1 b.1 || (a.1 == b.1 && strLt a.2 b.2)

def insertRec (e : Link × Record) : List (Link × Record) → List (Link × Record)
  | [] => [e]
  | x :: rest => if linkLt e.1 x.1 then e :: x :: rest else x :: insertRec e rest

def dumpStore (s : Store) : String :=
  let sorted := s.foldl (fun acc e => insertRec e acc) []
  " ".intercalate (sorted.map fun (l, rec) =>
    strHex l.1 ++ "/" ++ strHex l.2 ++ "{" ++
      ";".intercalate ((sortByKey rec).map fun (k, v) => strHex k ++ "=" ++ dumpSV v) ++ "}")

mutual
/-- the refetch artifacts the runtime picked, with the path of response names to each -/
def collectSelected (trail : Str) : D → List (Str × Selected)
  | .selected s => [(trail, s)]
  | .component d => collectSelected trail d
  | .obj fields => collectSelectedFields trail fields
  | .list items => collectSelectedList trail 0 items
  | _ => []
def collectSelectedFields (trail : Str) : List (Str × D) → List (Str × Selected)
  | [] => []
  | (k, d) :: rest => collectSelected (trail ++ [47] ++ k) d ++ collectSelectedFields trail rest
def collectSelectedList (trail : Str) (i : Nat) : List D → List (Str × Selected)
  | [] => []
  | d :: rest => collectSelected (trail ++ [35] ++ showNat i) d ++ collectSelectedList trail (i + 1) rest
end

end IsoVerif.Ops
