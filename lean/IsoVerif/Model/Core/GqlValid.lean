/-
M-GQL / validation of executable documents (June 2018, §5) against a schema.

`validate schema doc : List VErr` — the validation rules that apply to the operations the compiler
generates (one operation per document, inline fragments, no fragment definitions), written from the
specification text:

  §5.1.1 executable definitions        §5.2.3 single root field of a subscription
  §5.3.1 field selections exist        §5.3.2 FieldsInSetCanMerge (SameResponseShape included)
  §5.3.3 leaf field selections         §5.4.1 argument names   §5.4.2 argument uniqueness
  §5.4.2.1 required arguments          §5.5.1.2/3 fragment type exists / is composite
  §5.5.2.3 fragment spread is possible §5.6.1 values of correct type
  §5.6.2–4 input object fields         §5.7 directives (only `skip` / `include` are known)
  §5.8.1 variable uniqueness           §5.8.2 variables are input types
  §5.8.3 all variable uses defined     §5.8.4 all variables used
  §5.8.5 all variable usages allowed

The schema is read from the type-system document (`schemaOfDefs`), i.e. from the SDL file the
compiler itself read.  `Valid schema doc := validate schema doc = []`.

Everything is total and kernel-reducible (no `String`), so witnesses are closed `decide` facts.
Recursion over selections is structural on `Sel`/`SelList`; the pairwise merge check uses fuel
(depth of the document).
-/
import IsoVerif.Model.GqlParse
import IsoVerif.Model.Core.Merged

namespace IsoVerif.GqlValid
open IsoVerif.Gql

/-! ### schema -/

structure VArg where
  name : Str
  ty : Ty
  default : Option Value
deriving Inhabited

structure VField where
  name : Str
  args : List VArg
  ty : Ty
deriving Inhabited

inductive VKind where
  | object (impl : List Str) (fields : List VField)
  | interface (fields : List VField)
  | union (members : List Str)
  | scalar
  | enum (values : List Str)
  | input (fields : List VArg)
deriving Inhabited

structure VType where
  name : Str
  kind : VKind
deriving Inhabited

structure VSchema where
  types : List VType
  queryRoot : Str := cs!"Query"
  mutationRoot : Str := cs!"Mutation"
  subscriptionRoot : Str := cs!"Subscription"
deriving Inhabited

def builtinScalars : List Str := [cs!"Int", cs!"Float", cs!"String", cs!"Boolean", cs!"ID"]

def VSchema.get? (s : VSchema) (n : Str) : Option VKind :=
  match s.types.find? (·.name == n) with
  | some t => some t.kind
  | none => if builtinScalars.contains n then some .scalar else none

def Ty.inner : Ty → Str
  | .named n => n
  | .list t => Ty.inner t
  | .nonNull t => Ty.inner t

def Ty.isNonNull : Ty → Bool
  | .nonNull _ => true
  | _ => false

def Ty.nullable : Ty → Ty
  | .nonNull t => t
  | t => t

def VSchema.isLeaf (s : VSchema) (n : Str) : Bool :=
  match s.get? n with
  | some .scalar | some (.enum _) => true
  | _ => false

def VSchema.isComposite (s : VSchema) (n : Str) : Bool :=
  match s.get? n with
  | some (.object ..) | some (.interface _) | some (.union _) => true
  | _ => false

def VSchema.isObject (s : VSchema) (n : Str) : Bool :=
  match s.get? n with
  | some (.object ..) => true
  | _ => false

def VSchema.isInputType (s : VSchema) (n : Str) : Bool :=
  match s.get? n with
  | some .scalar | some (.enum _) | some (.input _) => true
  | _ => false

/-- GetPossibleTypes -/
def VSchema.possibleTypes (s : VSchema) (n : Str) : List Str :=
  match s.get? n with
  | some (.object ..) => [n]
  | some (.union ms) => ms
  | some (.interface _) =>
    (s.types.filter fun t => match t.kind with
      | .object impl _ => impl.contains n
      | _ => false).map (·.name)
  | _ => []

def typenameField : VField := ⟨cs!"__typename", [], .nonNull (.named cs!"String")⟩

/-- the definition of field `name` on composite type `parent` (`__typename` exists on every
composite type; unions have no other field) -/
def VSchema.field? (s : VSchema) (parent name : Str) : Option VField :=
  if name == cs!"__typename" then (if s.isComposite parent then some typenameField else none)
  else
    match s.get? parent with
    | some (.object _ fs) | some (.interface fs) => fs.find? (·.name == name)
    | _ => none

/-! ### schema from the type-system document -/

def argOfInputVal (v : InputVal) : VArg := ⟨v.name, v.ty, v.default⟩
def fieldOfDef (f : FieldDef) : VField := ⟨f.name, f.args.map argOfInputVal, f.ty⟩

def addFieldsTo (types : List VType) (name : Str) (impl : List Str) (fs : List VField) : List VType :=
  types.map fun t =>
    if t.name == name then
      match t.kind with
      | .object i old => { t with kind := .object (i ++ impl) (old ++ fs) }
      | .interface old => { t with kind := .interface (old ++ fs) }
      | _ => t
    else t

def schemaStep (s : VSchema) : TsDef → VSchema
  | .schema _ _ ops | .extSchema _ ops =>
    ops.foldl (fun s (k, n) =>
      match k with
      | .query => { s with queryRoot := n }
      | .mutation => { s with mutationRoot := n }
      | .subscription => { s with subscriptionRoot := n }) s
  | .scalar _ n _ => { s with types := s.types ++ [⟨n, .scalar⟩] }
  | .object _ n impl _ fs => { s with types := s.types ++ [⟨n, .object impl (fs.map fieldOfDef)⟩] }
  | .interface _ n _ _ fs => { s with types := s.types ++ [⟨n, .interface (fs.map fieldOfDef)⟩] }
  | .union _ n _ ms => { s with types := s.types ++ [⟨n, .union ms⟩] }
  | .enum _ n _ vs => { s with types := s.types ++ [⟨n, .enum (vs.map (·.name))⟩] }
  | .input _ n _ fs => { s with types := s.types ++ [⟨n, .input (fs.map argOfInputVal)⟩] }
  | .extObject n impl _ fs | .extInterface n impl _ fs =>
    { s with types := addFieldsTo s.types n impl (fs.map fieldOfDef) }
  | .extUnion n _ ms =>
    { s with types := s.types.map fun t =>
        if t.name == n then (match t.kind with | .union old => { t with kind := .union (old ++ ms) } | _ => t) else t }
  | .extEnum n _ vs =>
    { s with types := s.types.map fun t =>
        if t.name == n then (match t.kind with | .enum old => { t with kind := .enum (old ++ vs.map (·.name)) } | _ => t) else t }
  | .extInput n _ fs =>
    { s with types := s.types.map fun t =>
        if t.name == n then (match t.kind with | .input old => { t with kind := .input (old ++ fs.map argOfInputVal) } | _ => t) else t }
  | .directive .. | .extScalar .. => s

def schemaOfDefs (ds : List TsDef) : VSchema := ds.foldl schemaStep { types := [] }

/-! ### errors -/

inductive VErr where
  | notExecutable
  | noRootType (kind : OpType)
  | subscriptionRootFields
  | unknownField (parent name : Str)
  | leafWithSelection (name : Str)
  | compositeWithoutSelection (name : Str)
  | unknownArgument (field arg : Str)
  | duplicateArgument (field arg : Str)
  | missingArgument (field arg : Str) (hasSelection : Bool)
  | undefinedFragment (name : Str)
  | unknownFragmentType (ty : Str)
  | fragmentOnNonComposite (ty : Str)
  | impossibleFragment (parent ty : Str)
  | badValue (expected : Ty)
  | nullForNonNull (expected : Ty)
  | unknownInputField (ty field : Str)
  | duplicateInputField (ty field : Str)
  | missingInputField (ty field : Str)
  | notInputType (ty : Str)
  | unknownDirective (name : Str)
  | duplicateVariable (name : Str)
  | variableNotInputType (name : Str)
  | undefinedVariable (name : Str) (insideObject : Bool)
  | unusedVariable (name : Str)
  | variableTypeMismatch (name : Str) (varTy locTy : Ty)
  | cannotMerge (responseName : Str) (nameA nameB : Str) (sameName : Bool)
  | differentShape (responseName : Str)
  | fuel
deriving Inhabited

/-! ### values -/

mutual
def Value.beq : Value → Value → Bool
  | .var a, .var b => a == b
  | .int a, .int b => a == b
  | .float a, .float b => a == b
  | .str a, .str b => a == b
  | .bool a, .bool b => a == b
  | .null, .null => true
  | .enum a, .enum b => a == b
  | .list a, .list b => ValueList.beq a b
  | .obj a, .obj b => FieldList.beq a b
  | _, _ => false
def ValueList.beq : ValueList → ValueList → Bool
  | .nil, .nil => true
  | .cons a as, .cons b bs => Value.beq a b && ValueList.beq as bs
  | _, _ => false
def FieldList.beq : FieldList → FieldList → Bool
  | .nil, .nil => true
  | .cons n a as, .cons m b bs => n == m && Value.beq a b && FieldList.beq as bs
  | _, _ => false
end

def FieldList.toList : FieldList → List (Str × Value)
  | .nil => []
  | .cons n v r => (n, v) :: FieldList.toList r

def FieldList.names : FieldList → List Str
  | .nil => []
  | .cons n _ r => n :: FieldList.names r

def FieldList.find? : FieldList → Str → Option Value
  | .nil, _ => none
  | .cons n v r, k => if n == k then some v else FieldList.find? r k

/-- arguments are identical as unordered sets of (name, value) -/
def sameArguments (a b : FieldList) : Bool :=
  let la := FieldList.toList a
  let lb := FieldList.toList b
  la.length == lb.length &&
  la.all fun (n, v) => match FieldList.find? b n with | some w => Value.beq v w | none => false

/-- the first name that occurs twice -/
def firstDuplicate : List Str → Option Str
  | [] => none
  | n :: rest => if rest.contains n then some n else firstDuplicate rest

/-- AreTypesCompatible(variableType, locationType) -/
def typesCompatible : Ty → Ty → Bool
  | .nonNull v, .nonNull l => typesCompatible v l
  | _, .nonNull _ => false
  | .nonNull v, l => typesCompatible v l
  | .list v, .list l => typesCompatible v l
  | _, .list _ => false
  | .list _, _ => false
  | .named v, .named l => v == l

/-- IsVariableUsageAllowed (§5.8.5) -/
def variableUsageAllowed (varTy : Ty) (varDefault : Option Value) (locTy : Ty) (locHasDefault : Bool) : Bool :=
  match locTy, varTy with
  | .nonNull l, .nonNull _ => typesCompatible varTy (.nonNull l)
  | .nonNull l, _ =>
    let hasNonNullDefault := match varDefault with
      | some .null => false
      | some _ => true
      | none => false
    if !hasNonNullDefault && !locHasDefault then false else typesCompatible varTy l
  | _, _ => typesCompatible varTy locTy

def int32 (i : Int) : Bool := decide (-2147483648 ≤ i) && decide (i ≤ 2147483647)

mutual
/-- §5.6.1: `v` is a legal value at a location of type `loc` (`inObj`: inside an input object,
only used to classify errors) -/
def vValue (s : VSchema) (vars : List VarDef) (loc : Ty) (locHasDefault : Bool) (inObj : Bool) :
    Value → List VErr
  | .var n =>
    match vars.find? (·.name == n) with
    | none => [.undefinedVariable n inObj]
    | some d =>
      if variableUsageAllowed d.ty d.default loc locHasDefault then [] else [.variableTypeMismatch n d.ty loc]
  | .null => if Ty.isNonNull loc then [.nullForNonNull loc] else []
  | .list items =>
    match Ty.nullable loc with
    | .list t => vValueList s vars t inObj items
    | .named n =>
      -- a custom scalar accepts any literal
      (match s.get? n with
       | some .scalar => if builtinScalars.contains n then [.badValue loc] else vValueList s vars (.named n) inObj items
       | _ => [.badValue loc])
    | .nonNull _ => [.badValue loc]
  | .obj fields =>
    -- input coercion: a non-list value at a list location is a list of one item, so only the
    -- innermost named type matters
    let n := Ty.inner loc
    match s.get? n with
    | some (.input defs) =>
      (match firstDuplicate (FieldList.names fields) with
       | some d => [.duplicateInputField n d]
       | none => []) ++
      vObjFields s vars n defs fields ++
      (defs.filterMap fun d =>
        if Ty.isNonNull d.ty && d.default.isNone && (FieldList.find? fields d.name).isNone
        then some (.missingInputField n d.name) else none)
    | some .scalar => if builtinScalars.contains n then [.badValue loc] else vObjAny s vars inObj fields
    | some _ => [.badValue loc]
    | none => [.notInputType n]
  | .int i =>
    let n := Ty.inner loc
    match s.get? n with
    | some .scalar =>
      if n == cs!"Int" then (if int32 i then [] else [.badValue loc])
      else if n == cs!"Float" || n == cs!"ID" then []
      else if builtinScalars.contains n then [.badValue loc] else []
    | some (.enum _) | some (.input _) => [.badValue loc]
    | _ => [.notInputType n]
  | .float _ =>
    let n := Ty.inner loc
    match s.get? n with
    | some .scalar => if n == cs!"Float" then [] else if builtinScalars.contains n then [.badValue loc] else []
    | some (.enum _) | some (.input _) => [.badValue loc]
    | _ => [.notInputType n]
  | .str _ =>
    let n := Ty.inner loc
    match s.get? n with
    | some .scalar =>
      if n == cs!"String" || n == cs!"ID" then [] else if builtinScalars.contains n then [.badValue loc] else []
    | some (.enum _) | some (.input _) => [.badValue loc]
    | _ => [.notInputType n]
  | .bool _ =>
    let n := Ty.inner loc
    match s.get? n with
    | some .scalar => if n == cs!"Boolean" then [] else if builtinScalars.contains n then [.badValue loc] else []
    | some (.enum _) | some (.input _) => [.badValue loc]
    | _ => [.notInputType n]
  | .enum e =>
    let n := Ty.inner loc
    match s.get? n with
    | some (.enum values) => if values.contains e then [] else [.badValue loc]
    | some .scalar => if builtinScalars.contains n then [.badValue loc] else []
    | some (.input _) => [.badValue loc]
    | _ => [.notInputType n]
def vValueList (s : VSchema) (vars : List VarDef) (item : Ty) (inObj : Bool) : ValueList → List VErr
  | .nil => []
  | .cons v rest => vValue s vars item false inObj v ++ vValueList s vars item inObj rest
/-- the fields of an input object literal against the definitions of input type `ty` -/
def vObjFields (s : VSchema) (vars : List VarDef) (ty : Str) (defs : List VArg) : FieldList → List VErr
  | .nil => []
  | .cons n v rest =>
    (match defs.find? (·.name == n) with
     | none => [.unknownInputField ty n]
     | some d => vValue s vars d.ty d.default.isSome true v) ++ vObjFields s vars ty defs rest
/-- an object literal given to a custom scalar: only its variables are checked -/
def vObjAny (s : VSchema) (vars : List VarDef) (inObj : Bool) : FieldList → List VErr
  | .nil => []
  | .cons _ v rest =>
    (match v with
     | .var n => if (vars.find? (·.name == n)).isSome then [] else [.undefinedVariable n true]
     | _ => []) ++ vObjAny s vars inObj rest
end

/-- §5.4: the arguments `given` to something defined with `defs` (`owner`: field or directive name) -/
def vArgsGiven (s : VSchema) (vars : List VarDef) (owner : Str) (defs : List VArg) : FieldList → List VErr
  | .nil => []
  | .cons n v rest =>
    (match defs.find? (·.name == n) with
     | none => [.unknownArgument owner n]
     | some d => vValue s vars d.ty d.default.isSome false v) ++ vArgsGiven s vars owner defs rest

def vArgs (s : VSchema) (vars : List VarDef) (owner : Str) (hasSelection : Bool) (defs : List VArg)
    (given : FieldList) : List VErr :=
  (match firstDuplicate (FieldList.names given) with
   | some d => [.duplicateArgument owner d]
   | none => []) ++
  vArgsGiven s vars owner defs given ++
  (defs.filterMap fun d =>
    if Ty.isNonNull d.ty && d.default.isNone && (FieldList.find? given d.name).isNone
    then some (.missingArgument owner d.name hasSelection) else none)

/-- §5.7: only `@skip(if: Boolean!)` and `@include(if: Boolean!)` exist in executable documents -/
def vDirs (s : VSchema) (vars : List VarDef) : List Dir → List VErr
  | [] => []
  | d :: rest =>
    (if d.name == cs!"skip" || d.name == cs!"include" then
      vArgs s vars d.name false [⟨cs!"if", .nonNull (.named cs!"Boolean"), none⟩] d.args
     else [.unknownDirective d.name]) ++ vDirs s vars rest

def SelList.isNil : SelList → Bool
  | .nil => true
  | _ => false

def disjoint (a b : List Str) : Bool := a.all fun x => !b.contains x

mutual
/-- §5.3.1, §5.3.3, §5.4, §5.5, §5.6 for one selection whose parent type is `parent` -/
def vSel (s : VSchema) (vars : List VarDef) (parent : Str) : Sel → List VErr
  | .field _ name args dirs sub =>
    match s.field? parent name with
    | none => [.unknownField parent name]
    | some fd =>
      vArgs s vars name (!SelList.isNil sub) fd.args args ++ vDirs s vars dirs ++
      (let inner := Ty.inner fd.ty
       if s.isLeaf inner then (if SelList.isNil sub then [] else [.leafWithSelection name])
       else if s.isComposite inner then
         (if SelList.isNil sub then [.compositeWithoutSelection name] else vSelList s vars inner sub)
       else [.unknownField parent name])
  | .spread n _ => [.undefinedFragment n]
  | .inline tc dirs sub =>
    let t := tc.getD parent
    if (s.get? t).isNone then [.unknownFragmentType t]
    else if !s.isComposite t then [.fragmentOnNonComposite t]
    else
      -- §5.5.2.3; a fragment on the parent type itself always applies (an interface without
      -- implementing types has no possible type at all)
      (if t != parent && disjoint (s.possibleTypes parent) (s.possibleTypes t) then [.impossibleFragment parent t] else []) ++
      vDirs s vars dirs ++ vSelList s vars t sub
def vSelList (s : VSchema) (vars : List VarDef) (parent : Str) : SelList → List VErr
  | .nil => []
  | .cons x rest => vSel s vars parent x ++ vSelList s vars parent rest
end

/-! ### variables used -/

mutual
def Value.vars : Value → List Str
  | .var n => [n]
  | .list vs => ValueList.vars vs
  | .obj fs => FieldList.vars fs
  | _ => []
def ValueList.vars : ValueList → List Str
  | .nil => []
  | .cons v r => Value.vars v ++ ValueList.vars r
def FieldList.vars : FieldList → List Str
  | .nil => []
  | .cons _ v r => Value.vars v ++ FieldList.vars r
end

def dirsVars : List Dir → List Str
  | [] => []
  | d :: r => FieldList.vars d.args ++ dirsVars r

mutual
def Sel.vars : Sel → List Str
  | .field _ _ args dirs sub => FieldList.vars args ++ dirsVars dirs ++ SelList.vars sub
  | .spread _ dirs => dirsVars dirs
  | .inline _ dirs sub => dirsVars dirs ++ SelList.vars sub
def SelList.vars : SelList → List Str
  | .nil => []
  | .cons x r => Sel.vars x ++ SelList.vars r
end

/-! ### §5.3.2 field selection merging -/

/-- one field of a collected set: response name, the type it was selected on, name, arguments,
its type and its sub-selections -/
structure CField where
  response : Str
  parent : Str
  name : Str
  args : FieldList
  ty : Option Ty
  sub : SelList
deriving Inhabited

mutual
/-- CollectFields without evaluation: the fields of a selection set, inline fragments flattened -/
def collectSel (s : VSchema) (parent : Str) : Sel → List CField
  | .field alias name args _ sub =>
    [⟨alias.getD name, parent, name, args, (s.field? parent name).map (·.ty), sub⟩]
  | .spread _ _ => []
  | .inline tc _ sub => collectList s (tc.getD parent) sub
def collectList (s : VSchema) (parent : Str) : SelList → List CField
  | .nil => []
  | .cons x r => collectSel s parent x ++ collectList s parent r
end

/-- all pairs (i < j) of a list -/
def pairs {α : Type} : List α → List (α × α)
  | [] => []
  | a :: rest => rest.map (fun b => (a, b)) ++ pairs rest

/-- the sub-selections of two fields, each with the type it is selected on -/
def mergedSub (s : VSchema) (a b : CField) : List CField :=
  (match a.ty with | some t => collectList s (Ty.inner t) a.sub | none => []) ++
  (match b.ty with | some t => collectList s (Ty.inner t) b.sub | none => [])

/-- SameResponseShape on the types alone: wrappers agree; leaf types are the same type -/
def sameShapeTypes (s : VSchema) : Ty → Ty → Bool
  | .nonNull a, .nonNull b => sameShapeTypes s a b
  | .nonNull _, _ => false
  | _, .nonNull _ => false
  | .list a, .list b => sameShapeTypes s a b
  | .list _, _ => false
  | _, .list _ => false
  | .named a, .named b =>
    if s.isLeaf a || s.isLeaf b then a == b else s.isComposite a && s.isComposite b

/-- SameResponseShape for every pair with one response name in `fields`, recursively -/
def sameShapeSet (s : VSchema) : Nat → List CField → List VErr
  | 0, _ => [.fuel]
  | fuel + 1, fields =>
    (pairs fields).flatMap fun (a, b) =>
      if a.response != b.response then [] else
      match a.ty, b.ty with
      | some ta, some tb =>
        if !sameShapeTypes s ta tb then [.differentShape a.response]
        else sameShapeSet s fuel (mergedSub s a b)
      | _, _ => []

/-- FieldsInSetCanMerge for a collected set -/
def canMergeSet (s : VSchema) : Nat → List CField → List VErr
  | 0, _ => [.fuel]
  | fuel + 1, fields =>
    (pairs fields).flatMap fun (a, b) =>
      if a.response != b.response then [] else
      (match a.ty, b.ty with
       | some ta, some tb =>
         if !sameShapeTypes s ta tb then [.differentShape a.response]
         else sameShapeSet s fuel (mergedSub s a b)
       | _, _ => []) ++
      (if a.parent == b.parent || !s.isObject a.parent || !s.isObject b.parent then
        if a.name != b.name then [.cannotMerge a.response a.name b.name false]
        else if !sameArguments a.args b.args then [.cannotMerge a.response a.name b.name true]
        else canMergeSet s fuel (mergedSub s a b)
       else [])

mutual
def Sel.depth : Sel → Nat
  | .field _ _ _ _ sub => 1 + SelList.depth sub
  | .spread _ _ => 1
  | .inline _ _ sub => 1 + SelList.depth sub
def SelList.depth : SelList → Nat
  | .nil => 0
  | .cons x r => max (Sel.depth x) (SelList.depth r)
end

mutual
/-- FieldsInSetCanMerge for every selection set strictly below this selection (the set the
selection itself belongs to is checked by the caller; an inline fragment's selections are part of
the enclosing set) -/
def mergeAll (s : VSchema) (fuel : Nat) (parent : Str) : Sel → List VErr
  | .field _ name _ _ sub =>
    match s.field? parent name with
    | some fd =>
      if SelList.isNil sub then []
      else canMergeSet s fuel (collectList s (Ty.inner fd.ty) sub) ++ mergeAllList s fuel (Ty.inner fd.ty) sub
    | none => []
  | .spread _ _ => []
  | .inline tc _ sub => mergeAllList s fuel (tc.getD parent) sub
def mergeAllList (s : VSchema) (fuel : Nat) (parent : Str) : SelList → List VErr
  | .nil => []
  | .cons x r => mergeAll s fuel parent x ++ mergeAllList s fuel parent r
end

/-! ### operations -/

def rootOf (s : VSchema) : OpType → Str
  | .query => s.queryRoot
  | .mutation => s.mutationRoot
  | .subscription => s.subscriptionRoot

def vVarDefs (s : VSchema) (vars : List VarDef) : List VErr :=
  (match firstDuplicate (vars.map (·.name)) with
   | some d => [.duplicateVariable d]
   | none => []) ++
  vars.flatMap fun d =>
    (if s.isInputType (Ty.inner d.ty) then [] else [.variableNotInputType d.name]) ++
    (match d.default with
     | some v => vValue s [] d.ty false false v
     | none => []) ++ vDirs s [] d.dirs

def validateOp (s : VSchema) : ExecDef → List VErr
  | .frag .. => [.notExecutable]
  | .op kind _ vars dirs sel =>
    let root := rootOf s kind
    if !s.isObject root then [.noRootType kind] else
    let used := SelList.vars sel ++ dirsVars dirs
    let fuel := SelList.depth sel + 2
    vVarDefs s vars ++ vDirs s vars dirs ++ vSelList s vars root sel ++
    (vars.filterMap fun d => if used.contains d.name then none else some (.unusedVariable d.name)) ++
    (match kind with
     | .subscription => if (collectList s root sel).length == 1 then [] else [.subscriptionRootFields]
     | _ => []) ++
    canMergeSet s fuel (collectList s root sel) ++ mergeAllList s fuel root sel

/-- the document must consist of exactly one operation (what the artifacts hold) -/
def validate (s : VSchema) : List ExecDef → List VErr
  | [d] => validateOp s d
  | _ => [.notExecutable]

def Valid (s : VSchema) (doc : List ExecDef) : Bool := (validate s doc).isEmpty

/-! ### parsing (the reference lexer and parser of the gql family) -/

/-- lenient switches for reading a schema file: the post-2018 syntax that real schemas use -/
def sdlQuirks : Quirks :=
  { descOnSchema := true, interfaceImplements := true, repeatable := true, varDefLocation := true,
    emptyObjectExtension := true, emptyExtension := true, descOnExtension := true, enumReserved := true }

def parseSchema (sdl : Str) : Option VSchema :=
  match tsDocOf false sdlQuirks sdl with
  | .ok ds => some (schemaOfDefs ds)
  | _ => none

/-- `parseExec` of the specification: lexical grammar + ExecutableDefinition+ -/
def parseDoc (text : Str) : Option (List ExecDef) :=
  match specLex text with
  | none => none
  | some ts =>
    match pExecDefs Quirks.spec (fuelFor ts) ts with
    | some [] => none
    | r => r

end IsoVerif.GqlValid
