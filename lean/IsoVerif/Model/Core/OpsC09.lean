/-
C09 oracle: the string value the runtime reads from a query-text artifact parses as a GraphQL
executable document and passes validation against the project's schema; with the classifier that
turns a failure into a narrow signature (DESIGN §4).
-/
import IsoVerif.Model.Core.GqlValid
import IsoVerif.Model.Core.OpsJs
import IsoVerif.Model.Core.Oracles

namespace IsoVerif.Ops
open IsoVerif.Core IsoVerif.GqlValid

def tyText : Gql.Ty → String
  | .named n => stringOfStr n
  | .list t => "[" ++ tyText t ++ "]"
  | .nonNull t => tyText t ++ "!"

/-- narrow signature of a validation error -/
def errSignature (s : VSchema) : VErr → String
  | .notExecutable => "not-one-operation"
  | .noRootType _ => "no-root-type"
  | .subscriptionRootFields => "subscription-root-fields"
  | .unknownField .. => "unknown-field"
  | .leafWithSelection _ => "leaf-with-selection"
  | .compositeWithoutSelection _ => "composite-without-selection"
  | .unknownArgument .. => "unknown-argument"
  | .duplicateArgument .. => "duplicate-argument"
  | .missingArgument _ _ hasSel =>
    if hasSel then "missing-required-argument:linked-field" else "missing-required-argument:scalar-field"
  | .undefinedFragment _ => "undefined-fragment"
  | .unknownFragmentType _ => "unknown-fragment-type"
  | .fragmentOnNonComposite _ => "fragment-on-non-composite"
  | .impossibleFragment .. => "impossible-fragment"
  | .badValue _ => "bad-value"
  | .nullForNonNull _ => "null-for-non-null"
  | .unknownInputField .. => "unknown-input-field"
  | .duplicateInputField .. => "duplicate-input-field"
  | .missingInputField .. => "missing-input-field"
  | .notInputType _ => "not-input-type"
  | .unknownDirective _ => "unknown-directive"
  | .duplicateVariable _ => "duplicate-variable"
  | .variableNotInputType _ => "variable-not-input-type"
  | .undefinedVariable _ inObj => if inObj then "undeclared-variable:in-object-argument" else "undeclared-variable:plain"
  | .unusedVariable _ => "unused-variable"
  | .variableTypeMismatch name varTy locTy =>
    -- the refetch machinery's own `$id: ID!` shadows a user variable that is also called `id`
    if name == cs!"id" && (match varTy with | .nonNull (.named n) => n == cs!"ID" | _ => false) && Ty.inner locTy != cs!"ID" then "variable-type-mismatch:user-variable-named-id" else
    if (match varTy, locTy with
        | .list v, .nonNull (.list l) => typesCompatible v l
        | _, _ => false) then "variable-type-mismatch:non-null-list-printed-nullable" else
    match s.get? (Ty.inner locTy), s.get? (Ty.inner varTy) with
    | some (.input _), some (.input _) => "variable-type-mismatch:other"
    | some (.input _), _ => "variable-type-mismatch:object-argument-replaced-by-variable"
    | _, _ => "variable-type-mismatch:other"
  | .cannotMerge _ _ _ sameName => if sameName then "cannot-merge:different-arguments" else "cannot-merge:different-fields"
  | .differentShape _ => "cannot-merge:different-shape"
  | .fuel => "fuel"

/-- why the module is not JavaScript: looks at the text the compiler put between the quotes -/
def classifyJsFailure (file : Str) : String :=
  match embeddedRaw file with
  | none => "js-string:not-a-default-export"
  | some raw =>
    let rec hasBadBackslash : Str → Bool
      | [] => false
      | 92 :: 10 :: rest => hasBadBackslash rest
      | 92 :: _ => true
      | _ :: rest => hasBadBackslash rest
    if raw.contains 39 then "js-string:apostrophe"
    else if hasBadBackslash raw then "js-string:backslash"
    else if raw.any (fun c => c == 13) then "js-string:carriage-return"
    else "js-string:other"

/-- the C12 classifier of the printers family on the compiler-shaped reading of the text
(illegal response keys, colliding response keys) -/
def keyProblem (text : Str) : Option String :=
  match parseOperation text with
  | some op => keysOracle 64 op.selections
  | none => none

/-- `{` followed by nothing but spaces / commas and `}` -/
def hasEmptyBraces : Str → Bool
  | [] => false
  | 123 :: rest =>
    (match rest.dropWhile (fun c => c == 32 || c == 10 || c == 44) with
     | 125 :: _ => true
     | _ => false) || hasEmptyBraces rest
  | _ :: rest => hasEmptyBraces rest

/-- verdict for one operation text (the value node obtained) -/
def c09Text (schema : VSchema) (text : Str) : String :=
  match parseDoc text with
  | none =>
    match keyProblem text with
    | some k => "bad:" ++ k
    | none => if hasEmptyBraces text then "bad:parse:empty-selection-set" else "bad:parse:other"
  | some doc =>
    match validate schema doc with
    | [] => "ok"
    | e :: _ =>
      match e with
      | .cannotMerge .. =>
        (match keyProblem text with
         | some k => "bad:" ++ k
         | none => "bad:" ++ errSignature schema e)
      | _ => "bad:" ++ errSignature schema e

/-- `c09` line: fields of the implementation's answer = [hex file content, `v:<hex>` | `e:<why>`] -/
def c09Line (schema : Option VSchema) (impl : List String) : String :=
  match impl with
  | [contentH, valueF] =>
    match hexStr contentH with
    | none => "bad-hex\tbad:machinery"
    | some file =>
      let modelValue : String :=
        match jsValue file with
        | some v => "v:" ++ strHex v
        | none => "e:syntax-error"
      let verdict : String :=
        match schema with
        | none => "bad:machinery:no-schema"
        | some sch =>
          if valueF.startsWith "v:" then
            match hexStr (valueF.drop 2).toString with
            | some text => c09Text sch text
            | none => "bad:machinery:value-hex"
          else if valueF == "e:syntax-error" then "bad:" ++ classifyJsFailure file
          else "bad:js-module:" ++ valueF
      contentH ++ " " ++ modelValue ++ "\t" ++ verdict
  | ["missing"] => "missing\tbad:artifact-missing"
  | _ => "?\tbad:machinery:fields"

end IsoVerif.Ops
