/-
Driver-side glue of the `printers` family: decoding of the dump lines (`E`, `R`, `P`), the model's
answer for each request, and the decidable oracles of C11 / C12 / C26 / C27 evaluated on the
implementation's answer.  Nothing here is part of a theorem statement except the oracle
definitions the `Props/` files quote.
-/
import IsoVerif.Model.Core.Parse
import IsoVerif.Model.Util

namespace IsoVerif.Core

/-! ### decoding of the dump lines -/

structure OpLine where
  kind : String                 -- "E" or "R"
  parentType : Str
  fieldName : Str
  index : Nat                   -- refetch index (R)
  ext : Str
  concreteType : Str            -- E: concrete type of the entrypoint; R: root entity
  lazyNormalization : Bool
  lazyReader : Bool
  component : Bool
  header : Option Str
  opKind : Str
  qName : Str
  qVars : List VarDef
  qMap : SelMap
  nMap : SelMap
  oName : Str
  oVars : List VarDef
  oRoot : Str
  persist : Option PersistOpts
  oMap : SelMap
  refs : List (List Str × List Str)
  rParent : Str
  rMap : SelMap
  schema : Schema
deriving Inhabited

def pHeader : P (Option Str)
  | "h0" :: rest => some (none, rest)
  | "h1" :: rest => (pStr rest).map fun (s, r) => (some s, r)
  | _ => none

def pPersist : P (Option PersistOpts)
  | "p0" :: rest => some (none, rest)
  | "p1" :: algo :: rest => (pBool rest).map fun (b, r) => (some ⟨strOfString algo, b⟩, r)
  | _ => none

def pRefs : P (List (List Str × List Str)) :=
  pSeq fun ts =>
    match pSeq pStr ts with
    | none => none
    | some (a, r1) => (pSeq pStr r1).map fun (b, r) => ((a, b), r)

def pSchema (fuel : Nat) : P Schema :=
  pSeq fun ts =>
    match pStr ts with
    | none => none
    | some (e, r1) =>
      match pStr r1 with
      | none => none
      | some (f, r2) =>
        match r2 with
        | k :: r3 =>
          match pType fuel r3 with
          | none => none
          | some (t, r4) => (pStr r4).map fun (it, r) => (⟨e, f, k == "s", k == "c", t, it⟩, r)
        | [] => none

/-- sequencing helper: run `p`, continue with `k` -/
@[inline] def andThen {α β : Type} (p : P α) (k : α → P β) : P β := fun ts =>
  match p ts with
  | none => none
  | some (a, rest) => k a rest

def pOpLine (ts : List String) : Option OpLine :=
  let fuel := ts.length + 1
  match ts with
  | "E" :: rest =>
    (andThen pStr fun parentType => andThen pStr fun fieldName => andThen pStr fun ext =>
     andThen pStr fun concreteType => andThen pBool fun lazyN => andThen pBool fun lazyR =>
     andThen pBool fun component => andThen pHeader fun header =>
     andThen (expect "K") fun _ => andThen pStr fun opKind =>
     andThen (expect "Q") fun _ => andThen pStr fun qName => andThen (pVarDefs fuel) fun qVars =>
     andThen (pMap fuel) fun qMap =>
     andThen (expect "N") fun _ => andThen (pMapOrSame fuel qMap) fun nMap =>
     andThen (expect "O") fun _ => andThen pStr fun oName => andThen (pVarDefs fuel) fun oVars =>
     andThen pStr fun oRoot => andThen pPersist fun persist => andThen (pMapOrSame fuel qMap) fun oMap =>
     andThen (expect "F") fun _ => andThen pRefs fun refs =>
     andThen (expect "R") fun _ => andThen pStr fun rParent => andThen (pMapOrSame fuel qMap) fun rMap =>
     andThen (expect "S") fun _ => andThen (pSchema fuel) fun schema => fun r =>
       some ({ kind := "E", parentType, fieldName, index := 0, ext, concreteType,
               lazyNormalization := lazyN, lazyReader := lazyR, component, header, opKind,
               qName, qVars, qMap, nMap, oName, oVars, oRoot, persist, oMap, refs, rParent, rMap,
               schema : OpLine }, r)) rest |>.map (·.1)
  | "R" :: rest =>
    (andThen pStr fun parentType => andThen pStr fun fieldName => andThen pNat fun index =>
     andThen pStr fun ext => andThen pStr fun rootEntity => andThen pHeader fun header =>
     andThen (expect "K") fun _ => andThen pStr fun opKind =>
     andThen (expect "Q") fun _ => andThen pStr fun qName => andThen (pVarDefs fuel) fun qVars =>
     andThen (pMap fuel) fun qMap =>
     andThen (expect "N") fun _ => andThen (pMapOrSame fuel qMap) fun nMap =>
     andThen (expect "O") fun _ => andThen pStr fun oName => andThen (pVarDefs fuel) fun oVars =>
     andThen pStr fun oRoot => andThen pPersist fun persist => andThen (pMapOrSame fuel qMap) fun oMap =>
     andThen (expect "S") fun _ => andThen (pSchema fuel) fun schema => fun r =>
       some ({ kind := "R", parentType, fieldName, index, ext, concreteType := rootEntity,
               lazyNormalization := false, lazyReader := false, component := false, header, opKind,
               qName, qVars, qMap, nMap, oName, oVars, oRoot, persist, oMap, refs := [],
               rParent := rootEntity, rMap := [], schema : OpLine }, r)) rest |>.map (·.1)
  | _ => none

def pParamLine (ts : List String) : Option (ParamMeta × Option Str) :=
  let fuel := ts.length + 1
  match ts with
  | "P" :: rest =>
    (andThen pStr fun parentType => andThen pStr fun fieldName => andThen pStr fun ext =>
     andThen pBool fun hasVariables => andThen (pPSels fuel) fun sels =>
     andThen (pSeq pPair) fun imports => andThen (pSeq pPair) fun loadable =>
     andThen pBool fun _updatable => andThen pHeader fun header => fun r =>
       some (({ parentType, fieldName, ext, hasVariables, sels, observedImports := imports,
                observedLoadable := loadable : ParamMeta }, header), r)) rest |>.map (·.1)
  | _ => none

/-! ### the model's answer -/

def optHex : Option Str → String
  | some s => strHex s
  | none => "panic"

/-- hash taken from the digest pair of the request: `H text = digest` for the one text the
harness hashed (the document recorded under the artifact's operation id) -/
def tableHash (table : List (Str × Str)) (text : Str) : Str :=
  match table.find? (fun e => e.1 == text) with
  | some e => e.2
  | none => cs!"nodigest"

def pDigestPair : P (Str × Str) := pPair

/-- operation text of one op line (and the id / document it registers) -/
def opOperationText (H : Str → Str) (l : OpLine) : Option (Str × Option Str × Docs) :=
  match l.persist with
  | none => some (generateOperationText H none [] [] l.oName l.oRoot 1)
  | some o =>
    (printQuery .compact l.opKind l.oName l.oVars l.oMap).map fun compact =>
      generateOperationText H (some o) [] compact l.oName l.oRoot 1

def opFiles (H : Str → Str) (l : OpLine) : List String :=
  let qt := (printQuery .pretty l.opKind l.qName l.qVars l.qMap).map fun t => withHeader l.header (queryTextFile t)
  let na := printNormAst 1 l.nMap
  let opText := (opOperationText H l).map (·.1)
  if l.kind == "E" then
    let naFile := na.map fun t => withHeader l.header (normalizationAstFile t)
    let rr := match printRawResponseType l.schema l.rParent l.rMap with
      | .ok t => some (withHeader l.header (rawResponseTypeFile l.parentType l.fieldName t))
      | _ => none
    let em : EntryMeta :=
      ⟨l.parentType, l.fieldName, l.ext, l.concreteType, l.lazyNormalization, l.lazyReader, l.component, l.refs⟩
    let ep := opText.map fun t => withHeader l.header (entrypointFile em t)
    [optHex qt, optHex naFile, optHex rr, optHex ep]
  else
    let rf := match opText, na with
      | some t, some n => some (withHeader l.header (refetchFile l.index l.ext l.concreteType t n))
      | _, _ => none
    [optHex qt, optHex rf]

/-! ### C11: the normalization AST has the selection tree of the operation text -/

mutual
def QNode.toTree : QNode → Tree
  | .field _ name args none => .field name args none
  | .field _ name args (some kids) => .field name args (some (QNode.toTrees kids))
  | .frag ty kids => .frag ty (QNode.toTrees kids)
def QNode.toTrees : List QNode → List Tree
  | [] => []
  | q :: rest => q.toTree :: QNode.toTrees rest
end

def isTypenameOnly : List Tree → Bool
  | [.field name [] none] => name == cs!"__typename"
  | _ => false

mutual
/-- first difference between two selection trees (`none` = equal) -/
def treeDiff : Tree → Tree → Option String
  | .field n1 a1 k1, .field n2 a2 k2 =>
    if n1 != n2 then some "field-name"
    else if !(argsBeq a1 a2) then some "arguments"
    else match k1, k2 with
      | none, none => none
      | some x, some y => treesDiff x y
      | _, _ => some "selection-set-presence"
  | .frag t1 k1, .frag t2 k2 => if t1 != t2 then some "fragment-type" else treesDiff k1 k2
  | .frag .., .field .. => some "inline-fragment-only-in-operation-text"
  | .field .., .frag .. => some "inline-fragment-only-in-normalization-ast"
/-- operation tree first, normalization tree second -/
def treesDiff : List Tree → List Tree → Option String
  | [], [] => none
  | x :: xs, y :: ys =>
    match treeDiff x y with
    | some d => some d
    | none => treesDiff xs ys
  | q, [] => if isTypenameOnly q then some "empty-selection" else some "missing-in-normalization-ast"
  | [], _ => some "extra-in-normalization-ast"
end

/-- the concrete type of every linked node is the field's target exactly when that is concrete;
`none` = fine, otherwise the class of the first offending node -/
def concreteDiff (schema : Schema) : Nat → Str → List NTree → Option String
  | 0, _, _ => none
  | _, _, [] => none
  | fuel + 1, parent, t :: rest =>
    let here : Option String :=
      match t with
      | .scalar .. => none
      | .linked _ name _ conc kids =>
        match schema.lookup parent name with
        | none => none          -- not in the table: nothing to check against
        | some e =>
          match e.ty.inner with
          | none => none
          | some target =>
            let self : Option String :=
              if e.isScalar then none
              else if e.targetConcrete then
                (match conc with
                 | .concrete c => if c == target then none else some "wrong-concrete-type"
                 | .abstract => some "concrete-field-without-concrete-type")
              else (match conc with
                 | .abstract => none
                 | .concrete _ => some "abstract-field-with-concrete-type")
            self.orElse fun _ => concreteDiff schema fuel target kids
      | .frag ty kids => concreteDiff schema fuel ty kids
    here.orElse fun _ => concreteDiff schema fuel parent rest

/-- C11's decidable statement on one pair of generated files -/
def c11Oracle (schema : Schema) (root : Str) (op : ParsedOperation) (norm : List NTree) : String :=
  match treesDiff (QNode.toTrees op.selections) (NTree.eraseList norm) with
  | some d => "bad:tree:" ++ d
  | none =>
    match concreteDiff schema 1000 root norm with
    | none => "ok"
    | some c => "bad:concrete-type:" ++ c

/-! ### C12: response keys -/

mutual
def Value.anyStr (p : Str → Bool) : Value → Bool
  | .str s => p s
  | .obj fields => Value.anyStrFields p fields
  | .list items => Value.anyStrList p items
  | _ => false
def Value.anyStrFields (p : Str → Bool) : List (Str × Value) → Bool
  | [] => false
  | (_, v) :: rest => v.anyStr p || Value.anyStrFields p rest
def Value.anyStrList (p : Str → Bool) : List Value → Bool
  | [] => false
  | v :: rest => v.anyStr p || Value.anyStrList p rest
end

mutual
def Value.anyLeaf (p : Value → Bool) : Value → Bool
  | .obj fields => Value.anyLeafFields p fields
  | .list items => Value.anyLeafList p items
  | v => p v
def Value.anyLeafFields (p : Value → Bool) : List (Str × Value) → Bool
  | [] => false
  | (_, v) :: rest => v.anyLeaf p || Value.anyLeafFields p rest
def Value.anyLeafList (p : Value → Bool) : List Value → Bool
  | [] => false
  | v :: rest => v.anyLeaf p || Value.anyLeafList p rest
end

def argsAny (p : Value → Bool) (args : Args) : Bool := args.any fun a => a.2.anyLeaf p

mutual
/-- every name inside the value (variable, enum value, object key) is a GraphQL name -/
def Value.namesLegal : Value → Bool
  | .var n => isGqlName n
  | .enum e => isGqlName e
  | .obj fields => Value.namesLegalFields fields
  | .list items => Value.namesLegalList items
  | _ => true
def Value.namesLegalFields : List (Str × Value) → Bool
  | [] => true
  | (k, v) :: rest => isGqlName k && v.namesLegal && Value.namesLegalFields rest
def Value.namesLegalList : List Value → Bool
  | [] => true
  | v :: rest => v.namesLegal && Value.namesLegalList rest
end

/-- narrow classifier for an illegal key -/
def classifyIllegal (key : Str) (args : Args) : String :=
  if argsAny (fun v => match v with | .int i => i < 0 | _ => false) args && key.contains 45 then "negative-int-alias"
  else if argsAny (fun v => match v with | .float _ => true | _ => false) args then "float-alias"
  else "other"

/-- narrow classifier for two different selections with one key -/
def classifyCollision (n1 : Str) (a1 : Args) (n2 : Str) (a2 : Args) : String :=
  if n1 == n2 && argsBeq (collapseArgs a1) (collapseArgs a2) then "string-arg-nonword-collapse"
  else "underscore-ambiguity"

def maxInt53 : Int := 9007199254740992

/-- narrow classifier for a compiler key that differs from the runtime's -/
def classifyRuntime (args : Args) : String :=
  if argsAny (fun v => match v with | .str s => s.any (· ≥ 0x10000) | _ => false) args then "astral-utf16-length"
  else if argsAny (fun v => match v with | .str s => s.contains 34 || s.contains 10 || s.contains 13 | _ => false) args then
    "string-breaks-js-literal"
  else if argsAny (fun v => match v with | .str s => s.contains 92 | _ => false) args then "string-escape-js-evaluated"
  else if argsAny (fun v => match v with | .int i => i > maxInt53 || i < -maxInt53 | _ => false) args then "int-beyond-2^53"
  else if argsAny (fun v => match v with | .float _ => true | _ => false) args then "float-format"
  else "other"

/-- (key, name, args) of the fields of one selection set -/
def fieldKeys : List QNode → List (Str × Str × Args)
  | [] => []
  | .field alias name args _ :: rest => (alias.getD name, name, args) :: fieldKeys rest
  | .frag .. :: rest => fieldKeys rest

def firstCollision : List (Str × Str × Args) → Option String
  | [] => none
  | (k, n, a) :: rest =>
    match rest.find? (fun e => e.1 == k && !(e.2.1 == n && argsBeq e.2.2 a)) with
    | some e => some (classifyCollision n a e.2.1 e.2.2)
    | none => firstCollision rest

/-- legality and uniqueness of the keys of every selection set of the operation -/
def keysOracle : Nat → List QNode → Option String
  | 0, _ => none
  | fuel + 1, sels =>
    let keys := fieldKeys sels
    match keys.find? (fun e => !(isGqlName e.1) && isGqlName e.2.1 && Value.namesLegalFields e.2.2) with
    | some e => some ("illegal-key:" ++ classifyIllegal e.1 e.2.2)
    | none =>
      match firstCollision keys with
      | some c => some ("key-collision:" ++ c)
      | none =>
        let rec kids : List QNode → Option String
          | [] => none
          | .field _ _ _ (some ks) :: rest => (keysOracle fuel ks).orElse fun _ => kids rest
          | .frag _ ks :: rest => (keysOracle fuel ks).orElse fun _ => kids rest
          | _ :: rest => kids rest
        kids sels

/-- the key the compiler wrote (operation text) equals the key the runtime computes from the
normalization AST node at the same position -/
def runtimeKeysOracle : Nat → List QNode → List NTree → Option String
  | 0, _, _ => none
  | _, [], _ => none
  | _, _, [] => none
  | fuel + 1, q :: qs, n :: ns =>
    let here : Option String :=
      match q, n with
      | .field alias name _ kids, .scalar _ nname nargs =>
        let key := alias.getD name
        if networkResponseKey nname nargs == some (utf16 key) then
          (match kids with | some _ => some "other" | none => none)
        else some (classifyRuntime nargs)
      | .field alias name _ kids, .linked _ nname nargs _ nkids =>
        let key := alias.getD name
        if networkResponseKey nname nargs == some (utf16 key) then
          (match kids with | some ks => runtimeKeysOracle fuel ks nkids | none => some "other")
        else some (classifyRuntime nargs)
      | .frag _ ks, .frag _ nks => runtimeKeysOracle fuel ks nks
      | _, _ => some "other"
    match here with
    | some c => some c
    | none => runtimeKeysOracle fuel qs ns

/-- C12's decidable statement on one pair of generated files -/
def c12Oracle (op : ParsedOperation) (norm : List NTree) : String :=
  match keysOracle 1000 op.selections with
  | some s => "bad:" ++ s
  | none =>
    -- the positional pairing needs equal trees (C11); otherwise nothing to compare
    match treesDiff (QNode.toTrees op.selections) (NTree.eraseList norm) with
    | some _ => "ok"
    | none =>
      match runtimeKeysOracle 1000 op.selections norm with
      | some c => "bad:runtime-key:" ++ c
      | none => "ok"

/-! ### C27: type text against the operation / the selection set -/

mutual
/-- a parsed object type as a `Shape` (`none` when the `?` marker disagrees with the type:
optional ⇔ nullable at the top) -/
def TProp.toShape : TProp → Option Shape
  | .mk key opt _ shape alts =>
    let topNullable := match shape with | .nullable _ => true | _ => false
    if opt != topNullable then none else
    match alts with
    | none => some (.prop key shape none)
    | some a => (TProp.toShapeAlts a).map fun x => .prop key shape (some x)
def TProp.toShapeProps : List TProp → Option (List Shape)
  | [] => some []
  | p :: rest =>
    match p.toShape, TProp.toShapeProps rest with
    | some x, some xs => some (x :: xs)
    | _, _ => none
def TProp.toShapeAlts : List (List TProp) → Option (List (List Shape))
  | [] => some []
  | a :: rest =>
    match TProp.toShapeProps a, TProp.toShapeAlts rest with
    | some x, some xs => some (x :: xs)
    | _, _ => none
end

def Shape.key : Shape → Str
  | .prop k _ _ => k

def insertShape (p : Shape) : List Shape → List Shape
  | [] => [p]
  | q :: rest => if lexLt p.key q.key then p :: q :: rest else q :: insertShape p rest

def sortShapes (ps : List Shape) : List Shape := ps.foldl (fun acc p => insertShape p acc) []

mutual
/-- first difference between the type's shape and the expected one (properties compared as
sets: sorted by key); `none` = they agree -/
def shapesDiff : Nat → List Shape → List Shape → Option String
  | 0, _, _ => none
  | _, [], [] => none
  | fuel + 1, .prop k ty kids :: ts, .prop xk xty xkids :: xs =>
    if k != xk then some (if xk == cs!"__typename" then "keys:typename" else "keys")
    else if ty != xty then some "nullable-or-list"
    else
      match kids, xkids with
      | none, none => shapesDiff fuel ts xs
      | some a, some xa => (shapeAltsDiff fuel a xa).orElse fun _ => shapesDiff fuel ts xs
      | _, _ => some "nesting"
  | _, [], .prop xk .. :: _ => some (if xk == cs!"__typename" then "keys:typename" else "keys")
  | _, _ :: _, [] => some "keys"
def shapeAltsDiff : Nat → List (List Shape) → List (List Shape) → Option String
  | 0, _, _ => none
  | _, [], [] => none
  | fuel + 1, a :: as, x :: xs =>
    (shapesDiff fuel (sortShapes a) (sortShapes x)).orElse fun _ => shapeAltsDiff fuel as xs
  | _, _, _ => some "alternatives"
end

def hasFrags : Nat → List QNode → Bool
  | 0, _ => false
  | _, [] => false
  | fuel + 1, q :: rest =>
    (match q with
     | .frag .. => true
     | .field _ _ _ (some ks) => hasFrags fuel ks
     | _ => false) || hasFrags fuel rest

/-- C27 (raw response type): keys, nesting and list structure of the raw response type are those
of the operation -/
def c27RawOracle (schema : Schema) (root : Str) (op : ParsedOperation) (raw : List (List TProp)) : String :=
  match TProp.toShapeAlts raw with
  | none => "bad:raw:optional-marker"
  | some rawShape =>
    -- `__typename` exists on every entity (the table only lists fields named in the map)
    let entities := (root :: schema.map (·.entity)) ++ schema.filterMap (fun e => e.ty.inner)
    let typenames : Schema := entities.filterMap fun e =>
      if (schema.lookup e cs!"__typename").isSome then none
      else some ⟨e, cs!"__typename", true, false, .scalar cs!"String", cs!"string"⟩
    match expectedAlts (schema ++ typenames) 1000 root (QNode.toTrees op.selections) with
    | none => "bad:raw:schema-table-incomplete"
    | some expected =>
      match shapeAltsDiff 1000 rawShape expected with
      | none => "ok"
      | some d =>
        if d == "keys:typename" then "bad:raw:empty-selection-typename"
        else if hasFrags 1000 op.selections then "bad:raw:" ++ d ++ ":with-inline-fragments"
        else "bad:raw:" ++ d

/-- C27 (parameter type): exactly one property per selection, named by alias-or-name; nullable and
list structure of server fields as in the schema -/
def paramDiff : Nat → List TProp → List PSel → Option String
  | 0, _, _ => none
  | _, [], [] => none
  | fuel + 1, .mk k opt ro shape alts :: ts, s :: ss =>
    let here : Option String :=
      match s with
      | .serverScalar name _ ty _ _ =>
        if k != name then some "props" else if opt then some "optional-marker"
        else if !ro then some "readonly" else if shape != ty.shape then some "nullable-or-list" else none
      | .serverObject name _ ty _ sels =>
        if k != name then some "props" else if opt then some "optional-marker"
        else if shape != ty.shape then some "nullable-or-list"
        else match alts with
          | some [props] => paramDiff fuel props sels
          | _ => some "nesting"
      | .clientScalar name .. => if k != name then some "props" else none
      | .clientObject name .. => if k != name then some "props" else none
      | .unresolved _ => some "unresolved"
    here.orElse fun _ => paramDiff fuel ts ss
  | _, _, _ => some "props"

def c27ParamOracle (sels : List PSel) (props : List TProp) : String :=
  match paramDiff 1000 props sels with
  | none => "ok"
  | some d => "bad:param:" ++ d

/-! ### C26: persisted documents -/

def unhex4 (ds : Str) : Option Nat := hexDigitsVal ds

/-- body of a JSON string (after the opening quote): (value, rest after the closing quote) -/
def jsonStringBody : Nat → Str → Str → Option (Str × Str)
  | 0, _, _ => none
  | _, [], _ => none
  | fuel + 1, c :: rest, acc =>
    if c == 34 then some (acc.reverse, rest)
    else if c != 92 then jsonStringBody fuel rest (c :: acc)
    else
      match rest with
      | 110 :: r => jsonStringBody fuel r (10 :: acc)
      | 116 :: r => jsonStringBody fuel r (9 :: acc)
      | 114 :: r => jsonStringBody fuel r (13 :: acc)
      | 98 :: r => jsonStringBody fuel r (8 :: acc)
      | 102 :: r => jsonStringBody fuel r (12 :: acc)
      | 117 :: a :: b :: c2 :: d :: r =>
        match unhex4 [a, b, c2, d] with
        | some v => jsonStringBody fuel r (v :: acc)
        | none => none
      | e :: r => jsonStringBody fuel r (e :: acc)
      | [] => none

/-- `{ "k": "v", … }` -/
def parseJsonStringMap (text : Str) : Option (List (Str × Str)) :=
  let rec go : Nat → Str → List (Str × Str) → Option (List (Str × Str))
    | 0, _, _ => none
    | _, [], _ => none
    | fuel + 1, c :: rest, acc =>
      if isSpace c || c == 44 || c == 123 then go fuel rest acc
      else if c == 125 then some acc.reverse
      else if c == 34 then
        match jsonStringBody (rest.length + 1) rest [] with
        | none => none
        | some (k, rest1) =>
          let rest2 := rest1.dropWhile (fun x => isSpace x || x == 58)
          match rest2 with
          | 34 :: rest3 =>
            match jsonStringBody (rest3.length + 1) rest3 [] with
            | some (v, rest4) => go fuel rest4 ((k, v) :: acc)
            | none => none
          | _ => none
      else none
  go (text.length + 1) text []

/-- `operationId: "<id>"` of an entrypoint / refetch artifact -/
def operationIdOf (file : Str) : Option Str :=
  (afterMarker cs!"operationId: \"" (file.length + 1) file).map fun r => r.takeWhile (· != 34)

def strSetEq (a b : List Str) : Bool := a.all (b.contains ·) && b.all (a.contains ·)

namespace Drv

def toks (s : String) : List String := (s.splitOn " ").filter (· != "")

def parseTable (ts : List String) : List (Str × Str) :=
  match pRepeat pPair (ts.length / 2) ts with
  | some (ps, _) => ps
  | none => []

def decodeFile (h : String) : Option Str := if h == "nofile" || h == "panic" then none else hexStr h

/-- verdict of the selected property on one operation's files -/
def opVerdict (prop : String) (l : OpLine) (table : List (Str × Str)) (impl : List String) : String :=
  let files := impl.map decodeFile
  let qtFile := (files.getD 0 none)
  let normFile := if l.kind == "E" then files.getD 1 none else files.getD 1 none
  let op := qtFile.bind parseQueryTextFile
  let norm := normFile.bind parseNormAstFile
  if prop == "C11" then
    match op, norm with
    | some o, some n => c11Oracle l.schema (if l.kind == "E" then l.rParent else l.concreteType) o n
    | none, _ => "bad:unparsable-operation-text"
    | _, none => "bad:unparsable-normalization-ast"
  else if prop == "C12" then
    match op, norm with
    | some o, some n => c12Oracle o n
    | none, _ => "bad:unparsable-operation-text"
    | _, none => "bad:unparsable-normalization-ast"
  else if prop == "C26" then
    match l.persist with
    | none => "ok"
    | some _ =>
      let artifact := if l.kind == "E" then files.getD 3 none else files.getD 1 none
      match artifact.bind operationIdOf with
      | none => "bad:no-operation-id"
      | some id =>
        -- the harness hashed the document recorded under this id
        match table with
        | [] => "bad:id-not-in-documents"
        | (_, dg) :: _ => if dg == id then "ok" else "bad:id-hash-mismatch"
  else if prop == "C27" then
    if l.kind != "E" then "ok" else
    match op, (files.getD 2 none).bind parseRawResponseFile with
    | some o, some raw => c27RawOracle l.schema l.rParent o raw
    | none, _ => "bad:unparsable-operation-text"
    | _, none => "bad:unparsable-raw-response-type"
  else "ok"

def opLine (prop : String) (wire dg impl : List String) : String :=
  match pOpLine wire with
  | none => "unparsable-wire\tok"
  | some l =>
    let table := if dg == ["-"] then [] else parseTable dg
    let files := opFiles (tableHash table) l
    " ".intercalate files ++ "\t" ++ opVerdict prop l table impl

def paramLine (prop : String) (wire impl : List String) : String :=
  match pParamLine wire with
  | none => "unparsable-wire\tok"
  | some (m, header) =>
    let verdict :=
      if prop != "C27" then "ok" else
      match (impl.head?.bind decodeFile).bind parseParamTypeFile with
      | some props => c27ParamOracle m.sels props
      | none => "bad:unparsable-param-type"
    strHex (withHeader header (paramTypeFile m)) ++ "\t" ++ verdict

/-- split the wires of a project at the `|` tokens -/
def splitWires (ts : List String) : List (List String) :=
  let rec go : List String → List String → List (List String) → List (List String)
    | [], cur, acc => (if cur.isEmpty then acc else cur.reverse :: acc).reverse
    | t :: rest, cur, acc => if t == "|" then go rest [] (cur.reverse :: acc) else go rest (t :: cur) acc
  go ts [] []

def persistedLine (wires table plain impl : List String) : String :=
  let ops := (splitWires wires).filterMap pOpLine
  let tbl := parseTable (table.drop 1)
  let H := tableHash tbl
  -- model: run generate_operation_text for every operation in order
  let step (acc : Docs × List Str) (l : OpLine) : Docs × List Str :=
    match l.persist, printQuery .compact l.opKind l.oName l.oVars l.oMap with
    | some o, some compact =>
      let (_, id, docs) := generateOperationText H (some o) acc.1 compact l.oName l.oRoot 1
      (docs, acc.2 ++ [id.getD []])
    | _, _ => (acc.1, acc.2 ++ [[]])
  let (docs, ids) := ops.foldl step ([], [])
  let idsField := if ids.isEmpty then "-" else ",".intercalate (ids.map strHex)
  let model := strHex (persistedDocumentsJson docs) ++ " " ++ idsField
  -- oracle on the implementation's file and ids
  let implDocs := ((impl.head?.bind decodeFile).bind parseJsonStringMap)
  let implIds : List Str :=
    match impl.getD 1 "-" with
    | "-" => []
    | s => (s.splitOn ",").filterMap hexStr
  let plainFiles : List (Option Str) := (plain.drop 1).map decodeFile
  let verdict :=
    match implDocs with
    | none => "bad:unparsable-persisted-documents"
    | some ds =>
      if !(ds.all fun e => H e.2 == e.1) then "bad:id-hash-mismatch"
      else if !(strSetEq (ds.map (·.1)) implIds) then "bad:documents-not-exact"
      else
        let pairs := implIds.zip plainFiles
        let differs : Option String := pairs.findSome? fun (id, pf) =>
          match ds.find? (fun e => e.1 == id), pf.bind embeddedText with
          | some e, some text =>
            match jsSingleQuotedValue text with
            | none => some "unevaluable-operation-text"
            | some sent =>
              if stripInsignificant e.2 == stripInsignificant sent then none
              else if (dropContinuations text).contains 92 then some "backslash-in-string"
              else some "other"
          | _, _ => some "missing"
        match differs with
        | none => "ok"
        | some c => "bad:document-differs:" ++ c
  model ++ "\t" ++ verdict

def pNameArgs (ts : List String) : Option (Str × Args) :=
  match pStr ts with
  | none => none
  | some (name, r1) => (pArgs (ts.length + 1) r1).map fun (a, _) => (name, a)

def aliasField (name : Str) (args : Args) : String :=
  if args.isEmpty then "none" else
  match aliasOf name args with
  | some a => strHex a
  | none => "panic"

/-- the key of the selection as text: the alias field of the answer, or the name when `none` -/
def keyOfAnswer (name : Str) (aliasAns : String) : Option Str :=
  if aliasAns == "none" then some name else if aliasAns == "panic" then none else hexStr aliasAns

def aliasLine (_prop : String) (args impl : List String) : String :=
  match args with
  | [w] =>
    match pNameArgs (toks w) with
    | none => "unparsable-wire\tok"
    | some (name, a) =>
      let single : SelMap := [(⟨0, .serverField name a⟩, Sel.scalar false name a)]
      let qt := optHex (printQuery .compact cs!"query" cs!"Q" [] single)
      let na := printNormAst 0 single
      let rt := match na with
        | none => "panic"
        | some _ =>
          match networkResponseKey name a with
          | some units => strHex (utf16Decode units)
          | none => "syntax-error"
      let model := aliasField name a ++ " " ++ qt ++ " " ++ optHex na ++ " " ++ rt
      -- oracle on the implementation's answer
      let verdict :=
        match impl with
        | [al, _, _, runtime] =>
          match keyOfAnswer name al with
          | none => "ok"          -- list value: the compiler panics, no key exists
          | some key =>
            if !(isGqlName key) && isGqlName name && Value.namesLegalFields a then
              "bad:illegal-key:" ++ classifyIllegal key a
            else if runtime == strHex key then "ok"
            else "bad:runtime-key:" ++ classifyRuntime a
        | _ => "bad:unparsable-impl-answer"
      model ++ "\t" ++ verdict
  | _ => "bad-op\tok"

def alias2Line (args impl : List String) : String :=
  match args with
  | [w1, w2] =>
    match pNameArgs (toks w1), pNameArgs (toks w2) with
    | some (n1, a1), some (n2, a2) =>
      let model := aliasField n1 a1 ++ " " ++ aliasField n2 a2
      let verdict :=
        match impl with
        | [al1, al2] =>
          match keyOfAnswer n1 al1, keyOfAnswer n2 al2 with
          | some k1, some k2 =>
            let same := n1 == n2 && argsBeq a1 a2
            if k1 == k2 && !same then "bad:key-collision:" ++ classifyCollision n1 a1 n2 a2
            else if k1 != k2 && same then "bad:key-not-a-function"
            else "ok"
          | _, _ => "ok"
        | _ => "bad:unparsable-impl-answer"
      model ++ "\t" ++ verdict
    | _, _ => "unparsable-wire\tok"
  | _ => "bad-op\tok"

end Drv
end IsoVerif.Core
