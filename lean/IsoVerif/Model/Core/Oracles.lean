/-
Driver-side glue of the `printers` family: decoding of the dump lines (`E`, `R`, `P`), the model's
answer for each request, and the decidable oracles of C11 / C12 / C26 / C27 evaluated on the
implementation's answer.  Nothing here is part of a theorem statement except the oracle
definitions the `Props/` files quote.
-/
import IsoVerif.Model.Core.ParamType
import IsoVerif.Model.Util

namespace IsoVerif.Core

/-! ### decoding of the dump lines -/

structure OpLine where
  kind : String                 -- "E" or "R"
  parentType : Str
  fieldName : Str
  index : Nat                   -- refetch index (R)
  ext : Str
  concreteType : Str            -- E: concrete type of the entrypoint; R: root entity
  lazyNormalization : Bool
  lazyReader : Bool
  component : Bool
  header : Option Str
  opKind : Str
  qName : Str
  qVars : List VarDef
  qMap : SelMap
  nMap : SelMap
  oName : Str
  oVars : List VarDef
  oRoot : Str
  persist : Option PersistOpts
  oMap : SelMap
  refs : List (List Str × List Str)
  rParent : Str
  rMap : SelMap
  schema : Schema
deriving Inhabited

def pHeader : P (Option Str)
  | "h0" :: rest => some (none, rest)
  | "h1" :: rest => (pStr rest).map fun (s, r) => (some s, r)
  | _ => none

def pPersist : P (Option PersistOpts)
  | "p0" :: rest => some (none, rest)
  | "p1" :: algo :: rest => (pBool rest).map fun (b, r) => (some ⟨strOfString algo, b⟩, r)
  | _ => none

def pRefs : P (List (List Str × List Str)) :=
  pSeq fun ts =>
    match pSeq pStr ts with
    | none => none
    | some (a, r1) => (pSeq pStr r1).map fun (b, r) => ((a, b), r)

def pSchema (fuel : Nat) : P Schema :=
  pSeq fun ts =>
    match pStr ts with
    | none => none
    | some (e, r1) =>
      match pStr r1 with
      | none => none
      | some (f, r2) =>
        match r2 with
        | k :: r3 =>
          match pType fuel r3 with
          | none => none
          | some (t, r4) => (pStr r4).map fun (it, r) => (⟨e, f, k == "s", t, it⟩, r)
        | [] => none

/-- sequencing helper: run `p`, continue with `k` -/
@[inline] def andThen {α β : Type} (p : P α) (k : α → P β) : P β := fun ts =>
  match p ts with
  | none => none
  | some (a, rest) => k a rest

def pOpLine (ts : List String) : Option OpLine :=
  let fuel := ts.length + 1
  match ts with
  | "E" :: rest =>
    (andThen pStr fun parentType => andThen pStr fun fieldName => andThen pStr fun ext =>
     andThen pStr fun concreteType => andThen pBool fun lazyN => andThen pBool fun lazyR =>
     andThen pBool fun component => andThen pHeader fun header =>
     andThen (expect "K") fun _ => andThen pStr fun opKind =>
     andThen (expect "Q") fun _ => andThen pStr fun qName => andThen (pVarDefs fuel) fun qVars =>
     andThen (pMap fuel) fun qMap =>
     andThen (expect "N") fun _ => andThen (pMapOrSame fuel qMap) fun nMap =>
     andThen (expect "O") fun _ => andThen pStr fun oName => andThen (pVarDefs fuel) fun oVars =>
     andThen pStr fun oRoot => andThen pPersist fun persist => andThen (pMapOrSame fuel qMap) fun oMap =>
     andThen (expect "F") fun _ => andThen pRefs fun refs =>
     andThen (expect "R") fun _ => andThen pStr fun rParent => andThen (pMapOrSame fuel qMap) fun rMap =>
     andThen (expect "S") fun _ => andThen (pSchema fuel) fun schema => fun r =>
       some ({ kind := "E", parentType, fieldName, index := 0, ext, concreteType,
               lazyNormalization := lazyN, lazyReader := lazyR, component, header, opKind,
               qName, qVars, qMap, nMap, oName, oVars, oRoot, persist, oMap, refs, rParent, rMap,
               schema : OpLine }, r)) rest |>.map (·.1)
  | "R" :: rest =>
    (andThen pStr fun parentType => andThen pStr fun fieldName => andThen pNat fun index =>
     andThen pStr fun ext => andThen pStr fun rootEntity => andThen pHeader fun header =>
     andThen (expect "K") fun _ => andThen pStr fun opKind =>
     andThen (expect "Q") fun _ => andThen pStr fun qName => andThen (pVarDefs fuel) fun qVars =>
     andThen (pMap fuel) fun qMap =>
     andThen (expect "N") fun _ => andThen (pMapOrSame fuel qMap) fun nMap =>
     andThen (expect "O") fun _ => andThen pStr fun oName => andThen (pVarDefs fuel) fun oVars =>
     andThen pStr fun oRoot => andThen pPersist fun persist => andThen (pMapOrSame fuel qMap) fun oMap =>
     fun r =>
       some ({ kind := "R", parentType, fieldName, index, ext, concreteType := rootEntity,
               lazyNormalization := false, lazyReader := false, component := false, header, opKind,
               qName, qVars, qMap, nMap, oName, oVars, oRoot, persist, oMap, refs := [],
               rParent := [], rMap := [], schema := [] : OpLine }, r)) rest |>.map (·.1)
  | _ => none

def pParamLine (ts : List String) : Option (ParamMeta × Option Str) :=
  let fuel := ts.length + 1
  match ts with
  | "P" :: rest =>
    (andThen pStr fun parentType => andThen pStr fun fieldName => andThen pStr fun ext =>
     andThen pBool fun hasVariables => andThen (pPSels fuel) fun sels =>
     andThen (pSeq pPair) fun imports => andThen (pSeq pPair) fun loadable =>
     andThen pBool fun _updatable => andThen pHeader fun header => fun r =>
       some (({ parentType, fieldName, ext, hasVariables, sels, observedImports := imports,
                observedLoadable := loadable : ParamMeta }, header), r)) rest |>.map (·.1)
  | _ => none

/-! ### the model's answer -/

def optHex : Option Str → String
  | some s => strHex s
  | none => "panic"

/-- hash taken from the digest pair of the request: `H text = digest` for the one text the
harness hashed (the document recorded under the artifact's operation id) -/
def tableHash (table : List (Str × Str)) (text : Str) : Str :=
  match table.find? (fun e => e.1 == text) with
  | some e => e.2
  | none => cs!"nodigest"

def pDigestPair : P (Str × Str) := pPair

/-- operation text of one op line (and the id / document it registers) -/
def opOperationText (H : Str → Str) (l : OpLine) : Option (Str × Option Str × Docs) :=
  match l.persist with
  | none => some (generateOperationText H none [] [] l.oName l.oRoot 1)
  | some o =>
    (printQuery .compact l.opKind l.oName l.oVars l.oMap).map fun compact =>
      generateOperationText H (some o) [] compact l.oName l.oRoot 1

def opFiles (H : Str → Str) (l : OpLine) : List String :=
  let qt := (printQuery .pretty l.opKind l.qName l.qVars l.qMap).map fun t => withHeader l.header (queryTextFile t)
  let na := printNormAst 1 l.nMap
  let opText := (opOperationText H l).map (·.1)
  if l.kind == "E" then
    let naFile := na.map fun t => withHeader l.header (normalizationAstFile t)
    let rr := match printRawResponseType l.schema l.rParent l.rMap with
      | .ok t => some (withHeader l.header (rawResponseTypeFile l.parentType l.fieldName t))
      | _ => none
    let em : EntryMeta :=
      ⟨l.parentType, l.fieldName, l.ext, l.concreteType, l.lazyNormalization, l.lazyReader, l.component, l.refs⟩
    let ep := opText.map fun t => withHeader l.header (entrypointFile em t)
    [optHex qt, optHex naFile, optHex rr, optHex ep]
  else
    let rf := match opText, na with
      | some t, some n => some (withHeader l.header (refetchFile l.index l.ext l.concreteType t n))
      | _, _ => none
    [optHex qt, optHex rf]

namespace Drv

def parseTable (ts : List String) : List (Str × Str) :=
  match pRepeat pPair (ts.length / 2) ts with
  | some (ps, _) => ps
  | none => []

def opLine (_prop : String) (wire dg impl : List String) : String :=
  match pOpLine wire with
  | none => "unparsable-wire\tok"
  | some l =>
    let table := if dg == ["-"] then [] else parseTable dg
    let files := opFiles (tableHash table) l
    let _ := impl
    " ".intercalate files ++ "\tok"

def paramLine (_prop : String) (wire impl : List String) : String :=
  match pParamLine wire with
  | none => "unparsable-wire\tok"
  | some (m, header) =>
    let _ := impl
    strHex (withHeader header (paramTypeFile m)) ++ "\tok"

def persistedLine (wires table plain impl : List String) : String :=
  let _ := (wires, table, plain, impl)
  "todo\tok"

def aliasLine (_prop : String) (args impl : List String) : String :=
  let _ := (args, impl)
  "todo\tok"

end Drv
end IsoVerif.Core
