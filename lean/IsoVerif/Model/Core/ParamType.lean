/-
M-CORE / parameter types: crates/artifact_content/src/generate_updatable_and_parameter_type.rs
(`generate_client_selectable_parameter_type`, `write_param_type_from_selection`,
`generate_client_selectable_updatable_data_type`, `write_updatable_data_type_from_selection`,
`write_getter_and_setter`, `write_param_type_from_client_scalar_selectable`,
`get_loadable_field_type_from_arguments`, `write_optional_description`), the file written by
`generate_eager_reader_param_type_artifact` (eager_reader_artifact.rs) and the import statements
of import_statements.rs.

The input is the reader selection set of the client field with every selection already resolved
against the schema the way the printer resolves it (dump hook, line `P`): description, type
annotation, inner text, client field identity.  `format_parameter_type` of the provided arguments
of a `@loadable` selection is carried as text.
-/
import IsoVerif.Model.Core.RawResponse

namespace IsoVerif.Core

/-- directive set of a client scalar selection -/
inductive ClientDir where
  | none
  | updatable
  /-- `@loadable`, with the provided arguments: name, nullable, `format_parameter_type` text -/
  | loadable (provided : List (Str × Bool × Str))
deriving Repr, Inhabited

/-- one selection of the reader selection set, resolved -/
inductive PSel where
  | serverScalar (nameOrAlias : Str) (desc : Option Str) (ty : TypeAnn) (innerText : Str) (updatable : Bool)
  | clientScalar (nameOrAlias : Str) (desc : Option Str) (entity selectable : Str) (dir : ClientDir)
  | serverObject (nameOrAlias : Str) (desc : Option Str) (ty : TypeAnn) (updatable : Bool) (sels : List PSel)
  | clientObject (nameOrAlias : Str) (desc : Option Str) (ty : TypeAnn) (entity selectable : Str)
      (updatable : Bool) (sels : List PSel)
  /-- a selection the hook could not resolve (the printer would panic) -/
  | unresolved (name : Str)
deriving Repr, Inhabited

/-- `description.replace("*/", "*\\/")` (repair ce7cb8c of F13b: a `*/` inside a description no
longer ends the doc comment) -/
def escapeDocEnd : Str → Str
  | 42 :: 47 :: rest => 42 :: 92 :: 47 :: escapeDocEnd rest
  | c :: rest => c :: escapeDocEnd rest
  | [] => []

/-- `write_optional_description` -/
def descText (level : Nat) : Option Str → Str
  | none => []
  | some d => indent level ++ cs!"/**\n" ++ escapeDocEnd d ++ [10] ++ indent level ++ cs!"*/\n"

/-- `EntityNameAndSelectableName::underscore_separated` -/
def underscoreSeparated (entity selectable : Str) : Str := entity ++ cs!"__" ++ selectable

def loadableArgEntries : List (Str × Bool × Str) → List Str
  | [] => []
  | (name, nullable, ty) :: rest =>
    (cs!"readonly " ++ name ++ (if nullable then [63] else []) ++ cs!": " ++ ty) :: loadableArgEntries rest

/-- `get_loadable_field_type_from_arguments` -/
def loadableFieldType (provided : List (Str × Bool × Str)) : Str :=
  [123] ++ joinStr cs!", " (loadableArgEntries provided) ++ [125]

/-- the text after `readonly {name}: ` in `write_param_type_from_client_scalar_selectable` -/
def clientScalarOutputType (level : Nat) (entity selectable : Str) : ClientDir → Str
  | .none => underscoreSeparated entity selectable ++ cs!"__output_type"
  | .updatable => underscoreSeparated entity selectable ++ cs!"__output_type"
  | .loadable provided =>
    let ind := indent (level + 1)
    let es := underscoreSeparated entity selectable
    let providedArgsType :=
      if provided.isEmpty then [] else
        cs!",\n" ++ ind ++ cs!"Omit<ExtractParameters<" ++ es ++ cs!"__param>, keyof " ++ loadableFieldType provided ++ [62]
    cs!"LoadableField<\n" ++ ind ++ es ++ cs!"__param,\n" ++ ind ++ es ++ cs!"__output_type"
      ++ providedArgsType ++ [10] ++ indent level ++ [62]

def PSel.name : PSel → Str
  | .serverScalar n .. => n
  | .clientScalar n .. => n
  | .serverObject n .. => n
  | .clientObject n .. => n
  | .unresolved n => n

def PSel.desc : PSel → Option Str
  | .serverScalar _ d .. => d
  | .clientScalar _ d .. => d
  | .serverObject _ d .. => d
  | .clientObject _ d .. => d
  | .unresolved _ => none

/-- the property a selection contributes: `[doc comment] readonly <alias or name>: <body>,` -/
def paramLine (level : Nat) (s : PSel) (body : Str) : Str :=
  match s with
  | .unresolved _ => []
  | _ => descText level s.desc ++ indent level ++ cs!"readonly " ++ s.name ++ cs!": " ++ body ++ cs!",\n"

/-- `write_param_type_from_client_scalar_selectable` -/
def clientScalarLine (level : Nat) (name : Str) (desc : Option Str) (entity selectable : Str) (dir : ClientDir) : Str :=
  descText level desc ++ indent level ++ cs!"readonly " ++ name ++ cs!": "
    ++ clientScalarOutputType level entity selectable dir ++ cs!",\n"

mutual
/-- the type text of the property of one selection (`write_param_type_from_selection`) -/
def paramBody (level : Nat) : PSel → Str
  | .serverScalar _ _ ty innerText _ => jsType innerText ty
  | .clientScalar _ _ entity selectable dir => clientScalarOutputType level entity selectable dir
  | .serverObject _ _ ty _ sels =>
    jsType (cs!"{\n" ++ paramSels (level + 1) sels ++ indent level ++ [125]) ty
  | .clientObject _ _ ty entity selectable _ sels =>
    jsType (cs!"LoadableField<" ++ underscoreSeparated entity selectable ++ cs!"__param, "
        ++ (cs!"{\n" ++ paramSels (level + 1) sels ++ indent level ++ [125]) ++ [62]) ty
  | .unresolved _ => []
/-- the loop over the selections: one property each -/
def paramSels (level : Nat) : List PSel → Str
  | [] => []
  | s :: rest => paramLine level s (paramBody level s) ++ paramSels level rest
end

/-- `generate_client_selectable_parameter_type(.., indentation_level = level)` -/
def paramType (level : Nat) (sels : List PSel) : Str :=
  cs!"{\n" ++ paramSels (level + 1) sels ++ indent level ++ [125]

mutual
/-- `write_updatable_data_type_from_selection` -/
def updSel (level : Nat) : PSel → Str
  | .serverScalar name desc ty innerText updatable =>
    descText level desc ++
      (if updatable then indent level ++ name ++ cs!": " ++ jsType innerText ty ++ cs!",\n"
       else indent level ++ cs!"readonly " ++ name ++ cs!": " ++ jsType innerText ty ++ cs!",\n")
  | .clientScalar name desc entity selectable dir => clientScalarLine level name desc entity selectable dir
  | .serverObject name desc ty updatable sels =>
    let inner := cs!"{\n" ++ updSels (level + 1) sels ++ indent level ++ [125]
    descText level desc ++ indent level ++
      (if updatable then
        cs!"get " ++ name ++ cs!"(): " ++ jsType inner ty ++ cs!",\n" ++ indent level
          ++ cs!"set " ++ name ++ cs!"(value: "
          ++ jsType (cs!"{ __link: " ++ (ty.inner.getD []) ++ cs!"____link__output_type }") ty ++ cs!"),\n"
       else cs!"readonly " ++ name ++ cs!": " ++ jsType inner ty ++ cs!",\n")
  | .clientObject name desc ty _ _ updatable sels =>
    let inner := cs!"{\n" ++ updSels (level + 1) sels ++ indent level ++ [125]
    descText level desc ++ indent level ++
      (if updatable then
        cs!"get " ++ name ++ cs!"(): " ++ jsType inner ty ++ cs!",\n" ++ indent level
          ++ cs!"set " ++ name ++ cs!"(value: "
          ++ jsType (cs!"{ __link: " ++ (ty.inner.getD []) ++ cs!"____link__output_type }") ty ++ cs!"),\n"
       else cs!"readonly " ++ name ++ cs!": " ++ jsType inner ty ++ cs!",\n")
  | .unresolved _ => []
def updSels (level : Nat) : List PSel → Str
  | [] => []
  | s :: rest => updSel level s ++ updSels level rest
end

/-- `generate_client_selectable_updatable_data_type` -/
def updatableType (level : Nat) (sels : List PSel) : Str :=
  cs!"{\n" ++ updSels (level + 1) sels ++ indent level ++ [125]

mutual
/-- `updatable_fields`: some selection is `@updatable` -/
def PSel.hasUpdatable : PSel → Bool
  | .serverScalar _ _ _ _ u => u
  | .clientScalar .. => false
  | .serverObject _ _ _ u sels => u || PSel.anyUpdatable sels
  | .clientObject _ _ _ _ _ u sels => u || PSel.anyUpdatable sels
  | .unresolved _ => false
def PSel.anyUpdatable : List PSel → Bool
  | [] => false
  | s :: rest => s.hasUpdatable || PSel.anyUpdatable rest
end

mutual
/-- members of `nested_client_scalar_selectable_imports` -/
def PSel.outputImports : PSel → List (Str × Str)
  | .clientScalar _ _ e s _ => [(e, s)]
  | .serverObject _ _ _ _ sels => PSel.outputImportsList sels
  | .clientObject _ _ _ _ _ _ sels => PSel.outputImportsList sels
  | _ => []
def PSel.outputImportsList : List PSel → List (Str × Str)
  | [] => []
  | s :: rest => s.outputImports ++ PSel.outputImportsList rest
end

mutual
/-- members of `loadable_fields` -/
def PSel.loadableImports : PSel → List (Str × Str)
  | .clientScalar _ _ e s (.loadable _) => [(e, s)]
  | .serverObject _ _ _ _ sels => PSel.loadableImportsList sels
  | .clientObject _ _ _ e s _ sels => (e, s) :: PSel.loadableImportsList sels
  | _ => []
def PSel.loadableImportsList : List PSel → List (Str × Str)
  | [] => []
  | s :: rest => s.loadableImports ++ PSel.loadableImportsList rest
end

/-- a `BTreeSet` in the iteration order the hook observed: the observed order restricted to the
computed members, then computed members that were not observed -/
def orderedSet (observed computed : List (Str × Str)) : List (Str × Str) :=
  let mem (xs : List (Str × Str)) (x : Str × Str) := xs.any fun y => y.1 == x.1 && y.2 == x.2
  let extra := computed.filter fun x => !(mem observed x)
  let rec dedup : List (Str × Str) → List (Str × Str) → List (Str × Str)
    | [], acc => acc.reverse
    | x :: rest, acc => if mem acc x then dedup rest acc else dedup rest (x :: acc)
  observed.filter (mem computed) ++ dedup extra []

def outputImportLines (ext : Str) : List (Str × Str) → Str
  | [] => []
  | (e, s) :: rest =>
    cs!"import { type " ++ underscoreSeparated e s ++ cs!"__output_type } from '../../" ++ e ++ [47] ++ s
      ++ cs!"/output_type" ++ ext ++ cs!"';\n" ++ outputImportLines ext rest

def paramImportLines (ext : Str) : List (Str × Str) → Str
  | [] => []
  | (e, s) :: rest =>
    cs!"import { type " ++ underscoreSeparated e s ++ cs!"__param } from '../../" ++ e ++ [47] ++ s
      ++ cs!"/param_type" ++ ext ++ cs!"';\n" ++ paramImportLines ext rest

structure ParamMeta where
  parentType : Str
  fieldName : Str
  ext : Str
  hasVariables : Bool
  sels : List PSel
  observedImports : List (Str × Str)
  observedLoadable : List (Str × Str)
deriving Repr, Inhabited

/-- param_type.ts -/
def paramTypeFile (m : ParamMeta) : Str :=
  let imports := orderedSet m.observedImports (PSel.outputImportsList m.sels)
  let loadable := orderedSet m.observedLoadable (PSel.loadableImportsList m.sels)
  let updatable := PSel.anyUpdatable m.sels
  let readerParamType := m.parentType ++ cs!"__" ++ m.fieldName ++ cs!"__param"
  let parametersTypeName := m.parentType ++ cs!"__" ++ m.fieldName ++ cs!"__parameters"
  outputImportLines m.ext imports
    ++ (if updatable then cs!"import type { StartUpdate } from '@isograph/react';\n" else [])
    ++ (if loadable.isEmpty then [] else
          cs!"import { type LoadableField, type ExtractParameters } from '@isograph/react';\n"
            ++ paramImportLines m.ext loadable)
    ++ (if m.hasVariables then
          cs!"import type { " ++ parametersTypeName ++ cs!" } from './parameters_type" ++ m.ext ++ cs!"';\n"
        else [])
    ++ [10]
    ++ cs!"export type " ++ readerParamType ++ cs!" = {\n"
    ++ cs!"  readonly data: " ++ paramType 1 m.sels ++ cs!",\n"
    ++ cs!"  readonly parameters: " ++ (if m.hasVariables then parametersTypeName else cs!"Record<PropertyKey, never>") ++ cs!",\n"
    ++ (if updatable then cs!"  readonly startUpdate: StartUpdate<" ++ updatableType 1 m.sels ++ cs!">,\n" else [])
    ++ cs!"};\n"

/-! ### wire parser for `P` lines -/

def pDesc : P (Option Str)
  | "d0" :: rest => some (none, rest)
  | "d1" :: rest => (pStr rest).map fun (s, r) => (some s, r)
  | _ => none

def pProvided : P (Str × Bool × Str) := fun ts =>
  match pStr ts with
  | none => none
  | some (n, r1) =>
    match pBool r1 with
    | none => none
    | some (b, r2) => (pStr r2).map fun (t, r) => ((n, b, t), r)

def pPSels : Nat → P (List PSel)
  | 0, _ => none
  | fuel + 1, ts =>
    pSeq (fun ts =>
      match ts with
      | "xx" :: rest => (pStr rest).map fun (n, r) => (PSel.unresolved n, r)
      | "ss" :: rest =>
        match pStr rest with
        | none => none
        | some (n, r1) =>
          match pDesc r1 with
          | none => none
          | some (d, r2) =>
            match pType fuel r2 with
            | none => none
            | some (t, r3) =>
              match pStr r3 with
              | none => none
              | some (it, r4) => (pBool r4).map fun (u, r) => (PSel.serverScalar n d t it u, r)
      | "cs" :: rest =>
        match pStr rest with
        | none => none
        | some (n, r1) =>
          match pDesc r1 with
          | none => none
          | some (d, r2) =>
            match pStr r2 with
            | none => none
            | some (e, r3) =>
              match pStr r3 with
              | none => none
              | some (s, r4) =>
                match r4 with
                | "n" :: r => some (PSel.clientScalar n d e s .none, r)
                | "u" :: r => some (PSel.clientScalar n d e s .updatable, r)
                | "l" :: r5 => (pSeq pProvided r5).map fun (ps, r) => (PSel.clientScalar n d e s (.loadable ps), r)
                | _ => none
      | "so" :: rest =>
        match pStr rest with
        | none => none
        | some (n, r1) =>
          match pDesc r1 with
          | none => none
          | some (d, r2) =>
            match pType fuel r2 with
            | none => none
            | some (t, r3) =>
              match pBool r3 with
              | none => none
              | some (u, r4) => (pPSels fuel r4).map fun (sels, r) => (PSel.serverObject n d t u sels, r)
      | "co" :: rest =>
        match pStr rest with
        | none => none
        | some (n, r1) =>
          match pDesc r1 with
          | none => none
          | some (d, r2) =>
            match pType fuel r2 with
            | none => none
            | some (t, r3) =>
              match pStr r3 with
              | none => none
              | some (e, r4) =>
                match pStr r4 with
                | none => none
                | some (s, r5) =>
                  match pBool r5 with
                  | none => none
                  | some (u, r6) =>
                    (pPSels fuel r6).map fun (sels, r) => (PSel.clientObject n d t e s u sels, r)
      | _ => none) ts

def pPair : P (Str × Str) := fun ts =>
  match pStr ts with
  | none => none
  | some (a, r1) => (pStr r1).map fun (b, r) => ((a, b), r)

end IsoVerif.Core
