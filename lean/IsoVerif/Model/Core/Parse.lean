/-
Small total parsers for the generated formats, used by the oracles on the IMPLEMENTATION's files:
the operation text (query_text.ts), the normalization AST object literal (normalization_ast.ts,
__refetch__N.ts), the raw response type and the parameter type (TypeScript type literals).
They accept exactly what the printers emit; anything else is `none` (reported by the oracle).
-/
import IsoVerif.Model.Core.ParamType

namespace IsoVerif.Core

/-! ### tokens -/

inductive Tok where
  | punct (c : Nat)
  | word (w : Str)
  /-- a double-quoted string: raw characters between the quotes (escapes not interpreted) -/
  | str (raw : Str)
deriving Repr, Inhabited, BEq

def isSpace (c : Nat) : Bool := c == 32 || c == 10 || c == 13 || c == 9

/-- raw body of a string literal up to the closing quote (a backslash protects the next char);
returns (body, rest after the closing quote) -/
def takeString : Nat → Str → Str → Option (Str × Str)
  | 0, _, _ => none
  | _, [], _ => none
  | fuel + 1, c :: rest, acc =>
    if c == 34 then some (acc.reverse, rest)
    else if c == 92 then
      match rest with
      | d :: rest2 => takeString fuel rest2 (d :: c :: acc)
      | [] => none
    else takeString fuel rest (c :: acc)

/-- tokenizer; `punct` is the set of single-character punctuation; `//…` line comments and
`/** … */` comments are skipped when `comments` is set -/
def tokenize (punct : Str) (comments : Bool) : Nat → Str → Str → List Tok → Option (List Tok)
  | 0, _, _, _ => none
  | _, [], w, acc => some ((if w.isEmpty then acc else Tok.word w.reverse :: acc).reverse)
  | fuel + 1, c :: rest, w, acc =>
    let flush (acc : List Tok) := if w.isEmpty then acc else Tok.word w.reverse :: acc
    if comments && c == 47 && rest.head? == some 42 then
      -- skip to the first `*/`
      let rec skip : Nat → Str → Str
        | 0, r => r
        | _, [] => []
        | n + 1, a :: r => if a == 42 && r.head? == some 47 then r.drop 1 else skip n r
      tokenize punct comments fuel (skip rest.length (rest.drop 1)) [] (flush acc)
    else if comments && c == 47 && rest.head? == some 47 then
      tokenize punct comments fuel (rest.dropWhile (· != 10)) [] (flush acc)
    else if isSpace c then tokenize punct comments fuel rest [] (flush acc)
    else if c == 34 then
      match takeString (rest.length + 1) rest [] with
      | some (body, rest2) => tokenize punct comments fuel rest2 [] (Tok.str body :: flush acc)
      | none => none
    else if punct.contains c then tokenize punct comments fuel rest [] (Tok.punct c :: flush acc)
    else tokenize punct comments fuel rest (c :: w) acc

def isDigit (c : Nat) : Bool := 48 ≤ c && c ≤ 57

def parseNat (s : Str) : Option Nat :=
  if s.isEmpty || !(s.all isDigit) then none else some (s.foldl (fun a c => a * 10 + (c - 48)) 0)

/-- a word of the generated texts as a value: integer, float text, `true`/`false`/`null`, else an
enum value -/
def wordValue (w : Str) : Value :=
  if w == cs!"true" then .bool true
  else if w == cs!"false" then .bool false
  else if w == cs!"null" then .null
  else
    let (neg, body) := match w with
      | 45 :: b => (true, b)
      | b => (false, b)
    match parseNat body with
    | some n => .int (if neg then -(n : Int) else n)
    | none =>
      if (match body with | d :: _ => isDigit d | [] => false) then .float w else .enum w

/-! ### structural equality of values -/

mutual
def Value.beq : Value → Value → Bool
  | .var a, .var b => a == b
  | .int a, .int b => a == b
  | .bool a, .bool b => a == b
  | .str a, .str b => a == b
  | .float a, .float b => a == b
  | .null, .null => true
  | .enum a, .enum b => a == b
  | .list a, .list b => Value.beqList a b
  | .obj a, .obj b => Value.beqFields a b
  | _, _ => false
def Value.beqList : List Value → List Value → Bool
  | [], [] => true
  | x :: xs, y :: ys => x.beq y && Value.beqList xs ys
  | _, _ => false
def Value.beqFields : List (Str × Value) → List (Str × Value) → Bool
  | [], [] => true
  | (k, x) :: xs, (l, y) :: ys => k == l && x.beq y && Value.beqFields xs ys
  | _, _ => false
end

def argsBeq (a b : Args) : Bool := Value.beqFields a b

/-! ### operation text -/

/-- a selection as written in the operation text -/
inductive QNode where
  | field (alias : Option Str) (name : Str) (args : Args) (kids : Option (List QNode))
  | frag (ty : Str) (kids : List QNode)
deriving Repr, Inhabited

def gqlPunct : Str := cs!"{}():,$"

abbrev TP (α : Type) := List Tok → Option (α × List Tok)

def gqlValueP : Nat → TP Value
  | 0, _ => none
  | fuel + 1, ts =>
    match ts with
    | .punct 36 :: .word w :: rest => some (.var w, rest)
    | .str s :: rest => some (.str s, rest)
    | .word w :: rest => some (wordValue w, rest)
    | .punct 123 :: rest =>
      -- `{ k: v, k: v }`
      let rec fields : Nat → List Tok → List (Str × Value) → Option (List (Str × Value) × List Tok)
        | 0, _, _ => none
        | n + 1, ts, acc =>
          match ts with
          | .punct 125 :: rest => some (acc.reverse, rest)
          | .punct 44 :: rest => fields n rest acc
          | .word k :: .punct 58 :: rest =>
            match gqlValueP fuel rest with
            | some (v, rest2) => fields n rest2 ((k, v) :: acc)
            | none => none
          | _ => none
      (fields (rest.length + 1) rest []).map fun (fs, r) => (.obj fs, r)
    | _ => none

/-- `(k: v, k: v)` -/
def gqlArgsP (fuel : Nat) : TP Args := fun ts =>
  match ts with
  | .punct 40 :: rest =>
    let rec go : Nat → List Tok → Args → Option (Args × List Tok)
      | 0, _, _ => none
      | n + 1, ts, acc =>
        match ts with
        | .punct 41 :: rest => some (acc.reverse, rest)
        | .punct 44 :: rest => go n rest acc
        | .word k :: .punct 58 :: rest =>
          match gqlValueP fuel rest with
          | some (v, rest2) => go n rest2 ((k, v) :: acc)
          | none => none
        | _ => none
    go (rest.length + 1) rest []
  | _ => some ([], ts)

/-- selections up to the closing `}` (consumed) -/
def gqlSelections : Nat → List Tok → List QNode → Option (List QNode × List Tok)
  | 0, _, _ => none
  | fuel + 1, ts, acc =>
    match ts with
    | .punct 125 :: rest => some (acc.reverse, rest)
    | .punct 44 :: rest => gqlSelections fuel rest acc
    | .word w :: rest =>
      if w == cs!"..." then
        match rest with
        | .word on :: .word ty :: .punct 123 :: rest2 =>
          if on != cs!"on" then none else
          match gqlSelections fuel rest2 [] with
          | some (kids, rest3) => gqlSelections fuel rest3 (.frag ty kids :: acc)
          | none => none
        | _ => none
      else
        -- [alias ':'] name [args] ['{' … '}']
        let (alias, name, rest1) : Option Str × Str × List Tok :=
          match rest with
          | .punct 58 :: .word n :: r => (some w, n, r)
          | r => (none, w, r)
        match gqlArgsP fuel rest1 with
        | none => none
        | some (args, rest2) =>
          match rest2 with
          | .punct 123 :: rest3 =>
            match gqlSelections fuel rest3 [] with
            | some (kids, rest4) => gqlSelections fuel rest4 (.field alias name args (some kids) :: acc)
            | none => none
          | _ => gqlSelections fuel rest2 (.field alias name args none :: acc)
    | _ => none

/-- the text between `export default '` and the final `';` -/
def embeddedText (file : Str) : Option Str :=
  let marker := cs!"export default '"
  let rec find : Nat → Str → Option Str
    | 0, _ => none
    | _, [] => none
    | n + 1, s => if marker.isPrefixOf s then some (s.drop marker.length) else find n (s.drop 1)
  match find (file.length + 1) file with
  | none => none
  | some body =>
    let r := body.reverse
    match r with
    | 59 :: 39 :: rest => some rest.reverse
    | _ => none

/-- drop the `\`+LF line continuations of the embedded pretty text -/
def dropContinuations : Str → Str
  | [] => []
  | 92 :: 10 :: rest => dropContinuations rest
  | c :: rest => c :: dropContinuations rest

structure ParsedOperation where
  kind : Str
  name : Str
  /-- the tokens of the variable definitions, unparsed -/
  hasVariables : Bool
  selections : List QNode
deriving Repr, Inhabited

/-- parse a GraphQL operation as the compiler writes it -/
def parseOperation (text : Str) : Option ParsedOperation :=
  match tokenize gqlPunct false (text.length + 1) text [] [] with
  | none => none
  | some toks =>
    match toks with
    | .word kind :: .word name :: rest =>
      -- skip the variable definitions `( … )`
      let (hasVars, rest1) : Bool × List Tok :=
        match rest with
        | .punct 40 :: r => (true, (r.dropWhile (· != Tok.punct 41)).drop 1)
        | r => (false, r)
      match rest1 with
      | .punct 123 :: rest2 =>
        match gqlSelections (rest2.length + 1) rest2 [] with
        | some (sels, []) => some ⟨kind, name, hasVars, sels⟩
        | _ => none
      | _ => none
    | _ => none

/-- query_text.ts → operation: the JavaScript value of the embedded literal is the document -/
def parseQueryTextFile (file : Str) : Option ParsedOperation :=
  (embeddedText file).bind fun t => (jsSingleQuotedValue t).bind parseOperation

/-! ### object literals of the normalization AST -/

inductive JsVal where
  | obj (fields : List (Str × JsVal))
  | arr (items : List JsVal)
  | str (raw : Str)
  | lit (w : Str)
deriving Repr, Inhabited

def tsPunct : Str := cs!"{}()[]<>:,|?;="

def jsValP : Nat → TP JsVal
  | 0, _ => none
  | fuel + 1, ts =>
    match ts with
    | .str s :: rest => some (.str s, rest)
    | .word w :: rest => some (.lit w, rest)
    | .punct 91 :: rest =>
      let rec items : Nat → List Tok → List JsVal → Option (List JsVal × List Tok)
        | 0, _, _ => none
        | n + 1, ts, acc =>
          match ts with
          | .punct 93 :: rest => some (acc.reverse, rest)
          | .punct 44 :: rest => items n rest acc
          | ts =>
            match jsValP fuel ts with
            | some (v, rest2) => items n rest2 (v :: acc)
            | none => none
      (items (rest.length + 1) rest []).map fun (xs, r) => (.arr xs, r)
    | .punct 123 :: rest =>
      let rec fields : Nat → List Tok → List (Str × JsVal) → Option (List (Str × JsVal) × List Tok)
        | 0, _, _ => none
        | n + 1, ts, acc =>
          match ts with
          | .punct 125 :: rest => some (acc.reverse, rest)
          | .punct 44 :: rest => fields n rest acc
          | .word k :: .punct 58 :: rest =>
            match jsValP fuel rest with
            | some (v, rest2) => fields n rest2 ((k, v) :: acc)
            | none => none
          | _ => none
      (fields (rest.length + 1) rest []).map fun (fs, r) => (.obj fs, r)
    | _ => none

def JsVal.get (v : JsVal) (key : Str) : Option JsVal :=
  match v with
  | .obj fields => (fields.find? fun f => f.1 == key).map (·.2)
  | _ => none

/-- an argument value of the normalization AST (`{ kind: …, value/name: … }`) as a `Value`
(string contents raw, as written) -/
def jsArgValue : Nat → JsVal → Option Value
  | 0, _ => none
  | fuel + 1, v =>
    match v.get cs!"kind" with
    | some (.str k) =>
      if k == cs!"Variable" then
        match v.get cs!"name" with | some (.str n) => some (.var n) | _ => none
      else if k == cs!"Literal" then
        match v.get cs!"value" with | some (.lit w) => some (wordValue w) | _ => none
      else if k == cs!"String" then
        match v.get cs!"value" with | some (.str s) => some (.str s) | _ => none
      else if k == cs!"Enum" then
        match v.get cs!"value" with | some (.str s) => some (.enum s) | _ => none
      else if k == cs!"Object" then
        match v.get cs!"value" with
        | some (.arr items) =>
          let rec go : List JsVal → Option (List (Str × Value))
            | [] => some []
            | .arr [.str name, inner] :: rest =>
              match jsArgValue fuel inner, go rest with
              | some x, some xs => some ((name, x) :: xs)
              | _, _ => none
            | _ => none
          (go items).map .obj
        | _ => none
      else none
    | _ => none

def normArgsOf (v : JsVal) : Option Args :=
  match v with
  | .lit w => if w == cs!"null" then some [] else none
  | .arr items =>
    let rec go : List JsVal → Option Args
      | [] => some []
      | .arr [.str name, inner] :: rest =>
        match jsArgValue 64 inner, go rest with
        | some x, some xs => some ((name, x) :: xs)
        | _, _ => none
      | _ => none
    go items
  | _ => none

/-- normalization AST nodes from the parsed `selections` array -/
def jsNodes : Nat → List JsVal → Option (List NTree)
  | 0, _ => none
  | _, [] => some []
  | fuel + 1, v :: rest =>
    let node : Option NTree :=
      match v.get cs!"kind" with
      | some (.str k) =>
        if k == cs!"Scalar" then
          match v.get cs!"isFallible", v.get cs!"fieldName", (v.get cs!"arguments").bind normArgsOf with
          | some (.lit f), some (.str n), some a => some (.scalar (f == cs!"true") n a)
          | _, _, _ => none
        else if k == cs!"Linked" then
          match v.get cs!"isFallible", v.get cs!"fieldName", (v.get cs!"arguments").bind normArgsOf,
                v.get cs!"concreteType", v.get cs!"selections" with
          | some (.lit f), some (.str n), some a, some c, some (.arr kids) =>
            let conc : Option Conc := match c with
              | .str t => some (.concrete t)
              | .lit w => if w == cs!"null" then some .abstract else none
              | _ => none
            match conc, jsNodes fuel kids with
            | some c, some ks => some (.linked (f == cs!"true") n a c ks)
            | _, _ => none
          | _, _, _, _, _ => none
        else if k == cs!"InlineFragment" then
          match v.get cs!"type", v.get cs!"selections" with
          | some (.str t), some (.arr kids) => (jsNodes fuel kids).map fun ks => .frag t ks
          | _, _ => none
        else none
      | _ => none
    match node, jsNodes fuel rest with
    | some n, some ns => some (n :: ns)
    | _, _ => none

/-- the text after the first occurrence of `marker` -/
def afterMarker (marker : Str) : Nat → Str → Option Str
  | 0, _ => none
  | _, [] => none
  | n + 1, s => if marker.isPrefixOf s then some (s.drop marker.length) else afterMarker marker n (s.drop 1)

/-- normalization_ast.ts / __refetch__N.ts → the nodes of `normalizationAst.selections` -/
def parseNormAstFile (file : Str) : Option (List NTree) :=
  match afterMarker cs!"kind: \"NormalizationAst\",\n  selections: " (file.length + 1) file with
  | none => none
  | some rest =>
    match tokenize tsPunct true (rest.length + 1) rest [] [] with
    | none => none
    | some toks =>
      match jsValP (toks.length + 1) toks with
      | some (.arr items, _) => jsNodes (toks.length + 1) items
      | _ => none

/-! ### TypeScript type literals (raw response type, parameter type) -/

/-- a property of an object type: key, `?`, the wrappers around the innermost type and, when the
innermost type is an object type, its alternatives -/
inductive TProp where
  | mk (key : Str) (optional : Bool) (readonly : Bool) (shape : TyShape) (alts : Option (List (List TProp)))
deriving Repr, Inhabited

/-- after a leaf type: further members `| "B"` / `| number` of a union of leaf types (inner text
of a scalar such as `"BlogItem" | "AdItem"`); a `| null` that closes a parenthesis is left alone -/
def skipLeafUnion : Nat → List Tok → List Tok
  | 0, ts => ts
  | fuel + 1, ts =>
    match ts with
    | .punct 124 :: .str _ :: rest => skipLeafUnion fuel rest
    | .punct 124 :: .word w :: rest =>
      if w == cs!"null" && rest.head? == some (Tok.punct 41) then ts else skipLeafUnion fuel rest
    | ts => ts

mutual
/-- a type: returns (shape, object alternatives of the innermost type) -/
def tsTypeP : Nat → TP (TyShape × Option (List (List TProp)))
  | 0, _ => none
  | fuel + 1, ts =>
    match ts with
    | .punct 40 :: rest =>
      -- `( T | null )` or `( T )`
      match tsTypeP fuel rest with
      | none => none
      | some ((shape, alts), rest1) =>
        match rest1 with
        | .punct 124 :: .word w :: .punct 41 :: rest2 =>
          if w == cs!"null" then some ((.nullable shape, alts), rest2) else none
        | .punct 41 :: rest2 => some ((shape, alts), rest2)
        | _ => none
    | .word w :: .punct 60 :: rest =>
      if w == cs!"ReadonlyArray" then
        match tsTypeP fuel rest with
        | some ((shape, alts), .punct 62 :: rest1) => some ((.list shape, alts), rest1)
        | _ => none
      else
        -- some other generic: skip the balanced `<…>`
        let rec skip : Nat → Nat → List Tok → Option (List Tok)
          | 0, _, _ => none
          | _, _, [] => none
          | n + 1, depth, t :: r =>
            if t == Tok.punct 60 then skip n (depth + 1) r
            else if t == Tok.punct 62 then (if depth == 0 then some r else skip n (depth - 1) r)
            else skip n depth r
        (skip (rest.length + 1) 0 rest).map fun r => ((.leaf, none), r)
    | .punct 123 :: rest =>
      -- `{ props } [| { props }]*`
      match tsPropsP fuel rest [] with
      | none => none
      | some (props, rest1) =>
        (tsAltsP fuel rest1 [props]).map fun (alts, r) => ((.leaf, some alts), r)
    | .word _ :: rest => some ((.leaf, none), skipLeafUnion rest.length rest)
    | .str _ :: rest => some ((.leaf, none), skipLeafUnion rest.length rest)
    | _ => none
/-- further alternatives `| { props }` -/
def tsAltsP : Nat → List Tok → List (List TProp) → Option (List (List TProp) × List Tok)
  | 0, ts, acc => some (acc.reverse, ts)
  | fuel + 1, ts, acc =>
    match ts with
    | .punct 124 :: .punct 123 :: r =>
      match tsPropsP fuel r [] with
      | some (ps, r2) => tsAltsP fuel r2 (ps :: acc)
      | none => none
    | ts => some (acc.reverse, ts)
/-- properties up to the closing `}` (consumed) -/
def tsPropsP : Nat → List Tok → List TProp → Option (List TProp × List Tok)
  | 0, _, _ => none
  | fuel + 1, ts, acc =>
    match ts with
    | .punct 125 :: rest => some (acc.reverse, rest)
    | .punct 44 :: rest => tsPropsP fuel rest acc
    | .word w :: rest =>
      let (ro, key, rest1) : Bool × Str × List Tok :=
        if w == cs!"readonly" then
          match rest with
          | .word k :: r => (true, k, r)
          | r => (true, [], r)
        else (false, w, rest)
      let (opt, rest2) : Bool × List Tok :=
        match rest1 with
        | .punct 63 :: r => (true, r)
        | r => (false, r)
      match rest2 with
      | .punct 58 :: rest3 =>
        match tsTypeP fuel rest3 with
        | some ((shape, alts), rest4) => tsPropsP fuel rest4 (.mk key opt ro shape alts :: acc)
        | none => none
      | _ => none
    | _ => none
end

/-- `export type X = <type>` → the alternatives of the object type -/
def parseTypeAfter (marker : Str) (file : Str) : Option (List (List TProp)) :=
  match afterMarker marker (file.length + 1) file with
  | none => none
  | some rest =>
    match tokenize tsPunct true (rest.length + 1) rest [] [] with
    | none => none
    | some toks =>
      match tsTypeP (toks.length + 1) toks with
      | some ((_, some alts), _) => some alts
      | _ => none

/-- raw_response_type.ts -/
def parseRawResponseFile (file : Str) : Option (List (List TProp)) :=
  parseTypeAfter cs!"__raw_response_type = " file

/-- param_type.ts: the type of `readonly data:` -/
def parseParamTypeFile (file : Str) : Option (List TProp) :=
  match parseTypeAfter cs!"readonly data: " file with
  | some [props] => some props
  | _ => none

end IsoVerif.Core
