/-
M-CORE / raw response type: crates/artifact_content/src/raw_response_type.rs
(`generate_raw_response_type`, `generate_raw_response_type_inner`) and
`print_javascript_type_declaration` (generate_artifacts.rs).

The control flow of the Rust function (split into inline fragments and the rest, one alternative
per fragment over `rest.extend(fragment.selection_map)`, schema look-ups with their `expect`s) is
`rawAlts`, which builds the abstract tree of the type; `renderAlts` writes it down with the
`format!`s of the Rust code, and `printRawResponseType = render ∘ rawAlts`.

Schema facts come from the dump hook as a table `(entity, field) ↦ (scalar?, type, inner text)`.
`BTreeMap` insertion uses the key ranks (see `Key.rank`).  The recursion through
`combined_selection_map` is not structural, hence the fuel (`SelMap.size m + 1` is enough).
-/
import IsoVerif.Model.Core.Persisted

namespace IsoVerif.Core

structure SchemaEntry where
  entity : Str
  field : Str
  isScalar : Bool
  /-- object-typed field whose target entity is concrete -/
  targetConcrete : Bool
  ty : TypeAnn
  /-- `get_inner_text_for_selectable` (scalars only) -/
  innerText : Str
deriving Repr, Inhabited

abbrev Schema := List SchemaEntry

/-- `flattened_selectable_named(db, entity, field)` -/
def Schema.lookup (s : Schema) (entity field : Str) : Option SchemaEntry :=
  s.find? fun e => e.entity == entity && e.field == field

/-- `TypeAnnotationDeclaration::is_nullable` -/
def TypeAnn.isNullable : TypeAnn → Bool
  | .union nullable _ => nullable
  | _ => false

mutual
/-- `TypeAnnotationDeclaration::inner` (= `inner_non_null`); `none` = panic on an empty union -/
def TypeAnn.inner : TypeAnn → Option Str
  | .scalar name => some name
  | .plural t => t.inner
  | .union _ variants => TypeAnn.innerFirst variants
def TypeAnn.innerFirst : List TypeAnn → Option Str
  | [] => none
  | t :: _ => t.inner
end

mutual
/-- `print_javascript_type_declaration_impl` (an empty union prints nothing: it panics) -/
def jsType (innerText : Str) : TypeAnn → Str
  | .scalar _ => innerText
  | .plural t => cs!"ReadonlyArray<" ++ jsType innerText t ++ [62]
  | .union nullable variants =>
    if variants.length > 1 || nullable then
      [40] ++ joinStr cs!" | " (jsVariants innerText variants) ++ (if nullable then cs!" | null" else []) ++ [41]
    else joinStr [] (jsVariants innerText variants)
def jsVariants (innerText : Str) : List TypeAnn → List Str
  | [] => []
  | .scalar _ :: rest => innerText :: jsVariants innerText rest
  | .plural t :: rest => (cs!"ReadonlyArray<" ++ jsType innerText t ++ [62]) :: jsVariants innerText rest
  | .union n vs :: rest => jsType innerText (.union n vs) :: jsVariants innerText rest
end

mutual
/-- does `print_javascript_type_declaration` panic (`"Unexpected union with not enough variants."`)? -/
def TypeAnn.hasEmptyUnion : TypeAnn → Bool
  | .scalar _ => false
  | .plural t => t.hasEmptyUnion
  | .union _ variants => variants.isEmpty || TypeAnn.anyEmptyUnion variants
def TypeAnn.anyEmptyUnion : List TypeAnn → Bool
  | [] => false
  | t :: rest => t.hasEmptyUnion || TypeAnn.anyEmptyUnion rest
end

/-- the list structure of a type: number of `ReadonlyArray` wrappers around the entity
(first variant of every union) -/
def TypeAnn.listDepth : TypeAnn → Nat
  | .scalar _ => 0
  | .plural t => t.listDepth + 1
  | .union _ (.plural t :: _) => t.listDepth + 1
  | .union _ _ => 0

/-- abstract tree of a raw response type: properties; an object property holds the alternatives
(`{..} | {..}`) of its type -/
inductive RTree where
  | scalar (key : Str) (ty : TypeAnn) (innerText : Str)
  | object (key : Str) (ty : TypeAnn) (alts : List (List RTree))
deriving Repr, Inhabited

inductive RawRes (α : Type) where
  | ok (a : α)
  | panic (site : Str)
  | outOfFuel
deriving Repr, Inhabited

mutual
def Sel.size : Sel → Nat
  | .scalar .. => 1
  | .linked _ _ _ _ map => 1 + SelMap.size map
  | .clientObj _ _ _ _ map => 1 + SelMap.size map
  | .frag _ map => 1 + SelMap.size map
def SelMap.size : SelMap → Nat
  | [] => 0
  | (_, s) :: rest => s.size + SelMap.size rest
end

def Sel.isFrag : Sel → Bool
  | .frag .. => true
  | _ => false

/-- `BTreeMap::insert` by key rank -/
def insertByRank (e : Key × Sel) : SelMap → SelMap
  | [] => [e]
  | x :: rest =>
    if e.1.rank == x.1.rank then e :: rest
    else if e.1.rank < x.1.rank then e :: x :: rest
    else x :: insertByRank e rest

/-- `combined_selection_map.extend(inline_fragment.selection_map.clone())` -/
def extendMap (base : SelMap) (extra : SelMap) : SelMap := extra.foldl (fun acc e => insertByRank e acc) base

/-- the `inline_fragments` map: `(type_to_refine_to, selection_map)`, a later entry for the same
type replaces the earlier one (`BTreeMap::insert`) -/
def collectFrags : SelMap → List (Str × SelMap)
  | [] => []
  | (_, .frag ty map) :: rest => (ty, map) :: (collectFrags rest).filter (fun e => e.1 != ty)
  | _ :: rest => collectFrags rest

/-- the `rest` map -/
def restOf (m : SelMap) : SelMap := m.filter fun e => !e.2.isFrag

/-- the loop over `rest.values()` when there is no inline fragment; `rec` is the recursive call
for the selection map of a linked field -/
def rawFields (rec : Str → SelMap → RawRes (List (List RTree))) (schema : Schema) (parent : Str) :
    SelMap → RawRes (List RTree)
  | [] => .ok []
  | (_, sel) :: rest =>
    let tail := rawFields rec schema parent rest
    match sel with
    | .scalar _ name args =>
      match schema.lookup parent name with
      | none => .panic cs!"expect_selectable_to_exist"
      | some e =>
        if !e.isScalar then .panic cs!"Expected scalar entity to be scalar"
        else if e.ty.hasEmptyUnion then .panic cs!"Unexpected union with not enough variants."
        else if argsHaveList args then .panic cs!"Lists are not supported here"
        else match tail with
          | .ok ts => .ok (.scalar (responseKeyT name args) e.ty e.innerText :: ts)
          | other => other
    | .linked _ name args _ map =>
      match schema.lookup parent name with
      | none => .panic cs!"expect_selectable_to_exist"
      | some e =>
        match e.ty.inner with
        | none => .panic cs!"Expected self.variants to not be empty"
        | some nested =>
          if e.ty.hasEmptyUnion then .panic cs!"Unexpected union with not enough variants."
          else if argsHaveList args then .panic cs!"Lists are not supported here"
          else match rec nested map with
            | .ok alts =>
              match tail with
              | .ok ts => .ok (.object (responseKeyT name args) e.ty alts :: ts)
              | other => other
            | .panic s => .panic s
            | .outOfFuel => .outOfFuel
    | _ => tail

/-- one alternative per inline fragment: `generate_raw_response_type_inner(type, rest ∪ fragment)` -/
def rawFragAlts (rec : Str → SelMap → RawRes (List (List RTree))) (rest : SelMap) :
    List (Str × SelMap) → RawRes (List (List RTree))
  | [] => .ok []
  | (ty, map) :: more =>
    match rec ty (extendMap rest map) with
    | .ok alts =>
      match rawFragAlts rec rest more with
      | .ok others => .ok (alts ++ others)
      | other => other
    | other => other

/-- `generate_raw_response_type_inner`: the alternatives of the object type -/
def rawAlts (schema : Schema) : Nat → Str → SelMap → RawRes (List (List RTree))
  | 0, _, _ => .outOfFuel
  | fuel + 1, parent, m =>
    let frags := collectFrags m
    let rest := restOf m
    if frags.isEmpty then
      match rawFields (rawAlts schema fuel) schema parent rest with
      | .ok props => .ok [props]
      | .panic s => .panic s
      | .outOfFuel => .outOfFuel
    else rawFragAlts (rawAlts schema fuel) rest frags

mutual
def renderProp (level : Nat) : RTree → Str
  | .scalar key ty innerText =>
    indent level ++ key ++ (if ty.isNullable then [63] else []) ++ cs!": " ++ jsType innerText ty ++ cs!",\n"
  | .object key ty alts =>
    indent level ++ key ++ (if ty.isNullable then [63] else []) ++ cs!": "
      ++ jsType (cs!"{\n" ++ renderAltList (level + 1) alts ++ indent level ++ [125]) ty ++ cs!",\n"
def renderProps (level : Nat) : List RTree → Str
  | [] => []
  | p :: rest => renderProp level p ++ renderProps level rest
/-- alternatives separated by `{indent(level-1)}} | {\n` -/
def renderAltList (level : Nat) : List (List RTree) → Str
  | [] => []
  | [a] => renderProps level a
  | a :: b :: rest => renderProps level a ++ indent (level - 1) ++ cs!"} | {\n" ++ renderAltList level (b :: rest)
end

/-- `generate_raw_response_type(db, parent, selection_map, 0)` -/
def printRawResponseType (schema : Schema) (parent : Str) (m : SelMap) : RawRes Str :=
  match rawAlts schema (SelMap.size m + 1) parent m with
  | .ok alts => .ok (cs!"{\n" ++ renderAltList 1 alts ++ cs!"}\n")
  | .panic s => .panic s
  | .outOfFuel => .outOfFuel

end IsoVerif.Core
