/-
M-CORE / raw response type: crates/artifact_content/src/raw_response_type.rs
(`generate_raw_response_type`, `generate_raw_response_type_inner`) and
`print_javascript_type_declaration` (generate_artifacts.rs).

The control flow of the Rust function (split into inline fragments and the rest, one alternative
per fragment over `rest.extend(fragment.selection_map)`, schema look-ups with their `expect`s) is
`rawAlts`, which builds the abstract tree of the type; `renderAlts` writes it down with the
`format!`s of the Rust code, and `printRawResponseType = render ∘ rawAlts`.

Schema facts come from the dump hook as a table `(entity, field) ↦ (scalar?, type, inner text)`.
`BTreeMap` insertion uses the key ranks (see `Key.rank`).  The recursion through
`combined_selection_map` is not structural, hence the fuel (`SelMap.size m + 1` is enough).
-/
import IsoVerif.Model.Core.Persisted

namespace IsoVerif.Core

structure SchemaEntry where
  entity : Str
  field : Str
  isScalar : Bool
  /-- object-typed field whose target entity is concrete -/
  targetConcrete : Bool
  ty : TypeAnn
  /-- `get_inner_text_for_selectable` (scalars only) -/
  innerText : Str
deriving Repr, Inhabited

abbrev Schema := List SchemaEntry

/-- `flattened_selectable_named(db, entity, field)` -/
def Schema.lookup (s : Schema) (entity field : Str) : Option SchemaEntry :=
  s.find? fun e => e.entity == entity && e.field == field

/-- `TypeAnnotationDeclaration::is_nullable` -/
def TypeAnn.isNullable : TypeAnn → Bool
  | .union nullable _ => nullable
  | _ => false

mutual
/-- `TypeAnnotationDeclaration::inner` (= `inner_non_null`); `none` = panic on an empty union -/
def TypeAnn.inner : TypeAnn → Option Str
  | .scalar name => some name
  | .plural t => t.inner
  | .union _ variants => TypeAnn.innerFirst variants
def TypeAnn.innerFirst : List TypeAnn → Option Str
  | [] => none
  | t :: _ => t.inner
end

mutual
/-- `print_javascript_type_declaration_impl` (an empty union prints nothing: it panics) -/
def jsType (innerText : Str) : TypeAnn → Str
  | .scalar _ => innerText
  | .plural t => cs!"ReadonlyArray<" ++ jsType innerText t ++ [62]
  | .union nullable variants =>
    if variants.length > 1 || nullable then
      [40] ++ joinStr cs!" | " (jsVariants innerText variants) ++ (if nullable then cs!" | null" else []) ++ [41]
    else joinStr [] (jsVariants innerText variants)
def jsVariants (innerText : Str) : List TypeAnn → List Str
  | [] => []
  | .scalar _ :: rest => innerText :: jsVariants innerText rest
  | .plural t :: rest => (cs!"ReadonlyArray<" ++ jsType innerText t ++ [62]) :: jsVariants innerText rest
  | .union n vs :: rest => jsType innerText (.union n vs) :: jsVariants innerText rest
end

mutual
/-- does `print_javascript_type_declaration` panic (`"Unexpected union with not enough variants."`)? -/
def TypeAnn.hasEmptyUnion : TypeAnn → Bool
  | .scalar _ => false
  | .plural t => t.hasEmptyUnion
  | .union _ variants => variants.isEmpty || TypeAnn.anyEmptyUnion variants
def TypeAnn.anyEmptyUnion : List TypeAnn → Bool
  | [] => false
  | t :: rest => t.hasEmptyUnion || TypeAnn.anyEmptyUnion rest
end

/-- the list structure of a type: number of `ReadonlyArray` wrappers around the entity
(first variant of every union) -/
def TypeAnn.listDepth : TypeAnn → Nat
  | .scalar _ => 0
  | .plural t => t.listDepth + 1
  | .union _ (.plural t :: _) => t.listDepth + 1
  | .union _ _ => 0

/-- abstract tree of a raw response type: properties; an object property holds the alternatives
(`{..} | {..}`) of its type -/
inductive RTree where
  | scalar (key : Str) (ty : TypeAnn) (innerText : Str)
  | object (key : Str) (ty : TypeAnn) (alts : List (List RTree))
deriving Repr, Inhabited

inductive RawRes (α : Type) where
  | ok (a : α)
  | panic (site : Str)
  | outOfFuel
deriving Repr, Inhabited

mutual
def Sel.size : Sel → Nat
  | .scalar .. => 1
  | .linked _ _ _ _ map => 1 + SelMap.size map
  | .clientObj _ _ _ _ map => 1 + SelMap.size map
  | .frag _ map => 1 + SelMap.size map
def SelMap.size : SelMap → Nat
  | [] => 0
  | (_, s) :: rest => s.size + SelMap.size rest
end

def Sel.isFrag : Sel → Bool
  | .frag .. => true
  | _ => false

/-- `BTreeMap::insert` by key rank -/
def insertByRank (e : Key × Sel) : SelMap → SelMap
  | [] => [e]
  | x :: rest =>
    if e.1.rank == x.1.rank then e :: rest
    else if e.1.rank < x.1.rank then e :: x :: rest
    else x :: insertByRank e rest

/-- `combined_selection_map.extend(inline_fragment.selection_map.clone())` -/
def extendMap (base : SelMap) (extra : SelMap) : SelMap := extra.foldl (fun acc e => insertByRank e acc) base

/-- the `inline_fragments` map: `(type_to_refine_to, selection_map)`, a later entry for the same
type replaces the earlier one (`BTreeMap::insert`) -/
def collectFrags : SelMap → List (Str × SelMap)
  | [] => []
  | (_, .frag ty map) :: rest => (ty, map) :: (collectFrags rest).filter (fun e => e.1 != ty)
  | _ :: rest => collectFrags rest

/-- the `rest` map -/
def restOf (m : SelMap) : SelMap := m.filter fun e => !e.2.isFrag

/-- the loop over `rest.values()` when there is no inline fragment; `rec` is the recursive call
for the selection map of a linked field -/
def rawFields (rec : Str → SelMap → RawRes (List (List RTree))) (schema : Schema) (parent : Str) :
    SelMap → RawRes (List RTree)
  | [] => .ok []
  | (_, sel) :: rest =>
    let tail := rawFields rec schema parent rest
    match sel with
    | .scalar _ name args =>
      match schema.lookup parent name with
      | none => .panic cs!"expect_selectable_to_exist"
      | some e =>
        if !e.isScalar then .panic cs!"Expected scalar entity to be scalar"
        else if e.ty.hasEmptyUnion then .panic cs!"Unexpected union with not enough variants."
        else if argsHaveList args then .panic cs!"Lists are not supported here"
        else match tail with
          | .ok ts => .ok (.scalar (responseKeyT name args) e.ty e.innerText :: ts)
          | other => other
    | .linked _ name args _ map =>
      match schema.lookup parent name with
      | none => .panic cs!"expect_selectable_to_exist"
      | some e =>
        match e.ty.inner with
        | none => .panic cs!"Expected self.variants to not be empty"
        | some nested =>
          if e.ty.hasEmptyUnion then .panic cs!"Unexpected union with not enough variants."
          else if argsHaveList args then .panic cs!"Lists are not supported here"
          else match rec nested map with
            | .ok alts =>
              match tail with
              | .ok ts => .ok (.object (responseKeyT name args) e.ty alts :: ts)
              | other => other
            | .panic s => .panic s
            | .outOfFuel => .outOfFuel
    | _ => tail

/-- one alternative per inline fragment: `generate_raw_response_type_inner(type, rest ∪ fragment)` -/
def rawFragAlts (rec : Str → SelMap → RawRes (List (List RTree))) (rest : SelMap) :
    List (Str × SelMap) → RawRes (List (List RTree))
  | [] => .ok []
  | (ty, map) :: more =>
    match rec ty (extendMap rest map) with
    | .ok alts =>
      match rawFragAlts rec rest more with
      | .ok others => .ok (alts ++ others)
      | other => other
    | other => other

/-- `generate_raw_response_type_inner`: the alternatives of the object type -/
def rawAlts (schema : Schema) : Nat → Str → SelMap → RawRes (List (List RTree))
  | 0, _, _ => .outOfFuel
  | fuel + 1, parent, m =>
    let frags := collectFrags m
    let rest := restOf m
    if frags.isEmpty then
      match rawFields (rawAlts schema fuel) schema parent rest with
      | .ok props => .ok [props]
      | .panic s => .panic s
      | .outOfFuel => .outOfFuel
    else rawFragAlts (rawAlts schema fuel) rest frags

mutual
def renderProp (level : Nat) : RTree → Str
  | .scalar key ty innerText =>
    indent level ++ key ++ (if ty.isNullable then [63] else []) ++ cs!": " ++ jsType innerText ty ++ cs!",\n"
  | .object key ty alts =>
    indent level ++ key ++ (if ty.isNullable then [63] else []) ++ cs!": "
      ++ jsType (cs!"{\n" ++ renderAltList (level + 1) alts ++ indent level ++ [125]) ty ++ cs!",\n"
def renderProps (level : Nat) : List RTree → Str
  | [] => []
  | p :: rest => renderProp level p ++ renderProps level rest
/-- alternatives separated by `{indent(level-1)}} | {\n` -/
def renderAltList (level : Nat) : List (List RTree) → Str
  | [] => []
  | [a] => renderProps level a
  | a :: b :: rest => renderProps level a ++ indent (level - 1) ++ cs!"} | {\n" ++ renderAltList level (b :: rest)
end

/-- `generate_raw_response_type(db, parent, selection_map, 0)` -/
def printRawResponseType (schema : Schema) (parent : Str) (m : SelMap) : RawRes Str :=
  match rawAlts schema (SelMap.size m + 1) parent m with
  | .ok alts => .ok (cs!"{\n" ++ renderAltList 1 alts ++ cs!"}\n")
  | .panic s => .panic s
  | .outOfFuel => .outOfFuel

/-! ### what the type says, and what the operation needs it to say (C27) -/

/-- nullable / list structure of a type -/
inductive TyShape where
  | leaf
  | nullable (inner : TyShape)
  | list (inner : TyShape)
deriving Repr, Inhabited, BEq, DecidableEq

mutual
/-- nullable / list structure of a schema type (first variant of a union) -/
def TypeAnn.shape : TypeAnn → TyShape
  | .scalar _ => .leaf
  | .plural t => .list t.shape
  | .union nullable variants =>
    if nullable then .nullable (TypeAnn.firstShape variants) else TypeAnn.firstShape variants
def TypeAnn.firstShape : List TypeAnn → TyShape
  | [] => .leaf
  | t :: _ => t.shape
end

/-- the TypeScript text of a shape around an inner text: `(… | null)` / `ReadonlyArray<…>` -/
def wrapShape (innerText : Str) : TyShape → Str
  | .leaf => innerText
  | .nullable s => [40] ++ wrapShape innerText s ++ cs!" | null" ++ [41]
  | .list s => cs!"ReadonlyArray<" ++ wrapShape innerText s ++ [62]

mutual
/-- types as the schema produces them: every union has exactly one variant -/
def TypeAnn.singleVariant : TypeAnn → Bool
  | .scalar _ => true
  | .plural t => t.singleVariant
  | .union _ [.scalar _] => true
  | .union _ [.plural t] => t.singleVariant
  | .union _ _ => false
end

/-- response keys, nullable/list structure and nesting of an object type (one list of
properties per alternative) -/
inductive Shape where
  | prop (key : Str) (ty : TyShape) (kids : Option (List (List Shape)))
deriving Repr, Inhabited

mutual
def RTree.shape : RTree → Shape
  | .scalar key ty _ => .prop key ty.shape none
  | .object key ty alts => .prop key ty.shape (some (RTree.shapeAlts alts))
def RTree.shapeProps : List RTree → List Shape
  | [] => []
  | p :: rest => p.shape :: RTree.shapeProps rest
def RTree.shapeAlts : List (List RTree) → List (List Shape)
  | [] => []
  | a :: rest => RTree.shapeProps a :: RTree.shapeAlts rest
end

def Tree.isFrag : Tree → Bool
  | .frag .. => true
  | _ => false

def Tree.key : Tree → Str
  | .field name args _ => responseKeyT name args
  | .frag ty _ => ty

/-- GraphQL field merging of two selection lists: selections with one response key are one
field whose sub-selections are merged -/
def mergeTrees : Nat → List Tree → List Tree → List Tree
  | 0, a, b => a ++ b
  | _, a, [] => a
  | fuel + 1, a, b :: bs =>
    match b with
    | .field name args kids =>
      let key := responseKeyT name args
      if a.any (fun x => !x.isFrag && x.key == key) then
        mergeTrees fuel (a.map fun x =>
          match x with
          | .field n ar ks =>
            if responseKeyT n ar == key then
              .field n ar (match ks, kids with
                | some k1, some k2 => some (mergeTrees fuel k1 k2)
                | some k1, none => some k1
                | none, k2 => k2)
            else x
          | other => other) bs
      else mergeTrees fuel (a ++ [.field name args kids]) bs
    | .frag ty ks =>
      if a.any (fun x => x.isFrag && x.key == ty) then
        mergeTrees fuel (a.map fun x =>
          match x with
          | .frag t k1 => if t == ty then .frag t (mergeTrees fuel k1 ks) else x
          | other => other) bs
      else mergeTrees fuel (a ++ [.frag ty ks]) bs

/-- one property per field of a fragment-free selection list; `rec` is the recursive call for a
sub-selection -/
def expectedProps (rec : Str → List Tree → Option (List (List Shape))) (schema : Schema) (parent : Str) :
    List Tree → Option (List Shape)
  | [] => some []
  | .field name args kids :: more =>
    match schema.lookup parent name, expectedProps rec schema parent more with
    | some e, some ps =>
      match kids with
      | none => some (.prop (responseKeyT name args) e.ty.shape none :: ps)
      | some ks =>
        match e.ty.inner with
        | none => none
        | some target =>
          (rec target ks).map fun alts => .prop (responseKeyT name args) e.ty.shape (some alts) :: ps
    | _, _ => none
  | .frag .. :: more => expectedProps rec schema parent more

/-- one group of alternatives per inline fragment: the fields outside the fragments merged with
the fragment's -/
def expectedFragAlts (rec : Str → List Tree → Option (List (List Shape))) (rest : List Tree) :
    List Tree → Option (List (List Shape))
  | [] => some []
  | .frag ty ks :: more =>
    match rec ty (mergeTrees 1000 rest ks), expectedFragAlts rec rest more with
    | some a, some b => some (a ++ b)
    | _, _ => none
  | _ :: more => expectedFragAlts rec rest more

/-- The alternatives the response object of a selection set can take, from the operation's
selection tree and the schema: without inline fragments one alternative with one property per
field; with inline fragments one alternative per fragment, holding the fields outside the
fragments merged with the fragment's fields.  `none` for a field the schema table does not know
(or when `fuel` is less than the nesting depth). -/
def expectedAlts (schema : Schema) : Nat → Str → List Tree → Option (List (List Shape))
  | 0, _, _ => none
  | fuel + 1, parent, sels =>
    let frags := sels.filter Tree.isFrag
    let rest := sels.filter (fun t => !t.isFrag)
    if frags.isEmpty then (expectedProps (expectedAlts schema fuel) schema parent rest).map fun ps => [ps]
    else expectedFragAlts (expectedAlts schema fuel) rest frags

mutual
/-- number of properties, all levels and alternatives -/
def Shape.size : Shape → Nat
  | .prop _ _ none => 1
  | .prop _ _ (some alts) => 1 + Shape.sizeAlts alts
def Shape.sizeProps : List Shape → Nat
  | [] => 0
  | p :: rest => p.size + Shape.sizeProps rest
def Shape.sizeAlts : List (List Shape) → Nat
  | [] => 0
  | a :: rest => Shape.sizeProps a + Shape.sizeAlts rest
end

mutual
/-- no inline fragment at a position the printers reach -/
def Sel.fragFree : Sel → Bool
  | .scalar .. => true
  | .linked _ _ _ _ map => SelMap.fragFree map
  | .clientObj .. => true
  | .frag .. => false
def SelMap.fragFree : SelMap → Bool
  | [] => true
  | (_, s) :: rest => s.fragFree && SelMap.fragFree rest
end

mutual
/-- no empty selection map under a linked field the printers reach -/
def Sel.noEmpty : Sel → Bool
  | .scalar .. => true
  | .linked _ _ _ _ map => !map.isEmpty && SelMap.noEmpty map
  | .clientObj .. => true
  | .frag _ map => !map.isEmpty && SelMap.noEmpty map
def SelMap.noEmpty : SelMap → Bool
  | [] => true
  | (_, s) :: rest => s.noEmpty && SelMap.noEmpty rest
end

mutual
def Tree.depth : Tree → Nat
  | .field _ _ none => 1
  | .field _ _ (some kids) => 1 + Tree.depthList kids
  | .frag _ kids => 1 + Tree.depthList kids
def Tree.depthList : List Tree → Nat
  | [] => 0
  | t :: rest => Nat.max t.depth (Tree.depthList rest)
end

end IsoVerif.Core
