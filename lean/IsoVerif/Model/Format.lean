/-
M-TEXT / the iso-literal formatter (C22): executable model of `format_extraction`
(crates/isograph_lsp/src/format.rs, after the repair 6222385: removed tokens are skipped before
the separator logic).

The formatter is a fold over the literal's semantic tokens (produced by the real parser: one per
lexer token, in order, each with the legend entry the parser assigned).  The model is that fold
over a list of `(token text, legend entry)`; the legend (`LineBehavior`, `IndentChange`, the five
methods) is `IsoVerif.Gen.Legend`, regenerated from the Rust source by translator T3.

`indent` is an `i8` in the Rust code: `indent -= 1` / `indent += 1` panic on overflow (debug
builds) and `"  ".repeat(indent as usize)` with a negative `indent` asks for ~2^64 bytes
("capacity overflow"); all three are explicit outcomes.

Also here: the two hand-written tables the token theorem needs and the correspondence validates on
every real token stream — which legend entry can follow which in an accepted literal (`next`,
read off parse_iso_literal.rs) and which lexical classes a token with a given entry can have
(`classesOf`) — and the lexical-gluing relation `glueSafe` (read off token_kind.rs).
-/
import IsoVerif.Model.Util
import IsoVerif.Gen.Legend

namespace IsoVerif.Format
open IsoVerif.Util IsoVerif.Gen.Legend

/-- one semantic token: its source text and its legend entry -/
structure FTok where
  text : Bytes
  st : SemTok
  deriving Repr, DecidableEq

inductive FOut where
  | ok (out : Bytes)
  | panic (site : String)
  deriving Repr, DecidableEq

structure FSt where
  out : Bytes
  last : LineBehavior
  indent : Int
  deriving Repr

def sp : UInt8 := 32
def nl : UInt8 := 10

/-- `push_indented_line_break`: `"\n" + "  ".repeat(indent)` -/
def lineBreak (indent : Nat) : Bytes := nl :: List.replicate (2 * indent) sp

def initSt : FSt := ⟨[], .inl false false, 1⟩

/-- the separator pushed before a kept token (`none`: the `repeat` panics) -/
def separator (last new : LineBehavior) (indent : Int) : Option Bytes :=
  if last.endsLine || new.startsNewLine then
    (if indent < 0 then none else some (lineBreak indent.toNat))
  else if last.hasSpaceAfter && new.hasSpaceBefore then some [sp]
  else some []

/-- one iteration of `for token in semantic_tokens` -/
def step (s : FSt) (t : FTok) : Except String FSt :=
  if !t.st.lb.shouldKeep then .ok s
  else
    let dedent : Except String Int :=
      if t.st.ic == .dedent then
        (if s.indent ≤ -128 then .error "indent-underflow" else .ok (s.indent - 1))
      else .ok s.indent
    match dedent with
    | .error e => .error e
    | .ok indent =>
      match separator s.last t.st.lb indent with
      | none => .error "indent-negative"
      | some sep =>
        let out := s.out ++ sep ++ t.text
        if t.st.ic == .indent then
          (if indent ≥ 127 then .error "indent-overflow" else .ok ⟨out, t.st.lb, indent + 1⟩)
        else .ok ⟨out, t.st.lb, indent⟩

def run : FSt → List FTok → Except String FSt
  | s, [] => .ok s
  | s, t :: ts => match step s t with
    | .error e => .error e
    | .ok s' => run s' ts

/-- `format_extraction` on an accepted literal -/
def format (toks : List FTok) : FOut :=
  match run initSt toks with
  | .error e => .panic e
  | .ok s => .ok (if s.last.endsLine then s.out ++ [nl] else s.out)

/-- the tokens the formatter keeps (everything but `LineBehavior::Remove`, i.e. commas) -/
def kept (toks : List FTok) : List FTok := toks.filter (·.st.lb.shouldKeep)

def isWsByte (b : UInt8) : Bool := b == sp || b == nl
def isWs (s : Bytes) : Bool := s.all isWsByte

/-! ## lexical classes and gluing -/

inductive Cls where
  | ident   -- [a-zA-Z_][a-zA-Z0-9_]*
  | int     -- -?(0|[1-9][0-9]*)
  | str     -- "..." or """..."""
  | dot
  | punct   -- @ } ] ) : $ = ! { [ ( ,
  deriving DecidableEq, Repr

def isAlphaU (b : UInt8) : Bool := (97 ≤ b && b ≤ 122) || (65 ≤ b && b ≤ 90) || b == 95
def isDigit (b : UInt8) : Bool := 48 ≤ b && b ≤ 57

/-- class of a lexeme, by its first byte -/
def clsOf : Bytes → Cls
  | [] => .punct
  | b :: _ =>
    if isAlphaU b then .ident
    else if isDigit b || b == 45 then .int
    else if b == 34 then .str
    else if b == 46 then .dot
    else .punct

/-- Writing lexeme `a` immediately followed by lexeme `b` lexes as `a` then `b` again.  Not so
for: identifier/number followed by identifier/number (`a` `b` ↦ `ab`, `1` `a` ↦ error token),
number followed by `.` or `.` followed by number (`1.` / `.5` are error tokens), string followed
by string (`""` `"x"` ↦ `"""x"` opens a block string). -/
def glueSafe : Cls → Cls → Bool
  | .ident, .ident | .ident, .int | .int, .ident | .int, .int => false
  | .int, .dot | .dot, .int => false
  | .str, .str => false
  | _, _ => true

/-- the formatter emits a non-empty separator between kept `a` then `b` -/
def sepNonEmpty (a b : LineBehavior) : Bool :=
  a.endsLine || b.startsNewLine || (a.hasSpaceAfter && b.hasSpaceBefore)

/-! ## grammar tables (hand-written from parse_iso_literal.rs; validated by correspondence) -/

/-- value starts -/
def valueStarts : List SemTok :=
  [stVariableDollarUsage, stStringLiteral, stNumberLiteral, stOpenBrace, stBoolOrNull]

/-- what can follow a complete value / argument / entry / variable definition inside `( )`/`{ }`
(commas are removed) -/
def afterItem : List SemTok :=
  [stArgumentName, stCloseParen, stObjectLiteralKey, stCloseBrace, stVariableDollarDeclaration]

/-- what can follow the header part of a declaration (after name / variable definitions /
target type / a directive) -/
def declTail : List SemTok := [stDirectiveAt, stComment, stOpenBrace]

/-- what can follow a complete selection -/
def afterSelection : List SemTok := [stSelectionNameOrAlias, stCloseBrace]

/-- Which legend entries can directly follow which among the *kept* tokens of an accepted
literal. -/
def next : List (SemTok × List SemTok) := [
  (stKeywordUse, [stServerObjectType]),
  (stKeywordDeclaration, [stServerObjectType]),
  (stServerObjectType, [stDot]),
  (stDot, [stClientSelectableName]),
  (stClientSelectableName, stOpenParen :: stTo :: declTail),
  (stTo, [stTypeAnnotation]),
  (stDirectiveAt, [stDirective]),
  (stDirective, stOpenParen :: (declTail ++ afterSelection)),
  (stOpenParen, [stArgumentName, stVariableDollarDeclaration, stCloseParen]),
  (stCloseParen, stTo :: (declTail ++ afterSelection)),
  (stArgumentName, [stColon]),
  (stObjectLiteralKey, [stColon]),
  (stColon, stSelectionNameOrAliasPostColon :: stTypeAnnotation :: valueStarts),
  (stVariableDollarUsage, [stVariable]),
  (stVariableDollarDeclaration, [stVariable]),
  (stVariable, stColon :: afterItem),
  (stStringLiteral, afterItem),
  (stNumberLiteral, afterItem),
  (stBoolOrNull, afterItem),
  (stTypeAnnotation, stTypeAnnotation :: stVariableEquals :: stVariableDollarDeclaration ::
      stCloseParen :: declTail),
  (stVariableEquals, valueStarts),
  (stComment, [stOpenBrace]),
  (stOpenBrace, [stSelectionNameOrAlias, stCloseBrace, stObjectLiteralKey]),
  (stCloseBrace, afterSelection ++ afterItem),
  (stSelectionNameOrAlias, stColon :: stOpenParen :: stDirectiveAt :: stOpenBrace :: afterSelection),
  (stSelectionNameOrAliasPostColon, stOpenParen :: stDirectiveAt :: stOpenBrace :: afterSelection)]

/-- `b` can follow `a` (entries with equal values are merged) -/
def follows (a b : SemTok) : Bool := next.any fun (k, vs) => k == a && vs.contains b

/-- lexical classes a token carrying the entry can have -/
def classesOf : List (SemTok × List Cls) := [
  (stKeywordUse, [.ident]), (stKeywordDeclaration, [.ident]), (stServerObjectType, [.ident]),
  (stDot, [.dot]), (stTo, [.ident]), (stClientSelectableName, [.ident]),
  (stOpenBrace, [.punct]), (stCloseBrace, [.punct]), (stOpenParen, [.punct]),
  (stCloseParen, [.punct]), (stComma, [.punct]), (stSelectionNameOrAlias, [.ident]),
  (stColon, [.punct]), (stSelectionNameOrAliasPostColon, [.ident]), (stDirectiveAt, [.punct]),
  (stDirective, [.ident]), (stArgumentName, [.ident]), (stVariableDollarDeclaration, [.punct]),
  (stVariableDollarUsage, [.punct]), (stVariable, [.ident]), (stVariableEquals, [.punct]),
  (stStringLiteral, [.str]), (stNumberLiteral, [.int]), (stBoolOrNull, [.ident]),
  (stObjectLiteralKey, [.ident]), (stTypeAnnotation, [.ident, .punct]), (stComment, [.str])]

def classes (a : SemTok) : List Cls :=
  (classesOf.filter (·.1 == a)).flatMap (·.2)

/-- The table fact behind C22_tokens, as one closed boolean: for every grammar-adjacent pair of
entries, either the formatter separates them or no pair of their lexical classes glues badly. -/
def glueTableOk : Bool :=
  next.all fun (a, bs) => bs.all fun b =>
    sepNonEmpty a.lb b.lb ||
      ((classes a).all fun ca => (classes b).all fun cb => glueSafe ca cb)

/-- every entry of the regenerated legend is covered by the hand tables -/
def tablesCoverLegend : Bool :=
  legend.all fun (_, st) =>
    classesOf.any (·.1 == st) && (!st.lb.shouldKeep || next.any (·.1 == st))

/-- Entries before which the parser calls `parse_comma_or_line_break` (after a selection, an
argument, an object entry, a variable definition): the formatter must break the line there. -/
def breakConsulted : List SemTok :=
  [stSelectionNameOrAlias, stCloseBrace, stArgumentName, stCloseParen, stObjectLiteralKey,
   stVariableDollarDeclaration]

def breakTableOk : Bool := breakConsulted.all (·.lb.startsNewLine)

/-- adjacent kept tokens respect `next` -/
def adjOk : List FTok → Bool
  | [] => true
  | [_] => true
  | a :: b :: rest => follows a.st b.st && adjOk (b :: rest)

/-- every token's text has a class its entry allows, and is not empty -/
def clsOk (toks : List FTok) : Bool :=
  toks.all fun t => !t.text.isEmpty && (classes t.st).contains (clsOf t.text)

/-- is the entry in the regenerated legend at all -/
def inLegend (st : SemTok) : Bool := legend.any (·.2 == st)

/-! ## the output as separators + kept tokens (used by the statements of C22) -/

/-- For each kept token the separator written before it, and the last line behaviour; `none` when
the fold panics.  Same case analysis as `step`, without building the string. -/
def segRun : LineBehavior → Int → List FTok → Option (List (Bytes × FTok) × LineBehavior)
  | last, _, [] => some ([], last)
  | last, indent, t :: ts =>
    if !t.st.lb.shouldKeep then segRun last indent ts
    else
      let dedent : Option Int :=
        if t.st.ic == .dedent then (if indent ≤ -128 then none else some (indent - 1))
        else some indent
      match dedent with
      | none => none
      | some indent =>
        match separator last t.st.lb indent with
        | none => none
        | some sep =>
          let after : Option Int :=
            if t.st.ic == .indent then (if indent ≥ 127 then none else some (indent + 1))
            else some indent
          match after with
          | none => none
          | some indent' =>
            match segRun t.st.lb indent' ts with
            | none => none
            | some (segs, l) => some ((sep, t) :: segs, l)

/-- separators-and-tokens view of `format`, with the trailing line feed -/
def segments (toks : List FTok) : Option (List (Bytes × FTok) × Bytes) :=
  match segRun (.inl false false) 1 toks with
  | none => none
  | some (segs, last) => some (segs, if last.endsLine then [nl] else [])

def render (segs : List (Bytes × FTok)) (trailer : Bytes) : Bytes :=
  (segs.flatMap fun p => p.1 ++ p.2.text) ++ trailer

/-- two consecutive tokens written without a separator although gluing them changes a token
boundary -/
def gluedBadly : List (Bytes × FTok) → Bool
  | a :: b :: rest =>
    (b.1.isEmpty && !glueSafe (clsOf a.2.text) (clsOf b.2.text)) || gluedBadly (b :: rest)
  | _ => false

/-- the indent counter stays within `0 ..= 127` (nesting depth below 127, brackets balanced) -/
def indentBounded : Int → List FTok → Bool
  | _, [] => true
  | indent, t :: ts =>
    let i1 := if t.st.ic == .dedent then indent - 1 else indent
    let i2 := if t.st.ic == .indent then i1 + 1 else i1
    decide (0 ≤ i1) && decide (i2 ≤ 127) && indentBounded i2 ts

end IsoVerif.Format
