/-
M-CONC, part 3: `InternTable::intern` / `get_interned` / `get` over `ShardedSet` + `AtomicArena`
as a thread-indexed transition system (sequentially consistent), built on `Model/ArenaTrace.lean`.

  fn intern(&'static self, t) -> Id {
      let shards = self.shards();                              // OnceCell: outside the model
      let mut insert_lock = match shards.get_or_insert_lock(wt) {
          Ok(AsInterned(id)) => return id, Err(l) => l };
      let id = Id::wrap(self.arena.add(t.into()));             // arena steps, shard write lock held
      insert_lock.insert(AsInterned(id));
      id                                                        // guard dropped here
  }
  fn get_or_insert_lock(&self, q) -> Result<T, InsertLock> {
      let (hash, shard) = self.hash_and_shard(q);
      let shard = if let Some(w) = shard.try_write() { w } else {
          if let Some(t) = shard.read().get(hash, eq) { return Ok(t.clone()); }
          shard.write() };
      if let Some(t) = shard.get(hash, eq) { return Ok(t.clone()); }
      Err(InsertLock { hash, shard, .. })
  }

One transition = one atomic operation; the program counters that carry a hook label
(`yieldLabel`) are the places where `verif_hook::yield_point` / `before_lock` is called in the
Rust code.  The remaining program counters (`readHeld`, `readMiss`, `lookupHeld`) split
what the Rust code does between two hooks into its atomic parts (acquire / look up / release),
so the model has MORE interleavings than the hooked schedule can produce, never fewer.

A lock is `writer : Option Tid` + the list of threads holding it for reading.  A blocked
acquisition is a stutter step.  Values are `Nat`; `shardOf` is an arbitrary function (the
theorems hold for every hash function; the driver instantiates it with FNV-1a and the
generated `hashShift`/`hashMask`).  A set lookup compares through the arena
(`AsInterned::borrow` = `Id::get`): `arVal`.

The pre-added zero element of `with_zero` tables is represented as an addition that completed
before the trace starts (`arZero`).
-/
import IsoVerif.Model.ArenaTrace

namespace IsoVerif.InternT
open IsoVerif.Arena IsoVerif.ArenaT IsoVerif.Gen.ArenaConsts

abbrev Val := Nat

inductive IPc
  | idle
  | tryWrite (v : Val)
  | readLock (v : Val)
  | readHeld (v : Val)
  | readFound (v : Val) (id : Nat)
  | readMiss (v : Val)
  | writeLock (v : Val)
  | check (v : Val)
  | checkFound (v : Val) (id : Nat)
  | adding (v : Val)
  | insert (v : Val) (id : Nat)
  | unlock (v : Val) (id : Nat)
  | lookup (v : Val)
  | lookupHeld (v : Val)
  | reading
  deriving DecidableEq, Repr

inductive IEv
  | internRet (t : Tid) (v : Val) (id : Nat)
  | lookupRet (t : Tid) (v : Val) (res : Option Nat)
  deriving DecidableEq, Repr

structure Lock where
  writer : Option Tid
  readers : List Tid
  deriving DecidableEq, Repr

def Lock.free : Lock := ⟨none, []⟩

structure ISt where
  ar : ArenaT.St
  shard : Nat → List Nat
  lock : Nat → Lock
  thr : Tid → IPc
  hist : List IEv

inductive IAct
  | startIntern (v : Val)
  | startLookup (v : Val)
  | startGet (r : Nat)
  | startLen
  | step
  deriving DecidableEq, Repr

/-- the value stored under biased index `id` (what `Id::get` reads) -/
def arVal (ar : ArenaT.St) (id : Nat) : Option Val :=
  match ar.bucket (idxA id) with
  | some p => ar.mem p (idxB id)
  | none => none

/-- `RawTable::get(hash, |other| q == other.borrow())` restricted to what matters: the first
entry of the shard whose interned value equals `v`. -/
def findIn (ar : ArenaT.St) (ids : List Nat) (v : Val) : Option Nat :=
  ids.find? (fun id => arVal ar id == some v)

def setIPc (s : ISt) (t : Tid) (pc : IPc) : ISt := { s with thr := upd s.thr t pc }

/-- `AtomicArena::new()` + empty shards -/
def iinit : ISt :=
  { ar := ArenaT.init, shard := fun _ => [], lock := fun _ => Lock.free, thr := fun _ => .idle, hist := [] }

/-- the arena of a `with_zero` table: the zero element is an addition completed before the trace -/
def arZero (z : Val) : ArenaT.St :=
  { ArenaT.initZero z with hist := [.addRet 0 z minSize], base := minSize }

/-- `with_zero(z)`: `shards()` inserts the zero id on first use -/
def iinitZero (shardOf : Val → Nat) (z : Val) : ISt :=
  { ar := arZero z, shard := fun k => if k = shardOf z then [minSize] else [],
    lock := fun _ => Lock.free, thr := fun _ => .idle, hist := [] }

def istep (shardOf : Val → Nat) (s : ISt) (t : Tid) : IAct → Option ISt
  | .startIntern v => if s.thr t = .idle then some (setIPc s t (.tryWrite v)) else none
  | .startLookup v => if s.thr t = .idle then some (setIPc s t (.lookup v)) else none
  | .startGet r =>
      if s.thr t = .idle then
        match ArenaT.step s.ar t (.startGet r) with
        | some ar' => some (setIPc { s with ar := ar' } t .reading)
        | none => none
      else none
  | .startLen =>
      if s.thr t = .idle then
        match ArenaT.step s.ar t .startLen with
        | some ar' => some (setIPc { s with ar := ar' } t .reading)
        | none => none
      else none
  | .step =>
    match s.thr t with
    | .idle => none
    | .tryWrite v =>
        let k := shardOf v
        if (s.lock k).writer = none ∧ (s.lock k).readers = [] then
          some (setIPc { s with lock := upd s.lock k ⟨some t, []⟩ } t (.check v))
        else some (setIPc s t (.readLock v))
    | .readLock v =>
        let k := shardOf v
        if (s.lock k).writer = none then
          some (setIPc { s with lock := upd s.lock k ⟨none, t :: (s.lock k).readers⟩ } t (.readHeld v))
        else some s
    | .readHeld v =>
        match findIn s.ar (s.shard (shardOf v)) v with
        | some id => some (setIPc s t (.readFound v id))
        | none => some (setIPc s t (.readMiss v))
    | .readFound v id =>
        let k := shardOf v
        some (setIPc { s with lock := upd s.lock k ⟨(s.lock k).writer, (s.lock k).readers.erase t⟩,
                               hist := .internRet t v id :: s.hist } t .idle)
    | .readMiss v =>
        let k := shardOf v
        some (setIPc { s with lock := upd s.lock k ⟨(s.lock k).writer, (s.lock k).readers.erase t⟩ } t (.writeLock v))
    | .writeLock v =>
        let k := shardOf v
        if (s.lock k).writer = none ∧ (s.lock k).readers = [] then
          some (setIPc { s with lock := upd s.lock k ⟨some t, []⟩ } t (.check v))
        else some s
    | .check v =>
        match findIn s.ar (s.shard (shardOf v)) v with
        | some id => some (setIPc s t (.checkFound v id))
        | none =>
          match ArenaT.step s.ar t (.startAdd v) with
          | some ar' => some (setIPc { s with ar := ar' } t (.adding v))
          | none => none
    | .checkFound v id =>
        some (setIPc { s with lock := upd s.lock (shardOf v) Lock.free, hist := .internRet t v id :: s.hist } t .idle)
    | .adding v =>
        match ArenaT.step s.ar t .step with
        | some ar' =>
          match ar'.thr t, ar'.hist with
          | .idle, .addRet _ _ r :: _ => some (setIPc { s with ar := ar' } t (.insert v r))
          | _, _ => some (setIPc { s with ar := ar' } t (.adding v))
        | none => none
    | .insert v id =>
        some (setIPc { s with shard := upd s.shard (shardOf v) (id :: s.shard (shardOf v)) } t (.unlock v id))
    | .unlock v id =>
        some (setIPc { s with lock := upd s.lock (shardOf v) Lock.free, hist := .internRet t v id :: s.hist } t .idle)
    | .lookup v =>
        let k := shardOf v
        if (s.lock k).writer = none then
          some (setIPc { s with lock := upd s.lock k ⟨none, t :: (s.lock k).readers⟩ } t (.lookupHeld v))
        else some s
    | .lookupHeld v =>
        let k := shardOf v
        some (setIPc { s with lock := upd s.lock k ⟨(s.lock k).writer, (s.lock k).readers.erase t⟩,
                               hist := .lookupRet t v (findIn s.ar (s.shard k) v) :: s.hist } t .idle)
    | .reading =>
        match ArenaT.step s.ar t .step with
        | some ar' =>
          if ar'.thr t = .idle then some (setIPc { s with ar := ar' } t .idle)
          else some (setIPc { s with ar := ar' } t .reading)
        | none => none

structure ILabel where
  t : Tid
  a : IAct
  deriving DecidableEq, Repr

def irun (shardOf : Val → Nat) (s : ISt) : List ILabel → Option ISt
  | [] => some s
  | l :: ls => match istep shardOf s l.t l.a with
    | some s' => irun shardOf s' ls
    | none => none

def IQuiescent (s : ISt) : Prop := ∀ t, s.thr t = .idle

/-- `Id::index()` of a biased reference -/
def idIndex (id : Nat) : Nat := id - minSize

/-- all (value, id) pairs returned by completed `intern` calls -/
def internPairs : List IEv → List (Val × Nat)
  | [] => []
  | .internRet _ v id :: rest => (v, id) :: internPairs rest
  | _ :: rest => internPairs rest

end IsoVerif.InternT
