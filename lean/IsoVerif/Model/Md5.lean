/-
Executable MD5 (RFC 1321) over byte lists, used only by the drivers so that the models are
runnable end to end.  Every theorem treats the hash as an arbitrary function; nothing is proved
about this file and nothing depends on it being MD5 (the correspondence run compares it with
the `md-5` crate on every case that hashes).
-/
import IsoVerif.Model.Util

namespace IsoVerif.Md5
open IsoVerif.Util

def sTable : Array UInt32 := #[
  7,12,17,22,7,12,17,22,7,12,17,22,7,12,17,22,
  5,9,14,20,5,9,14,20,5,9,14,20,5,9,14,20,
  4,11,16,23,4,11,16,23,4,11,16,23,4,11,16,23,
  6,10,15,21,6,10,15,21,6,10,15,21,6,10,15,21]

def kTable : Array UInt32 := #[
  0xd76aa478,0xe8c7b756,0x242070db,0xc1bdceee,0xf57c0faf,0x4787c62a,0xa8304613,0xfd469501,
  0x698098d8,0x8b44f7af,0xffff5bb1,0x895cd7be,0x6b901122,0xfd987193,0xa679438e,0x49b40821,
  0xf61e2562,0xc040b340,0x265e5a51,0xe9b6c7aa,0xd62f105d,0x02441453,0xd8a1e681,0xe7d3fbc8,
  0x21e1cde6,0xc33707d6,0xf4d50d87,0x455a14ed,0xa9e3e905,0xfcefa3f8,0x676f02d9,0x8d2a4c8a,
  0xfffa3942,0x8771f681,0x6d9d6122,0xfde5380c,0xa4beea44,0x4bdecfa9,0xf6bb4b60,0xbebfbc70,
  0x289b7ec6,0xeaa127fa,0xd4ef3085,0x04881d05,0xd9d4d039,0xe6db99e5,0x1fa27cf8,0xc4ac5665,
  0xf4292244,0x432aff97,0xab9423a7,0xfc93a039,0x655b59c3,0x8f0ccc92,0xffeff47d,0x85845dd1,
  0x6fa87e4f,0xfe2ce6e0,0xa3014314,0x4e0811a1,0xf7537e82,0xbd3af235,0x2ad7d2bb,0xeb86d391]

def rotl (x : UInt32) (c : UInt32) : UInt32 := (x <<< c) ||| (x >>> (32 - c))

def pad (msg : Bytes) : Bytes :=
  let len := msg.length
  let m1 := msg ++ [0x80]
  let zeros := (56 + 64 - (m1.length % 64)) % 64
  let bits : UInt64 := UInt64.ofNat (len * 8)
  m1 ++ List.replicate zeros 0 ++
    (List.range 8).map (fun i => UInt8.ofNat ((bits >>> (UInt64.ofNat (8 * i))).toNat % 256))

def word (b : Array UInt8) (off : Nat) : UInt32 :=
  (b[off]!).toUInt32 ||| ((b[off+1]!).toUInt32 <<< 8) ||| ((b[off+2]!).toUInt32 <<< 16) |||
    ((b[off+3]!).toUInt32 <<< 24)

def processBlock (st : UInt32 × UInt32 × UInt32 × UInt32) (blk : Array UInt8) (base : Nat) :
    UInt32 × UInt32 × UInt32 × UInt32 := Id.run do
  let (a0, b0, c0, d0) := st
  let mut a := a0
  let mut b := b0
  let mut c := c0
  let mut d := d0
  for i in [0:64] do
    let mut f : UInt32 := 0
    let mut g : Nat := 0
    if i < 16 then
      f := (b &&& c) ||| ((~~~ b) &&& d); g := i
    else if i < 32 then
      f := (d &&& b) ||| ((~~~ d) &&& c); g := (5 * i + 1) % 16
    else if i < 48 then
      f := b ^^^ c ^^^ d; g := (3 * i + 5) % 16
    else
      f := c ^^^ (b ||| (~~~ d)); g := (7 * i) % 16
    let f2 := f + a + kTable[i]! + word blk (base + 4 * g)
    a := d
    d := c
    c := b
    b := b + rotl f2 sTable[i]!
  return (a0 + a, b0 + b, c0 + c, d0 + d)

def le32 (x : UInt32) : Bytes :=
  [UInt8.ofNat (x.toNat % 256), UInt8.ofNat ((x.toNat / 256) % 256),
   UInt8.ofNat ((x.toNat / 65536) % 256), UInt8.ofNat ((x.toNat / 16777216) % 256)]

def digest (msg : Bytes) : Bytes := Id.run do
  let p := (pad msg).toArray
  let mut st : UInt32 × UInt32 × UInt32 × UInt32 := (0x67452301, 0xefcdab89, 0x98badcfe, 0x10325476)
  for k in [0:p.size / 64] do
    st := processBlock st p (64 * k)
  let (a, b, c, d) := st
  return le32 a ++ le32 b ++ le32 c ++ le32 d

/-- Lower-case hex of the digest, as bytes (what `hex::encode(md5.finalize())` yields). -/
def md5Hex (msg : Bytes) : Bytes := strBytes (hexEncode (digest msg))

end IsoVerif.Md5
