/-
M-GQL / the reference parser: a recursive-descent parser for the June-2018 grammar
(executable documents §2.2–2.12, type-system documents §3), written from the specification,
over the token lists of Model/GqlLex.lean.  Fuel-indexed recursion (structural on the fuel).

The same parser carries a record of *deviation switches* (`Quirks`).  With every switch off it is
the reference.  `Quirks.relay` switches on the deviations of relay's graphql-syntax parser that
were observed on the real crate (each is a known finding of C29); `Quirks.iso` those of the
compiler's schema parser (C30).  The switched-on parser is the *model* of the implementation that
the harness is compared with; the oracle compares the implementation's answer with the switched-off
parser and names the switches that are needed to explain a difference.
-/
import IsoVerif.Model.GqlAst

namespace IsoVerif.Gql

/-! ### string values -/

def hexVal (c : Nat) : Nat :=
  if isDigit c then c - 48 else if decide (97 ≤ c) then c - 87 else c - 55

/-- the character an EscapedCharacter stands for -/
def escValue (e : Nat) : Nat :=
  if e == 98 then 8 else if e == 102 then 12 else if e == 110 then 10
  else if e == 114 then 13 else if e == 116 then 9 else e

/-- semantic value of the raw inner text of a quoted StringValue (§2.9.4) -/
def unescape : Nat → Str → Str
  | 0, _ => []
  | _ + 1, [] => []
  | f + 1, c :: r =>
    if c == 92 then
      match r with
      | 117 :: a :: b :: c2 :: d :: r' =>
        (hexVal a * 4096 + hexVal b * 256 + hexVal c2 * 16 + hexVal d) :: unescape f r'
      | e :: r' => escValue e :: unescape f r'
      | [] => []
    else c :: unescape f r

/-- `\"""` → `"""` inside the raw text of a block string -/
def unescapeTriple : Nat → Str → Str
  | 0, _ => []
  | _ + 1, [] => []
  | f + 1, c :: r =>
    if c == 92 && r.take 3 == [34, 34, 34] then 34 :: 34 :: 34 :: unescapeTriple f (r.drop 3)
    else c :: unescapeTriple f r

/-- lines of a block string: split at LineTerminator (LF, CR LF, lone CR).  `prevCr`: the
previous character was a CR that already ended a line (so a LF directly after it ends nothing). -/
def splitLinesSpecAux : Str → Str → Bool → List Str
  | [], cur, _ => [cur.reverse]
  | c :: r, cur, prevCr =>
    if c == 10 then
      if prevCr then splitLinesSpecAux r [] false
      else cur.reverse :: splitLinesSpecAux r [] false
    else if c == 13 then cur.reverse :: splitLinesSpecAux r [] true
    else splitLinesSpecAux r (c :: cur) false

def splitLinesSpec (s : Str) : List Str := splitLinesSpecAux s [] false

/-- `cur` is the reversed piece: drop the `\r` that directly precedes the `\n` -/
def stripTrailingCr (cur : Str) : Str :=
  match cur with
  | 13 :: cur' => cur'.reverse
  | _ => cur.reverse

/-- Rust's `str::lines`: pieces end at `\n`; a piece that ended with `\n` loses one trailing
`\r`; a last piece without `\n` is kept as it is; no empty last piece. -/
def rustLines : Str → Str → List Str
  | [], cur => if cur.isEmpty then [] else [cur.reverse]
  | c :: r, cur =>
    if c == 10 then stripTrailingCr cur :: rustLines r []
    else rustLines r (c :: cur)

def leadingWs (l : Str) : Nat := (l.takeWhile isWhiteSpace).length
def isBlank (l : Str) : Bool := l.all isWhiteSpace

/-- minimum indentation over the non-blank lines -/
def commonIndent : List Str → Option Nat
  | [] => none
  | l :: ls =>
    let rest := commonIndent ls
    if isBlank l then rest
    else match rest with
      | none => some (leadingWs l)
      | some m => some (if leadingWs l < m then leadingWs l else m)

def joinLines : List Str → Str
  | [] => []
  | [l] => l
  | l :: ls => l ++ 10 :: joinLines ls

def dropBlank : List Str → List Str
  | [] => []
  | l :: ls => if isBlank l then dropBlank ls else l :: ls

/-- the part of BlockStringValue() after the split into lines; also the body of relay's and the
compiler's `clean_block_string_literal` after `.lines()` -/
def blockLines (lines : List Str) : Str :=
  let ci := (commonIndent (lines.drop 1)).getD 0
  let ls := match lines with
    | [] => []
    | l :: rest => l :: rest.map (fun x => x.drop ci)
  joinLines (dropBlank (dropBlank ls).reverse).reverse

/-- BlockStringValue(rawValue) of the specification -/
def blockStringValue (raw : Str) : Str :=
  blockLines (splitLinesSpec (unescapeTriple (raw.length + 1) raw))

/-- `clean_block_string_literal` (relay_parser.rs and graphql_schema_parser/src/description.rs,
identical text) applied to the inner text -/
def cleanBlockString (raw : Str) : Str := blockLines (rustLines raw [])

/-! ### integers -/

def digitsVal : Str → Nat → Nat
  | [], acc => acc
  | c :: r, acc => digitsVal r (acc * 10 + (c - 48))

def intOfSrc (src : Str) : Int :=
  match src with
  | 45 :: r => - (Int.ofNat (digitsVal r 0))
  | _ => Int.ofNat (digitsVal src 0)

def fitsI64 (v : Int) : Bool := decide (-9223372036854775808 ≤ v) && decide (v ≤ 9223372036854775807)

/-! ### deviation switches -/

structure Quirks where
  /-- string values are the source text between the quotes (escapes kept) -/
  rawStrings : Bool := false
  /-- block strings are split with `str::lines` (a lone CR is not a line terminator) -/
  blockRustLines : Bool := false
  /-- `\"""` is kept verbatim in block strings -/
  blockKeepEscapes : Bool := false
  /-- a second string (relay's `hack_source`) may follow the description -/
  hackSource : Bool := false
  descOnExtension : Bool := false
  descOnSchema : Bool := false
  interfaceImplements : Bool := false
  repeatable : Bool := false
  varDirectives : Bool := false
  varDefLocation : Bool := false
  /-- `extend scalar|union|enum|input X` / `extend schema` with nothing to add -/
  emptyExtension : Bool := false
  /-- `extend type X` with nothing to add -/
  emptyObjectExtension : Bool := false
  /-- `true`/`false`/`null` as enum value definition -/
  enumReserved : Bool := false
  fragmentNamedOn : Bool := false
  emptyDocument : Bool := false
  /-- integers outside i64 are rejected -/
  i64Ints : Bool := false
  /-- a type-system document that ends with a dangling string panics -/
  panicDanglingString : Bool := false
  /-- `directive d on …` without `@` (the compiler's parser before the repair dfabac6) -/
  missingAt : Bool := false
  /-- `SCHEMA` is not a directive location (the compiler's parser before the repair a28cef5) -/
  noSchemaLocation : Bool := false
  /-- `union U` must be followed by `=` -/
  unionNeedsMembers : Bool := false
  /-- block strings are not accepted as values -/
  noBlockValues : Bool := false
deriving DecidableEq, Repr, Inhabited

def Quirks.spec : Quirks := {}

def Quirks.relay : Quirks :=
  { rawStrings := true, blockRustLines := true, blockKeepEscapes := true, hackSource := true,
    descOnExtension := true, descOnSchema := true, interfaceImplements := true, repeatable := true,
    varDirectives := true, varDefLocation := true, emptyExtension := true, enumReserved := true,
    fragmentNamedOn := true, emptyDocument := true, i64Ints := true, panicDanglingString := true }

def Quirks.iso : Quirks :=
  { rawStrings := true, blockRustLines := true, blockKeepEscapes := true, descOnSchema := true,
    interfaceImplements := true, repeatable := true,
    varDefLocation := Gen.GqlTokens.isoDirectiveLocations.contains (cps "VARIABLE_DEFINITION"),
    emptyObjectExtension := true, emptyDocument := true, i64Ints := true,
    noSchemaLocation := !(Gen.GqlTokens.isoDirectiveLocations.contains (cps "SCHEMA")),
    unionNeedsMembers := true, noBlockValues := true }

def strValue (q : Quirks) (raw : Str) : Str :=
  if q.rawStrings then raw else unescape (raw.length + 1) raw

def blockValue (q : Quirks) (raw : Str) : Str :=
  let r := if q.blockKeepEscapes then raw else unescapeTriple (raw.length + 1) raw
  blockLines (if q.blockRustLines then rustLines r [] else splitLinesSpec r)

/-! ### keywords -/

def kwOn : Str := cps "on"
def kwTrue : Str := cps "true"
def kwFalse : Str := cps "false"
def kwNull : Str := cps "null"
def kwQuery : Str := cps "query"
def kwMutation : Str := cps "mutation"
def kwSubscription : Str := cps "subscription"
def kwFragment : Str := cps "fragment"
def kwSchema : Str := cps "schema"
def kwScalar : Str := cps "scalar"
def kwType : Str := cps "type"
def kwInterface : Str := cps "interface"
def kwUnion : Str := cps "union"
def kwEnum : Str := cps "enum"
def kwInput : Str := cps "input"
def kwDirective : Str := cps "directive"
def kwExtend : Str := cps "extend"
def kwImplements : Str := cps "implements"
def kwRepeatable : Str := cps "repeatable"

/-- ExecutableDirectiveLocation ∪ TypeSystemDirectiveLocation of June 2018 -/
def locations2018 : List Str :=
  [cps "QUERY", cps "MUTATION", cps "SUBSCRIPTION", cps "FIELD", cps "FRAGMENT_DEFINITION",
   cps "FRAGMENT_SPREAD", cps "INLINE_FRAGMENT", cps "SCHEMA", cps "SCALAR", cps "OBJECT",
   cps "FIELD_DEFINITION", cps "ARGUMENT_DEFINITION", cps "INTERFACE", cps "UNION", cps "ENUM",
   cps "ENUM_VALUE", cps "INPUT_OBJECT", cps "INPUT_FIELD_DEFINITION"]

def isLocation (q : Quirks) (n : Str) : Bool :=
  if n == cps "SCHEMA" then !q.noSchemaLocation
  else if n == cps "VARIABLE_DEFINITION" then q.varDefLocation
  else locations2018.contains n

def opTypeOf (n : Str) : Option OpType :=
  if n == kwQuery then some .query else if n == kwMutation then some .mutation
  else if n == kwSubscription then some .subscription else none

/-! ### types and values -/

def bangOpt (t : Ty) (r : List Tok) : Ty × List Tok :=
  match r with
  | .punct .bang :: r' => (.nonNull t, r')
  | _ => (t, r)

/-- Type : NamedType | ListType | NonNullType -/
def pType : Nat → List Tok → Option (Ty × List Tok)
  | 0, _ => none
  | _ + 1, .name n :: r => some (bangOpt (.named n) r)
  | f + 1, .punct .lbrack :: r =>
    match pType f r with
    | some (t, .punct .rbrack :: r') => some (bangOpt (.list t) r')
    | _ => none
  | _ + 1, _ => none

mutual
/-- Value[Const] -/
def pValue (q : Quirks) (const : Bool) : Nat → List Tok → Option (Value × List Tok)
  | 0, _ => none
  | f + 1, ts =>
    match ts with
    | .punct .dollar :: .name n :: r => if const then none else some (.var n, r)
    | .int src :: r =>
      let v := intOfSrc src
      if fitsI64 v then some (.int v, r)
      else if q.i64Ints then none
      else some (.int v, r)
    | .float src :: r => some (.float src, r)
    | .str raw :: r => some (.str (strValue q raw), r)
    | .block raw :: r => if q.noBlockValues then none else some (.str (blockValue q raw), r)
    | .name n :: r =>
      if n == kwTrue then some (.bool true, r)
      else if n == kwFalse then some (.bool false, r)
      else if n == kwNull then some (.null, r)
      else some (.enum n, r)
    | .punct .lbrack :: r =>
      match pValues q const f r with
      | some (vs, r') => some (.list vs, r')
      | none => none
    | .punct .lbrace :: r =>
      match pFields q const .rbrace f r with
      | some (fs, r') => some (.obj fs, r')
      | none => none
    | _ => none
/-- Value* `]` -/
def pValues (q : Quirks) (const : Bool) : Nat → List Tok → Option (ValueList × List Tok)
  | 0, _ => none
  | f + 1, ts =>
    match ts with
    | .punct .rbrack :: r => some (.nil, r)
    | _ =>
      match pValue q const f ts with
      | some (v, r) =>
        match pValues q const f r with
        | some (vs, r') => some (.cons v vs, r')
        | none => none
      | none => none
/-- (Name `:` Value)* close -/
def pFields (q : Quirks) (const : Bool) (close : Punct) : Nat → List Tok → Option (FieldList × List Tok)
  | 0, _ => none
  | f + 1, ts =>
    match ts with
    | .punct p :: r =>
      if p == close then some (.nil, r) else none
    | .name n :: .punct .colon :: r =>
      match pValue q const f r with
      | some (v, r1) =>
        match pFields q const close f r1 with
        | some (fs, r2) => some (.cons n v fs, r2)
        | none => none
      | none => none
    | _ => none
end

/-- Arguments[Const]? : `(` Argument+ `)` -/
def pArgs (q : Quirks) (const : Bool) (f : Nat) (ts : List Tok) : Option (FieldList × List Tok) :=
  match ts with
  | .punct .lparen :: r =>
    match pFields q const .rparen f r with
    | some (.nil, _) => none
    | some (fs, r') => some (fs, r')
    | none => none
  | _ => some (.nil, ts)

/-- Directives[Const]? -/
def pDirs (q : Quirks) (const : Bool) : Nat → List Tok → Option (List Dir × List Tok)
  | 0, _ => none
  | f + 1, ts =>
    match ts with
    | .punct .at :: .name n :: r =>
      match pArgs q const f r with
      | some (args, r1) =>
        match pDirs q const f r1 with
        | some (ds, r2) => some ({ name := n, args := args } :: ds, r2)
        | none => none
      | none => none
    | .punct .at :: _ => none
    | _ => some ([], ts)

/-! ### executable documents -/

mutual
/-- Selection : Field | FragmentSpread | InlineFragment -/
def pSelection (q : Quirks) : Nat → List Tok → Option (Sel × List Tok)
  | 0, _ => none
  | f + 1, ts =>
    match ts with
    | .punct .spread :: r =>
      match r with
      | .name n :: r1 =>
        if n == kwOn then
          match r1 with
          | .name t :: r2 =>
            match pDirs q false f r2 with
            | some (dirs, r3) =>
              match pSelSet q f r3 with
              | some (sub, r4) => some (.inline (some t) dirs sub, r4)
              | none => none
            | none => none
          | _ => none
        else
          match pDirs q false f r1 with
          | some (dirs, r2) => some (.spread n dirs, r2)
          | none => none
      | _ =>
        match pDirs q false f r with
        | some (dirs, r3) =>
          match pSelSet q f r3 with
          | some (sub, r4) => some (.inline none dirs sub, r4)
          | none => none
        | none => none
    | .name n :: r =>
      let head : Option (Option Str × Str × List Tok) :=
        match r with
        | .punct .colon :: .name m :: r' => some (some n, m, r')
        | .punct .colon :: _ => none
        | _ => some (none, n, r)
      match head with
      | none => none
      | some (alias, name, r1) =>
        match pArgs q false f r1 with
        | some (args, r2) =>
          match pDirs q false f r2 with
          | some (dirs, r3) =>
            match r3 with
            | .punct .lbrace :: _ =>
              match pSelSet q f r3 with
              | some (sub, r4) => some (.field alias name args dirs sub, r4)
              | none => none
            | _ => some (.field alias name args dirs .nil, r3)
          | none => none
        | none => none
    | _ => none
/-- SelectionSet : `{` Selection+ `}` -/
def pSelSet (q : Quirks) : Nat → List Tok → Option (SelList × List Tok)
  | 0, _ => none
  | f + 1, ts =>
    match ts with
    | .punct .lbrace :: r =>
      match pSelection q f r with
      | some (s, r1) =>
        match pSelRest q f r1 with
        | some (rest, r2) => some (.cons s rest, r2)
        | none => none
      | none => none
    | _ => none
/-- Selection* `}` -/
def pSelRest (q : Quirks) : Nat → List Tok → Option (SelList × List Tok)
  | 0, _ => none
  | f + 1, ts =>
    match ts with
    | .punct .rbrace :: r => some (.nil, r)
    | _ =>
      match pSelection q f ts with
      | some (s, r1) =>
        match pSelRest q f r1 with
        | some (rest, r2) => some (.cons s rest, r2)
        | none => none
      | none => none
end

/-- DefaultValue? : `=` Value[Const] -/
def pDefault (q : Quirks) (f : Nat) (ts : List Tok) : Option (Option Value × List Tok) :=
  match ts with
  | .punct .eq :: r =>
    match pValue q true f r with
    | some (v, r') => some (some v, r')
    | none => none
  | _ => some (none, ts)

/-- VariableDefinition : Variable `:` Type DefaultValue?   (June 2018: no directives) -/
def pVarDef (q : Quirks) (f : Nat) (ts : List Tok) : Option (VarDef × List Tok) :=
  match ts with
  | .punct .dollar :: .name n :: .punct .colon :: r =>
    match pType f r with
    | some (ty, r1) =>
      match pDefault q f r1 with
      | some (dv, r2) =>
        if q.varDirectives then
          match pDirs q false f r2 with
          | some (dirs, r3) => some ({ name := n, ty := ty, default := dv, dirs := dirs }, r3)
          | none => none
        else some ({ name := n, ty := ty, default := dv, dirs := [] }, r2)
      | none => none
    | none => none
  | _ => none

/-- VariableDefinition* `)` -/
def pVarDefs (q : Quirks) : Nat → List Tok → Option (List VarDef × List Tok)
  | 0, _ => none
  | f + 1, ts =>
    match ts with
    | .punct .rparen :: r => some ([], r)
    | _ =>
      match pVarDef q f ts with
      | some (v, r1) =>
        match pVarDefs q f r1 with
        | some (vs, r2) => some (v :: vs, r2)
        | none => none
      | none => none

/-- VariableDefinitions? : `(` VariableDefinition+ `)` -/
def pVarDefsOpt (q : Quirks) (f : Nat) (ts : List Tok) : Option (List VarDef × List Tok) :=
  match ts with
  | .punct .lparen :: r =>
    match pVarDefs q f r with
    | some ([], _) => none
    | some (vs, r') => some (vs, r')
    | none => none
  | _ => some ([], ts)

/-- ExecutableDefinition : OperationDefinition | FragmentDefinition -/
def pExecDef (q : Quirks) (f : Nat) (ts : List Tok) : Option (ExecDef × List Tok) :=
  match ts with
  | .punct .lbrace :: _ =>
    match pSelSet q f ts with
    | some (sel, r) => some (.op .query none [] [] sel, r)
    | none => none
  | .name kw :: r =>
    if kw == kwFragment then
      match r with
      | .name n :: .name o :: .name tc :: r1 =>
        if o == kwOn && (q.fragmentNamedOn || n != kwOn) then
          match pDirs q false f r1 with
          | some (dirs, r2) =>
            match pSelSet q f r2 with
            | some (sel, r3) => some (.frag n tc dirs sel, r3)
            | none => none
          | none => none
        else none
      | _ => none
    else
      match opTypeOf kw with
      | none => none
      | some k =>
        let (name, r1) : Option Str × List Tok :=
          match r with
          | .name n :: r' => (some n, r')
          | _ => (none, r)
        match pVarDefsOpt q f r1 with
        | some (vars, r2) =>
          match pDirs q false f r2 with
          | some (dirs, r3) =>
            match pSelSet q f r3 with
            | some (sel, r4) => some (.op k name vars dirs sel, r4)
            | none => none
          | none => none
        | none => none
  | _ => none

def pExecDefs (q : Quirks) : Nat → List Tok → Option (List ExecDef)
  | 0, _ => none
  | f + 1, ts =>
    match ts with
    | [] => some []
    | _ =>
      match pExecDef q f ts with
      | some (d, r) =>
        match pExecDefs q f r with
        | some ds => some (d :: ds)
        | none => none
      | none => none

/-! ### type-system documents -/

/-- Description? -/
def pDesc (q : Quirks) (ts : List Tok) : Option Str × List Tok :=
  match ts with
  | .str raw :: r => (some (strValue q raw), r)
  | .block raw :: r => (some (blockValue q raw), r)
  | _ => (none, ts)

/-- InputValueDefinition : Description? Name `:` Type DefaultValue? Directives[Const]? -/
def pInputVal (q : Quirks) (f : Nat) (ts : List Tok) : Option (InputVal × List Tok) :=
  let (desc, r0) := pDesc q ts
  match r0 with
  | .name n :: .punct .colon :: r =>
    match pType f r with
    | some (ty, r1) =>
      match pDefault q f r1 with
      | some (dv, r2) =>
        match pDirs q true f r2 with
        | some (dirs, r3) => some ({ desc := desc, name := n, ty := ty, default := dv, dirs := dirs }, r3)
        | none => none
      | none => none
    | none => none
  | _ => none

/-- InputValueDefinition* close -/
def pInputVals (q : Quirks) (close : Punct) : Nat → List Tok → Option (List InputVal × List Tok)
  | 0, _ => none
  | f + 1, ts =>
    match ts with
    | .punct p :: r => if p == close then some ([], r) else none
    | _ =>
      match pInputVal q f ts with
      | some (v, r1) =>
        match pInputVals q close f r1 with
        | some (vs, r2) => some (v :: vs, r2)
        | none => none
      | none => none

/-- (open InputValueDefinition+ close)? -/
def pInputValsOpt (q : Quirks) (opn close : Punct) (f : Nat) (ts : List Tok) :
    Option (List InputVal × List Tok) :=
  match ts with
  | .punct p :: r =>
    if p == opn then
      match pInputVals q close f r with
      | some ([], _) => none
      | some (vs, r') => some (vs, r')
      | none => none
    else some ([], ts)
  | _ => some ([], ts)

/-- FieldDefinition : Description? Name ArgumentsDefinition? `:` Type Directives[Const]? -/
def pFieldDef (q : Quirks) (f : Nat) (ts : List Tok) : Option (FieldDef × List Tok) :=
  let (desc, r0) := pDesc q ts
  let (hack, r0') := if q.hackSource then pDesc q r0 else (none, r0)
  match r0' with
  | .name n :: r =>
    match pInputValsOpt q .lparen .rparen f r with
    | some (args, .punct .colon :: r1) =>
      match pType f r1 with
      | some (ty, r2) =>
        match pDirs q true f r2 with
        | some (dirs, r3) =>
          some ({ desc := desc, hack := hack, name := n, args := args, ty := ty, dirs := dirs }, r3)
        | none => none
      | none => none
    | _ => none
  | _ => none

/-- FieldDefinition* `}` -/
def pFieldDefs (q : Quirks) : Nat → List Tok → Option (List FieldDef × List Tok)
  | 0, _ => none
  | f + 1, ts =>
    match ts with
    | .punct .rbrace :: r => some ([], r)
    | _ =>
      match pFieldDef q f ts with
      | some (v, r1) =>
        match pFieldDefs q f r1 with
        | some (vs, r2) => some (v :: vs, r2)
        | none => none
      | none => none

/-- FieldsDefinition? : `{` FieldDefinition+ `}` -/
def pFieldDefsOpt (q : Quirks) (f : Nat) (ts : List Tok) : Option (List FieldDef × List Tok) :=
  match ts with
  | .punct .lbrace :: r =>
    match pFieldDefs q f r with
    | some ([], _) => none
    | some (vs, r') => some (vs, r')
    | none => none
  | _ => some ([], ts)

/-- (`&` NamedType)* -/
def pAmpNames : Nat → List Tok → List Str × List Tok
  | 0, ts => ([], ts)
  | f + 1, ts =>
    match ts with
    | .punct .amp :: .name n :: r => let (ns, r') := pAmpNames f r; (n :: ns, r')
    | _ => ([], ts)

/-- ImplementsInterfaces? : `implements` `&`? NamedType (`&` NamedType)* -/
def pImplements (f : Nat) (ts : List Tok) : Option (List Str × List Tok) :=
  match ts with
  | .name kw :: r =>
    if kw == kwImplements then
      let r1 := match r with
        | .punct .amp :: r' => r'
        | _ => r
      match r1 with
      | .name n :: r2 =>
        let (ns, r3) := pAmpNames f r2
        match r3 with
        | .punct .amp :: _ => none
        | _ => some (n :: ns, r3)
      | _ => none
    else some ([], ts)
  | _ => some ([], ts)

/-- (`|` Name)* -/
def pPipeNames : Nat → List Tok → List Str × List Tok
  | 0, ts => ([], ts)
  | f + 1, ts =>
    match ts with
    | .punct .pipe :: .name n :: r => let (ns, r') := pPipeNames f r; (n :: ns, r')
    | _ => ([], ts)

/-- `|`? Name (`|` Name)* -/
def pPipeList (f : Nat) (ts : List Tok) : Option (List Str × List Tok) :=
  let r1 := match ts with
    | .punct .pipe :: r' => r'
    | _ => ts
  match r1 with
  | .name n :: r2 =>
    let (ns, r3) := pPipeNames f r2
    match r3 with
    | .punct .pipe :: _ => none
    | _ => some (n :: ns, r3)
  | _ => none

/-- UnionMemberTypes? : `=` `|`? NamedType (`|` NamedType)* -/
def pUnionMembers (q : Quirks) (f : Nat) (ts : List Tok) : Option (List Str × List Tok) :=
  match ts with
  | .punct .eq :: r => pPipeList f r
  | _ => if q.unionNeedsMembers then none else some ([], ts)

/-- EnumValueDefinition : Description? EnumValue Directives[Const]? -/
def pEnumVal (q : Quirks) (f : Nat) (ts : List Tok) : Option (EnumVal × List Tok) :=
  let (desc, r0) := pDesc q ts
  match r0 with
  | .name n :: r =>
    if !q.enumReserved && (n == kwTrue || n == kwFalse || n == kwNull) then none
    else
      match pDirs q true f r with
      | some (dirs, r1) => some ({ desc := desc, name := n, dirs := dirs }, r1)
      | none => none
  | _ => none

def pEnumVals (q : Quirks) : Nat → List Tok → Option (List EnumVal × List Tok)
  | 0, _ => none
  | f + 1, ts =>
    match ts with
    | .punct .rbrace :: r => some ([], r)
    | _ =>
      match pEnumVal q f ts with
      | some (v, r1) =>
        match pEnumVals q f r1 with
        | some (vs, r2) => some (v :: vs, r2)
        | none => none
      | none => none

def pEnumValsOpt (q : Quirks) (f : Nat) (ts : List Tok) : Option (List EnumVal × List Tok) :=
  match ts with
  | .punct .lbrace :: r =>
    match pEnumVals q f r with
    | some ([], _) => none
    | some (vs, r') => some (vs, r')
    | none => none
  | _ => some ([], ts)

/-- OperationTypeDefinition* `}` -/
def pOpTypes : Nat → List Tok → Option (List (OpType × Str) × List Tok)
  | 0, _ => none
  | f + 1, ts =>
    match ts with
    | .punct .rbrace :: r => some ([], r)
    | .name k :: .punct .colon :: .name n :: r =>
      match opTypeOf k with
      | some o =>
        match pOpTypes f r with
        | some (os, r') => some ((o, n) :: os, r')
        | none => none
      | none => none
    | _ => none

/-- `{` OperationTypeDefinition+ `}` -/
def pOpTypesBraced (f : Nat) (ts : List Tok) : Option (List (OpType × Str) × List Tok) :=
  match ts with
  | .punct .lbrace :: r =>
    match pOpTypes f r with
    | some ([], _) => none
    | some (os, r') => some (os, r')
    | none => none
  | _ => none

def checkLocs (q : Quirks) (ls : List Str) : Bool := ls.all (isLocation q)

/-- the part of a type-system definition after its keyword -/
def pTsBody (q : Quirks) (f : Nat) (desc hack : Option Str) (kw : Str) (r : List Tok) :
    Option (TsDef × List Tok) :=
  if kw == kwSchema then
    if desc.isSome && !q.descOnSchema then none
    else
      match pDirs q true f r with
      | some (dirs, r1) =>
        match pOpTypesBraced f r1 with
        | some (ops, r2) => some (.schema desc dirs ops, r2)
        | none => none
      | none => none
  else if kw == kwScalar then
    match r with
    | .name n :: r1 =>
      match pDirs q true f r1 with
      | some (dirs, r2) => some (.scalar desc n dirs, r2)
      | none => none
    | _ => none
  else if kw == kwType || kw == kwInterface then
    match r with
    | .name n :: r1 =>
      match (if kw == kwType || q.interfaceImplements then pImplements f r1 else some ([], r1)) with
      | some (impl, r2) =>
        match pDirs q true f r2 with
        | some (dirs, r3) =>
          match pFieldDefsOpt q f r3 with
          | some (fs, r4) =>
            some (if kw == kwType then .object desc n impl dirs fs else .interface desc n impl dirs fs, r4)
          | none => none
        | none => none
      | none => none
    | _ => none
  else if kw == kwUnion then
    match r with
    | .name n :: r1 =>
      match pDirs q true f r1 with
      | some (dirs, r2) =>
        match pUnionMembers q f r2 with
        | some (ms, r3) => some (.union desc n dirs ms, r3)
        | none => none
      | none => none
    | _ => none
  else if kw == kwEnum then
    match r with
    | .name n :: r1 =>
      match pDirs q true f r1 with
      | some (dirs, r2) =>
        match pEnumValsOpt q f r2 with
        | some (vs, r3) => some (.enum desc n dirs vs, r3)
        | none => none
      | none => none
    | _ => none
  else if kw == kwInput then
    match r with
    | .name n :: r1 =>
      match pDirs q true f r1 with
      | some (dirs, r2) =>
        match pInputValsOpt q .lbrace .rbrace f r2 with
        | some (vs, r3) => some (.input desc n dirs vs, r3)
        | none => none
      | none => none
    | _ => none
  else if kw == kwDirective then
    let r0 : Option (List Tok) :=
      match r with
      | .punct .at :: r' => some r'
      | _ => if q.missingAt then some r else none
    match r0 with
    | some (.name n :: r1) =>
      match pInputValsOpt q .lparen .rparen f r1 with
      | some (args, r2) =>
        let (rep, r3) : Bool × List Tok :=
          match r2 with
          | .name k :: r' => if q.repeatable && k == kwRepeatable then (true, r') else (false, r2)
          | _ => (false, r2)
        match r3 with
        | .name o :: r4 =>
          if o == kwOn then
            match pPipeList f r4 with
            | some (locs, r5) =>
              if checkLocs q locs then some (.directive desc hack n args rep locs, r5) else none
            | none => none
          else none
        | _ => none
      | none => none
    | _ => none
  else if kw == kwExtend then
    if desc.isSome && !q.descOnExtension then none
    else
      match r with
      | .name k2 :: r0 =>
        if k2 == kwSchema then
          match pDirs q true f r0 with
          | some (dirs, r1) =>
            match r1 with
            | .punct .lbrace :: _ =>
              match pOpTypesBraced f r1 with
              | some (ops, r2) => some (.extSchema dirs ops, r2)
              | none => none
            | _ => if dirs.isEmpty && !q.emptyExtension then none else some (.extSchema dirs [], r1)
          | none => none
        else
          match r0 with
          | .name n :: r1 =>
            if k2 == kwScalar then
              match pDirs q true f r1 with
              | some (dirs, r2) =>
                if dirs.isEmpty && !q.emptyExtension then none else some (.extScalar n dirs, r2)
              | none => none
            else if k2 == kwType || k2 == kwInterface then
              match (if k2 == kwType || q.interfaceImplements then pImplements f r1 else some ([], r1)) with
              | some (impl, r2) =>
                match pDirs q true f r2 with
                | some (dirs, r3) =>
                  match pFieldDefsOpt q f r3 with
                  | some (fs, r4) =>
                    if impl.isEmpty && dirs.isEmpty && fs.isEmpty &&
                        !(q.emptyObjectExtension && k2 == kwType) then none
                    else some (if k2 == kwType then .extObject n impl dirs fs
                               else .extInterface n impl dirs fs, r4)
                  | none => none
                | none => none
              | none => none
            else if k2 == kwUnion then
              match pDirs q true f r1 with
              | some (dirs, r2) =>
                match pUnionMembers { q with unionNeedsMembers := false } f r2 with
                | some (ms, r3) =>
                  if dirs.isEmpty && ms.isEmpty && !q.emptyExtension then none
                  else some (.extUnion n dirs ms, r3)
                | none => none
              | none => none
            else if k2 == kwEnum then
              match pDirs q true f r1 with
              | some (dirs, r2) =>
                match pEnumValsOpt q f r2 with
                | some (vs, r3) =>
                  if dirs.isEmpty && vs.isEmpty && !q.emptyExtension then none
                  else some (.extEnum n dirs vs, r3)
                | none => none
              | none => none
            else if k2 == kwInput then
              match pDirs q true f r1 with
              | some (dirs, r2) =>
                match pInputValsOpt q .lbrace .rbrace f r2 with
                | some (vs, r3) =>
                  if dirs.isEmpty && vs.isEmpty && !q.emptyExtension then none
                  else some (.extInput n dirs vs, r3)
                | none => none
              | none => none
            else none
          | _ => none
      | _ => none
  else none

/-- TypeSystemDefinition | TypeSystemExtension -/
def pTsDef (q : Quirks) (f : Nat) (ts : List Tok) : Option (TsDef × List Tok) :=
  let (desc, r0) := pDesc q ts
  let (hack, r1) := if q.hackSource then pDesc q r0 else (none, r0)
  match r1 with
  | .name kw :: r =>
    -- relay keeps `hack_source` only on directive definitions; elsewhere it is read and dropped
    pTsBody q f desc hack kw r
  | _ => none

inductive Outcome where
  | accept (tree : Str)
  | reject
  | panic
deriving DecidableEq, Repr, Inhabited

/-- relay: `parse_type_system_definition` returns a silent `Err(())` when the strings are not
followed by a name; at end of input `parse_schema_document` then unwraps that `Err`. -/
def danglingString (q : Quirks) (ts : List Tok) : Bool :=
  match ts with
  | .str _ :: _ | .block _ :: _ =>
    let (_, r0) := pDesc q ts
    let (_, r1) := if q.hackSource then pDesc q r0 else (none, r0)
    r1.isEmpty
  | _ => false

inductive DocResult where
  | ok (ds : List TsDef)
  | fail
  | panic

def pTsDefs (q : Quirks) : Nat → List Tok → DocResult
  | 0, _ => .fail
  | f + 1, ts =>
    match ts with
    | [] => .ok []
    | _ =>
      if q.panicDanglingString && danglingString q ts then .panic
      else
        match pTsDef q f ts with
        | some (d, r) =>
          match pTsDefs q f r with
          | .ok ds => .ok (d :: ds)
          | .fail => .fail
          | .panic => .panic
        | none => .fail

def fuelFor (ts : List Tok) : Nat := 4 * ts.length + 16

/-! ### entry points -/

/-- lexer selection: the specification's lexical grammar, or relay's logos lexer -/
def lexWith (relay : Bool) (s : Str) : LexResult :=
  if relay then relayLex s
  else match specLex s with
    | some ts => .ok ts
    | none => .error (cps "lexical")

/-- executable document (`graphql_syntax::parse_executable`) -/
def parseExec (relayLexer : Bool) (q : Quirks) (s : Str) : Outcome :=
  match lexWith relayLexer s with
  | .panic => .panic
  | .error _ => .reject
  | .ok ts =>
    match pExecDefs q (fuelFor ts) ts with
    | some [] => if q.emptyDocument then .accept (execDocSexp []) else .reject
    | some ds => .accept (execDocSexp ds)
    | none => .reject

def tsDocOf (relayLexer : Bool) (q : Quirks) (s : Str) : DocResult :=
  match lexWith relayLexer s with
  | .panic => .panic
  | .error _ => .fail
  | .ok ts =>
    match pTsDefs q (fuelFor ts) ts with
    | .ok [] => if q.emptyDocument then .ok [] else .fail
    | r => r

/-- type-system document; `proj` removes what the compared implementation's tree cannot hold -/
def parseSdl (relayLexer : Bool) (q : Quirks) (proj : TsDef → TsDef) (s : Str) : Outcome :=
  match tsDocOf relayLexer q s with
  | .ok ds => .accept (tsDocSexp (ds.map proj))
  | .fail => .reject
  | .panic => .panic

end IsoVerif.Gql
