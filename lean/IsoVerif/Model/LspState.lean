/-
M-LSP / the language server's view of file contents (C21).

State of the real server that decides what text a request is answered from:

  * `IsoLiteralMap`  path ↦ source (what the server believes is on disk; filled by
    `initialize_sources`, updated by `update_sources` from watcher events)
    — crates/isograph_compiler/src/source_files.rs
  * `OpenFileMap`    path ↦ open buffer (didOpen / didChange insert, didClose removes)
    — crates/isograph_lsp/src/text_document.rs, crates/isograph_schema/src/isograph_database.rs
  * `read_iso_literals_source` (isograph_literals.rs): the open buffer's text replaces the disk
    text; a path that is not in `IsoLiteralMap` has no contents even if a buffer is open.

Both maps are `#[tracked]` fields: reading one through `.tracked()` registers a dependency on a
per-field *counter singleton*, and every mutation increments that counter (pico/src/view.rs).
The counter does not exist until the first mutation, and pico registers no dependency for a read
of an absent singleton (DESIGN F1).  A memoised function that consulted `OpenFileMap` before its
first mutation is therefore never told about buffers opened later; it re-runs only when another of
its dependencies changes — for `read_iso_literals_source(id)` that is the disk source `id`.

The model has two layers:
  * `St` / `applyOp` / `effective` — the maps and the text they denote (what a fresh server
    answers from);
  * `Srv` / `srvStep` / `observed` — the same plus the set `stale` of paths whose
    `read_iso_literals_source` result was computed while the `OpenFileMap` counter was absent and
    has not been invalidated since (what the running server answers from).
Requests (`check`) are part of the history because they populate the memo table.
The `IsoLiteralMap` counter exists from start-up as soon as the project has one source file;
start-up with no source file at all is outside the model (`Init` carries at least one file in the
correspondence).
-/
import IsoVerif.Model.Util

namespace IsoVerif.LspState
open IsoVerif.Util

abbrev Path := String

/-- finite map as an association list, latest binding first; `none` value = removed -/
abbrev FMap := List (Path × Option Bytes)

def FMap.get (m : FMap) (p : Path) : Option Bytes :=
  match m with
  | [] => none
  | (q, v) :: rest => if q == p then v else FMap.get rest p

def FMap.set (m : FMap) (p : Path) (v : Option Bytes) : FMap := (p, v) :: m

inductive Op where
  | didOpen (p : Path) (text : Bytes)
  | didChange (p : Path) (text : Bytes)
  | didClose (p : Path)
  /-- the file is written on disk and the watcher event reaches `update_sources` -/
  | diskWrite (p : Path) (text : Bytes)
  /-- the file is deleted on disk and the watcher event reaches `update_sources` -/
  | diskRemove (p : Path)
  /-- some request / the diagnostics pass is answered (reads every file's contents) -/
  | check
  deriving Repr, DecidableEq

/-- disk contents and open buffers -/
structure St where
  disk : FMap := []
  bufs : FMap := []
  deriving Repr

def applyOp (s : St) : Op → St
  | .didOpen p t => { s with bufs := s.bufs.set p (some t) }
  | .didChange p t => { s with bufs := s.bufs.set p (some t) }
  | .didClose p => { s with bufs := s.bufs.set p none }
  | .diskWrite p t => { s with disk := s.disk.set p (some t) }
  | .diskRemove p => { s with disk := s.disk.set p none }
  | .check => s

def runOps (s : St) (ops : List Op) : St := ops.foldl applyOp s

/-- **Effective contents**: an open buffer's text replaces the file on disk (for files the server
knows from disk). -/
def effective (s : St) (p : Path) : Option Bytes :=
  match s.disk.get p with
  | none => none
  | some d => some ((s.bufs.get p).getD d)

/-- a freshly started server on the given disk contents and open buffers -/
def fresh (disk bufs : FMap) : St := ⟨disk, bufs⟩

/-- the running server: maps, whether the `OpenFileMap` counter singleton exists yet, and the
paths whose memoised `read_iso_literals_source` predates it -/
structure Srv where
  st : St := {}
  openCounter : Bool := false
  stale : List Path := []
  deriving Repr

/-- paths the server knows about (the correspondence uses three fixed files) -/
def paths (s : St) : List Path := (s.disk.map (·.1)).eraseDups

def srvStep (v : Srv) (op : Op) : Srv :=
  match op with
  | .didOpen _ _ | .didChange _ _ | .didClose _ =>
    -- `get_open_file_map_mut().tracked()` creates / increments the counter
    { v with st := applyOp v.st op, openCounter := true }
  | .diskWrite p t =>
    -- `db.set` of an equal value changes nothing (pico b7bfe5c); a different value or a
    -- re-created source invalidates `read_iso_literals_source(id)`
    if v.st.disk.get p == some t then v
    else { v with st := applyOp v.st op, stale := v.stale.filter (· != p) }
  | .diskRemove p =>
    { v with st := applyOp v.st op, stale := v.stale.filter (· != p) }
  | .check =>
    if v.openCounter then v
    else
      -- every known file's source is read and memoised without a dependency on the counter
      { v with stale := v.stale ++ ((paths v.st).filter fun p =>
          (v.st.disk.get p).isSome && !v.stale.contains p) }

def srvRun (v : Srv) (ops : List Op) : Srv := ops.foldl srvStep v

/-- what the running server answers from -/
def observed (v : Srv) (p : Path) : Option Bytes :=
  match v.st.disk.get p with
  | none => none
  | some d => if v.stale.contains p then some d else some ((v.st.bufs.get p).getD d)

/-- start-up: the server reads the disk; no buffer is open -/
def start (disk : FMap) : Srv := { st := ⟨disk, []⟩ }

/-- the model predicts a visibly stale answer for `p` -/
def staleVisible (v : Srv) (p : Path) : Bool := observed v p != effective v.st p

end IsoVerif.LspState
