/-
M-TEXT / TypeScript lexical contexts (C13).  Import-free.

A small automaton that tracks in which *lexical context* a position of a TypeScript source text lies:
code, single-quoted string, double-quoted string, template literal, line comment, block comment.
It is what `C13_holes` is stated over: text that the generators splice into an artifact must stay
inside the context of the hole it is spliced into.

Text is a list of Unicode code points (`Nat`); the driver decodes UTF-8.

Out of scope (say so in the property): regular-expression literals (a `/` in code position that is
not followed by `/` or `*` is treated as a division sign), `${ … }` substitutions inside template
literals (a template is opaque until its closing back-tick), `\` CR LF as ONE line continuation (the
automaton sees CR as the continuation and then LF as a raw line break), JSX.

Also here: the embedding functions of the holes through which the artifact generators of
crates/artifact_content splice user-controlled text into generated TypeScript, and the input domain
of every hole (what the front end lets through to that hole).
-/
namespace IsoVerif.TsLex

abbrev Text := List Nat

inductive St where
  | code
  /-- code, the previous character was `/` -/
  | codeSlash
  | sq | sqEsc
  | dq | dqEsc
  | tpl | tplEsc
  | line
  | block
  /-- block comment, the previous character was `*` -/
  | blockStar
  /-- a raw line break inside a quoted string: not a token any more -/
  | error
  deriving DecidableEq, Repr, Inhabited

def St.name : St → String
  | .code => "code" | .codeSlash => "code/" | .sq => "sq" | .sqEsc => "sq\\" | .dq => "dq" | .dqEsc => "dq\\"
  | .tpl => "tpl" | .tplEsc => "tpl\\" | .line => "line" | .block => "block" | .blockStar => "block*"
  | .error => "error"

/-- ECMAScript LineTerminator: LF, CR, U+2028, U+2029 -/
def isLineTerminator (c : Nat) : Bool := c == 10 || c == 13 || c == 0x2028 || c == 0x2029

def stepCode (c : Nat) : St :=
  if c == 47 then .codeSlash          -- /
  else if c == 39 then .sq            -- '
  else if c == 34 then .dq            -- "
  else if c == 96 then .tpl           -- `
  else .code

def step : St → Nat → St
  | .code, c => stepCode c
  | .codeSlash, c => if c == 47 then .line else if c == 42 then .block else stepCode c
  | .sq, c => if c == 92 then .sqEsc else if c == 39 then .code else if c == 10 || c == 13 then .error else .sq
  | .sqEsc, _ => .sq
  | .dq, c => if c == 92 then .dqEsc else if c == 34 then .code else if c == 10 || c == 13 then .error else .dq
  | .dqEsc, _ => .dq
  | .tpl, c => if c == 92 then .tplEsc else if c == 96 then .code else .tpl
  | .tplEsc, _ => .tpl
  | .line, c => if isLineTerminator c then .code else .line
  | .block, c => if c == 42 then .blockStar else .block
  | .blockStar, c => if c == 47 then .code else if c == 42 then .blockStar else .block
  | .error, _ => .error

def run (s : St) (t : Text) : St := t.foldl step s

/-- the lexical state at the end of a whole text -/
def lexState (t : Text) : St := run .code t

/-- Context families: the states that belong to "being inside" one lexical context. -/
inductive Fam where
  | code | sq | dq | line | block
  deriving DecidableEq, Repr, Inhabited

def Fam.name : Fam → String
  | .code => "code" | .sq => "sq" | .dq => "dq" | .line => "line" | .block => "block"

def Fam.has : Fam → St → Bool
  | .code, s => s == .code
  | .sq, s => s == .sq || s == .sqEsc
  | .dq, s => s == .dq || s == .dqEsc
  | .line, s => s == .line
  | .block, s => s == .block || s == .blockStar

/-- the state in which a hole of that family starts and must end -/
def Fam.base : Fam → St
  | .code => .code | .sq => .sq | .dq => .dq | .line => .line | .block => .block

/-- every state reached while reading `t` from `s` (after each character) lies in the family -/
def confined (f : Fam) : St → Text → Bool
  | _, [] => true
  | s, c :: rest => f.has (step s c) && confined f (step s c) rest

/-! ## Holes -/

inductive Hole where
  /-- schema description → `/**\n<text>\n*/` (write_optional_description) -/
  | desc
  /-- string argument → `export default '… f(s: "<text>") …';` (query_text.ts, __refetch__query_text__N.ts) -/
  | strSingle
  /-- string argument → `{ kind: "String", value: "<text>" }` (normalization_ast.ts, reader ASTs) -/
  | strDouble
  /-- options.generated_file_header → `// <text>\n` at the top of every artifact -/
  | header
  /-- path of the source file of a client field → `import { X as resolver } from '<path>';` -/
  | path
  /-- type, field, variable and argument names in identifier / property / quoted positions -/
  | name
  deriving DecidableEq, Repr, Inhabited

def Hole.all : List Hole := [.desc, .strSingle, .strDouble, .header, .path, .name]

def Hole.fam : Hole → Fam
  | .desc => .block | .strSingle => .sq | .strDouble => .dq | .header => .line | .path => .sq | .name => .code

/-- what the template puts directly after the hole -/
def Hole.term : Hole → Text
  | .desc => [10]            -- `\n` (then indentation and `*/`)
  | .header => []            -- (`\n` ends the comment: that IS the end of the context)
  | _ => []

/-- `str::replace("*/", "*\\/")`: leftmost, non-overlapping -/
def escapeCommentEnd : Text → Text
  | [] => []
  | 42 :: 47 :: rest => 42 :: 92 :: 47 :: escapeCommentEnd rest
  | c :: rest => c :: escapeCommentEnd rest

/-- `query_text_as_single_quoted_js_string_body` (operation_text.rs, fix dc59a0f): a backslash directly before a
line feed is the printer's own line continuation and is kept; every other backslash is doubled, every
apostrophe gets a backslash. -/
def escapeJsSq : Text → Text
  | [] => []
  | c :: rest =>
    if c == 92 then (if rest.head? == some 10 then 92 :: escapeJsSq rest else 92 :: 92 :: escapeJsSq rest)
    else if c == 39 then 92 :: 39 :: escapeJsSq rest
    else c :: escapeJsSq rest

/-- The embedding function the code uses for each hole: descriptions and the single-quoted operation text are
escaped, the others are spliced verbatim. -/
def Hole.embed : Hole → Text → Text
  | .desc, t => escapeCommentEnd t
  | .strSingle, t => escapeJsSq t
  | _, t => t

/-! ### Input domains: what can reach a hole at all -/

def isHex (c : Nat) : Bool := (48 ≤ c && c ≤ 57) || (65 ≤ c && c ≤ 70) || (97 ≤ c && c ≤ 102)

def isNameChar (c : Nat) : Bool := (65 ≤ c && c ≤ 90) || (97 ≤ c && c ≤ 122) || (48 ≤ c && c ≤ 57) || c == 95

def isBmp (c : Nat) : Bool := c < 0x10000

/-- Raw text between the quotes of an iso string literal (`StringToken` of token_kind.rs: string
characters `[\t\x20\x21\x23-\x5B\x5D-￿]` and the escapes `\" \\ \/ \b \f \n \r \t \uXXXX`; the
literal sits in a JS template of the source file, so no back-tick). -/
def strArgDomain : Text → Bool
  | [] => true
  | 92 :: c :: rest =>
    if c == 34 || c == 92 || c == 47 || c == 98 || c == 102 || c == 110 || c == 114 || c == 116 then strArgDomain rest
    else if c == 117 then
      match rest with
      | h1 :: h2 :: h3 :: h4 :: rest' => isHex h1 && isHex h2 && isHex h3 && isHex h4 && strArgDomain rest'
      | _ => false
    else false
  | c :: rest =>
    c != 92 && c != 34 && c != 96 && c != 10 && c != 13 && (c ≥ 32 || c == 9) && isBmp c && strArgDomain rest
termination_by t => t.length

def splitLines : Text → List Text
  | [] => [[]]
  | c :: rest =>
    match splitLines rest with
    | [] => [[c]]                       -- unreachable
    | l :: ls => if c == 10 then [] :: l :: ls else (c :: l) :: ls

def isBlank (l : Text) : Bool := l.all fun c => c == 32 || c == 9

/-- Descriptions for which `clean_block_string_literal` is the identity and which the schema lexer accepts
inside `""" … """` (no quote, no backslash, no CR, no other control character, BMP, no blank line, no line
starting with white space). -/
def descDomain (t : Text) : Bool :=
  !t.isEmpty && t.all (fun c => c != 34 && c != 92 && c != 13 && (c ≥ 32 || c == 10 || c == 9) && isBmp c) &&
  (splitLines t).all (fun l => !isBlank l && l.head? != some 32 && l.head? != some 9)

/-- `create_options` panics when `header.lines().count() > 1`; a JSON string cannot hold U+0000 … it can, but the
harness leaves it out.  Everything else is accepted, CR and U+2028 included. -/
def headerDomain (t : Text) : Bool := t.all fun c => c != 10 && c != 0

/-- a file name stem: one path component -/
def pathDomain (t : Text) : Bool :=
  !t.isEmpty && t.head? != some 46 && t.all (fun c => c != 47 && c != 0)

def nameDomain (t : Text) : Bool :=
  match t with
  | [] => false
  | c :: _ => !(48 ≤ c && c ≤ 57) && t.all isNameChar

def Hole.domain : Hole → Text → Bool
  | .desc => descDomain
  | .strSingle => strArgDomain
  | .strDouble => strArgDomain
  | .header => headerDomain
  | .path => pathDomain
  | .name => nameDomain

/-- The extra condition under which the CURRENT embedding keeps the text inside its hole.  `true` for
holes whose embedding is safe on the whole domain. -/
def Hole.safe : Hole → Text → Bool
  | .desc, _ => true
  | .strSingle, _ => true
  | .strDouble, _ => true
  | .header, t => t.all fun c => !isLineTerminator c
  | .path, t => t.all fun c => c != 39 && c != 92 && c != 10 && c != 13
  | .name, _ => true

/-- The decidable statement of `C13_holes` at one hole and one text: the embedded text (followed by what
the template puts after it) never leaves the hole's context and ends in the state it started in. -/
def holeOk (h : Hole) (embedded : Text) : Bool :=
  confined h.fam h.fam.base (embedded ++ h.term) && run h.fam.base (embedded ++ h.term) == h.fam.base

/-! ## UTF-8 decoding for the driver (lossy: malformed bytes become U+FFFD) -/

def decodeAux : Nat → List UInt8 → Text → Text
  | 0, _, acc => acc.reverse
  | _, [], acc => acc.reverse
  | fuel + 1, b :: rest, acc =>
    let n := b.toNat
    if n < 0x80 then decodeAux fuel rest (n :: acc)
    else if n < 0xC0 then decodeAux fuel rest (0xFFFD :: acc)
    else if n < 0xE0 then
      match rest with
      | b1 :: rest' => decodeAux fuel rest' (((n % 32) * 64 + b1.toNat % 64) :: acc)
      | _ => (0xFFFD :: acc).reverse
    else if n < 0xF0 then
      match rest with
      | b1 :: b2 :: rest' => decodeAux fuel rest' (((n % 16) * 4096 + (b1.toNat % 64) * 64 + b2.toNat % 64) :: acc)
      | _ => (0xFFFD :: acc).reverse
    else
      match rest with
      | b1 :: b2 :: b3 :: rest' =>
        decodeAux fuel rest' (((n % 8) * 262144 + (b1.toNat % 64) * 4096 + (b2.toNat % 64) * 64 + b3.toNat % 64) :: acc)
      | _ => (0xFFFD :: acc).reverse

def decodeUtf8 (b : List UInt8) : Text := decodeAux (b.length + 1) b []

def encodeChar (c : Nat) : List UInt8 :=
  if c < 0x80 then [UInt8.ofNat c]
  else if c < 0x800 then [UInt8.ofNat (0xC0 + c / 64), UInt8.ofNat (0x80 + c % 64)]
  else if c < 0x10000 then [UInt8.ofNat (0xE0 + c / 4096), UInt8.ofNat (0x80 + (c / 64) % 64), UInt8.ofNat (0x80 + c % 64)]
  else [UInt8.ofNat (0xF0 + c / 262144), UInt8.ofNat (0x80 + (c / 4096) % 64), UInt8.ofNat (0x80 + (c / 64) % 64),
        UInt8.ofNat (0x80 + c % 64)]

def encodeUtf8 (t : Text) : List UInt8 := t.flatMap encodeChar

end IsoVerif.TsLex
