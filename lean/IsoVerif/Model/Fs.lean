/-
M-FS: executable model of
  crates/artifact_content/src/file_system_state.rs   (FileSystemState::{from, recreate_all, diff})
  crates/isograph_compiler/src/write_artifacts.rs    (get_file_system_operations, apply_file_system_operations)
  crates/isograph_compiler/src/batch_compile.rs      (compile: order of validation / planning / applying)

Names (entity, selectable, file) are an arbitrary type `α` with decidable equality; a path is the
list of components *below the artifact directory* (`[]` is the artifact directory itself).  The file
system below the artifact directory is a finite association list `path ↦ file bytes | dir`; its
meaning is the lookup function `Fs.get`.  The `std::fs` calls are modelled with the error conditions
that matter: writing into a missing directory fails, `remove_file` of a non-file fails,
`remove_dir_all` is guarded by `exists`, `create_dir_all` is idempotent and fails through a file.

Hash maps of the Rust code are association lists *in an arbitrary order*: every theorem quantifies
over the lists, hence over every iteration order a `HashMap` can produce.
-/
import IsoVerif.Model.Util

namespace IsoVerif.Fs
open IsoVerif.Util

variable {α : Type} [DecidableEq α]

abbrev Path (α : Type) := List α

inductive Entry
  | file (content : Bytes)
  | dir
deriving DecidableEq, Repr

/-- The file system below (and including) the artifact directory. -/
abbrev Fs (α : Type) := List (Path α × Entry)

def Fs.get (fs : Fs α) (p : Path α) : Option Entry :=
  match fs with
  | [] => none
  | (q, e) :: rest => if q = p then some e else Fs.get rest p

def Fs.erase (fs : Fs α) (p : Path α) : Fs α := fs.filter (fun qe => !(decide (qe.1 = p)))

def Fs.set (fs : Fs α) (p : Path α) (e : Entry) : Fs α := (p, e) :: Fs.erase fs p

def isPrefixOf : Path α → Path α → Bool
  | [], _ => true
  | _ :: _, [] => false
  | a :: as, b :: bs => decide (a = b) && isPrefixOf as bs

/-- remove `p` and everything below it -/
def Fs.eraseTree (fs : Fs α) (p : Path α) : Fs α := fs.filter (fun qe => !(isPrefixOf p qe.1))

inductive FsError | notADirectory | isADirectory | notFound | fault
deriving DecidableEq, Repr

/-- `fs::create_dir_all(p)`: walk the prefixes of `p` from the artifact directory down.
(The parent of the artifact directory is assumed to exist and be writable.) -/
def createDirAllFrom (fs : Fs α) (pre : Path α) : List α → Except FsError (Fs α)
  | [] =>
    match Fs.get fs pre with
    | some (.file _) => .error .notADirectory
    | some .dir => .ok fs
    | none => .ok (Fs.set fs pre .dir)
  | c :: rest =>
    match Fs.get fs pre with
    | some (.file _) => .error .notADirectory
    | some .dir => createDirAllFrom fs (pre ++ [c]) rest
    | none => createDirAllFrom (Fs.set fs pre .dir) (pre ++ [c]) rest

def createDirAll (fs : Fs α) (p : Path α) : Except FsError (Fs α) := createDirAllFrom fs [] p

/-- `if path.exists() { fs::remove_dir_all(path) }` -/
def deleteDirectory (fs : Fs α) (p : Path α) : Except FsError (Fs α) :=
  match Fs.get fs p with
  | none => .ok fs
  | some .dir => .ok (Fs.eraseTree fs p)
  | some (.file _) => .error .notADirectory

/-- `fs::write(path, content)` -/
def writeFile (fs : Fs α) (p : Path α) (c : Bytes) : Except FsError (Fs α) :=
  match p with
  | [] => .error .isADirectory
  | _ =>
    match Fs.get fs p.dropLast with
    | some .dir =>
      match Fs.get fs p with
      | some .dir => .error .isADirectory
      | _ => .ok (Fs.set fs p (.file c))
    | some (.file _) => .error .notADirectory
    | none => .error .notFound

/-- `fs::remove_file(path)` -/
def removeFile (fs : Fs α) (p : Path α) : Except FsError (Fs α) :=
  match Fs.get fs p with
  | some (.file _) => .ok (Fs.erase fs p)
  | some .dir => .error .isADirectory
  | none => .error .notFound

inductive Op (α : Type)
  | deleteDirectory (p : Path α)
  | createDirectory (p : Path α)
  | writeFile (p : Path α) (idx : Nat)
  | deleteFile (p : Path α)
deriving DecidableEq, Repr

/-- One artifact: `None` = root file, `Some (entity, selectable)` = nested file. -/
structure Artifact (α : Type) where
  nested : Option (α × α)
  fileName : α
  content : Bytes
deriving Repr

def Artifact.path (a : Artifact α) : Path α :=
  match a.nested with
  | some (e, s) => [e, s, a.fileName]
  | none => [a.fileName]

def applyOp (arts : List (Artifact α)) (fs : Fs α) : Op α → Except FsError (Fs α)
  | .deleteDirectory p => deleteDirectory fs p
  | .createDirectory p => createDirAll fs p
  | .writeFile p idx =>
    match arts[idx]? with
    | some a => writeFile fs p a.content
    | none => .error .fault          -- `expect("index should be valid for artifacts vec")`
  | .deleteFile p => removeFile fs p

/-- `apply_file_system_operations`; returns the file system reached and whether it failed.
`faultAt = some k` injects an I/O error *instead of* operation `k` (the state at that point is kept;
C19 is proved for an arbitrary state after a failure, which also covers torn writes). -/
def applyAll (arts : List (Artifact α)) : Fs α → List (Op α) → Nat → Option Nat → Fs α × Bool
  | fs, [], _, _ => (fs, true)
  | fs, op :: rest, i, faultAt =>
    if faultAt = some i then (fs, false) else
    match applyOp arts fs op with
    | .ok fs' => applyAll arts fs' rest (i + 1) faultAt
    | .error _ => (fs, false)

/-! ### FileSystemState -/

abbrev AList (κ ν : Type) := List (κ × ν)

def AList.lookup {κ ν : Type} [DecidableEq κ] (l : AList κ ν) (k : κ) : Option ν :=
  match l with
  | [] => none
  | (k', v) :: rest => if k' = k then some v else AList.lookup rest k

def AList.insert {κ ν : Type} [DecidableEq κ] (l : AList κ ν) (k : κ) (v : ν) : AList κ ν :=
  match l with
  | [] => [(k, v)]
  | (k', v') :: rest => if k' = k then (k, v) :: rest else (k', v') :: AList.insert rest k v

/-- file name ↦ (index into the artifact list, content hash) -/
abbrev Files (α : Type) := AList α (Nat × Bytes)

structure State (α : Type) where
  rootFiles : Files α
  nestedFiles : AList α (AList α (Files α))

def State.empty : State α := ⟨[], []⟩

def insertNested (n : AList α (AList α (Files α))) (e s f : α) (v : Nat × Bytes) :
    AList α (AList α (Files α)) :=
  let sm := (AList.lookup n e).getD []
  let fm := (AList.lookup sm s).getD []
  AList.insert n e (AList.insert sm s (AList.insert fm f v))

/-- `impl From<&[ArtifactPathAndContent]> for FileSystemState` (later artifacts win). -/
def fromArtifactsAux (hash : Bytes → Bytes) : List (Artifact α) → Nat → State α → State α
  | [], _, st => st
  | a :: rest, i, st =>
    let v := (i, hash a.content)
    let st' := match a.nested with
      | some (e, s) => { st with nestedFiles := insertNested st.nestedFiles e s a.fileName v }
      | none => { st with rootFiles := AList.insert st.rootFiles a.fileName v }
    fromArtifactsAux hash rest (i + 1) st'

def fromArtifacts (hash : Bytes → Bytes) (arts : List (Artifact α)) : State α :=
  fromArtifactsAux hash arts 0 State.empty

/-- `FileSystemState::recreate_all`.  `createRoot` = whether a `CreateDirectory(artifact_directory)`
is emitted after the delete (regenerated from the source by translator T-fs; the F8 fix). -/
def recreateAll (createRoot : Bool) (st : State α) : List (Op α) :=
  [Op.deleteDirectory []] ++ (if createRoot then [Op.createDirectory []] else []) ++
  (st.nestedFiles.flatMap fun (e, sm) =>
    sm.flatMap fun (s, fm) =>
      Op.createDirectory [e, s] :: fm.map fun (f, (idx, _)) => Op.writeFile [e, s, f] idx) ++
  (st.rootFiles.map fun (f, (idx, _)) => Op.writeFile [f] idx)

/-- `FileSystemState::diff` -/
def diff (old new : State α) : List (Op α) :=
  (new.nestedFiles.flatMap fun (e, sm) =>
    let oldSm := AList.lookup old.nestedFiles e
    sm.flatMap fun (s, fm) =>
      let oldFm := oldSm.bind (fun m => AList.lookup m s)
      (if oldFm.isNone then [Op.createDirectory [e, s]] else []) ++
      fm.filterMap fun (f, (idx, h)) =>
        let shouldWrite := match oldFm.bind (fun m => AList.lookup m f) with
          | some (_, oh) => oh != h
          | none => true
        if shouldWrite then some (Op.writeFile [e, s, f] idx) else none) ++
  (new.rootFiles.filterMap fun (f, (idx, h)) =>
    let shouldWrite := match AList.lookup old.rootFiles f with
      | some (_, oh) => oh != h
      | none => true
    if shouldWrite then some (Op.writeFile [f] idx) else none) ++
  (old.nestedFiles.flatMap fun (e, sm) =>
    match AList.lookup new.nestedFiles e with
    | none => [Op.deleteDirectory [e]]
    | some newSm =>
      sm.flatMap fun (s, fm) =>
        match AList.lookup newSm s with
        | none => [Op.deleteDirectory [e, s]]
        | some newFm =>
          fm.filterMap fun (f, _) =>
            if (AList.lookup newFm f).isNone then some (Op.deleteFile [e, s, f]) else none) ++
  (old.rootFiles.filterMap fun (f, _) =>
    if (AList.lookup new.rootFiles f).isNone then some (Op.deleteFile [f]) else none)

/-- `get_file_system_operations`: plan and replace the in-memory state. -/
def getOps (createRoot : Bool) (hash : Bytes → Bytes) (arts : List (Artifact α)) (st : Option (State α)) :
    List (Op α) × Option (State α) :=
  let new := fromArtifacts hash arts
  (match st with
   | none => recreateAll createRoot new
   | some old => diff old new, some new)

/-! ### compile -/

structure Session (α : Type) where
  fsState : Option (State α)
  fs : Fs α

inductive CompileResult
  | ok
  | diagnostics      -- validation failed: `get_artifact_path_and_content(db)?`
  | ioError
deriving DecidableEq, Repr

/-- `compile`: `artifacts = none` means validation reported diagnostics.  `resetOnIoError` = whether
the in-memory `file_system_state` is dropped when applying fails (the F9 fix; regenerated from the
source by the translator). -/
def compile (createRoot resetOnIoError : Bool) (hash : Bytes → Bytes) (s : Session α)
    (artifacts : Option (List (Artifact α))) (faultAt : Option Nat) : Session α × CompileResult :=
  match artifacts with
  | none => (s, .diagnostics)
  | some arts =>
    let (ops, st') := getOps createRoot hash arts s.fsState
    let (fs', okay) := applyAll arts s.fs ops 0 faultAt
    if okay then ({ fsState := st', fs := fs' }, .ok)
    else ({ fsState := if resetOnIoError then none else st', fs := fs' }, .ioError)

/-- The tree the artifacts denote: every artifact's path holds its content (last one wins), and
the artifact directory and every ancestor directory of a nested artifact exist. -/
def expectedGet (arts : List (Artifact α)) (p : Path α) : Option Entry :=
  match (arts.reverse.find? fun a => a.path = p) with
  | some a => some (.file a.content)
  | none =>
    if p = [] then some .dir
    else if arts.any (fun a => match a.nested with
        | some (e, s) => p = [e] || p = [e, s]
        | none => false) then some .dir
    else none

end IsoVerif.Fs
