/-
M-GQL / printers.

* `relayPrint` — model of relay's schema printer (`impl Display for SchemaDocument /
  TypeSystemDefinition / FieldDefinition / InputValueDefinition / ConstantValue / …` in
  relay-crates/graphql-syntax/src/node/{type_system,relay_constant_value,relay_type_annotation,
  relay_document}.rs), applied to the tree the relay-model parser builds (string values are the
  stored `StringNode.value`: raw source for quoted strings, cleaned text for block strings).
  What it drops: every description, `hack_source`, `repeatable`.
* `Ty.toks`, `Value.toks`, … — the canonical token printer used by the round-trip theorems
  (Props/C29.lean): the AST as a token list, which `pType`, `pValue`, … read back.
-/
import IsoVerif.Model.GqlParse

namespace IsoVerif.Gql

def joinSep (sep : Str) : List Str → Str
  | [] => []
  | [x] => x
  | x :: xs => x ++ sep ++ joinSep sep xs

def Ty.print : Ty → Str
  | .named n => n
  | .list t => [91] ++ t.print ++ [93]
  | .nonNull t => t.print ++ [33]

mutual
/-- `impl Display for ConstantValue` -/
def Value.print : Value → Str
  | .var n => 36 :: n
  | .int v => intStr v
  | .float s => s
  | .str v => [34] ++ v ++ [34]
  | .bool b => cps (if b then "true" else "false")
  | .null => cps "null"
  | .enum n => n
  | .list vs => [91] ++ vs.print ++ [93]
  | .obj fs => [123] ++ fs.print ++ [125]
/-- items joined by ", " -/
def ValueList.print : ValueList → Str
  | .nil => []
  | .cons v .nil => v.print
  | .cons v vs => v.print ++ [44, 32] ++ vs.print
def FieldList.print : FieldList → Str
  | .nil => []
  | .cons n v .nil => n ++ [58, 32] ++ v.print
  | .cons n v fs => n ++ [58, 32] ++ v.print ++ [44, 32] ++ fs.print
end

/-- `write_arguments`: nothing when empty, else `(a: 1, b: 2)` -/
def printArgs (fs : FieldList) : Str :=
  match fs with
  | .nil => []
  | _ => [40] ++ fs.print ++ [41]

/-- `impl Display for ConstantDirective` -/
def Dir.print (d : Dir) : Str := 64 :: d.name ++ printArgs d.args

/-- `write_directives`: nothing when empty, else a space and the directives joined by spaces -/
def printDirs (ds : List Dir) : Str :=
  match ds with
  | [] => []
  | _ => 32 :: joinSep [32] (ds.map Dir.print)

/-- `impl Display for InputValueDefinition` -/
def InputVal.print (v : InputVal) : Str :=
  v.name ++ [58, 32] ++ v.ty.print ++
    (match v.default with
     | some d => [32, 61, 32] ++ d.print
     | none => []) ++
    printDirs v.dirs

def printInputArgs (vs : List InputVal) : Str :=
  match vs with
  | [] => []
  | _ => [40] ++ joinSep [44, 32] (vs.map InputVal.print) ++ [41]

/-- `impl Display for FieldDefinition` -/
def FieldDef.print (f : FieldDef) : Str :=
  f.name ++ printInputArgs f.args ++ [58, 32] ++ f.ty.print ++ printDirs f.dirs

def EnumVal.print (v : EnumVal) : Str := v.name ++ printDirs v.dirs

/-- `write_fields`: nothing when empty, else ` {\n  a\n  b\n}` -/
def printBlock (items : List Str) : Str :=
  match items with
  | [] => []
  | _ => [32, 123, 10, 32, 32] ++ joinSep [10, 32, 32] items ++ [10, 125]

def printOp (o : OpType × Str) : Str := o.1.str ++ [58, 32] ++ o.2

def printImpl (impl : List Str) : Str :=
  match impl with
  | [] => []
  | _ => cps " implements " ++ joinSep (cps " & ") impl

def printMembers (ms : List Str) : Str :=
  match ms with
  | [] => []
  | _ => cps " = " ++ joinSep (cps " | ") ms

/-- `impl Display for TypeSystemDefinition` (each helper ends with `writeln!`) -/
def TsDef.print : TsDef → Str
  | .schema _ dirs ops => cps "schema" ++ printDirs dirs ++ printBlock (ops.map printOp) ++ [10]
  | .extSchema dirs ops => cps "extend schema" ++ printDirs dirs ++ printBlock (ops.map printOp) ++ [10]
  | .object _ n impl dirs fs =>
    cps "type " ++ n ++ printImpl impl ++ printDirs dirs ++ printBlock (fs.map FieldDef.print) ++ [10]
  | .extObject n impl dirs fs =>
    cps "extend type " ++ n ++ printImpl impl ++ printDirs dirs ++ printBlock (fs.map FieldDef.print) ++ [10]
  | .interface _ n impl dirs fs =>
    cps "interface " ++ n ++ printImpl impl ++ printDirs dirs ++ printBlock (fs.map FieldDef.print) ++ [10]
  | .extInterface n impl dirs fs =>
    cps "extend interface " ++ n ++ printImpl impl ++ printDirs dirs ++ printBlock (fs.map FieldDef.print) ++ [10]
  | .union _ n dirs ms => cps "union " ++ n ++ printDirs dirs ++ printMembers ms ++ [10]
  | .extUnion n dirs ms => cps "extend union " ++ n ++ printDirs dirs ++ printMembers ms ++ [10]
  | .directive _ _ n args _ locs =>
    cps "directive @" ++ n ++ printInputArgs args ++ cps " on " ++ joinSep (cps " | ") locs ++ [10]
  | .input _ n dirs fs => cps "input " ++ n ++ printDirs dirs ++ printBlock (fs.map InputVal.print) ++ [10]
  | .extInput n dirs fs =>
    cps "extend input " ++ n ++ printDirs dirs ++ printBlock (fs.map InputVal.print) ++ [10]
  | .enum _ n dirs vs => cps "enum " ++ n ++ printDirs dirs ++ printBlock (vs.map EnumVal.print) ++ [10]
  | .extEnum n dirs vs =>
    cps "extend enum " ++ n ++ printDirs dirs ++ printBlock (vs.map EnumVal.print) ++ [10]
  | .scalar _ n dirs => cps "scalar " ++ n ++ printDirs dirs ++ [10]
  | .extScalar n dirs => cps "extend scalar " ++ n ++ printDirs dirs ++ [10]

/-- `impl Display for SchemaDocument`: definitions joined by "\n", then `writeln!` -/
def relayPrint (ds : List TsDef) : Str := joinSep [10] (ds.map TsDef.print) ++ [10]

/-! ### canonical token printer (round-trip theorems) -/

def Ty.toks : Ty → List Tok
  | .named n => [.name n]
  | .list t => .punct .lbrack :: t.toks ++ [.punct .rbrack]
  | .nonNull t => t.toks ++ [.punct .bang]

/-- source text of an integer: decimal, `-` for negatives -/
def intSrc (v : Int) : Str := intStr v

/-- raw text of a quoted string with the value `v`: `"` `\` LF CR are written as escapes -/
def escapeStr : Str → Str
  | [] => []
  | c :: r =>
    if c == 34 then 92 :: 34 :: escapeStr r
    else if c == 92 then 92 :: 92 :: escapeStr r
    else if c == 10 then 92 :: 110 :: escapeStr r
    else if c == 13 then 92 :: 114 :: escapeStr r
    else c :: escapeStr r

mutual
def Value.toks : Value → List Tok
  | .var n => [.punct .dollar, .name n]
  | .int v => [.int (intSrc v)]
  | .float s => [.float s]
  | .str v => [.str (escapeStr v)]
  | .bool b => [.name (if b then kwTrue else kwFalse)]
  | .null => [.name kwNull]
  | .enum n => [.name n]
  | .list vs => .punct .lbrack :: vs.toks ++ [.punct .rbrack]
  | .obj fs => .punct .lbrace :: fs.toks ++ [.punct .rbrace]
def ValueList.toks : ValueList → List Tok
  | .nil => []
  | .cons v vs => v.toks ++ vs.toks
def FieldList.toks : FieldList → List Tok
  | .nil => []
  | .cons n v fs => .name n :: .punct .colon :: v.toks ++ fs.toks
end

def argsToks (fs : FieldList) : List Tok :=
  match fs with
  | .nil => []
  | _ => .punct .lparen :: fs.toks ++ [.punct .rparen]

def Dir.toks (d : Dir) : List Tok := .punct .at :: .name d.name :: argsToks d.args

def dirsToks : List Dir → List Tok
  | [] => []
  | d :: ds => d.toks ++ dirsToks ds

def descToks : Option Str → List Tok
  | none => []
  | some d => [.str (escapeStr d)]

def defaultToks : Option Value → List Tok
  | some d => .punct .eq :: d.toks
  | none => []

def InputVal.toks (v : InputVal) : List Tok :=
  descToks v.desc ++ .name v.name :: .punct .colon :: v.ty.toks ++ defaultToks v.default ++ dirsToks v.dirs

def inputValsToks : List InputVal → List Tok
  | [] => []
  | v :: vs => v.toks ++ inputValsToks vs

def inputArgsToks (vs : List InputVal) : List Tok :=
  match vs with
  | [] => []
  | _ => .punct .lparen :: inputValsToks vs ++ [.punct .rparen]

def FieldDef.toks (f : FieldDef) : List Tok :=
  descToks f.desc ++ .name f.name :: inputArgsToks f.args ++ .punct .colon :: f.ty.toks ++ dirsToks f.dirs

end IsoVerif.Gql
