/-
M-CORE / iso.ts overloads: executable model of the parts of
crates/artifact_content/src/iso_overload_file.rs that decide which overload an iso literal gets:

* `sort_field_name`, the comparators of `sorted_user_written_types` / `sorted_entrypoints`,
* the overload pattern text `'<keyword> <Type>.<field>'`,
* the two TypeScript rules the generated file relies on (modelled, not verified — no tsc here):
  overload resolution picks the FIRST declaration whose parameter type accepts the argument, and
  `MatchesWhitespaceAndString<P, T>` accepts `T` iff, after stripping leading `' ' | '\t' | '\n'`,
  `T` starts with `P`.

Names are byte strings (GraphQL names are ASCII; `str::cmp` is byte-lexicographic).
-/
import IsoVerif.Model.Util

namespace IsoVerif.IsoOverload
open IsoVerif.Util

/-- `str::starts_with` -/
def startsWith : Bytes → Bytes → Bool
  | _, [] => true
  | [], _ :: _ => false
  | x :: xs, p :: ps => x == p && startsWith xs ps

/-- `str::cmp` (byte-lexicographic) -/
def cmpBytes : Bytes → Bytes → Ordering
  | [], [] => .eq
  | [], _ :: _ => .lt
  | _ :: _, [] => .gt
  | x :: xs, y :: ys => if x < y then .lt else if y < x then .gt else cmpBytes xs ys

/-- `sort_field_name`, transcribed literally. -/
def sortFieldName (f1 f2 : Bytes) : Ordering :=
  if startsWith f1 f2 then .lt
  else if startsWith f2 f1 then .gt
  else cmpBytes f1 f2

inductive Kind | field | pointer | entrypoint
deriving DecidableEq, Repr

structure Decl where
  kind : Kind
  ty : Bytes
  name : Bytes
deriving DecidableEq, Repr

/-- comparator of both `sort_by` calls: parent entity name, then `sort_field_name` -/
def cmpDecl (a b : Decl) : Ordering :=
  match cmpBytes a.ty b.ty with
  | .lt => .lt
  | .gt => .gt
  | .eq => sortFieldName a.name b.name

def leDecl (a b : Decl) : Bool := cmpDecl a b != .gt

def keyword : Kind → Bytes
  | .field => [102, 105, 101, 108, 100]                                  -- "field"
  | .pointer => [112, 111, 105, 110, 116, 101, 114]                      -- "pointer"
  | .entrypoint => [101, 110, 116, 114, 121, 112, 111, 105, 110, 116]    -- "entrypoint"

/-- the string inside `MatchesWhitespaceAndString<'…', T>` -/
def pattern (d : Decl) : Bytes := keyword d.kind ++ [32] ++ d.ty ++ [46] ++ d.name

/-- `Whitespace<In>`: strip leading `' ' | '\t' | '\n'` -/
def stripWs : Bytes → Bytes
  | [] => []
  | b :: bs => if b == 32 || b == 9 || b == 10 then stripWs bs else b :: bs

/-- `MatchesWhitespaceAndString<pat, lit>` is not `never` -/
def accepts (pat lit : Bytes) : Bool := startsWith (stripWs lit) pat

/-- TypeScript overload resolution: first declaration that accepts. -/
def firstMatch : List Decl → Bytes → Option Decl
  | [], _ => none
  | d :: ds, lit => if accepts (pattern d) lit then some d else firstMatch ds lit

/-- insertion into a sorted list (stable: after the elements it is not smaller than) -/
def insertSorted (a : Decl) : List Decl → List Decl
  | [] => [a]
  | b :: bs => if leDecl a b then a :: b :: bs else b :: insertSorted a bs

/-- A stable sort by `cmpDecl`, standing for Rust's `sort_by`.  The theorems only use that the result
is a sorted permutation, which every correct sort returns when the comparator is a total order. -/
def sortDecls : List Decl → List Decl
  | [] => []
  | a :: as => insertSorted a (sortDecls as)

/-- The order of the specific overloads in iso.ts: client fields and pointers sorted, then entrypoints
sorted. -/
def overloads (decls : List Decl) : List Decl :=
  sortDecls (decls.filter fun d => d.kind != .entrypoint) ++
  sortDecls (decls.filter fun d => d.kind == .entrypoint)

/-- GraphQL name characters -/
def isNameChar (b : UInt8) : Bool :=
  (65 ≤ b && b ≤ 90) || (97 ≤ b && b ≤ 122) || (48 ≤ b && b ≤ 57) || b == 95

def isName (n : Bytes) : Bool := !n.isEmpty && n.all isNameChar

/-- A canonical literal for `d`: optional leading whitespace, the header exactly as the compiler
prints it in the pattern (`keyword`, ONE space, `Type.field`), then either nothing or text starting
with a character that cannot continue a name. -/
def canonicalLiteral (d : Decl) (lead rest : Bytes) : Bytes := lead ++ pattern d ++ rest

def restOk (rest : Bytes) : Bool :=
  match rest with
  | [] => true
  | b :: _ => !(isNameChar b)

def leadOk (lead : Bytes) : Bool := lead.all fun b => b == 32 || b == 9 || b == 10

end IsoVerif.IsoOverload
