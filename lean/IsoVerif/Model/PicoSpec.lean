/-
Specification-level definitions for C01–C03 over M-PICO: histories, the direct semantic
dependencies of a call (what its body reads when evaluated from scratch), and the abstract
"last `cap` distinct ids" that the LRU is compared against.  Nothing here looks at stamps.
-/
import IsoVerif.Model.Pico

namespace IsoVerif.Pico

/-! ## histories -/

def initS (cap : Nat) (P : Prog) : Storage := Storage.init cap P.length

/-- the storage after a history -/
def after (fuel cap : Nat) (P : Prog) (h : List Op) : Storage := runS fuel P (initS cap P) h

/-- nodes whose body ran during `op` started from `s` (most recent first) -/
def execsOf (fuel : Nat) (P : Prog) (s : Storage) (op : Op) : List NodeId :=
  let s' := (step fuel P s op).1
  s'.log.take (s'.log.length - s.log.length)

/-! ## direct semantic dependencies -/

/-- value of a source key as a body observes it -/
def srcObs (srcs : List (Key × SrcNode)) (maps : List (List Nat)) : Key → Option Nat
  | .ctr m => some (mapLen maps m)      -- what a tracked read observes is the field itself
  | k => (alookup srcs k).map (·.val)

/-- the direct reads of a body evaluated from scratch: source keys (also absent ones) and callees,
in evaluation order; callee values are supplied by `call`. -/
def readsP (call : NodeId → Res Nat) (P : Prog) (srcs : List (Key × SrcNode)) (maps : List (List Nat)) :
    Expr → Nat → List DepNode × Res Nat
  | .lit n, _ => ([], .ok n)
  | .param, a => ([], .ok a)
  | .src k, a =>
    match readsP call P srcs maps k a with
    | (r, .ok kv) =>
      (r ++ [.source (.src kv)],
        match alookup srcs (.src kv) with
        | some nd => .ok nd.val
        | none => .panic .absentSource)
    | x => x
  | .sing i, _ =>
    ([.source (.sing i)], match alookup srcs (.sing i) with
      | some nd => .ok (nd.val + 1)
      | none => .ok 0)
  | .trk m, _ => ([.source (.ctr m)], .ok (mapLen maps m))
  | .call f e, a =>
    match readsP call P srcs maps e a with
    | (r, .ok av) => (r ++ [.derived (nodeOf P f av)], call (nodeOf P f av))
    | x => x
  | .add x y, a =>
    match readsP call P srcs maps x a with
    | (r, .ok xv) =>
      match readsP call P srcs maps y a with
      | (r', .ok yv) => (r ++ r', .ok (xv + yv))
      | (r', .panic p) => (r ++ r', .panic p)
    | x => x
  | .eq x y, a =>
    match readsP call P srcs maps x a with
    | (r, .ok xv) =>
      match readsP call P srcs maps y a with
      | (r', .ok yv) => (r ++ r', .ok (if xv = yv then 1 else 0))
      | (r', .panic p) => (r ++ r', .panic p)
    | x => x
  | .ite c t e, a =>
    match readsP call P srcs maps c a with
    | (r, .ok cv) =>
      let (r', v) := if cv ≠ 0 then readsP call P srcs maps t a else readsP call P srcs maps e a
      (r ++ r', v)
    | x => x
  | .half x, a =>
    match readsP call P srcs maps x a with
    | (r, .ok xv) => (r, .ok (xv / 2))
    | x => x

/-- direct semantic dependencies of node `id` under the sources of `s` -/
def directReads (fuel : Nat) (P : Prog) (s : Storage) (id : NodeId) : List DepNode :=
  (readsP (evalS fuel P s.srcs s.maps [id]) P s.srcs s.maps (fnOf P id.fn).body id.arg).1

/-- what a dependency is worth under the sources of `s` -/
def depObs (fuel : Nat) (P : Prog) (s : Storage) : DepNode → Res (Option Nat)
  | .source k => .ok (srcObs s.srcs s.maps k)
  | .absent k => .ok (srcObs s.srcs s.maps k)
  | .derived m => match evalScratch fuel P s m with
    | .ok v => .ok (some v)
    | .panic p => .panic p

/-! ## the hypothesis of the `_partial` theorems -/

/-- every `call` of the history, evaluated from scratch at that moment, returns a value (does not
panic: no keyed source is read while absent, no cycle).  Reading an absent singleton or the counter
of a never-written tracked field is allowed. -/
def CleanCalls (fuel cap : Nat) (P : Prog) (h : List Op) : Prop :=
  ∀ pre f a rest, h = pre ++ Op.call f a :: rest →
    ∃ v, evalS fuel P (after fuel cap P pre).srcs (after fuel cap P pre).maps [] (nodeOf P f a) = .ok v

/-- at every `call` of the history the called node AND every node stored at that moment evaluate from
scratch without panicking (the stored nodes are the ones the verification of dependencies may
re-execute) -/
def CleanStore (fuel cap : Nat) (P : Prog) (h : List Op) : Prop :=
  ∀ pre f a rest, h = pre ++ Op.call f a :: rest →
    (∃ v, evalS fuel P (after fuel cap P pre).srcs (after fuel cap P pre).maps [] (nodeOf P f a) = .ok v) ∧
    ∀ n r, alookup (after fuel cap P pre).derived n = some r →
      ∃ v, evalS fuel P (after fuel cap P pre).srcs (after fuel cap P pre).maps [] n = .ok v

/-! ## program classes -/

def Expr.noCall : Expr → Bool
  | .lit _ | .param | .sing _ | .trk _ => true
  | .src k => k.noCall
  | .call _ _ => false
  | .add a b => a.noCall && b.noCall
  | .eq a b => a.noCall && b.noCall
  | .ite c t e => c.noCall && t.noCall && e.noCall
  | .half a => a.noCall

/-- nesting depth 0: no body calls a memoised function -/
def Flat (P : Prog) : Prop := ∀ f, f ∈ P → f.body.noCall = true

instance (P : Prog) : Decidable (Flat P) := by unfold Flat; infer_instance

/-! ## the abstract LRU -/

/-- distinct ids of a call sequence (oldest first), most recent first -/
def recentDistinct : List NodeId → List NodeId
  | [] => []
  | x :: xs => let r := recentDistinct xs
               if xs.contains x then r else r ++ [x]

/-- the `cap` most recently used distinct ids of a call sequence (oldest first) -/
def lastDistinct (cap : Nat) (calls : List NodeId) : List NodeId := (recentDistinct calls).take cap

/-! ## reachability in the dependency graph of a storage -/

inductive Reach (derived : List (NodeId × Rev)) : NodeId → NodeId → Prop
  | refl (a : NodeId) : Reach derived a a
  | step {a b c : NodeId} {r : Rev} : Reach derived a b → alookup derived b = some r → c ∈ depIds r.deps →
      Reach derived a c

end IsoVerif.Pico
