/-
Specification-level definitions for C01–C03 over M-PICO: histories, the direct semantic
dependencies of a call (what its body reads when evaluated from scratch), and the abstract
"last `cap` distinct ids" that the LRU is compared against.  Nothing here looks at stamps.
-/
import IsoVerif.Model.Pico

namespace IsoVerif.Pico

/-! ## histories -/

def initS (cap : Nat) (P : Prog) : Storage := Storage.init cap P.length

/-- the storage after a history -/
def after (fuel cap : Nat) (P : Prog) (h : List Op) : Storage := runS fuel P (initS cap P) h

/-- nodes whose body ran during `op` started from `s` (most recent first) -/
def execsOf (fuel : Nat) (P : Prog) (s : Storage) (op : Op) : List NodeId :=
  let s' := (step fuel P s op).1
  s'.log.take (s'.log.length - s.log.length)

/-! ## direct semantic dependencies -/

/-- value of a source key as a body observes it -/
def srcObs (srcs : List (Key × SrcNode)) (maps : List (List Nat)) : Key → Option Nat
  | .ctr m => some (mapLen maps m)      -- what a tracked read observes is the field itself
  | k => (alookup srcs k).map (·.val)

/-- the direct reads of a body evaluated from scratch: source keys (also absent ones) and callees,
in evaluation order; callee values are supplied by `call`. -/
def readsP (call : NodeId → Res Nat) (P : Prog) (srcs : List (Key × SrcNode)) (maps : List (List Nat)) :
    Expr → Nat → List DepNode × Res Nat
  | .lit n, _ => ([], .ok n)
  | .param, a => ([], .ok a)
  | .src k, a =>
    match readsP call P srcs maps k a with
    | (r, .ok kv) =>
      (r ++ [.source (.src kv)],
        match alookup srcs (.src kv) with
        | some nd => .ok nd.val
        | none => .panic .absentSource)
    | x => x
  | .sing i, _ =>
    ([.source (.sing i)], match alookup srcs (.sing i) with
      | some nd => .ok (nd.val + 1)
      | none => .ok 0)
  | .trk m, _ => ([.source (.ctr m)], .ok (mapLen maps m))
  | .call f e, a =>
    match readsP call P srcs maps e a with
    | (r, .ok av) => (r ++ [.derived (nodeOf P f av)], call (nodeOf P f av))
    | x => x
  | .add x y, a =>
    match readsP call P srcs maps x a with
    | (r, .ok xv) =>
      match readsP call P srcs maps y a with
      | (r', .ok yv) => (r ++ r', .ok (xv + yv))
      | (r', .panic p) => (r ++ r', .panic p)
    | x => x
  | .eq x y, a =>
    match readsP call P srcs maps x a with
    | (r, .ok xv) =>
      match readsP call P srcs maps y a with
      | (r', .ok yv) => (r ++ r', .ok (if xv = yv then 1 else 0))
      | (r', .panic p) => (r ++ r', .panic p)
    | x => x
  | .ite c t e, a =>
    match readsP call P srcs maps c a with
    | (r, .ok cv) =>
      let (r', v) := if cv ≠ 0 then readsP call P srcs maps t a else readsP call P srcs maps e a
      (r ++ r', v)
    | x => x
  | .half x, a =>
    match readsP call P srcs maps x a with
    | (r, .ok xv) => (r, .ok (xv / 2))
    | x => x

/-- direct semantic dependencies of node `id` under the sources of `s` -/
def directReads (fuel : Nat) (P : Prog) (s : Storage) (id : NodeId) : List DepNode :=
  (readsP (evalS fuel P s.srcs s.maps [id]) P s.srcs s.maps (fnOf P id.fn).body id.arg).1

/-- what a dependency is worth under the sources of `s` -/
def depObs (fuel : Nat) (P : Prog) (s : Storage) : DepNode → Res (Option Nat)
  | .source k => .ok (srcObs s.srcs s.maps k)
  | .derived m => match evalScratch fuel P s m with
    | .ok v => .ok (some v)
    | .panic p => .panic p

/-! ## strict evaluation: the hypothesis of the `_partial` theorems

`evalSS` is `evalS` except that reading an ABSENT singleton / tracked counter is a failure instead
of `None`.  "The from-scratch evaluation of every call of the history succeeds strictly" is the
explicit extra hypothesis under which C01 is proved of today's code (it excludes F1/F2 and caught
panics, and nothing else). -/

def evalPS (call : NodeId → Res Nat) (P : Prog) (srcs : List (Key × SrcNode)) (maps : List (List Nat)) :
    Expr → Nat → Res Nat
  | .lit n, _ => .ok n
  | .param, a => .ok a
  | .src k, a =>
    match evalPS call P srcs maps k a with
    | .ok kv =>
      match alookup srcs (.src kv) with
      | some nd => .ok nd.val
      | none => .panic .absentSource
    | r => r
  | .sing i, _ =>
    match alookup srcs (.sing i) with
    | some nd => .ok (nd.val + 1)
    | none => .panic .absentSource
  | .trk m, _ =>
    match alookup srcs (.ctr m) with
    | some _ => .ok (mapLen maps m)
    | none => .panic .absentSource
  | .call f e, a =>
    match evalPS call P srcs maps e a with
    | .ok av => call (nodeOf P f av)
    | r => r
  | .add x y, a =>
    match evalPS call P srcs maps x a with
    | .ok xv =>
      match evalPS call P srcs maps y a with
      | .ok yv => .ok (xv + yv)
      | r => r
    | r => r
  | .eq x y, a =>
    match evalPS call P srcs maps x a with
    | .ok xv =>
      match evalPS call P srcs maps y a with
      | .ok yv => .ok (if xv = yv then 1 else 0)
      | r => r
    | r => r
  | .ite c t e, a =>
    match evalPS call P srcs maps c a with
    | .ok cv => if cv ≠ 0 then evalPS call P srcs maps t a else evalPS call P srcs maps e a
    | r => r
  | .half x, a =>
    match evalPS call P srcs maps x a with
    | .ok xv => .ok (xv / 2)
    | r => r

def evalSS : Nat → Prog → List (Key × SrcNode) → List (List Nat) → List NodeId → NodeId → Res Nat
  | 0, _, _, _, _, _ => .panic .fuel
  | fuel + 1, P, srcs, maps, path, id =>
    if path.contains id then .panic .cyclic
    else evalPS (evalSS fuel P srcs maps (id :: path)) P srcs maps (fnOf P id.fn).body id.arg

/-- every `call` of the history, evaluated from scratch at that moment, succeeds strictly -/
def CleanCalls (fuel cap : Nat) (P : Prog) (h : List Op) : Prop :=
  ∀ pre f a rest, h = pre ++ Op.call f a :: rest →
    ∃ v, evalSS fuel P (after fuel cap P pre).srcs (after fuel cap P pre).maps [] (nodeOf P f a) = .ok v

/-! ## program classes -/

def Expr.noCall : Expr → Bool
  | .lit _ | .param | .sing _ | .trk _ => true
  | .src k => k.noCall
  | .call _ _ => false
  | .add a b => a.noCall && b.noCall
  | .eq a b => a.noCall && b.noCall
  | .ite c t e => c.noCall && t.noCall && e.noCall
  | .half a => a.noCall

/-- nesting depth 0: no body calls a memoised function -/
def Flat (P : Prog) : Prop := ∀ f, f ∈ P → f.body.noCall = true

instance (P : Prog) : Decidable (Flat P) := by unfold Flat; infer_instance

/-! ## the abstract LRU -/

/-- distinct ids of a call sequence (oldest first), most recent first -/
def recentDistinct : List NodeId → List NodeId
  | [] => []
  | x :: xs => let r := recentDistinct xs
               if xs.contains x then r else r ++ [x]

/-- the `cap` most recently used distinct ids of a call sequence (oldest first) -/
def lastDistinct (cap : Nat) (calls : List NodeId) : List NodeId := (recentDistinct calls).take cap

/-! ## reachability in the dependency graph of a storage -/

inductive Reach (derived : List (NodeId × Rev)) : NodeId → NodeId → Prop
  | refl (a : NodeId) : Reach derived a a
  | step {a b c : NodeId} {r : Rev} : Reach derived a b → alookup derived b = some r → c ∈ depIds r.deps →
      Reach derived a c

end IsoVerif.Pico
