/-
Shared, import-free utilities for the line-protocol drivers:
hex encoding of byte strings, field splitting, and the stdin loop.
Nothing here is part of any theorem statement.
-/
namespace IsoVerif.Util

abbrev Bytes := List UInt8

def hexDigit (n : Nat) : Char :=
  if n < 10 then Char.ofNat (48 + n) else Char.ofNat (87 + n)

def hexVal (c : Char) : Option Nat :=
  if '0' ≤ c ∧ c ≤ '9' then some (c.toNat - 48)
  else if 'a' ≤ c ∧ c ≤ 'f' then some (c.toNat - 87)
  else if 'A' ≤ c ∧ c ≤ 'F' then some (c.toNat - 55)
  else none

def hexEncode (b : Bytes) : String :=
  String.ofList (b.flatMap fun x => [hexDigit (x.toNat / 16), hexDigit (x.toNat % 16)])

def hexDecodeAux : List Char → Bytes → Option Bytes
  | [], acc => some acc.reverse
  | [_], _ => none
  | a :: b :: rest, acc =>
    match hexVal a, hexVal b with
    | some x, some y => hexDecodeAux rest (UInt8.ofNat (x * 16 + y) :: acc)
    | _, _ => none

/-- `-` encodes the empty byte string (so that no field is ever empty). -/
def hexDecode (s : String) : Option Bytes :=
  if s = "-" then some [] else hexDecodeAux s.toList []

def hexEnc (b : Bytes) : String := if b.isEmpty then "-" else hexEncode b

def strBytes (s : String) : Bytes := s.toUTF8.toList

def bytesStr? (b : Bytes) : Option String := String.fromUTF8? (ByteArray.mk b.toArray)

def bytesStrLossy (b : Bytes) : String :=
  match bytesStr? b with
  | some s => s
  | none => "<non-utf8>"

def fields (line : String) : List String :=
  (line.trimAscii.toString.splitOn "\t")

partial def loop (h : IO.FS.Stream) (out : IO.FS.Stream) (f : List String → String) : IO Unit := do
  let line ← h.getLine
  if line.isEmpty then return ()
  let l := (line.dropEndWhile (fun c => c == '\n' || c == '\r')).toString
  out.putStrLn (f (l.splitOn "\t"))
  loop h out f

/-- Stateful variant. -/
partial def loopS {σ : Type} (h : IO.FS.Stream) (out : IO.FS.Stream)
    (f : σ → List String → σ × String) (s : σ) : IO Unit := do
  let line ← h.getLine
  if line.isEmpty then return ()
  let l := (line.dropEndWhile (fun c => c == '\n' || c == '\r')).toString
  let (s', o) := f s (l.splitOn "\t")
  out.putStrLn o
  loopS h out f s'

def runDriver (f : List String → String) : IO Unit := do
  let i ← IO.getStdin
  let o ← IO.getStdout
  loop i o f
  o.flush

def runDriverS {σ : Type} (f : σ → List String → σ × String) (s : σ) : IO Unit := do
  let i ← IO.getStdin
  let o ← IO.getStdout
  loopS i o f s
  o.flush

end IsoVerif.Util
