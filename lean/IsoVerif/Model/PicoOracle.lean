/-
Oracles for C01, C02, C03, evaluated by the driver on the IMPLEMENTATION's answers.  They keep
their own record of the sources (values only, no stamps) and never look at the caching model's
answers; the only thing taken from the model is, for C02, *which* nodes the model executed, used
solely to name the signature of a failure that was already established from the implementation's
run counters.

 * C01: the value of every call = `evalS` (from scratch) on the current sources.
 * C02: an *ideal memoiser* (`Ideal`) — semantic direct dependencies, value comparison by logical
   clocks, absent reads recorded, no stamps — yields, per call, the executions the property allows;
   the implementation's run-counter deltas must be within them, per function.
 * C03: after `gc`, a call of a retained / LRU-recent top-level query (roots computed from the
   history alone) must execute nothing and return the value it returned before; lookups of such
   references must not fail; `gc` must not panic.
-/
import IsoVerif.Model.Pico

namespace IsoVerif.Pico.Oracle
open IsoVerif.Pico

/-! ## plain record of the sources -/

structure Srcs where
  vals : List (Key × SrcNode)      -- `tu` unused (0)
  maps : List (List Nat)

def Srcs.init : Srcs := ⟨[], [[], []]⟩

/-- apply a source operation; returns the keys whose observable content changed -/
def Srcs.apply (σ : Srcs) : Op → Srcs × List Key × List Key   -- (σ', changed, equalWritten)
  | .set k v =>
    match alookup σ.vals (.src k) with
    | some nd => if nd.val = v then (σ, [], [.src k]) else ({ σ with vals := ainsert σ.vals (.src k) ⟨v, 0⟩ }, [.src k], [])
    | none => ({ σ with vals := ainsert σ.vals (.src k) ⟨v, 0⟩ }, [.src k], [])
  | .rem k =>
    match alookup σ.vals (.src k) with
    | some _ => ({ σ with vals := aerase σ.vals (.src k) }, [.src k], [])
    | none => (σ, [], [])
  | .sset i v =>
    match alookup σ.vals (.sing i) with
    | some nd => if nd.val = v then (σ, [], [.sing i]) else ({ σ with vals := ainsert σ.vals (.sing i) ⟨v, 0⟩ }, [.sing i], [])
    | none => ({ σ with vals := ainsert σ.vals (.sing i) ⟨v, 0⟩ }, [.sing i], [])
  | .srem i =>
    match alookup σ.vals (.sing i) with
    | some _ => ({ σ with vals := aerase σ.vals (.sing i) }, [.sing i], [])
    | none => (σ, [], [])
  | .tins m k =>
    let cur := σ.maps.getD m []
    let c := match alookup σ.vals (.ctr m) with | some nd => nd.val + 1 | none => 0
    ({ vals := ainsert σ.vals (.ctr m) ⟨c, 0⟩, maps := setNth σ.maps m (if cur.contains k then cur else cur ++ [k]) }, [.ctr m], [])
  | .trem m k =>
    let c := match alookup σ.vals (.ctr m) with | some nd => nd.val + 1 | none => 0
    ({ vals := ainsert σ.vals (.ctr m) ⟨c, 0⟩, maps := setNth σ.maps m ((σ.maps.getD m []).erase k) }, [.ctr m], [])
  | _ => (σ, [], [])

/-! ## the ideal memoiser (C02) -/

inductive IDep
  | source (k : Key)
  | node (id : NodeId)
  deriving DecidableEq, Repr

structure INode where
  val : Nat
  reads : List IDep          -- direct semantic dependencies, in order of first read
  checkedAt : Nat            -- clock of the last run / successful check
  valChangedAt : Nat
  checkedOp : Nat            -- index of the operation of the last run / successful check
  ranOp : Nat                -- index of the operation of the last run
  deriving Repr

structure Ideal where
  clock : Nat
  opn : Nat                    -- index of the current operation
  σ : Srcs
  chg : List (Key × Nat)       -- clock of the last observable change of a key (insert, new value, removal)
  eqw : List (Key × Nat)       -- operation index of the last equal-value write
  trace : List Key             -- every source key read since this was last cleared
  nodes : List (NodeId × INode)
  ran : List NodeId            -- executed during the current operation
  stack : List (NodeId × List IDep)   -- reads of the bodies being evaluated (reversed)
  tainted : Bool               -- a call panicked: the property makes no claim afterwards

def Ideal.init : Ideal := ⟨1, 0, Srcs.init, [], [], [], [], [], [], false⟩

def chgOf (I : Ideal) (k : Key) : Nat := (alookup I.chg k).getD 0

def Ideal.read (I : Ideal) (d : IDep) : Ideal :=
  let I := match d with
    | .source k => if I.trace.contains k then I else { I with trace := k :: I.trace }
    | .node _ => I
  match I.stack with
  | [] => I
  | (id, rs) :: rest => { I with stack := (id, if rs.contains d then rs else d :: rs) :: rest }

/-- body evaluation for the ideal memoiser: every read (also of an absent key) is recorded -/
def ievalE (call : Ideal → NodeId → Ideal × Res Nat) (P : Prog) : Expr → Nat → Ideal → Ideal × Res Nat
  | .lit n, _, I => (I, .ok n)
  | .param, a, I => (I, .ok a)
  | .src k, a, I =>
    match ievalE call P k a I with
    | (I, .ok kv) =>
      let I := I.read (.source (.src kv))
      match alookup I.σ.vals (.src kv) with
      | some nd => (I, .ok nd.val)
      | none => (I, .panic .absentSource)
    | r => r
  | .sing i, _, I =>
    let I := I.read (.source (.sing i))
    match alookup I.σ.vals (.sing i) with
    | some nd => (I, .ok (nd.val + 1))
    | none => (I, .ok 0)
  | .trk m, _, I => (I.read (.source (.ctr m)), .ok (mapLen I.σ.maps m))
  | .call f e, a, I =>
    match ievalE call P e a I with
    | (I, .ok av) =>
      let id := nodeOf P f av
      match call I id with
      | (I, r) => (I.read (.node id), r)
    | r => r
  | .add x y, a, I =>
    match ievalE call P x a I with
    | (I, .ok xv) => match ievalE call P y a I with
      | (I, .ok yv) => (I, .ok (xv + yv))
      | r => r
    | r => r
  | .eq x y, a, I =>
    match ievalE call P x a I with
    | (I, .ok xv) => match ievalE call P y a I with
      | (I, .ok yv) => (I, .ok (if xv = yv then 1 else 0))
      | r => r
    | r => r
  | .ite c t e, a, I =>
    match ievalE call P c a I with
    | (I, .ok cv) => if cv ≠ 0 then ievalE call P t a I else ievalE call P e a I
    | r => r
  | .half x, a, I =>
    match ievalE call P x a I with
    | (I, .ok xv) => (I, .ok (xv / 2))
    | r => r

/-- first changed dependency?  (`chk` visits a node dependency and says whether its value changed after `since`) -/
def ianyDep (chk : Ideal → NodeId → Ideal × Res Bool) (since : Nat) : List IDep → Ideal → Ideal × Res Bool
  | [], I => (I, .ok false)
  | .source k :: ds, I => if chgOf I k > since then (I, .ok true) else ianyDep chk since ds I
  | .node m :: ds, I =>
    match chk I m with
    | (I, .ok true) => (I, .ok true)
    | (I, .ok false) => ianyDep chk since ds I
    | (I, .panic p) => (I, .panic p)

/-- demand node `id`: run it if it was never run (or was collected) or a direct dependency changed -/
def visit : Nat → Prog → Ideal → NodeId → Ideal × Res Nat
  | 0, _, I, _ => (I, .panic .fuel)
  | fuel + 1, P, I, id =>
    let runNode (I : Ideal) (old : Option INode) : Ideal × Res Nat :=
      if I.stack.any (fun fr => fr.1 = id) then (I, .panic .cyclic) else
      let I := { I with stack := (id, []) :: I.stack, ran := id :: I.ran }
      match ievalE (visit fuel P) P (fnOf P id.fn).body id.arg I with
      | (I, .ok v) =>
        let reads := match I.stack with | (_, rs) :: _ => rs.reverse | [] => []
        let vc := match old with
          | some o => if o.val = v then o.valChangedAt else I.clock
          | none => I.clock
        ({ I with stack := I.stack.drop 1, nodes := ainsert I.nodes id ⟨v, reads, I.clock, vc, I.opn, I.opn⟩ }, .ok v)
      | (I, .panic p) => ({ I with stack := I.stack.drop 1 }, .panic p)
    match alookup I.nodes id with
    | none => runNode I none
    | some nd =>
      if nd.checkedAt = I.clock then (I, .ok nd.val)
      else
        let chk (I : Ideal) (m : NodeId) : Ideal × Res Bool :=
          match visit fuel P I m with
          | (I, .ok _) =>
            match alookup I.nodes m with
            | some mn => (I, .ok (decide (mn.valChangedAt > nd.checkedAt)))
            | none => (I, .ok true)
          | (I, .panic p) => (I, .panic p)
        match ianyDep chk nd.checkedAt nd.reads I with
        | (I, .panic p) => (I, .panic p)
        | (I, .ok true) => runNode I (some nd)
        | (I, .ok false) => ({ I with nodes := ainsert I.nodes id { nd with checkedAt := I.clock, checkedOp := I.opn } }, .ok nd.val)

/-- a source operation: advance the clock when something observable changed -/
def Ideal.applySrc (I : Ideal) (op : Op) : Ideal :=
  let (σ', changed, eq) := I.σ.apply op
  if changed.isEmpty then
    { I with σ := σ', eqw := eq.foldl (fun m k => ainsert m k I.opn) I.eqw }
  else
    let c := I.clock + 1
    { I with σ := σ', clock := c, chg := changed.foldl (fun m k => ainsert m k c) I.chg }

def inodeIds : List IDep → List NodeId
  | [] => []
  | .node m :: ds => m :: inodeIds ds
  | .source _ :: ds => inodeIds ds

/-- closure of `roots` under the recorded semantic dependencies -/
def iclosure (nodes : List (NodeId × INode)) : Nat → List NodeId → List NodeId → List NodeId
  | 0, _, seen => seen
  | _ + 1, [], seen => seen
  | fuel + 1, id :: q, seen =>
    if seen.contains id then iclosure nodes fuel q seen
    else match alookup nodes id with
      | none => iclosure nodes fuel q seen
      | some nd => iclosure nodes fuel (inodeIds nd.reads ++ q) (id :: seen)

def closureFuel (nodes : List (NodeId × INode)) (roots : List NodeId) : Nat :=
  roots.length + (nodes.map (fun p => p.2.reads.length + 1)).sum + 1

/-- transitive source dependencies of a node in the ideal graph -/
def itransSources (nodes : List (NodeId × INode)) (id : NodeId) : List Key :=
  let ns := iclosure nodes (closureFuel nodes [id]) [id] []
  ns.flatMap fun n => match alookup nodes n with
    | some nd => nd.reads.filterMap (fun d => match d with | .source k => some k | .node _ => none)
    | none => []

/-! ## the roots the property promises to keep (C03), from the history alone -/

structure GcSpec where
  cap : Nat
  recent : List NodeId          -- distinct top-level calls, most recent first
  retained : List (NodeId × Nat)
  guards : List NodeId
  refs : List NodeId
  /-- set by `gc`: ids promised to be served without re-execution (roots called since the last
  source change, and what they depend on), with the value they had when known; cleared by the next
  operation that changes a source -/
  promised : List (NodeId × Option Nat)
  /-- value and operation index of the last successful top-level call -/
  lastVal : List (NodeId × Nat × Nat)
  lastChangeOp : Nat
  /-- ids the property allowed some earlier `gc` to collect and that were not called since -/
  collectable : List NodeId
  /-- the client retained a reference to a collectable id (the node may legitimately be gone) -/
  staleRetain : Bool

def GcSpec.init (cap : Nat) : GcSpec := ⟨cap, [], [], [], [], [], [], 0, [], false⟩

def GcSpec.roots (g : GcSpec) : List NodeId := g.recent.take g.cap ++ g.retained.map (·.1)

def count (l : List NodeId) (f : Nat) : Nat := (l.filter (fun n => n.fn = f)).length

def parseRuns (s : String) : List Nat :=
  if s = "-" then [] else (s.splitOn ",").map (fun x => x.toNat?.getD 0)

def deltas : List Nat → List Nat → List Nat
  | a :: as, b :: bs => (b - a) :: deltas as bs
  | _, bs => bs

end IsoVerif.Pico.Oracle
